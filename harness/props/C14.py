"""C14 — `whatshap split` distributes every read to exactly the outputs its haplotype entry selects."""
import ast
import copy
import itertools
import os
import re
import shutil
import time

from ..coqeval import eval_shards, parse_eval_results
from ..util import workdir
from .. import split_cases as sc

RULE = ("every case = (reads file, haplotag list file, option set, PYTHONHASHSEED in {0,1,7,42}) run through the real "
        "`whatshap split` CLI: (a) all 192 option combinations {h1 | h2 | h1+h2 | -o x2 | -o x3 | -o x4} x untagged x "
        "add-untagged x only-largest-block x discard-unknown-reads x histogram, any subset of the given outputs (incl. all "
        "of them = histogram only, on the --output-hN/--output-untagged path and on the -o path) being /dev/null, each "
        "with fresh random data (FASTQ, "
        "FASTQ.gz, unmapped and mapped BAM incl. records without sequence, paired/secondary/supplementary/unmapped "
        "flags, both mates of a pair under one name (adjacent or separated), primary + supplementary of one name, tags; "
        "0-10 reads drawn from a pool of 1-6 names (random names, names over the whole printable ASCII set starting "
        "with '#', '@', '+', ';', ':' or other punctuation -- a dedicated stream lists '#'-names with a haplotype on the "
        "first and on later lines, with and without header line, five header spellings --, and names that share "
        "prefixes or look like haplotype/phase-set/chromosome names), so duplicate names -- adjacent and separated -- are the rule; exact "
        "duplicate records; FASTQ with/without final newline; lists with 2-5 columns, with/without header, plain/gz, "
        "LF/CRLF, with/without final newline, names absent from the reads, `none` lines, repeated names (agreeing and "
        "conflicting), 1-4 phase sets on 1-3 chromosomes, the same phase-set name on several chromosomes); with "
        "--only-largest-block half of the lists are built so that on every chromosome >= 2 phase sets tie for the "
        "largest (lines interleaved, so the first block in the file is independent of its name; sometimes a read twice "
        "in a block so that line count and read count disagree); (b) exhaustive: all read sequences of length <= L over "
        "two names x all lists assigning absent/none/H1/H2 to each name x discard x add-untagged x untagged-output "
        "(this stream and a second random stream call the CLI entry point whatshap.__main__.main(argv) many times per "
        "interpreter process, all others start one `python -m whatshap split` process per case); (c) FASTQ reads with "
        "empty sequence; (d) FASTQ files under each extension the code lists (fastq, fastq.gz, fastq.gzip, fq, fq.gz, "
        "fq.gzip); (e) inputs the code rejects (unknown haplotype name, empty list file, only-largest-block with a "
        "2-column list, discard with no listed name), compared on the error class. "
        "A case is non-trivial if at least two reads are written and at least one listed, tagged name occurs among "
        "the reads; distinct = distinct (reads, list, options).")
TRUSTED = [
    "modelled, not verified: parsing of the tab-separated list text into (name, haplotype, phaseset, chromosome) "
    "(line.strip().split('\\t'), header detection), pysam/htslib reading and writing of BAM and FASTQ containers, "
    "xopen/gzip, file-format detection from content/extension; the harness encodes names and whole records (FASTQ "
    "text / SAM text of the BAM record incl. all tags) injectively as integers, so name equality and `written "
    "unmodified` are decided in Coq on the bytes",
    "str(pysam.FastxRecord) enters the (legacy rule of the) model as data observed on the input file",
    "BAM header copy (template=) and the histogram header line are compared in python only",
]
ASSUMPTIONS = [
    "the haplotype list is non-empty text with haplotype names none/H1..Hploidy, has >= 4 columns when "
    "--only-largest-block is used, and names at least one read when --discard-unknown-reads is used (the code "
    "rejects everything else on purpose; those inputs are compared on the error class only)",
    "list format as HEAD implements it: the first line is the header iff it starts with '#' (also when it was meant "
    "as the entry of a read named '#...': the format cannot tell the two apart, the entry is then not part of the "
    "list); '#' at the start of any later line belongs to a read name",
    "at least one of --output-h1/--output-h2/-o is given (argument validation is not part of the property)",
    "`largest phased block (in terms of read count)` is read as the code documents it by behaviour: the phase set with "
    "the most tagged list lines on the chromosome, the first one in the file among several of that size (L1 demands "
    "exactly this block)",
    "where a name stands on several list lines with different entries, every reading of those lines is accepted by the "
    "specification check (L1); the model pins the code's choice -- the last tagged line -- at L2",
    "histogram rule of HEAD (process_haplotype): a read is counted in the column of the class its list entry selects "
    "iff an output path was given for that class -- /dev/null counts as a path (tests/test_run_split.py takes its "
    "histogram from /dev/null outputs) -- or it is untagged and --add-untagged is on; reads of a class without any "
    "path (e.g. H2 with only --output-h1) are skipped: neither written nor counted. The clause is evaluated from "
    "list + reads + which paths were given, not from the output files",
    "with --add-untagged the histogram column count-hN counts the reads of haplotype N and count-untagged the "
    "untagged reads (each once), as the column names say",
    "FASTQ input is in the canonical 4-line form (pysam normalises a repeated name on the `+` line away)",
]

HEADER = """From Coq Require Import ZArith List Bool Arith.
From WH.Model Require Import Split.
Import ListNotations.
Open Scope Z_scope.
Definition b2n (b : bool) : nat := if b then 1%nat else 0%nat.
Definition clauses (c : cfg) (l : hlist) (r : list read) (o : outcome) : list nat :=
  match o with
  | Fail _ => [0; 0; 0]%nat
  | Done outs h => [b2n (l1_routing c l r outs); b2n (l1_partition c r outs); b2n (l1_hist c l r outs h)]
  end.
Definition judge (k : cfg * hlist * list read * outcome) : list (list nat) :=
  let '(c, l, r, o) := k in
  let ok := l1 c l r o in
  [ [b2n (valid_input c l); b2n ok] ++ clauses c l r o;
    matching_rules c l r o;      (* [0] iff L2 holds: the result is exactly the repaired model's *)
    if ok then [] else blamed_rules c l r ].
"""

INFRA = re.compile(r"^(ModuleNotFoundError|ImportError): .*(whatshap|\.so\b|ELF)", re.M)
EXT_SIG = "split:fastq-extension-rejected"
SIG = {1: "split:early-exit-duplicate-names", 2: "split:list-duplicate-name-assert",
       4: "split:histogram-duplicate-rows", 8: "split:fastq-empty-read-rewritten"}


# --------------------------------------------------------------------------------- evaluation
def evaluate(ctx, cases, label, shard=150, batch=False):
    """run the CLI on all cases, judge them in Coq; returns list of (case, obs, verdict) with
    verdict = dict(valid, l1, routing, partition, hist, matching, blamed) or None if not judged"""
    root = workdir(ctx, "C14-" + label)
    t0 = time.time()
    obs = (sc.run_cases_batch if batch else sc.run_cases)(ctx, cases, root)
    # The scratch build is shared with the other checks and may be rebuilt in place while we import from it:
    # an import failure of a whatshap module is an infrastructure failure, not an observation -> wait, re-run.
    for attempt in range(4):
        broken = [i for i, ob in enumerate(obs) if ob["rc"] != 0 and INFRA.search(ob.get("stderr", ""))]
        if not broken:
            break
        ctx.tally("infrastructure.rerun_after_import_failure", len(broken))
        time.sleep(20 * (attempt + 1))
        from .. import build
        build.build_impl(verbose=False)
        sub = os.path.join(root, f"retry{attempt}")
        again = sc.run_cases(ctx, [cases[i] for i in broken], sub)
        for i, ob in zip(broken, again):
            obs[i] = ob
    else:
        raise RuntimeError("scratch build unusable (import errors persist): " + obs[broken[0]].get("stderr", "")[-500:])
    shutil.rmtree(root, ignore_errors=True)
    ctx.extra["cli_seconds"] = round(ctx.extra.get("cli_seconds", 0) + time.time() - t0, 1)
    t0 = time.time()
    terms, idx = [], []
    for i, (case, ob) in enumerate(zip(cases, obs)):
        if ob["rc"] != 0 and ob["error"].startswith("other:"):
            continue
        terms.append(sc.case_term(case, ob))
        idx.append(i)
    shards = []
    for off in range(0, len(terms), shard):
        chunk = terms[off:off + shard]
        shards.append("Definition cases : list (cfg * hlist * list read * outcome) := [\n" + ";\n".join(chunk) +
                      "\n].\nEval vm_compute in (map judge cases).\n")
    verdicts = [None] * len(cases)
    if shards:
        outs = eval_shards("C14" + label, HEADER, shards, timeout=1500)
        pos = 0
        for s, (rc, out, _) in enumerate(outs):
            n = min(shard, len(terms) - s * shard)
            if rc != 0:
                raise RuntimeError("coq evaluation failed:\n" + out[-3000:])
            res = parse_eval_results(out)
            if len(res) != 1:
                raise RuntimeError("unexpected Eval output:\n" + out[-2000:])
            val = ast.literal_eval(res[0].replace("%nat", "").replace(";", ","))
            if len(val) != n:
                raise RuntimeError(f"expected {n} verdicts, got {len(val)}")
            for v in val:
                head, matching, blamed = v
                verdicts[idx[pos]] = dict(valid=bool(head[0]), l1=bool(head[1]), routing=bool(head[2]),
                                          partition=bool(head[3]), hist=bool(head[4]), matching=matching,
                                          blamed=blamed)
                pos += 1
    ctx.extra["coq_seconds"] = round(ctx.extra.get("coq_seconds", 0) + time.time() - t0, 1)
    return list(zip(cases, obs, verdicts))


def case_size(case):
    return len(case["reads"]) + len(case["list"]["lines"])


def signatures(case, ob, v):
    """[] if the case conforms to the specification, else the defect-class signatures (verdicts are Coq's)"""
    if v is None:                                   # crash of an unknown class
        return ["split:crash:" + ob["error"].split(":", 1)[1]]
    if not v["valid"] or v["l1"]:
        return []
    sigs = []
    if v["matching"]:
        m = min(v["matching"], key=lambda x: bin(x).count("1"))
        for d in v["blamed"]:
            if d & m:
                s = SIG[d]
                if d == 8 and any(p != s_ and ln != 0 for _, ln, p, s_ in ob["inputs"]):
                    s = "split:fastq-record-rewritten"
                sigs.append(s)
    if not sigs:
        if ob["rc"] != 0 and case.get("ext") and "Undetected file format" in ob.get("stderr", ""):
            sigs.append(EXT_SIG)
        elif ob["rc"] != 0:
            sigs.append("split:crash:" + ob["error"])
        else:
            if not v["routing"]:
                sigs.append("split:routing")
            if not v["partition"] and v["routing"]:
                sigs.append("split:partition")
            if not v["hist"]:
                sigs.append("split:histogram")
            if not sigs:
                sigs.append("split:spec")
    return sigs


def describe(case, ob):
    o = case["opts"]
    flags = [k for k in ("untagged", "add", "largest", "discard", "hist") if o[k]]
    outs = ("-o x%d" % o["k"]) if o["mode"] == "o" else "+".join(k for k in ("h1", "h2") if o[k])
    if any(sc.opts_null(o)):
        outs += " (/dev/null for outputs %s; 0 = untagged)" % [i for i, x in enumerate(sc.opts_null(o)) if x]
    names = [r["name"] if isinstance(r, dict) else r[0] for r in case["reads"]]
    lst = [f"{n} {h}" + (f" {ps} {ch}" if case['list']['ncols'] >= 4 else "") for n, h, ps, ch in case["list"]["lines"]]
    if sc.effective_list(case["list"])[0] and not case["list"]["header"]:
        lst = ["<first line read as header by the format:>"] + lst
    if ob["rc"] != 0:
        res = f"exit {ob['rc']} ({ob['error']}: {ob.get('stderr', '').strip().splitlines()[-1:]})"
    else:
        res = "outputs " + str([None if x is None else [r.split()[0].lstrip('@>') for r in x] for x in ob["outs"]])
        if "hist" in ob:
            res += f" histogram rows {ob['hist']}"
    return (f"{case['fmt']} reads {names} (lengths {[x[1] for x in ob['inputs']]}), list {lst} "
            f"[header={case['list']['header']}], outputs {outs} {flags} -> {res}")


def shrink_batch(ctx, case, sig, rounds):
    """greedy removal of reads / list lines keeping the signature; every candidate is judged in Coq"""
    cur = case
    for rd in range(rounds):
        cands = []
        for i in range(len(cur["reads"])):
            c = copy.deepcopy(cur)
            del c["reads"][i]
            cands.append(c)
        for i in range(len(cur["list"]["lines"])):
            c = copy.deepcopy(cur)
            del c["list"]["lines"][i]
            if not c["list"]["lines"] and not c["list"]["header"]:
                continue
            cands.append(c)
        for k in ("untagged", "add", "largest", "hist", "gzout"):
            if cur["opts"][k]:
                c = copy.deepcopy(cur)
                c["opts"][k] = False
                if k == "untagged" and c["opts"].get("null"):
                    c["opts"]["null"][0] = False
                cands.append(c)
        for i, x in enumerate(sc.opts_null(cur["opts"])):
            if x:
                c = copy.deepcopy(cur)
                c["opts"]["null"][i] = False
                cands.append(c)
        if not cands:
            break
        res = evaluate(ctx, cands, f"shrink{rd}")
        nxt = None
        for c, ob, v in res:
            if sig in signatures(c, ob, v):
                nxt = c
                break
        if nxt is None:
            break
        cur = nxt
    return cur


def report(ctx, by_sig, shrink_rounds):
    """one violation per defect class, on the smallest violating case (shrunk further, judged in Coq)"""
    for s, lst in sorted(by_sig.items()):
        ctx.tally("violating_cases." + s, len(lst))
        case, ob, v = min(lst, key=lambda t: case_size(t[0]))
        if shrink_rounds:
            small = shrink_batch(ctx, case, s, shrink_rounds)
            if small is not case:
                (case, ob, v), = evaluate(ctx, [small], "shrunk")
        ctx.violation(s, f"[{s}] specification (L1, evaluated in Coq) fails on {len(lst)} generated cases; smallest: "
                      + describe(case, ob) +
                      (f"; clauses routing={v['routing']} partition={v['partition']} histogram={v['hist']}, "
                       f"model rule sets matching the implementation={v['matching']}, defective rules blamed={v['blamed']}"
                       if v else ""), {"case": case})


def merge(a, b):
    for k, v in b.items():
        a.setdefault(k, []).extend(v)
    return a


def process(ctx, results, label, count=True):
    """book-keeping + verdicts for evaluated cases; returns (violating by signature, l2_bad, matching_sets)"""
    by_sig = {}
    l2_bad = []
    matchsets = []
    for case, ob, v in results:
        o = case["opts"]
        if count:
            written = sum(len(x) for x in ob.get("outs", []) if x) if ob["rc"] == 0 else 0
            listed_tagged = {n for n, h, _, _ in case["list"]["lines"] if h != "none"}
            names = {x[0] for x in ob["inputs"]}
            ctx.count(("C14", repr(case)), nontrivial=written >= 2 and bool(listed_tagged & names))
            ctx.tally(f"{label}.cases")
            ctx.tally("fmt." + case["fmt"] + ("" if case["fmt"] != "bam" else (".mapped" if case.get("sq") else ".unmapped")))
            ctx.tally("ploidy.%d" % sc.opts_ploidy(o))
            ctx.tally("outputs." + (("o%d" % o["k"]) if o["mode"] == "o" else "h" + "".join(k[1] for k in ("h1", "h2") if o[k])))
            for k in ("untagged", "add", "largest", "discard", "hist"):
                if o[k]:
                    ctx.tally("opt." + k)
            ctx.tally("list.cols%d" % case["list"]["ncols"])
            ctx.tally("list.header" if case["list"]["header"] else "list.noheader")
            if case["list"]["header"]:
                ctx.tally("list.header_spelling.%d" % case["list"].get("header_style", 0))
            rn = {x[0] for x in ob["inputs"]}
            for ch, key in (("#", "hash"), ("@", "at"), ("+", "plus"), (";", "semicolon"), (":", "colon"), (">", "gt")):
                if any(x.startswith(ch) for x in rn):
                    ctx.tally(f"names.read_starts_with_{key}." + ("bam" if case["fmt"] == "bam" else "fastq"))
            if any(not x[0].isalnum() for x in rn if x):
                ctx.tally("names.read_starts_with_punctuation")
            ll = case["list"]["lines"]
            hashl = [i for i, x in enumerate(ll) if x[0].startswith("#")]
            if hashl:
                ctx.tally("list.hash_name.with_header_line" if case["list"]["header"] else "list.hash_name.without_header_line")
                if 0 in hashl:
                    ctx.tally("list.hash_name.on_first_line" + ("_after_header" if case["list"]["header"]
                                                                  else "_no_header__read_as_header_by_format"))
                if any(i > 0 for i in hashl):
                    ctx.tally("list.hash_name.on_later_line")
                    if any(i > 0 and ll[i][1] != "none" and ll[i][0] in rn for i in hashl):
                        ctx.tally("list.hash_name.on_later_line_tagged_and_among_reads")
                        for k in ("add", "discard", "hist", "largest"):
                            if o[k]:
                                ctx.tally("list.hash_name.on_later_line_tagged_and_among_reads.with_" + k)
            nm = [x[0] for x in ob["inputs"]]
            if len(set(nm)) < len(nm):
                ctx.tally("reads.duplicate_names")
            if any(x[1] == 0 for x in ob["inputs"]):
                ctx.tally("reads.without_sequence")
            ln = [x[0] for x in case["list"]["lines"]]
            if len(set(ln)) < len(ln):
                ctx.tally("list.duplicate_names")
            if set(ln) - set(nm):
                ctx.tally("list.names_absent_from_reads")
            if set(nm) - set(ln):
                ctx.tally("reads.names_absent_from_list")
            ctx.tally("reads.total", len(nm))
            ctx.tally("reads.count_" + (str(len(nm)) if len(nm) <= 2 else "3+"))
            if any(a == b for a, b in zip(nm, nm[1:])):
                ctx.tally("reads.same_name_adjacent")
            if any(nm[i] in nm[i + 2:] and nm[i + 1] != nm[i] for i in range(len(nm) - 2)):
                ctx.tally("reads.same_name_not_adjacent")
            if o["discard"] and any(a == b and a not in ln for a, b in zip(nm, nm[1:])):
                ctx.tally("reads.unlisted_adjacent_run_with_discard")
            pl = [x[2] for x in ob["inputs"]]
            if len(set(pl)) < len(pl):
                ctx.tally("reads.identical_records")
            if set(nm) & set(sc.SPECIAL_NAMES):
                ctx.tally("reads.special_names")
            if case.get("ext"):
                ctx.tally("reads.ext." + case["ext"])
            if case["fmt"] != "bam" and not case.get("final_newline", True):
                ctx.tally("reads.fastq_no_final_newline")
            ctx.tally("hashseed." + case.get("hashseed", "0"))
            ctx.tally("list.lines_" + (str(len(ln)) if len(ln) <= 2 else "3+"))
            if case["list"].get("eol") == "\r\n":
                ctx.tally("list.crlf")
            if not case["list"].get("final_newline", True):
                ctx.tally("list.no_final_newline")
            if case["list"]["gz"]:
                ctx.tally("list.gz")
            for _, h, _, _ in case["list"]["lines"]:
                ctx.tally("list.hap." + h if h in ("none", "H1", "H2", "H3", "H4") else "list.hap.other")
            byname = {}
            for n_, h, _, _ in case["list"]["lines"]:
                byname.setdefault(n_, []).append(h)
            if any(len(set(v)) > 1 for v in byname.values()):
                ctx.tally("list.duplicate_names_conflicting")
            if any(len(v) > 1 and len(set(v)) == 1 for v in byname.values()):
                ctx.tally("list.duplicate_names_agreeing")
            if o["largest"] and case["list"]["ncols"] >= 4:
                feats = sc.largest_block_features(case["list"]["lines"])
                for f in feats:
                    ctx.tally("largest." + f)
                if "tie_at_top" in feats and o["discard"]:
                    ctx.tally("largest.tie_at_top_with_discard")
                if "tie_at_top" in feats and set(nm) & {n_ for n_, h, _, _ in case["list"]["lines"] if h != "none"}:
                    ctx.tally("largest.tie_at_top_and_tagged_name_among_reads")
            if o["add"] and o["mode"] == "h" and not (o["h1"] and o["h2"]):
                ctx.tally("opt.add_with_one_h_output_missing")
            if o["discard"] and o["largest"]:
                ctx.tally("opt.discard_and_largest")
            if o["gzout"] and case["fmt"] != "bam":
                ctx.tally("outputs.gz")
            null = sc.opts_null(o)
            given = [o["untagged"]] + ([o["h1"], o["h2"]] if o["mode"] == "h" else [True] * o["k"])
            if any(null):
                ctx.tally("outputs.devnull.some")
                ctx.tally("outputs.devnull." + ("o_path" if o["mode"] == "o" else "h1h2_path"))
                if null[0]:
                    ctx.tally("outputs.devnull.untagged")
                if any(null[1:]):
                    ctx.tally("outputs.devnull.haplotype")
                if o["hist"]:
                    ctx.tally("outputs.devnull.with_histogram")
                    listed = {h for _, h, _, _ in case["list"]["lines"]}
                    names_h = {n_: h for n_, h, _, _ in case["list"]["lines"] if h != "none"}
                    if any(null[i] and any(names_h.get(x) == f"H{i}" for x in nm) for i in range(1, len(null))):
                        ctx.tally("outputs.devnull.with_histogram_and_reads_of_that_haplotype")
                if null == given:
                    ctx.tally("outputs.devnull.all_given_outputs" + ("_histogram_only" if o["hist"] else ""))
            if case["fmt"] == "bam":
                fl = [r["flag"] for r in case["reads"]]
                for bit, nm_ in ((4, "unmapped"), (256, "secondary"), (2048, "supplementary"), (1, "paired"), (16, "reverse")):
                    if any(f & bit for f in fl):
                        ctx.tally("bam.flag." + nm_)
                firsts = {r["name"] for r in case["reads"] if r["flag"] & 64}
                seconds = {r["name"] for r in case["reads"] if r["flag"] & 128}
                if firsts & seconds:
                    ctx.tally("bam.mates_sharing_a_name")
                    both = firsts & seconds
                    idx = {n_: [i for i, r in enumerate(case["reads"]) if r["name"] == n_] for n_ in both}
                    if any(b - a > 1 for v in idx.values() for a, b in zip(v, v[1:])):
                        ctx.tally("bam.mates_not_adjacent")
                prim = {r["name"] for r in case["reads"] if not r["flag"] & (256 | 2048)}
                if prim & {r["name"] for r in case["reads"] if r["flag"] & (256 | 2048)}:
                    ctx.tally("bam.primary_and_secondary_or_supplementary_same_name")
                if any(not r["seq"] for r in case["reads"]):
                    ctx.tally("bam.record_without_sequence")
                if any(r["tags"] for r in case["reads"]):
                    ctx.tally("bam.tags")
            if ob["rc"] == 0 and "hist" in ob:
                ctx.tally("hist.rows_" + (str(len(ob["hist"])) if len(ob["hist"]) <= 1 else "2+"))
                if any(sum(1 for x in row[1:] if x) >= 2 for row in ob["hist"]):
                    ctx.tally("hist.length_shared_by_classes")
            if ob["rc"] != 0:
                ctx.tally("impl.error." + ob["error"])
        for s in signatures(case, ob, v):
            by_sig.setdefault(s, []).append((case, ob, v))
        if v is None:
            l2_bad.append((case, ob, "unknown error class " + ob["error"]))
        elif v["matching"] != [0]:
            if not (ob["rc"] != 0 and EXT_SIG in signatures(case, ob, v)):
                l2_bad.append((case, ob, "implementation result differs from the model (Split.run repaired)" +
                               (f"; it matches the model with the legacy rule set(s) {v['matching']} "
                                "(1=early_exit 2=dup_assert 4=hist_dup_rows 8=fastq_via_str)" if v["matching"] else "")))
            matchsets.append(set(v["matching"]))
        else:
            matchsets.append({0})
        if ob["rc"] == 0 and ob.get("header_ok") is False:
            l2_bad.append((case, ob, "BAM header of an output differs from the input header"))
        if ob["rc"] == 0 and ob.get("hist_head_ok") is False:
            l2_bad.append((case, ob, "histogram header line"))
    return by_sig, l2_bad, matchsets


# --------------------------------------------------------------------------------- case streams
def exhaustive_cases(maxlen):
    names = ["a", "b"]
    choices = [None, "none", "H1", "H2"]
    for L in range(maxlen + 1):
        for seq in itertools.product(names, repeat=L):
            reads = [[n, None, "ACGTA"[:1 + (i + (n == "b")) % 2], "IIIII"[:1 + (i + (n == "b")) % 2]]
                     for i, n in enumerate(seq)]
            for la, lb in itertools.product(choices, repeat=2):
                lines = [[n, h, "1", "chr1"] for n, h in (("a", la), ("b", lb)) if h is not None]
                for discard, add, untagged in itertools.product([False, True], repeat=3):
                    if discard and not lines:
                        continue
                    yield {"fmt": "fastq", "reads": reads,
                           "list": {"header": True, "ncols": 2, "gz": False, "lines": lines},
                           "opts": {"mode": "h", "h1": True, "h2": True, "k": 2, "untagged": untagged, "add": add,
                                    "largest": False, "discard": discard, "hist": True, "gzout": False}}


def run(ctx):
    rng = ctx.rng
    # (a) every option combination with random data
    reps = ctx.n(1, 6)
    cases = []
    for _ in range(reps):
        for combo in range(192):
            cases.append(sc.gen_case(rng, combo=combo))
    # (c) FASTQ with empty reads
    for _ in range(ctx.n(30, 250)):
        cases.append(sc.gen_case(rng, fmt=rng.choice(["fastq", "fastq.gz"]), allow_empty_fastq=True))
    # repeated names in the list (what haplotag writes for paired-end reads), all options
    for _ in range(ctx.n(30, 250)):
        cases.append(sc.gen_case(rng, dup_list_names=True))
    # FASTQ reads files under every extension split lists as FASTQ (fastq, fastq.gz, fastq.gzip, fq, fq.gz, fq.gzip)
    for _ in range(ctx.n(2, 20)):
        for ext, fmt in (("fq", "fastq"), ("fq.gz", "fastq.gz"), ("fastq.gzip", "fastq.gz"), ("fq.gzip", "fastq.gz"),
                         ("fastq", "fastq"), ("fastq.gz", "fastq.gz")):
            cases.append(sc.gen_case(rng, fmt=fmt, ext=ext))
    # histogram only: every given output is the null device (both output paths), with the histogram
    for _ in range(ctx.n(24, 240)):
        c = sc.gen_case(rng)
        o = c["opts"]
        o["hist"] = True
        given = [o["untagged"]] + ([o["h1"], o["h2"]] if o["mode"] == "h" else [True] * o["k"])
        o["null"] = list(given) if rng.random() < 0.5 else [g and rng.random() < 0.6 for g in given]
        cases.append(c)
    # read names starting with '#' (legal in SAM and FASTQ), listed with a haplotype on the first or a later
    # line of lists with and without header line
    for _ in range(ctx.n(48, 480)):
        cases.append(sc.gen_case(rng, hash_names=True))
    # (d) rejected inputs
    for _ in range(ctx.n(6, 60)):
        for inv in ("badhap", "emptyfile", "largest2col", "noknown"):
            cases.append(sc.gen_case(rng, invalid=inv))
    res = evaluate(ctx, cases, "random")
    for case, ob, v in res[:2] + res[-2:]:
        ctx.sample({"case": case, "impl": {k: ob[k] for k in ("rc", "outs", "hist", "error") if k in ob}, "verdict": v})
    by_sig, l2_bad, matchsets = process(ctx, res, "random")
    # more volume of (a), (c) and repeated list names through the in-process entry point
    more = []
    for _ in range(ctx.n(2, 16)):
        for combo in range(192):
            more.append(sc.gen_case(rng, combo=combo, allow_empty_fastq=rng.random() < 0.1,
                                    dup_list_names=True if rng.random() < 0.15 else None))
    by_sig1, l2_bad1, matchsets1 = process(ctx, evaluate(ctx, more, "randomb", batch=True), "random_batch")
    merge(by_sig, by_sig1)
    l2_bad += l2_bad1
    matchsets += matchsets1

    # (b) exhaustive small space
    ex = list(exhaustive_cases(ctx.n(2, 5)))
    res2 = evaluate(ctx, ex, "exh", batch=True)
    ctx.extra["exhaustive_cases"] = len(ex)
    ctx.exhaustive = True
    by_sig2, l2_bad2, matchsets2 = process(ctx, res2, "exhaustive")
    ctx.extra["violating_cases_random_streams"] = {k: len(v) for k, v in sorted(by_sig.items())}
    ctx.extra["violating_cases_exhaustive_stream"] = {k: len(v) for k, v in sorted(by_sig2.items())}
    merge(by_sig, by_sig2)
    l2_bad += l2_bad2
    matchsets += matchsets2

    ctx.extra["cases_equal_to_repaired_model"] = sum(1 for m in matchsets if m == {0})
    ctx.extra["cases_not_equal_to_repaired_model"] = sum(1 for m in matchsets if m != {0})
    ctx.extra["rule_set_bits"] = "legacy rules: 1=early_exit 2=dup_assert 4=hist_dup_rows 8=fastq_via_str; L2 demands 0 (repaired)"
    ctx.log(f"L2: {ctx.extra['cases_equal_to_repaired_model']} cases equal to the repaired model, "
            f"{ctx.extra['cases_not_equal_to_repaired_model']} not")
    if l2_bad:
        ctx.disagreements_checked += len(l2_bad)
        ctx.l2_disagreement("Split.run = whatshap split outputs (L2)",
                            [{"why": why, "case": case, "impl": None if ob is None else
                              {k: ob[k] for k in ("rc", "outs", "hist", "error", "stderr") if k in ob}}
                             for case, ob, why in l2_bad])
        if not by_sig:
            # wider search: every case is judged against the specification in Coq anyway
            more = [sc.gen_case(rng) for _ in range(ctx.n(600, 4000))]
            merge(by_sig, process(ctx, evaluate(ctx, more, "search"), "search")[0])
    report(ctx, by_sig, ctx.n(6, 25))


def replay(ctx, data):
    case = data["case"]
    res = evaluate(ctx, [case], "replay")
    by_sig, l2_bad, _ = process(ctx, res, "replay")
    report(ctx, by_sig, 0)
    for case, ob, v in res:
        ctx.log("replay: " + describe(case, ob) + f" verdict={v}")
    if l2_bad:
        ctx.l2_disagreement("Split.run = whatshap split outputs (L2)", [{"why": w, "case": c} for c, _, w in l2_bad])
