"""C14 — `whatshap split` distributes every read to exactly the outputs its haplotype entry selects."""
import ast
import copy
import itertools
import os
import re
import shutil
import time

from ..coqeval import eval_shards, parse_eval_results
from ..util import workdir
from .. import split_cases as sc

RULE = ("every case = (reads file, haplotag list file, option set) run through the real `whatshap split` CLI: "
        "(a) all 192 option combinations {h1 | h2 | h1+h2 | -o x2 | -o x3 | -o x4} x untagged x add-untagged x "
        "only-largest-block x discard-unknown-reads x histogram, each with fresh random data (FASTQ, FASTQ.gz, "
        "unmapped and mapped BAM incl. records without sequence, paired/secondary/supplementary flags, tags; 0-10 "
        "reads drawn from a pool of 1-6 names, so duplicate names are the rule; exact duplicate records; lists with "
        "2-5 columns, with/without header, plain/gz, names absent from the reads, `none` lines, repeated names, "
        "1-3 phase sets on 1-2 chromosomes); (b) exhaustive: all read sequences of length <= L over two names x all "
        "lists assigning absent/none/H1/H2 to each name x discard x add-untagged x untagged-output (this stream calls "
        "the CLI entry point whatshap.__main__.main(argv) many times per interpreter process, all others start one "
        "`python -m whatshap split` process per case); (c) FASTQ reads "
        "with empty sequence; (d) inputs the code rejects (unknown haplotype name, empty list file, "
        "only-largest-block with a 2-column list, discard with no listed name), compared on the error class. "
        "A case is non-trivial if at least two reads are written and at least one listed, tagged name occurs among "
        "the reads; distinct = distinct (reads, list, options).")
TRUSTED = [
    "modelled, not verified: parsing of the tab-separated list text into (name, haplotype, phaseset, chromosome) "
    "(line.strip().split('\\t'), header detection), pysam/htslib reading and writing of BAM and FASTQ containers, "
    "xopen/gzip; the harness encodes names and whole records (FASTQ text / SAM text of the BAM record incl. all "
    "tags) injectively as integers, so name equality and `written unmodified` are decided in Coq on the bytes",
    "str(pysam.FastxRecord) (what split hands to the FASTQ writer) enters the model as data observed on the input file",
    "BAM header copy (template=) and the histogram header line are compared in python only",
]
ASSUMPTIONS = [
    "the haplotype list is non-empty text with haplotype names none/H1..Hploidy, has >= 4 columns when "
    "--only-largest-block is used, and names at least one read when --discard-unknown-reads is used (the code "
    "rejects everything else on purpose; those inputs are compared on the error class only)",
    "at least one of --output-h1/--output-h2/-o is given (argument validation is not part of the property)",
    "where the list leaves the haplotype of a name open (same name on several lines with different entries; "
    "several blocks of maximal size or line count vs. distinct-read count disagreeing under --only-largest-block) "
    "every reading of the list is accepted by the specification check; the model pins the code's choice (L2)",
    "with --add-untagged the histogram column count-hN counts the reads of haplotype N and count-untagged the "
    "untagged reads (each once), as the column names say",
]

HEADER = """From Coq Require Import ZArith List Bool Arith.
From WH.Model Require Import Split.
Import ListNotations.
Open Scope Z_scope.
Definition b2n (b : bool) : nat := if b then 1%nat else 0%nat.
Definition clauses (c : cfg) (l : hlist) (r : list read) (o : outcome) : list nat :=
  match o with
  | Fail _ => [0; 0; 0]%nat
  | Done outs h => [b2n (l1_routing c l r outs); b2n (l1_partition c r outs); b2n (l1_hist c l r outs h)]
  end.
Definition judge (k : cfg * hlist * list read * outcome) : list (list nat) :=
  let '(c, l, r, o) := k in
  let ok := l1 c l r o in
  [ [b2n (valid_input c l); b2n ok] ++ clauses c l r o;
    matching_rules c l r o;
    if ok then [] else blamed_rules c l r ].
"""

INFRA = re.compile(r"^(ModuleNotFoundError|ImportError): .*(whatshap|\.so\b|ELF)", re.M)
SIG = {1: "split:early-exit-duplicate-names", 2: "split:list-duplicate-name-assert",
       4: "split:histogram-duplicate-rows", 8: "split:fastq-empty-read-rewritten"}


# --------------------------------------------------------------------------------- evaluation
def evaluate(ctx, cases, label, shard=150, batch=False):
    """run the CLI on all cases, judge them in Coq; returns list of (case, obs, verdict) with
    verdict = dict(valid, l1, routing, partition, hist, matching, blamed) or None if not judged"""
    root = workdir(ctx, "C14-" + label)
    t0 = time.time()
    obs = (sc.run_cases_batch if batch else sc.run_cases)(ctx, cases, root)
    # The scratch build is shared with the other checks and may be rebuilt in place while we import from it:
    # an import failure of a whatshap module is an infrastructure failure, not an observation -> wait, re-run.
    for attempt in range(4):
        broken = [i for i, ob in enumerate(obs) if ob["rc"] != 0 and INFRA.search(ob.get("stderr", ""))]
        if not broken:
            break
        ctx.tally("infrastructure.rerun_after_import_failure", len(broken))
        time.sleep(20 * (attempt + 1))
        from .. import build
        build.build_impl(verbose=False)
        sub = os.path.join(root, f"retry{attempt}")
        again = sc.run_cases(ctx, [cases[i] for i in broken], sub)
        for i, ob in zip(broken, again):
            obs[i] = ob
    else:
        raise RuntimeError("scratch build unusable (import errors persist): " + obs[broken[0]].get("stderr", "")[-500:])
    shutil.rmtree(root, ignore_errors=True)
    ctx.extra["cli_seconds"] = round(ctx.extra.get("cli_seconds", 0) + time.time() - t0, 1)
    t0 = time.time()
    terms, idx = [], []
    for i, (case, ob) in enumerate(zip(cases, obs)):
        if ob["rc"] != 0 and ob["error"].startswith("other:"):
            continue
        terms.append(sc.case_term(case, ob))
        idx.append(i)
    shards = []
    for off in range(0, len(terms), shard):
        chunk = terms[off:off + shard]
        shards.append("Definition cases : list (cfg * hlist * list read * outcome) := [\n" + ";\n".join(chunk) +
                      "\n].\nEval vm_compute in (map judge cases).\n")
    verdicts = [None] * len(cases)
    if shards:
        outs = eval_shards("C14" + label, HEADER, shards, timeout=1500)
        pos = 0
        for s, (rc, out, _) in enumerate(outs):
            n = min(shard, len(terms) - s * shard)
            if rc != 0:
                raise RuntimeError("coq evaluation failed:\n" + out[-3000:])
            res = parse_eval_results(out)
            if len(res) != 1:
                raise RuntimeError("unexpected Eval output:\n" + out[-2000:])
            val = ast.literal_eval(res[0].replace("%nat", "").replace(";", ","))
            if len(val) != n:
                raise RuntimeError(f"expected {n} verdicts, got {len(val)}")
            for v in val:
                head, matching, blamed = v
                verdicts[idx[pos]] = dict(valid=bool(head[0]), l1=bool(head[1]), routing=bool(head[2]),
                                          partition=bool(head[3]), hist=bool(head[4]), matching=matching,
                                          blamed=blamed)
                pos += 1
    ctx.extra["coq_seconds"] = round(ctx.extra.get("coq_seconds", 0) + time.time() - t0, 1)
    return list(zip(cases, obs, verdicts))


def case_size(case):
    return len(case["reads"]) + len(case["list"]["lines"])


def signatures(case, ob, v):
    """[] if the case conforms to the specification, else the defect-class signatures (verdicts are Coq's)"""
    if v is None:                                   # crash of an unknown class
        return ["split:crash:" + ob["error"].split(":", 1)[1]]
    if not v["valid"] or v["l1"]:
        return []
    sigs = []
    if v["matching"]:
        m = min(v["matching"], key=lambda x: bin(x).count("1"))
        for d in v["blamed"]:
            if d & m:
                s = SIG[d]
                if d == 8 and any(p != s_ and ln != 0 for _, ln, p, s_ in ob["inputs"]):
                    s = "split:fastq-record-rewritten"
                sigs.append(s)
    if not sigs:
        if ob["rc"] != 0:
            sigs.append("split:crash:" + ob["error"])
        else:
            if not v["routing"]:
                sigs.append("split:routing")
            if not v["partition"] and v["routing"]:
                sigs.append("split:partition")
            if not v["hist"]:
                sigs.append("split:histogram")
            if not sigs:
                sigs.append("split:spec")
    return sigs


def describe(case, ob):
    o = case["opts"]
    flags = [k for k in ("untagged", "add", "largest", "discard", "hist") if o[k]]
    outs = ("-o x%d" % o["k"]) if o["mode"] == "o" else "+".join(k for k in ("h1", "h2") if o[k])
    names = [r["name"] if isinstance(r, dict) else r[0] for r in case["reads"]]
    lst = [f"{n} {h}" + (f" {ps} {ch}" if case['list']['ncols'] >= 4 else "") for n, h, ps, ch in case["list"]["lines"]]
    if ob["rc"] != 0:
        res = f"exit {ob['rc']} ({ob['error']}: {ob.get('stderr', '').strip().splitlines()[-1:]})"
    else:
        res = "outputs " + str([None if x is None else [r.split()[0].lstrip('@>') for r in x] for x in ob["outs"]])
        if "hist" in ob:
            res += f" histogram rows {ob['hist']}"
    return (f"{case['fmt']} reads {names} (lengths {[x[1] for x in ob['inputs']]}), list {lst} "
            f"[header={case['list']['header']}], outputs {outs} {flags} -> {res}")


def shrink_batch(ctx, case, sig, rounds):
    """greedy removal of reads / list lines keeping the signature; every candidate is judged in Coq"""
    cur = case
    for rd in range(rounds):
        cands = []
        for i in range(len(cur["reads"])):
            c = copy.deepcopy(cur)
            del c["reads"][i]
            cands.append(c)
        for i in range(len(cur["list"]["lines"])):
            c = copy.deepcopy(cur)
            del c["list"]["lines"][i]
            if not c["list"]["lines"] and not c["list"]["header"]:
                continue
            cands.append(c)
        for k in ("untagged", "add", "largest", "hist", "gzout"):
            if cur["opts"][k]:
                c = copy.deepcopy(cur)
                c["opts"][k] = False
                cands.append(c)
        if not cands:
            break
        res = evaluate(ctx, cands, f"shrink{rd}")
        nxt = None
        for c, ob, v in res:
            if sig in signatures(c, ob, v):
                nxt = c
                break
        if nxt is None:
            break
        cur = nxt
    return cur


def report(ctx, by_sig, shrink_rounds):
    """one violation per defect class, on the smallest violating case (shrunk further, judged in Coq)"""
    for s, lst in sorted(by_sig.items()):
        ctx.tally("violating_cases." + s, len(lst))
        case, ob, v = min(lst, key=lambda t: case_size(t[0]))
        if shrink_rounds:
            small = shrink_batch(ctx, case, s, shrink_rounds)
            if small is not case:
                (case, ob, v), = evaluate(ctx, [small], "shrunk")
        ctx.violation(s, f"[{s}] specification (L1, evaluated in Coq) fails on {len(lst)} generated cases; smallest: "
                      + describe(case, ob) +
                      (f"; clauses routing={v['routing']} partition={v['partition']} histogram={v['hist']}, "
                       f"model rule sets matching the implementation={v['matching']}, defective rules blamed={v['blamed']}"
                       if v else ""), {"case": case})


def merge(a, b):
    for k, v in b.items():
        a.setdefault(k, []).extend(v)
    return a


def process(ctx, results, label, count=True):
    """book-keeping + verdicts for evaluated cases; returns (violating by signature, l2_bad, matching_sets)"""
    by_sig = {}
    l2_bad = []
    matchsets = []
    for case, ob, v in results:
        o = case["opts"]
        if count:
            written = sum(len(x) for x in ob.get("outs", []) if x) if ob["rc"] == 0 else 0
            listed_tagged = {n for n, h, _, _ in case["list"]["lines"] if h != "none"}
            names = {x[0] for x in ob["inputs"]}
            ctx.count(("C14", repr(case)), nontrivial=written >= 2 and bool(listed_tagged & names))
            ctx.tally(f"{label}.cases")
            ctx.tally("fmt." + case["fmt"] + ("" if case["fmt"] != "bam" else (".mapped" if case.get("sq") else ".unmapped")))
            ctx.tally("ploidy.%d" % sc.opts_ploidy(o))
            ctx.tally("outputs." + (("o%d" % o["k"]) if o["mode"] == "o" else "h" + "".join(k[1] for k in ("h1", "h2") if o[k])))
            for k in ("untagged", "add", "largest", "discard", "hist"):
                if o[k]:
                    ctx.tally("opt." + k)
            ctx.tally("list.cols%d" % case["list"]["ncols"])
            ctx.tally("list.header" if case["list"]["header"] else "list.noheader")
            nm = [x[0] for x in ob["inputs"]]
            if len(set(nm)) < len(nm):
                ctx.tally("reads.duplicate_names")
            if any(x[1] == 0 for x in ob["inputs"]):
                ctx.tally("reads.without_sequence")
            ln = [x[0] for x in case["list"]["lines"]]
            if len(set(ln)) < len(ln):
                ctx.tally("list.duplicate_names")
            if set(ln) - set(nm):
                ctx.tally("list.names_absent_from_reads")
            if set(nm) - set(ln):
                ctx.tally("reads.names_absent_from_list")
            ctx.tally("reads.total", len(nm))
            if ob["rc"] != 0:
                ctx.tally("impl.error." + ob["error"])
        for s in signatures(case, ob, v):
            by_sig.setdefault(s, []).append((case, ob, v))
        if v is None:
            l2_bad.append((case, ob, "unknown error class " + ob["error"]))
        elif not v["matching"]:
            l2_bad.append((case, ob, "no rule set of the model reproduces the implementation"))
        else:
            matchsets.append(set(v["matching"]))
        if ob["rc"] == 0 and ob.get("header_ok") is False:
            l2_bad.append((case, ob, "BAM header of an output differs from the input header"))
        if ob["rc"] == 0 and ob.get("hist_head_ok") is False:
            l2_bad.append((case, ob, "histogram header line"))
    return by_sig, l2_bad, matchsets


# --------------------------------------------------------------------------------- case streams
def exhaustive_cases(maxlen):
    names = ["a", "b"]
    choices = [None, "none", "H1", "H2"]
    for L in range(maxlen + 1):
        for seq in itertools.product(names, repeat=L):
            reads = [[n, None, "ACGTA"[:1 + (i + (n == "b")) % 2], "IIIII"[:1 + (i + (n == "b")) % 2]]
                     for i, n in enumerate(seq)]
            for la, lb in itertools.product(choices, repeat=2):
                lines = [[n, h, "1", "chr1"] for n, h in (("a", la), ("b", lb)) if h is not None]
                for discard, add, untagged in itertools.product([False, True], repeat=3):
                    if discard and not lines:
                        continue
                    yield {"fmt": "fastq", "reads": reads,
                           "list": {"header": True, "ncols": 2, "gz": False, "lines": lines},
                           "opts": {"mode": "h", "h1": True, "h2": True, "k": 2, "untagged": untagged, "add": add,
                                    "largest": False, "discard": discard, "hist": True, "gzout": False}}


def run(ctx):
    rng = ctx.rng
    # (a) every option combination with random data
    reps = ctx.n(1, 10)
    cases = []
    for _ in range(reps):
        for combo in range(192):
            cases.append(sc.gen_case(rng, combo=combo))
    # (c) FASTQ with empty reads
    for _ in range(ctx.n(30, 400)):
        cases.append(sc.gen_case(rng, fmt=rng.choice(["fastq", "fastq.gz"]), allow_empty_fastq=True))
    # repeated names in the list (what haplotag writes for paired-end reads), all options
    for _ in range(ctx.n(30, 400)):
        cases.append(sc.gen_case(rng, dup_list_names=True))
    # (d) rejected inputs
    for _ in range(ctx.n(6, 60)):
        for inv in ("badhap", "emptyfile", "largest2col", "noknown"):
            cases.append(sc.gen_case(rng, invalid=inv))
    res = evaluate(ctx, cases, "random")
    for case, ob, v in res[:2] + res[-2:]:
        ctx.sample({"case": case, "impl": {k: ob[k] for k in ("rc", "outs", "hist", "error") if k in ob}, "verdict": v})
    by_sig, l2_bad, matchsets = process(ctx, res, "random")
    # more volume of (a), (c) and repeated list names through the in-process entry point
    more = []
    for _ in range(ctx.n(2, 20)):
        for combo in range(192):
            more.append(sc.gen_case(rng, combo=combo, allow_empty_fastq=rng.random() < 0.1,
                                    dup_list_names=True if rng.random() < 0.15 else None))
    by_sig1, l2_bad1, matchsets1 = process(ctx, evaluate(ctx, more, "randomb", batch=True), "random_batch")
    merge(by_sig, by_sig1)
    l2_bad += l2_bad1
    matchsets += matchsets1

    # (b) exhaustive small space
    ex = list(exhaustive_cases(ctx.n(2, 5)))
    res2 = evaluate(ctx, ex, "exh", batch=True)
    ctx.extra["exhaustive_cases"] = len(ex)
    ctx.exhaustive = True
    by_sig2, l2_bad2, matchsets2 = process(ctx, res2, "exhaustive")
    ctx.extra["violating_cases_random_streams"] = {k: len(v) for k, v in sorted(by_sig.items())}
    ctx.extra["violating_cases_exhaustive_stream"] = {k: len(v) for k, v in sorted(by_sig2.items())}
    merge(by_sig, by_sig2)
    l2_bad += l2_bad2
    matchsets += matchsets2

    common = set(range(16))
    for m in matchsets:
        common &= m
    ctx.extra["model_rule_sets_consistent_with_all_cases"] = sorted(common)
    ctx.extra["rule_set_bits"] = "1=early_exit 2=dup_assert 4=hist_dup_rows 8=fastq_via_str; 15=current code, 0=repaired"
    ctx.log(f"rule sets of the model consistent with every case: {sorted(common)}")
    if matchsets and not common:
        l2_bad.append((None, None, "no single rule set of the model explains all cases"))
    if l2_bad:
        ctx.disagreements_checked += len(l2_bad)
        ctx.l2_disagreement("Split.run = whatshap split outputs (L2)",
                            [{"why": why, "case": case, "impl": None if ob is None else
                              {k: ob[k] for k in ("rc", "outs", "hist", "error", "stderr") if k in ob}}
                             for case, ob, why in l2_bad])
        if not by_sig:
            # wider search: every case is judged against the specification in Coq anyway
            more = [sc.gen_case(rng) for _ in range(ctx.n(600, 4000))]
            merge(by_sig, process(ctx, evaluate(ctx, more, "search"), "search")[0])
    report(ctx, by_sig, ctx.n(6, 25))


def replay(ctx, data):
    case = data["case"]
    res = evaluate(ctx, [case], "replay")
    by_sig, l2_bad, _ = process(ctx, res, "replay")
    report(ctx, by_sig, 0)
    for case, ob, v in res:
        ctx.log("replay: " + describe(case, ob) + f" verdict={v}")
    if l2_bad:
        ctx.l2_disagreement("Split.run = whatshap split outputs (L2)", [{"why": w, "case": c} for c, _, w in l2_bad])
