"""C04 — the phased VCF is the input VCF plus phase information and nothing else."""
import json
import os
import re
import traceback
from concurrent.futures import ThreadPoolExecutor

from .. import synth, util, vcfabs, vcfgen
from ..coqeval import eval_checks

RULE = ("(a) direct: a generated VCF text (1-4 samples, 1-3 chromosomes incl. a chromosome occurring in two runs, "
        "declared / undeclared-predefined / undeclared-unknown INFO and FORMAT fields, missing / partial / haploid / "
        "triploid genotypes, multi-ALT, symbolic ALT, '*', no ALT, duplicate positions, pre-existing PS/HP/PQ, 1/0 "
        "genotypes) is pushed through the real PhasedVcfWriter with synthetic super-reads/components per chromosome "
        "run (tag PS/HP, only_snvs, mav; super-read alleles agreeing or disagreeing with the genotypes, tie code 3, "
        "positions without record, partial component maps); (b) cli: `whatshap phase` on harness.synth data "
        "decorated with the same features, with --sample / --chromosome / --tag / --only-snvs / "
        "--distrust-genotypes, the writer's inputs taken from the WHATSHAP_VERIF_TRACE file. A case is one "
        "(input file, configuration, plan); non-trivial = at least one target call is phased by the run and at "
        "least one record is skipped or belongs to a non-target sample/chromosome; distinct = distinct "
        "(input text, configuration, plan).")
TRUSTED = [
    "modelled, not verified: pysam/htslib parsing and serialisation of VCF records (the abstraction harness/vcfabs.py "
    "maps real files to coq/model/VcfRecord.v records; FORMAT/INFO/fixed columns are compared as raw text tokens), "
    "pysam's VariantFile.write INFO/END re-synchronisation (model: sync_end), pysam's `phased` flag and GT assignment "
    "semantics, whatshap.core.Genotype as a sorted allele multiset",
    "header model: sets of defined contig/INFO/FILTER/FORMAT ids and the ##key=value lines; Number/Type/Description of a "
    "definition are not compared (missing_headers replaces predefined FORMAT definitions of unexpected type)",
    "sample_haploid_components (HS tag, polyphase only) is not modelled; phase.py never passes it",
]
ASSUMPTIONS = [
    "C04_alleles_preserved takes as hypothesis that the super-read alleles handed to the writer form the same multiset "
    "as the input genotype (that the solver only returns such alleles under trusted genotypes is C01/C05's business); "
    "the CLI runs without --distrust-genotypes check the conclusion unconditionally",
    "write(): every target sample exists in the file and FORMAT has a GT key wherever a target is phased "
    "(otherwise the code raises KeyError; modelled as an error value and compared on the error class)",
    "generated float-valued fields use renderings that htslib reproduces verbatim",
]

HEADER = """From Coq Require Import ZArith List Bool Arith.
From WH.Model Require Import VcfRecord.
Import ListNotations.
Open Scope Z_scope.
(* k_plan: what the writer was given (trace / driver; L2).  k_sel: the specification's view -- every SELECTED sample
   is a target on every SELECTED chromosome, whether or not the run handed it to the writer. *)
Record kase := mkCase { k_cf : cfg; k_plan : list (token * list target); k_sel : list (token * list target);
  k_in : list vrec; k_out : option (list vrec);
  k_distrust : bool; k_cli : bool; k_hin : header; k_hout : header; k_use : body_use; k_cmd : option token;
  k_predef_f : list token; k_predef_i : list token }.
(* the model of the code as it is: the repaired rules (orig_rules / orig_guard = before the fix commits) *)
Definition the_rules := fix_rules.
Definition the_guard := fix_guard.
Definition with_out (k : kase) (f : list vrec -> bool) : bool := match k_out k with Some o => f o | None => true end.
Definition l2 (k : kase) : bool :=
  match phase_writer (k_cf k) the_rules (k_plan k) (k_in k), k_out k with
  | Ok o', Some o => all2 rec_sim o o'
  | Err EKey, None => true
  | _, _ => false
  end.
Definition l2_header (k : kase) : bool :=
  match out_header (k_predef_f k) (k_predef_i k) (tag (k_cf k)) (k_cmd k) (k_use k) (k_hin k) with
  | HOk h => header_sim h (k_hout k)
  | _ => false
  end.
Definition l1_conserves (k : kase) := with_out k (conserves fixed_eqb (k_in k)).
Definition l1_conserves_mod_end (k : kase) := with_out k (conserves fixed_mod_end_eqb (k_in k)).
(* identical up to exactly pysam's INFO/END re-synchronisation rule (sync_end) *)
Definition l1_conserves_end_rule (k : kase) :=
  with_out k (conserves (fun a b => fixed_eqb (sync_end (end_decl (k_cf k)) a) b) (k_in k)).
Definition l1_frames (k : kase) := with_out k (frames (annotate (k_plan k) (k_in k))).
Definition l1_alleles (k : kase) := with_out k (fun o =>
  if k_distrust k then true
  else if k_cli k then alleles_kept (k_in k) o       (* whatshap phase without --distrust-genotypes: unconditional *)
  else if superreads_agree (k_cf k) (annotate (k_plan k) (k_in k)) then alleles_kept (k_in k) o else true).
Definition l1_het (k : kase) := with_out k (only_het_supported (k_cf k) (annotate (k_plan k) (k_in k))).
(* "only heterozygous calls of supported variant types are ever marked phased", for the selected samples on the
   selected chromosomes and for EITHER encoding, whether or not the statement was already in the input: the writer
   removes all earlier phase information of its targets, so whatever is marked afterwards must be the run's *)
Fixpoint calls_marked_ok (ts : list target) (i : nat) (supp : bool) (b : list call) : bool :=
  match b with
  | [] => true
  | y :: b' => (negb (is_target ts i && (marked TagPS y || marked TagHP y)) || (het_call y && supp))
               && calls_marked_ok ts (S i) supp b'
  end.
Definition l1_marked (k : kase) := with_out k (fun o =>
  all2 (fun p y => calls_marked_ok (snd p) O (supported (k_cf k) (fst p)) (calls y)) (annotate (k_sel k) (k_in k)) o).
Definition l1_frames_sel (k : kase) := with_out k (frames (annotate (k_sel k) (k_in k))).
Definition l1_header (k : kase) := with_out k (fun _ => header_superset (k_hin k) (k_hout k)).
Definition plan_ok (k : kase) := list_eqb Z.eqb (map fst (k_plan k)) (runs (k_in k)).
"""
CHECKS = {"L2": "l2", "L2_header": "l2_header", "conserves": "l1_conserves", "conserves_mod_end": "l1_conserves_mod_end", "conserves_end_rule": "l1_conserves_end_rule",
          "frames": "l1_frames", "alleles": "l1_alleles", "het": "l1_het", "marked": "l1_marked", "frames_sel": "l1_frames_sel",
          "header": "l1_header", "plan_ok": "plan_ok"}


# ----------------------------------------------------------------------------------- plans
def gen_plan(rng, vt, meta, cfgd):
    """Synthetic writer inputs per chromosome run: [(chrom, {sample: (superreads [(pos,[a0,a1])], components {pos: comp})})]"""
    rows = vt.rows
    plan = []
    row_i = 0
    for run_i, c in enumerate(meta["runs"]):
        poss = meta["positions"].get(run_i, [])
        run_rows = rows[row_i:row_i + len(poss)]
        row_i += len(poss)
        targets = {}
        if rng.random() < 0.8:
            k = rng.randint(1, len(meta["samples"]))
            for s in rng.sample(meta["samples"], k):
                si = meta["samples"].index(s)
                sr = []
                mode = rng.choice(["agree", "agree", "agree", "random"])
                for p, row in zip(poss, run_rows):
                    if rng.random() < 0.2:
                        continue
                    fmt = row[8].split(":")
                    gt = row[9 + si].split(":")[0] if fmt[0] == "GT" else None
                    als = None
                    nalt = 0 if row[4] == "." else len(row[4].split(","))
                    if gt is not None:
                        parts = gt.replace("|", "/").split("/")
                        if len(parts) == 2 and all(x.isdigit() for x in parts):
                            als = [int(x) for x in parts]
                    if mode == "agree" and als is not None and rng.random() < 0.9:
                        if rng.random() < 0.5:
                            als = als[::-1]
                    else:
                        nalt = 0 if row[4] == "." else len(row[4].split(","))
                        als = rng.choice([[0, 1], [1, 0], [0, 0], [1, 1], [3, 3], [0, 3],
                                          [1, 2] if cfgd["mav"] and nalt >= 2 else [1, 0]])
                    lim = min([(0 if r[4] == "." else len(r[4].split(","))) or 99 for q, r in zip(poss, run_rows) if q == p])
                    if cfgd["mav"] and any(a > lim for a in als):
                        continue            # pysam rejects an allele index beyond the ALT list
                    sr.append((p, als))
                if rng.random() < 0.2:
                    sr.append((poss[-1] + 1000 if poss else 7, [0, 1]))    # a position without a record
                # components: random block structure over the super-read positions, some left out
                comp = {}
                cur = None
                for p, _ in sr:
                    if cur is None or rng.random() < 0.3:
                        cur = p
                    if rng.random() < 0.9:
                        comp[p] = cur
                targets[s] = (sr, comp)
        plan.append((c, targets))
    return plan


# ----------------------------------------------------------------------------------- real writer
def build_readset(sr):
    from whatshap.core import Read, ReadSet
    rs = ReadSet()
    width = len(sr[0][1]) if sr else 2
    reads = [Read(f"superread_{i}_0", 0, 0, 0) for i in range(width)]
    for p, als in sr:
        for i, a in enumerate(als):
            reads[i].add_variant(p, a, 30)
    for r in reads:
        rs.add(r)
    return rs


def run_writer_direct(in_path, out_path, cfgd, plan, cmdline=None):
    """Returns None on success or the exception class name."""
    from whatshap.vcf import PhasedVcfWriter, VcfError
    try:
        with open(out_path, "w") as out:
            w = PhasedVcfWriter(in_path, cmdline, out, tag=cfgd["tag"], only_snvs=cfgd["only_snvs"], mav=cfgd["mav"])
            try:
                for c, targets in plan:
                    if not targets and cfgd.get("use_write_unchanged"):
                        w.write_unchanged(c)
                    else:
                        w.write(c, {s: build_readset(sr) for s, (sr, comp) in targets.items()},
                                {s: dict(comp) for s, (sr, comp) in targets.items()})
            finally:
                w.close()
    except VcfError as e:
        return "VcfError:" + str(e)[:60]
    except Exception as e:
        return type(e).__name__ + ":" + str(e)[:80]
    return None


# ----------------------------------------------------------------------------------- Coq case
def plan_term(plan, samples, it):
    items = []
    for c, targets in plan:
        ts = [vcfabs.target_term(samples.index(s), sr, comp) for s, (sr, comp) in targets.items()]
        items.append(f"({vcfabs._z(vcfabs.chrom_token(c, it))}, [" + "; ".join(ts) + "])")
    return "[" + ";\n ".join(items) + "]"


def case_term(cfgd, plan, fin, fout, distrust, cmdline, cli=False, sel_plan=None):
    it = vcfabs.Interner()
    pf = "[" + "; ".join(vcfabs._z(it(x)) for x in vcfgen.PREDEF_FORMATS) + "]"
    pi = "[" + "; ".join(vcfabs._z(it(x)) for x in vcfgen.PREDEF_INFOS) + "]"
    out = "None" if fout is None else "(Some " + vcfabs.recs_term(fout.records, it) + ")"
    hout = vcfabs.header_term(fout.header if fout is not None else fin.header, it)
    # VcfAugmenter: command_line = '"' + command_line.replace('"', "") + '"'
    cmd = "None" if cmdline is None else f"(Some {vcfabs._z(it('v:' + chr(34) + cmdline.replace(chr(34), '') + chr(34)))})"
    return ("(mkCase " + vcfabs.cfg_term(cfgd["tag"], cfgd["only_snvs"], cfgd["mav"], vcfabs.end_declared(fin)) + "\n " + plan_term(plan, fin.samples, it)
            + "\n " + plan_term(sel_plan if sel_plan is not None else plan, fin.samples, it) + "\n " + vcfabs.recs_term(fin.records, it) + "\n " + out + " " + ("true" if distrust else "false") + " "
            + ("true" if cli else "false") + "\n "
            + vcfabs.header_term(fin.header, it) + "\n " + hout + "\n " + vcfabs.use_term(vcfabs.body_use(fin), it) + " "
            + cmd + " " + pf + " " + pi + ")")


def nontrivial(fin, fout, plan, tag):
    if fout is None:
        return False
    phased_new, other = False, False
    tsets = {}
    row = 0
    # map records to targets by walking runs like the writer does
    ann = []
    recs = fin.records
    i = 0
    for c, targets in plan:
        while i < len(recs) and recs[i].chrom == c:
            ann.append(set(fin.samples.index(s) for s in targets))
            i += 1
    for a, (ri, ro) in zip(ann, zip(fin.records, fout.records)):
        for si, (ci, co) in enumerate(zip(ri.calls, ro.calls)):
            if si in a and ci.key() != co.key():
                if (tag == "PS" and co.phased and co.ps is not None) or (tag == "HP" and co.hp and co.hp[0] not in ("dot", "none")):
                    phased_new = True
            elif si not in a or len(ri.alts) != 1:
                other = True
    return phased_new and other


# ----------------------------------------------------------------------------------- evaluation
SIG = {
    "conserves_mod_end": ("writer:records-or-fixed-columns", "records/order/fixed columns differ between input and output"),
    "frames": ("writer:frame", "a call of a non-target sample / non-selected chromosome changed, or a non-phase FORMAT field of a target call changed"),
    "alleles": ("writer:alleles", "allele multiset of a genotype changed although genotypes were trusted"),
    "het": ("writer:phased-not-het-or-unsupported", "a call was marked phased that is not heterozygous / not of a supported variant type"),
    "marked": ("phase:old-phase-of-selected-sample-kept", "a selected sample's call on a selected chromosome is marked phased (GT `|` or HP value) although it is not heterozygous / its record is not of a supported type: earlier phase information survived the run"),
    "frames_sel": ("writer:frame", "a call of a non-selected sample / non-selected chromosome changed, or a non-phase FORMAT field of a selected sample's call changed"),
    "header": ("writer:header-definition-lost", "a definition of the input header is missing from the output header"),
}


def evaluate(ctx, cases, label):
    """cases: list of dicts(term, replay, desc). Runs Coq, reports."""
    if not cases:
        return {}
    failing, errors = eval_checks("C04" + label, HEADER, CHECKS, [c["term"] for c in cases], shard=ctx.n(40, 60), timeout=1200)
    if errors:
        raise RuntimeError("coq evaluation failed: " + errors[0][1])
    bad_plan = failing["plan_ok"]
    if bad_plan:
        raise RuntimeError(f"harness bug: plan does not follow the chromosome runs in case {cases[bad_plan[0]]['desc']}")
    # INFO/END resynchronisation by pysam: strict column identity fails, identity modulo END holds
    # known finding, reported only for records whose INFO/END pysam rewrites by its rule; any other difference of
    # the fixed columns (also one confined to the END key) goes to writer:records-or-fixed-columns
    end_only = [i for i in failing["conserves"] if i not in failing["conserves_end_rule"]]
    failing["conserves_mod_end"] = sorted(set(failing["conserves_mod_end"]) | set(failing["conserves_end_rule"]))
    for i in end_only[:2]:
        ctx.violation("writer:info-end-resynced",
                      "INFO column changed: pysam's VariantFile.write re-synchronises INFO/END (END=... appended to a record "
                      "with a symbolic ALT that had none, or a redundant END removed): " + cases[i]["desc"], cases[i]["replay"])
    ctx.tally("cases.info_end_resynced", len(end_only))
    for lab, (sig, what) in SIG.items():
        for i in failing[lab][:2]:
            ctx.violation(sig, what + ": " + cases[i]["desc"], cases[i]["replay"])
    l2 = sorted(set(failing["L2"]))
    l2h = sorted(set(failing["L2_header"]) - set(i for i, c in enumerate(cases) if c.get("no_header_l2")))
    for idxs, name in ((l2, "VcfRecord.phase_writer = PhasedVcfWriter output (L2)"),
                       (l2h, "VcfRecord.out_header = output header (L2)")):
        if idxs:
            ctx.disagreements_checked += len(idxs)
            ctx.l2_disagreement(name, [cases[i]["desc"] for i in idxs])
            # also as a violation of its own, so that an unrelated finding of the same run cannot mask it
            ctx.violation("correspondence:" + name.split(" (")[0], "the model no longer describes the code: " + name + " :: "
                          + cases[idxs[0]]["desc"], cases[idxs[0]]["replay"], found_input=False)
    return failing


def make_direct_case(ctx, wd, idx, vt, meta, cfgd, plan, cmdline):
    in_path = os.path.join(wd, f"d{idx}.vcf")
    out_path = os.path.join(wd, f"d{idx}.out.vcf")
    vt.write(in_path)
    replay = {"kind": "direct", "vcf": vt.to_json(), "cfg": cfgd, "cmdline": cmdline,
              "plan": [[c, {s: [sr, sorted(comp.items())] for s, (sr, comp) in t.items()}] for c, t in plan]}
    fin = vcfabs.parse_vcf(in_path)
    err = run_writer_direct(in_path, out_path, cfgd, plan, cmdline)
    desc = f"direct cfg={cfgd} file={idx} err={err}"
    if err is not None and not err.startswith("KeyError"):
        return {"malformed": err, "replay": replay, "desc": desc, "fin": fin}
    try:
        fout = None if err else vcfabs.parse_vcf(out_path)
    except Exception as e:
        ctx.violation("writer:output-unreadable", f"the written VCF cannot be parsed ({type(e).__name__}: {e}): " + desc, replay)
        return {"malformed": "output unreadable", "replay": replay, "desc": desc, "fin": fin, "reported": True}
    if fout is not None and fout.nul_bytes:
        ctx.tally("cases.output_with_nul_bytes")
    if fout is not None and fout.nul_bytes and ctx.dist.get("cases.output_with_nul_bytes", 0) <= 2:
        ctx.violation("writer:hp-unset-writes-nul-byte",
                      f"the output VCF contains {fout.nul_bytes} NUL byte(s) and cannot be read back by htslib ('truncated file'): "
                      "`call['HP'] = None` on every sample of a record that had no HP key makes pysam write \\x00 as the "
                      "field value: " + desc, replay)
    term = case_term(cfgd, plan, fin, fout, False, cmdline)
    return {"term": term, "replay": replay, "desc": desc, "fin": fin, "fout": fout, "err": err,
            "no_header_l2": fout is None}


def plan_from_json(p):
    return [(c, {s: ([(q, list(a)) for q, a in v[0]], {int(k): int(x) for k, x in v[1]}) for s, v in t.items()}) for c, t in p]


def expected_header_error(vt):
    """does the input use an INFO/FORMAT that is neither declared nor predefined (VcfError expected)?"""
    txt = "\n".join(vt.header_lines)
    if "ID=PS,Number=1,Type=String" in txt:
        return True             # missing_headers refuses a PS of non-standard type
    for r in vt.rows:
        if "XU=" in r[7] and "ID=XU" not in txt:
            return True
        if len(r) > 8 and "XG" in r[8].split(":") and "ID=XG" not in txt:
            return True
    return False


def record_kind(row):
    alt = row[4]
    if alt == ".":
        return "noalt"
    if any(a.startswith("<") for a in alt.split(",")):
        return "sym"
    if "," in alt:
        return "multi"
    return "snv" if len(row[3]) == 1 and len(alt) == 1 else "indel"


def tally_shapes(ctx, prefix, vt):
    """input-distribution counters for the shapes the skip rules and the stream logic depend on"""
    rows = vt.rows
    ctx.tally(f"{prefix}.samples.{len(vt.samples)}")
    if not rows:
        ctx.tally(f"{prefix}.empty_file")
    if vt.samples != sorted(vt.samples):
        ctx.tally(f"{prefix}.sample_names_unsorted")
    chroms = []
    for r in rows:
        if not chroms or chroms[-1] != r[0]:
            chroms.append(r[0])
    ctx.tally(f"{prefix}.chromosome_runs.{min(len(chroms), 4)}")
    if chroms != sorted(chroms):
        ctx.tally(f"{prefix}.chromosome_names_unsorted")
    i = 0
    while i < len(rows):
        j = i
        while j + 1 < len(rows) and rows[j + 1][0] == rows[i][0] and rows[j + 1][1] == rows[i][1]:
            j += 1
        if j > i:
            ctx.tally(f"{prefix}.dup." + ">".join(record_kind(r) for r in rows[i:j + 1][:3]))
        i = j + 1
    for r in rows:
        ctx.tally(f"{prefix}.kind." + record_kind(r))
        if len(r) > 9:
            fmt = r[8].split(":")
            for call in r[9:]:
                f = call.split(":")
                gt = f[0] if fmt[0] == "GT" else None
                vals = dict(zip(fmt, f))
                if gt is not None:
                    for k in ("PS", "HP"):
                        if vals.get(k, ".") not in (".", ""):
                            ctx.tally(f"{prefix}.pre_{k}_with_" + ("pipe" if "|" in gt else "slash"))
                    if "|" in gt and vals.get("PS", ".") in (".", ""):
                        ctx.tally(f"{prefix}.pipe_without_PS")
                hpv = vals.get("HP", ".")
                if hpv not in (".", "") and not re.fullmatch(r"\d+-\d+(,\d+-\d+)*", hpv):
                    ctx.tally(f"{prefix}.pre_HP_foreign." + ("single" if "," not in hpv else "multi"))
                if "." in vals.get("PS", "") and vals["PS"] != ".":
                    ctx.tally(f"{prefix}.pre_PS_non_integral")
                if vals.get("PQ", ".") not in (".", ""):
                    ctx.tally(f"{prefix}.pre_PQ")


def run_direct(ctx, n):
    rng = ctx.rng
    wd = util.workdir(ctx)
    cases = []
    for idx in range(n):
        unknown = rng.random() < 0.04
        vt, meta = vcfgen.gen_vcf(rng, allow_unknown_undeclared=unknown, interleave_chroms=rng.random() < 0.1,
                                  nrec=0 if rng.random() < 0.02 else None)
        tally_shapes(ctx, "direct", vt)
        cfgd = {"tag": rng.choice(["PS", "HP"]), "only_snvs": rng.random() < 0.25, "mav": rng.random() < 0.15,
                "use_write_unchanged": rng.random() < 0.3}
        plan = gen_plan(rng, vt, meta, cfgd)
        cmdline = rng.choice([None, None, '(whatshap x) phase "a" b'])
        c = make_direct_case(ctx, wd, idx, vt, meta, cfgd, plan, cmdline)
        ctx.tally("direct.files")
        ctx.tally("direct.tag." + cfgd["tag"])
        for k in ("only_snvs", "mav", "use_write_unchanged"):
            if cfgd[k]:
                ctx.tally("direct." + k)
        if len(meta["runs"]) > len(set(meta["runs"])):
            ctx.tally("direct.chromosome_in_two_runs")
        for c_, t_ in plan:
            ctx.tally("direct.targets_per_write.%d" % min(len(t_), 4))
        ctx.tally("direct.cmdline_header" if cmdline else "direct.no_cmdline_header")
        ctx.tally("direct.prephase." + str(meta["prephase"]))
        if c.get("reported"):
            ctx.count(("direct-unreadable", vt.text()), nontrivial=False)
            continue
        if "malformed" in c:
            ctx.tally("direct.rejected")
            exp = expected_header_error(vt)
            if not (exp and c["malformed"].startswith("VcfError")):
                ctx.violation("writer:crash", "PhasedVcfWriter raised on a well-formed input: " + c["desc"], c["replay"])
            ctx.count(("direct-rej", vt.text()), nontrivial=False)
            continue
        if expected_header_error(vt):
            ctx.l2_disagreement("VcfError expected for an undeclared non-predefined INFO/FORMAT or a non-Integer PS", [c["desc"]])
        ctx.count(("direct", vt.text(), json.dumps(cfgd, sort_keys=True), json.dumps(c["replay"]["plan"], sort_keys=True)),
                  nontrivial=nontrivial(c["fin"], c.get("fout"), plan, cfgd["tag"]))
        if c["err"]:
            ctx.tally("direct.keyerror_no_gt")
        ctx.tally("direct.records", len(c["fin"].records))
        if idx < 2:
            ctx.sample({"kind": "direct", "cfg": cfgd, "input": vt.text()[:1500], "plan": c["replay"]["plan"]})
        cases.append(c)
    return evaluate(ctx, cases, "d"), cases


# ----------------------------------------------------------------------------------- CLI mode
def decorate_scenario(rng, sc, opts):
    """VCF text for a synth scenario with the C04 features added around the true (diploid) genotypes:
    1/0 order, pre-existing PS/HP phasing, missing genotypes, extra INFO/FORMAT fields, undeclared
    predefined definitions, and extra records that the phaser must leave alone (multi-ALT, symbolic ALT,
    no ALT, duplicate positions)."""
    samples = sc.samples
    pre = rng.choice([None, None, "PS", "HP"])
    undeclared_fmt = set(rng.sample(["GQ", "AD"], 1)) if rng.random() < 0.25 else set()
    undeclared_info = set(rng.sample(["AC", "AN"], 1)) if rng.random() < 0.25 else set()
    no_contigs = rng.random() < 0.15
    hl = ["##fileformat=VCFv4.2"]
    if rng.random() < 0.5:
        hl.append("##phasing=none")
    hl.append("##source=synth")
    if rng.random() < 0.25:
        hl.append('##commandline="(whatshap 1.0) phase -o earlier.vcf x.vcf y.bam"')
    if not no_contigs:
        hl += [f"##contig=<ID={c},length={len(sc.ref[c])}>" for c in sc.chroms]
    hl += ['##FILTER=<ID=q10,Description="Quality below 10">', vcfgen.INFO_DEFS["DP"], vcfgen.INFO_DEFS["FL"],
           vcfgen.INFO_DEFS["AF"], vcfgen.FORMAT_DEFS["GT"], vcfgen.FORMAT_DEFS["DP"], vcfgen.FORMAT_DEFS["XF"]]
    for k in ("GQ", "AD"):
        if k not in undeclared_fmt:
            hl.append(vcfgen.FORMAT_DEFS[k])
    for k in ("AC", "AN"):
        if k not in undeclared_info:
            hl.append(vcfgen.INFO_DEFS[k])
    if pre == "PS" or rng.random() < 0.3:
        hl.append(vcfgen.FORMAT_DEFS["PS"])
    if pre == "HP":
        hl.append(vcfgen.FORMAT_DEFS["HP"])
    if pre:
        hl.append(vcfgen.FORMAT_DEFS["PQ"])
    if rng.random() < 0.5:
        hl.append(vcfgen.INFO_DEFS["END"])
    vt = vcfabs.VcfText(samples, hl)
    for c in sc.chroms:
        rows = []
        for i, v in enumerate(sc.variants[c]):
            keys = [k for k in ("GQ", "DP", "AD", "XF") if rng.random() < 0.35]
            rng.shuffle(keys)
            fmt = ["GT"] + keys + ([pre] if pre and rng.random() < 0.7 else [])
            if pre and pre in fmt and rng.random() < 0.3:
                fmt.append("PQ")
            calls = []
            for s in samples:
                a, b = sc.haps[s][c][i]
                r = rng.random()
                if r < 0.06:
                    gt = rng.choice(["./.", "0/.", "."])
                elif pre == "PS" and "PS" in fmt and a != b and rng.random() < 0.7:
                    gt = rng.choice([f"{a}|{b}", f"{b}|{a}"])
                elif pre == "HP" and "HP" in fmt and a != b and rng.random() < 0.12:
                    gt = rng.choice([f"{a}|{b}", f"{b}|{a}"])          # a pipe next to an HP value
                elif a == b and r < 0.16:
                    gt = "0/1"                                # wrong call: the reads show a homozygous site
                elif r < 0.25:
                    gt = f"{max(a, b)}/{min(a, b)}"          # 1/0 order
                else:
                    gt = f"{min(a, b)}/{max(a, b)}"
                vals = [gt]
                for k in fmt[1:]:
                    if k == "GQ":
                        vals.append(str(rng.randint(20, 99)))
                    elif k == "DP":
                        vals.append(str(rng.randint(1, 60)))
                    elif k == "AD":
                        vals.append(f"{rng.randint(0, 30)},{rng.randint(0, 30)}")
                    elif k == "XF":
                        vals.append(rng.choice(["a", "bc", "."]))
                    elif k == "PS":
                        vals.append(str(sc.variants[c][0].pos + 1) if "|" in gt or rng.random() < 0.2 else ".")
                    elif k == "HP":
                        b0 = sc.variants[c][0].pos + 1
                        if rng.random() < 0.2:
                            vals.append(rng.choice(vcfgen.FOREIGN_HP))       # HP written by another tool
                        else:
                            vals.append(rng.choice([f"{b0}-1,{b0}-2", f"{b0}-2,{b0}-1"]) if a != b and gt[0].isdigit() and rng.random() < 0.7 else ".")
                    elif k == "PQ":
                        vals.append(rng.choice(["42", "3.5", "0.125", "."]))
                while len(vals) > 1 and vals[-1] == "." and rng.random() < 0.5:
                    vals.pop()
                calls.append(":".join(vals))
            items = []
            if rng.random() < 0.3:
                items.append(f"DP={rng.randint(1, 99)}")
            if rng.random() < 0.2:
                items.append("FL")
            if rng.random() < 0.2:
                items.append("AF=0.5")
            for k in ("AC", "AN"):
                if rng.random() < 0.3:
                    items.append(f"{k}={rng.randint(1, 4)}")
            rows.append((v.pos + 1, [c, v.pos + 1, v.ref, v.alt, ":".join(fmt), calls,
                                      rng.choice([".", f"rs{v.pos}"]), rng.choice([".", "30", "29.5"]),
                                      rng.choice([".", "PASS", "q10"]), ";".join(items) or "."]))
            # a duplicate of this position with another ALT
            if rng.random() < 0.12:
                alt2 = v.ref + "TT" if not v.alt.startswith(v.ref + "TT") else v.ref + "GG"
                rows.append((v.pos + 1, [c, v.pos + 1, v.ref, alt2, "GT", [rng.choice(["0/1", "1|0", "1/1"]) for _ in samples],
                                          ".", ".", ".", "."]))
        # a record the writer must skip, at the SAME position directly BEFORE a real variant
        for v in sc.variants[c]:
            if rng.random() < 0.1:
                other = [b for b in "ACGT" if b != v.ref[0]]
                kind = rng.choice(["multi", "multi_phased", "sym", "noalt"])
                if kind == "multi":
                    rows.append((v.pos + 0.5, [c, v.pos + 1, v.ref, other[0] + "," + other[1], "GT", [rng.choice(["1/2", "0/1"]) for _ in samples], ".", ".", ".", "."]))
                elif kind == "multi_phased":
                    rows.append((v.pos + 0.5, [c, v.pos + 1, v.ref, other[0] + "," + other[1], "GT:PS", [rng.choice(["1|2:7", "2|1:7"]) for _ in samples], ".", ".", ".", "."]))
                elif kind == "sym":
                    rows.append((v.pos + 0.5, [c, v.pos + 1, v.ref[0], "<DEL>", "GT", ["0/0" for _ in samples], ".", ".", ".", "."]))
                else:
                    rows.append((v.pos + 0.5, [c, v.pos + 1, v.ref[0], ".", "GT", ["0/0" for _ in samples], ".", ".", ".", "."]))
        # extra records between / around the variants
        L = len(sc.ref[c])
        taken = {v.pos for v in sc.variants[c]}
        for _ in range(rng.randint(0, 4)):
            p0 = rng.randint(5, L - 10)
            if any(abs(p0 - t) < 3 for t in taken):
                continue
            taken.add(p0)
            refb = sc.ref[c][p0]
            other = [b for b in "ACGT" if b != refb]
            kind = rng.choice(["multi", "sym", "sym_end", "noalt", "multi_phased"])
            if kind == "multi":
                rows.append((p0 + 1, [c, p0 + 1, refb, other[0] + "," + other[1], "GT:GQ", [rng.choice(["1/2", "0/1", "0/2"]) + ":50" for _ in samples], ".", ".", ".", "."]))
            elif kind == "multi_phased":
                rows.append((p0 + 1, [c, p0 + 1, refb, other[0] + "," + other[1], "GT:PS", [rng.choice(["1|2:7", "0|1:7", "2|0:7"]) for _ in samples], ".", ".", ".", "."]))
            elif kind == "sym":
                rows.append((p0 + 1, [c, p0 + 1, refb, rng.choice(["<DEL>", "<INS>", "<*>"]), "GT", [rng.choice(["0/0", "./."]) for _ in samples], ".", ".", ".", "DP=5" if rng.random() < 0.5 else "."]))
            elif kind == "sym_end":
                rows.append((p0 + 1, [c, p0 + 1, refb, "<DEL>", "GT", [rng.choice(["0/0", "./."]) for _ in samples], ".", ".", ".", f"END={p0 + 4}"]))
            else:
                rows.append((p0 + 1, [c, p0 + 1, refb, ".", "GT:DP", ["0/0:9" for _ in samples], ".", ".", ".", "."]))
        rows.sort(key=lambda x: x[0])        # stable: a duplicate stays behind its original
        for _, r in rows:
            vt.add(r[0], r[1], r[2], r[3], r[4], r[5], id=r[6], qual=r[7], filt=r[8], info=r[9])
    if any("END=" in r[7] for r in vt.rows) and vcfgen.INFO_DEFS["END"] not in vt.header_lines and rng.random() < 0.7:
        vt.header_lines.append(vcfgen.INFO_DEFS["END"])
    return vt


def gen_cli_input(rng):
    nchrom = rng.choice([1, 2, 2, 3])
    ped = rng.random() < 0.25
    nsamples = 3 if ped else rng.choice([1, 2, 3])
    sc = synth.make_scenario(rng, nchrom=nchrom, nsamples=nsamples, nvars=rng.randint(3, 8),
                             kinds=("snv", "snv", "snv", "ins", "del", "mnp"), het_fraction=0.8,
                             sample_names=vcfgen.draw_names(rng, vcfgen.SAMPLE_NAMES, nsamples),
                             chrom_names=vcfgen.draw_names(rng, vcfgen.CHROM_NAMES, nchrom))
    trios = []
    if ped:
        roles = list(sc.samples)
        rng.shuffle(roles)                      # which column is the child does not follow the names or the order
        ch, fa, mo = roles
        for c in sc.chroms:
            sc.haps[ch][c], _ = synth.inherit(rng, sc.haps[fa][c], sc.haps[mo][c], recomb_prob=0.0)
        trios = [(ch, fa, mo)]
    no_reads_for = rng.choice(sc.samples) if nsamples > 1 and not ped and rng.random() < 0.15 else None
    reads = []
    for s in sc.samples:
        if s == no_reads_for:
            continue
        for c in sc.chroms:
            reads += synth.simulate_reads(rng, sc, s, c, n_reads=rng.randint(4, 14), len_range=(80, 260))
    opts = {"tag": rng.choice(["PS", "HP"]), "only_snvs": rng.random() < 0.25, "distrust": rng.random() < 0.25,
            "samples": None, "chromosomes": None, "ped": trios}
    if not ped and nsamples > 1 and rng.random() < 0.6:
        opts["samples"] = rng.sample(sc.samples, rng.randint(1, nsamples))        # any order, possibly all
    if nchrom > 1 and rng.random() < 0.5:
        opts["chromosomes"] = rng.sample(sc.chroms, rng.randint(1, nchrom))
    # not drawn (crash on well-formed input, outside this property's quantifier; reported to the coordinator):
    # --algorithm heuristic with --ped (AssertionError on the super-reads' sample ids), --algorithm hapchat
    # (AssertionErrors in decorated multi-sample / wrong-genotype runs), --merge-reads with more than one sample
    # ("Individual with ID 0 not present in pedigree" / "duplicate read name")
    opts["algorithm"] = rng.choice(["whatshap"] * 4 + ([] if ped else ["heuristic"]))
    opts["include_homozygous"] = opts["distrust"] and rng.random() < 0.4
    opts["no_reference"] = rng.random() < 0.15
    opts["merge_reads"] = nsamples == 1 and rng.random() < 0.2
    opts["max_coverage"] = rng.choice([None, None, None, 5, 2])
    opts["ignore_read_groups"] = nsamples == 1 and rng.random() < 0.3
    opts["no_genetic_haplotyping"] = ped and rng.random() < 0.3
    opts["use_ped_samples"] = ped and rng.random() < 0.3
    opts["stdout"] = rng.random() < 0.2
    opts["gz_input"] = rng.random() < 0.15
    opts["two_bams"] = len(reads) > 4 and rng.random() < 0.2
    opts["no_reads_for"] = no_reads_for
    vt = decorate_scenario(rng, sc, opts)
    opts["unusable"] = None
    if rng.random() < 0.3:
        # a (selected or not) chromosome on which nothing can be phased, carrying earlier phasing of every sample
        kind = rng.choice(vcfgen.UNUSABLE_KINDS)
        ci = rng.randrange(len(sc.chroms))
        where = "only" if len(sc.chroms) == 1 else "first" if ci == 0 else "last" if ci == len(sc.chroms) - 1 else "middle"
        enc = rng.choice(["PS", "HP"])
        vcfgen.make_unusable_chromosome(rng, vt, sc.chroms[ci], kind, enc)
        if kind == "all_indel_only_snvs":
            opts["only_snvs"] = True
        opts["unusable"] = [kind, where, enc]
    return sc, reads, vt, opts


def run_cli_case(ctx, wd, idx, sc, reads, vt, opts):
    d = os.path.join(wd, f"c{idx}")
    os.makedirs(d, exist_ok=True)
    in_path, out_path, trace = os.path.join(d, "in.vcf"), os.path.join(d, "out.vcf"), os.path.join(d, "trace.jsonl")
    vt.write(in_path)
    in_arg = "in.vcf"
    if opts.get("gz_input"):
        import pysam
        pysam.tabix_compress(in_path, in_path + ".gz", force=True)
        in_arg = "in.vcf.gz"
    synth.write_fasta(sc, os.path.join(d, "ref.fa"))
    bams = ["reads.bam"]
    if opts.get("two_bams"):
        synth.write_bam(sc, reads[0::2], os.path.join(d, "reads.bam"))
        synth.write_bam(sc, reads[1::2], os.path.join(d, "reads2.bam"))
        bams.append("reads2.bam")
    else:
        synth.write_bam(sc, reads, os.path.join(d, "reads.bam"))
    args = ["phase", "--tag", opts["tag"]]
    args += ["--no-reference"] if opts.get("no_reference") else ["--reference", "ref.fa"]
    if not opts.get("stdout"):
        args += ["-o", "out.vcf"]
    if opts["only_snvs"]:
        args.append("--only-snvs")
    if opts["distrust"]:
        args.append("--distrust-genotypes")
    if opts.get("include_homozygous"):
        args.append("--include-homozygous")
    if opts.get("algorithm", "whatshap") != "whatshap":
        args += ["--algorithm", opts["algorithm"]]
    if opts.get("merge_reads"):
        args.append("--merge-reads")
    if opts.get("max_coverage"):
        args += ["--max-coverage", str(opts["max_coverage"])]
    if opts.get("ignore_read_groups"):
        args.append("--ignore-read-groups")
    for s in opts["samples"] or []:
        args += ["--sample", s]
    for c in opts["chromosomes"] or []:
        args += ["--chromosome", c]
    if opts["ped"]:
        synth.write_ped(os.path.join(d, "fam.ped"), opts["ped"])
        args += ["--ped", "fam.ped"]
        if opts.get("no_genetic_haplotyping"):
            args.append("--no-genetic-haplotyping")
        if opts.get("use_ped_samples"):
            args.append("--use-ped-samples")
    args += [in_arg] + bams
    rc, so, se = util.run_cli(ctx, args, cwd=d, env_extra={"WHATSHAP_VERIF_TRACE": trace})
    if opts.get("stdout") and rc == 0:
        with open(out_path, "w") as f:
            f.write(so)
    return d, in_path, out_path, trace, args, rc, se


_PADS = {}


def writer_gets_every_family_member():
    """The trace hook records the solver result before run_whatshap assembles the writer's inputs. As the code stands a
    family member for which the algorithm returned no super-reads (--algorithm heuristic with nothing to phase) is
    simply not passed to the writer; a candidate repair passes it with an empty ReadSet. Which of the two the
    implementation under test does is read off its source (marker: `if sample not in superreads`)."""
    if "v" not in _PADS:
        import inspect
        import whatshap.cli.phase as ph
        _PADS["v"] = "if sample not in superreads" in inspect.getsource(ph.run_whatshap)
    return _PADS["v"]


def plan_from_trace(fin, trace_path, opts):
    """the writer's inputs per chromosome run, as run_whatshap assembles them (one trace line per
    (chromosome, family), in processing order)."""
    lines = [json.loads(x) for x in open(trace_path)] if os.path.exists(trace_path) else []
    by_chrom = {}
    for ln in lines:
        by_chrom.setdefault(ln["chromosome"], []).append(ln)
    runs = []
    for r in fin.records:
        if not runs or runs[-1] != r.chrom:
            runs.append(r.chrom)
    plan = []
    for c in runs:
        targets = {}
        if not opts["chromosomes"] or c in opts["chromosomes"]:
            for ln in by_chrom.get(c, []):
                comp = {int(p): int(v) for p, v in ln["components"]}
                for s, srs in zip(ln["family"], ln["superreads"]):
                    assert len(srs) == 2 and [x[0] for x in srs[0]] == [x[0] for x in srs[1]]
                    sr = [(int(a[0]), [int(a[1]), int(b[1])]) for a, b in zip(srs[0], srs[1])]
                    targets[s] = (sr, comp)
                if writer_gets_every_family_member():
                    for s in ln["family"]:
                        targets.setdefault(s, ([], comp))
        plan.append((c, targets))
    return plan


def make_cli_case(ctx, wd, idx, sc, reads, vt, opts):
    d, in_path, out_path, trace, args, rc, se = run_cli_case(ctx, wd, idx, sc, reads, vt, opts)
    replay = {"kind": "cli", "scenario": sc.to_json(), "reads": reads, "vcf": vt.to_json(), "opts": opts}
    desc = f"cli {' '.join(args)} (case {idx})"
    if rc != 0:
        return {"malformed": se[-400:], "replay": replay, "desc": desc}
    fin = vcfabs.parse_vcf(in_path)
    try:
        fout = vcfabs.parse_vcf(out_path)
    except Exception as e:
        return {"malformed": f"the written VCF cannot be parsed ({type(e).__name__}: {e})", "replay": replay, "desc": desc}
    if fout.nul_bytes:
        ctx.tally("cases.output_with_nul_bytes")
    if fout.nul_bytes and ctx.dist.get("cases.output_with_nul_bytes", 0) <= 2:
        ctx.violation("writer:hp-unset-writes-nul-byte",
                      f"the output VCF of `whatshap {' '.join(args)}` contains {fout.nul_bytes} NUL byte(s) and cannot be "
                      "read back by htslib", replay)
    plan = plan_from_trace(fin, trace, opts)
    cfgd = {"tag": opts["tag"], "only_snvs": opts["only_snvs"], "mav": False}
    cmdline = None
    for k, v in fout.header.generic:
        if k == "commandline":
            cmdline = v.strip(chr(34))
    # the specification's targets: every selected sample on every selected chromosome
    if opts.get("samples"):
        selected = set(opts["samples"])
    elif opts.get("ped") and opts.get("use_ped_samples"):
        selected = set(opts["ped"][0])
    else:
        selected = set(fin.samples)
    sel_plan = []
    for c, t in plan:
        chosen = not opts["chromosomes"] or c in opts["chromosomes"]
        sel_plan.append((c, {sm: t.get(sm, ([], {})) for sm in fin.samples if sm in t or (chosen and sm in selected)}))
    term = case_term(cfgd, plan, fin, fout, opts["distrust"], cmdline, cli=True, sel_plan=sel_plan)
    return {"term": term, "replay": replay, "desc": desc, "fin": fin, "fout": fout, "plan": plan, "cfgd": cfgd}


def run_cli(ctx, n):
    rng = ctx.rng
    wd = util.workdir(ctx)
    inputs = [gen_cli_input(rng) for _ in range(n)]
    with ThreadPoolExecutor(max_workers=12) as ex:
        res = list(ex.map(lambda t: make_cli_case(ctx, wd, t[0], *t[1]), enumerate(inputs)))
    cases = []
    for (sc, reads, vt, opts), c in zip(inputs, res):
        ctx.tally("cli.runs")
        ctx.tally("cli.tag." + opts["tag"])
        for k in ("only_snvs", "distrust"):
            if opts[k]:
                ctx.tally("cli." + k)
        if opts["samples"]:
            ctx.tally("cli.sample_selection")
        if opts["chromosomes"]:
            ctx.tally("cli.chromosome_selection")
        if opts["ped"]:
            ctx.tally("cli.ped")
        for k in ("algorithm",):
            ctx.tally(f"cli.{k}.{opts.get(k)}")
        for k in ("include_homozygous", "no_reference", "merge_reads", "max_coverage", "ignore_read_groups",
                  "no_genetic_haplotyping", "use_ped_samples", "stdout", "gz_input", "two_bams", "no_reads_for"):
            if opts.get(k):
                ctx.tally("cli." + k)
        tally_shapes(ctx, "cli", vt)
        if opts.get("unusable"):
            ctx.tally("cli.unusable_chromosome." + ".".join(opts["unusable"]))
            ctx.tally("cli.unusable_chromosome" + (".with_sample_selection" if opts["samples"] else ".all_samples")
                      + (".multi_sample" if len(sc.samples) > 1 else ".single_sample"))
        if "malformed" in c:
            ctx.tally("cli.failed")
            ctx.violation("phase:crash", "whatshap phase failed on a well-formed input: " + c["desc"] + " :: " + c["malformed"][-300:],
                          c["replay"])
            ctx.count(("cli-rej", vt.text()), nontrivial=False)
            continue
        ctx.count(("cli", vt.text(), json.dumps(opts, sort_keys=True)),
                  nontrivial=nontrivial(c["fin"], c["fout"], c["plan"], opts["tag"]))
        ctx.tally("cli.records", len(c["fin"].records))
        if len(cases) < 2:
            ctx.sample({"kind": "cli", "cmd": c["desc"], "input": vt.text()[:1500]})
        cases.append(c)
    return evaluate(ctx, cases, "c"), cases


def quiet_htslib():
    """htslib prints a warning for every undeclared header item of the generated files"""
    import pysam
    pysam.set_verbosity(0)


def run(ctx):
    quiet_htslib()
    run_direct(ctx, ctx.n(600, 5000))
    run_cli(ctx, ctx.n(120, 900))


def replay(ctx, data):
    quiet_htslib()
    wd = util.workdir(ctx)
    if data.get("kind") == "direct":
        vt = vcfabs.VcfText.from_json(data["vcf"])
        c = make_direct_case(ctx, wd, 0, vt, None, data["cfg"], plan_from_json(data["plan"]), data.get("cmdline"))
        ctx.count(("replay",), nontrivial=True)
        if "malformed" in c:
            ctx.log("writer rejected the input: " + c["malformed"])
            return
        evaluate(ctx, [c], "r")
    elif data.get("kind") == "cli":
        sc = synth.Scenario.from_json(data["scenario"])
        c = make_cli_case(ctx, wd, 0, sc, data["reads"], vcfabs.VcfText.from_json(data["vcf"]), data["opts"])
        ctx.count(("replay",), nontrivial=True)
        if "malformed" in c:
            ctx.log("whatshap phase failed: " + c["malformed"])
            return
        evaluate(ctx, [c], "r")
    else:
        run(ctx)
