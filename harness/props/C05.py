"""C05 — pedigree phasing is Mendelian-consistent and ordered paternal|maternal."""
import itertools
import json
import os
import random
from concurrent.futures import ThreadPoolExecutor

from .. import mendel_drv as md
from ..coqeval import eval_checks
from ..util import run_cli, workdir

RULE = ("(a) direct: the real PedigreeDPTable (child process) on pedigrees {trio, two-child quartet, three generations} "
        "with shuffled individual order and sometimes an unrelated extra individual; all 27 (trio) / 81 (quartet) genotype "
        "combinations in the first column (exhaustive, with and without reads; thorough: all 27^3 trio and 81^2 quartet "
        "column combinations) x random further columns (Mendelian-consistent with recombination, arbitrary, or with a "
        "missing genotype) x 0-7 random reads with gaps/noise/qualities x random recombination costs. Per column Coq "
        "evaluates L2 (model get_alleles for the implementation's own transmission value and bipartition = super-read "
        "alleles, ties included) and L1 (child allele in the parent's genotype, equal to the parent's allele on the "
        "haplotype selected by the transmission value, non-tie pairs reproduce the genotype); instances with a column "
        "admitting no assignment must raise 'Mendelian conflict' and only those. (b) CLI: `whatshap phase --ped` on "
        "synthetic families with 1-3 children (sometimes two independent families; children built by synth.inherit with "
        "recombination), RANDOM sample names, VCF column order and PED line order shuffled independently of the roles, "
        "sometimes an unrelated sample; the trios of the PED file (not those the run reports) are the ground truth of L1; reads for all/some/none of the members, uniform (--recombrate) and --genmap "
        "costs, --no-genetic-haplotyping, injected Mendelian conflicts / missing genotypes / untrue genotypes; per variant "
        "Coq evaluates the property text on (input genotypes, output calls a|b:PS, traced transmission value) and the "
        "model chain accessible -> get_alleles -> write_call against trace and output. One evaluation = one column / "
        "variant of one family; non-trivial = a child is phased or the column is conflicting/missing; distinct = "
        "distinct (pedigree, column data).")
TRUSTED = [
    "modelled, not verified: the dynamic program's choice of transmission value and bipartition per column (C01) - C05's "
    "theorems hold for every choice and the check replays the implementation's own choice (trace / get_optimal_partitioning)",
    "modelled, not verified: VCF/BAM/PED parsing and allele detection (pysam/htslib; C06), read selection (C07), "
    "component computation (C03): `pos in components` is modelled as `position is accessible`",
    "output calls are read from the text of the output VCF (GT a|b and PS) by the harness; only --tag PS is exercised",
    "unsigned int cost arithmetic of get_alleles is modelled in Z with the (int) casts; no overflow below 2^31",
]
ASSUMPTIONS = [
    "trusted genotypes (no --distrust-genotypes), diploid bi-allelic genotypes or missing, default exact algorithm",
    "acyclic pedigree given with a topological numbering, every individual child of at most one triple (PedReader enforces it)",
    "the sum of phred scores of one column is below 2^31 - 1 (theorem C05_forced_without_reads; any real coverage)",
]

HEADER = """From Coq Require Import ZArith NArith List Bool Arith.
From WH.Model Require Import Mendel.
Import ListNotations.
"""


# ======================================================================================= direct
def combos(n_members):
    return list(itertools.product(md.GENOS, repeat=n_members))


def direct_instances(ctx):
    rng = ctx.rng
    insts = []
    # exhaustive first-column genotype combinations, trio and quartet, with and without reads
    for kind, k in (("trio", 3), ("quartet", 4)):
        for combo in combos(k):
            for no_reads in (True, False):
                for ncols in (1, 2):
                    inst = md.make_instance(rng, kind=kind, ncols=ncols, mode="consistent", extra=False,
                                            no_reads=no_reads)
                    # the combination is given in role order F, M, C(, C2): map to the shuffled indices
                    names = inst["ped"]["names"]
                    role = {"trio": ["F", "M", "C"], "quartet": ["F", "M", "C1", "C2"]}[kind]
                    col = [None] * len(names)
                    for r, g in zip(role, combo):
                        col[names.index(r)] = list(g)
                    inst["genos"][0] = col
                    inst["tag"] = "exh1"
                    insts.append(inst)
    ctx.extra["exhaustive_first_column_genotype_combinations"] = {"trio": 27, "quartet": 81}
    if not ctx.quick:
        role3 = ["F", "M", "C"]
        all3 = combos(3)
        for c0 in all3:
            for c1 in all3:
                for c2 in all3:
                    inst = md.make_instance(rng, kind="trio", ncols=3, mode="consistent", extra=False)
                    names = inst["ped"]["names"]
                    for j, combo in enumerate((c0, c1, c2)):
                        col = [None] * 3
                        for r, g in zip(role3, combo):
                            col[names.index(r)] = list(g)
                        inst["genos"][j] = col
                    inst["tag"] = "exh3"
                    insts.append(inst)
        role4 = ["F", "M", "C1", "C2"]
        all4 = combos(4)
        for c0 in all4:
            for c1 in all4:
                inst = md.make_instance(rng, kind="quartet", ncols=2, mode="consistent", extra=False)
                names = inst["ped"]["names"]
                for j, combo in enumerate((c0, c1)):
                    col = [None] * 4
                    for r, g in zip(role4, combo):
                        col[names.index(r)] = list(g)
                    inst["genos"][j] = col
                inst["tag"] = "exh2q"
                insts.append(inst)
        ctx.exhaustive = True
    for kind in ("trio", "quartet", "quintet", "threegen"):       # no variant at all
        inst = md.make_instance(rng, kind=kind, ncols=0)
        inst["tag"] = "empty"
        insts.append(inst)
    for _ in range(ctx.n(1200, 15000)):
        inst = md.make_instance(rng)
        inst["tag"] = "rnd"
        insts.append(inst)
    return insts


def evaluate_direct(ctx, insts, results, perturb=None):
    ok_cases, ok_meta, cf_cases, cf_meta = [], [], [], []
    for inst, res in zip(insts, results):
        ped = inst["ped"]
        key = json.dumps([ped["triples"], ped["n"], inst["genos"], inst["reads"], inst["recomb"]], sort_keys=True)
        ctx.tally("direct." + ped["kind"])
        ctx.tally("direct.tag." + inst.get("tag", "replay"))
        if not inst["reads"]:
            ctx.tally("direct.no_reads")
        ctx.tally("direct.ncols." + str(len(inst["positions"])))
        ctx.tally("direct.n_individuals." + str(ped["n"]))
        ctx.tally("direct.reads", len(inst["reads"]))
        ctx.tally("direct.single_variant_reads", sum(1 for r in inst["reads"] if len(r["vars"]) == 1))
        ctx.tally("direct.quality0_entries", sum(1 for r in inst["reads"] for v in r["vars"] if v[2] == 0))
        ctx.tally("direct.recomb_cost0_columns", sum(1 for x in inst["recomb"] if x == 0))
        ctx.tally("direct.index_order." + ("topological" if all(f < c and m < c for f, m, c in ped["triples"])
                                           else "child_before_parent"))
        if res is None or "crash" in res:
            ctx.count(key, nontrivial=False)
            ctx.violation("pedmec:crash", f"PedigreeDPTable killed the process (rc {res and res.get('crash')}): "
                          f"{res and res.get('msg')}", {"direct": inst})
            continue
        if res["ok"]:
            if perturb:
                perturb(inst, res)
            n = ped["n"]
            if res["ids"] != [s[0] for s in res["sr_ids"]] or any(len(set(s)) != 1 for s in res["sr_ids"]):
                ctx.l2_disagreement("super-read order is not individual order", [{"direct": inst}])
                continue
            for j in range(len(inst["positions"])):
                ctx.count((key, j), nontrivial=True)
            ok_cases.append(md.direct_case_term(inst, res))
            ok_meta.append((inst, res))
            cf_cases.append(md.conflict_case_term(inst, False))
            cf_meta.append((inst, res))
            ctx.tally("direct.solved")
            ctx.tally("direct.columns", len(inst["positions"]))
            ctx.tally("direct.ties", sum(1 for s in res["sr"] for sr in s for _, a in sr if a == 3))
        else:
            ctx.count(key, nontrivial=True)
            if res["err"] == "RuntimeError" and "Mendelian conflict" in res["msg"]:
                cf_cases.append(md.conflict_case_term(inst, True))
                cf_meta.append((inst, res))
                ctx.tally("direct.raised_conflict")
            else:
                ctx.violation("pedmec:unexpected-error", f"PedigreeDPTable raised {res['err']}: {res['msg']}",
                              {"direct": inst})
    if len(ctx.samples) < 2 and ok_meta:
        inst, res = ok_meta[0]
        ctx.sample({"direct_instance": inst, "result": {k: res[k] for k in ("tv", "part", "sr", "cost")}})
    l2_bad = []
    if ok_cases:
        failing, errors = eval_checks("C05dir", HEADER, {"L1": "direct_l1", "L2": "direct_l2"}, ok_cases, shard=200)
        if errors:
            raise RuntimeError("coq evaluation failed: " + errors[0][1])
        for i in failing["L1"]:
            inst, res = ok_meta[i]
            ctx.violation("pedmec:mendel-superreads",
                          f"super-reads violate Mendelian consistency / paternal|maternal order: pedigree "
                          f"{inst['ped']}, genotypes {inst['genos']}, transmission {res['tv']}, super-reads {res['sr']}",
                          {"direct": inst})
        l2_bad = [ok_meta[i][0] for i in failing["L2"]]
    if cf_cases:
        failing, errors = eval_checks("C05cf", HEADER, {"CF": "direct_conflict"}, cf_cases, shard=120)
        if errors:
            raise RuntimeError("coq evaluation failed: " + errors[0][1])
        for i in failing["CF"]:
            inst, res = cf_meta[i]
            if res["ok"]:
                ctx.violation("pedmec:conflict-not-raised",
                              f"a column admits no allele assignment for any transmission value but PedigreeDPTable "
                              f"returned a phasing: pedigree {inst['ped']}, genotypes {inst['genos']}", {"direct": inst})
            else:
                l2_bad.append(inst)
                ctx.violation("pedmec:spurious-conflict",
                              f"'Mendelian conflict' raised although every column admits an assignment: pedigree "
                              f"{inst['ped']}, genotypes {inst['genos']}", {"direct": inst})
    if l2_bad:
        ctx.disagreements_checked += len(l2_bad)
        ctx.l2_disagreement("direct: model get_alleles / conflict oracle vs PedigreeDPTable",
                            [{"direct": i} for i in l2_bad])
    return l2_bad


def search_direct(ctx, n=4000):
    """wider seeded search with the python oracle after an L2 disagreement; candidates are confirmed in Coq"""
    rng = random.Random(repr(("C05-search", ctx.seed)))
    insts = [md.make_instance(rng) for _ in range(n)]
    results = md.run_direct(ctx, insts)
    cand = []
    for inst, res in zip(insts, results):
        if not res or not res.get("ok"):
            continue
        for j, pos in enumerate(inst["positions"]):
            alle = []
            for i in range(inst["ped"]["n"]):
                alle.append((dict(map(tuple, res["sr"][i][0])).get(pos), dict(map(tuple, res["sr"][i][1])).get(pos)))
            if not md.py_sr_column_ok(inst["ped"], inst["genos"][j], res["tv"][j], alle):
                cand.append((inst, res))
                break
    ctx.log(f"search: {len(cand)} candidate(s) among {n} extra instances")
    if cand:
        cases = [md.direct_case_term(i, r) for i, r in cand]
        failing, errors = eval_checks("C05srch", HEADER, {"L1": "direct_l1"}, cases, shard=250)
        for i in failing["L1"]:
            inst, res = cand[i]
            ctx.violation("pedmec:mendel-superreads", f"(search) super-reads violate Mendelian consistency: {inst['ped']} "
                          f"{inst['genos']} tv {res['tv']} sr {res['sr']}", {"direct": inst})


# ======================================================================================= CLI
def run_cli_case(ctx, spec, wd):
    os.makedirs(wd, exist_ok=True)
    sc, gts, override = md.build_cli_inputs(spec, wd)
    trace = os.path.join(wd, "trace.jsonl")
    for f in ("trace.jsonl", "out.vcf"):
        if os.path.exists(os.path.join(wd, f)):
            os.unlink(os.path.join(wd, f))
    rc, out, err = run_cli(ctx, md.cli_args(spec), cwd=wd, env_extra={"WHATSHAP_VERIF_TRACE": trace})
    traces = []
    if os.path.exists(trace):
        traces = [json.loads(l) for l in open(trace) if l.strip()]
    calls = md.parse_out_calls(os.path.join(wd, "out.vcf")) if rc == 0 else {}
    chroms = [spec["chromosome_arg"]] if spec["chromosome_arg"] else sc.chroms
    forms = {"unsorted": 0, "prephased": 0, "missing_partial": 0, "missing_dot": 0}
    for txt in override.values():
        if "|" in txt:
            forms["prephased"] += 1
        elif txt in ("1/0",):
            forms["unsorted"] += 1
        if txt in ("0/.", "./1"):
            forms["missing_partial"] += 1
        elif txt in (".", ".|."):
            forms["missing_dot"] += 1
    return {"spec": spec, "rc": rc, "err": err, "traces": traces, "calls": calls, "gts": gts, "chroms": chroms,
            "forms": forms}


def evaluate_cli(ctx, runs, perturb=None):
    """L1 is evaluated against the trios of the PED FILE (the ground truth of the property), L2 against the trios the
    run itself used (trace); if the two differ the model no longer describes the run (L2 disagreement) and L1 is
    evaluated without a reported transmission for the PED's trios."""
    l1_cases, l1_meta, l2_cases, l2_meta, trio_mismatch = [], [], [], [], []
    for run in runs:
        spec = run["spec"]
        replay = {"cli": spec}
        ctx.tally("cli.runs")
        ctx.tally("cli.kind." + spec["kind"])
        ctx.tally("cli.cost." + spec["cost"])
        ctx.tally("cli.genetic." + str(spec["genetic"]))
        ctx.tally("cli.reads_mode." + spec["reads_mode"])
        ctx.tally("cli.tag." + spec["tag"])
        ctx.tally("cli.sample_arg." + spec["sample_arg"])
        ctx.tally("cli.downsampling." + str(spec["downsampling"]))
        ctx.tally("cli.nvars." + ("1-3" if spec["nvars"] <= 3 else "5+"))
        ctx.tally("cli.nchrom." + str(spec["nchrom"]))
        for opt in ("only_snvs", "no_reference", "merge_reads", "recomb_list", "noisy_reads"):
            ctx.tally("cli.opt." + opt, int(bool(spec.get(opt))))
        ctx.tally("cli.opt.phased_input", int(spec["phased_input"] is not None))
        ctx.tally("cli.opt.chromosome_arg", int(spec["chromosome_arg"] is not None))
        ctx.tally("cli.opt.unrelated_sample", int(spec["other"] is not None))
        ctx.tally("cli.gt_forms_on", int(spec["gt_forms"] > 0))
        for k, v in run["forms"].items():
            ctx.tally("cli.gt_text." + k, v)
        ctx.tally("cli.ped.founder_lines", sum(1 for l in spec["ped_text"] if l.split()[2:4] == ["0", "0"]))
        ctx.tally("cli.ped.ignored_relationships",
                  sum(1 for l in spec["ped_text"] if l and not l.startswith("#") and l.split()[1:4] not in spec["ped_lines"]
                      and l.split()[2:4] != ["0", "0"]))
        ctx.tally("cli.ped.comment_or_blank_lines", sum(1 for l in spec["ped_text"] if not l or l.startswith("#")))
        # is a later PED line's child alphabetically smaller than everything merged before it?
        for fam in spec["families"]:
            seen = []
            kids = [t[0] for t in fam["trios"]]
            for ch, fa, mo in spec["ped_lines"]:
                if ch in kids:
                    if seen and ch < min(seen):
                        ctx.tally("cli.ped_later_child_sorts_first")
                    seen += [ch, fa, mo]
        if run["rc"] != 0:
            ctx.count(json.dumps(spec, sort_keys=True), nontrivial=False)
            err = run["err"]
            if spec["merge_reads"] and ("duplicate read name" in err or "not present in pedigree" in err):
                # merged reads are re-created as "read<N>" with sample_id 0 / source_id 0 (whatshap/merge.py)
                sig = "phase-ped:merge-reads-loses-read-identity"
            elif "Error: Mendelian conflict" in err:
                sig = "phase:mendelian-conflict-raised"
            else:
                sig = "phase:crash"
            ctx.violation(sig, f"whatshap phase --ped failed (exit {run['rc']}; args {md.cli_args(spec)}): {err[-500:]}", replay)
            continue
        if perturb:
            perturb(run)
        traced = {}
        for tr in run["traces"]:
            traced.setdefault((tr["chromosome"], frozenset(tr["family"])), []).append(tr)
        for fam in spec["families"]:
            members = fam["members"]
            kids = [t[0] for t in fam["trios"]]
            ped_trios = [tuple(l) for l in spec["ped_lines"] if l[0] in kids]      # (child, father, mother)
            for chrom in run["chroms"]:
                trs = traced.get((chrom, frozenset(members)), [])
                if len(trs) != 1:
                    # the run did not treat the PED family as one family: the model does not describe it; the property
                    # is still evaluated on the output alone (no transmission reported)
                    trio_mismatch.append({"cli": spec, "chromosome": chrom, "ped_family": members, "traced_families":
                                          [t["family"] for t in run["traces"] if t["chromosome"] == chrom]})
                    fam_order = [x for x in spec["samples"] if x in members]
                    tr = {"family": fam_order, "trios": [], "chromosome": chrom, "accessible_positions": [],
                          "numeric_ids": {x: i for i, x in enumerate(fam_order)}, "reads": [], "partitioning": [],
                          "superreads": [([], []) for _ in fam_order], "transmission_vector": [],
                          "genetic_haplotyping": spec["genetic"]}
                    idx = {x: i for i, x in enumerate(fam_order)}
                    ped_ts = [(idx[f], idx[m], idx[c]) for c, f, m in ped_trios]
                    term1, cmeta, ts1 = md.cli_case_term(tr, run["gts"], run["calls"], ts=ped_ts, with_tv=False)
                    l1_cases.append(term1)
                    l1_meta.append((replay, tr, cmeta, ts1))
                    for m in cmeta:
                        ctx.count((spec["seed"], chrom, members[0], m["pos"]), nontrivial=False)
                    continue
                tr = trs[0]
                idx = {s: i for i, s in enumerate(tr["family"])}
                ped_ts = [(idx[f], idx[m], idx[c]) for c, f, m in ped_trios]
                trace_ts = [(idx[f], idx[m], idx[c]) for c, f, m in tr["trios"]]
                same = sorted(ped_ts) == sorted(trace_ts)
                if same:
                    term1, cmeta, ts1 = md.cli_case_term(tr, run["gts"], run["calls"])
                else:
                    trio_mismatch.append({"cli": spec, "chromosome": chrom, "ped_trios": ped_trios, "traced_trios": tr["trios"]})
                    term1, cmeta, ts1 = md.cli_case_term(tr, run["gts"], run["calls"], ts=ped_ts, with_tv=False)
                l1_cases.append(term1)
                l1_meta.append((replay, tr, cmeta, ts1))
                term2, _, ts2 = md.cli_case_term(tr, run["gts"], run["calls"])
                l2_cases.append(term2)
                l2_meta.append((replay, tr))
                ts = ts1
                for m in cmeta:
                    conflict = md.py_conflict({"triples": ts}, m["gs"])
                    missing = any(not g for g in m["gs"])
                    child_phased = any(m["calls"][c] is not None for _, _, c in ts)
                    ctx.count((spec["seed"], chrom, members[0], m["pos"]), nontrivial=child_phased or conflict or missing)
                    ctx.tally("cli.variants")
                    ctx.tally("cli.conflict_variants", int(conflict))
                    ctx.tally("cli.missing_variants", int(missing))
                    ctx.tally("cli.child_phased_calls", sum(1 for _, _, c in ts if m["calls"][c] is not None))
                    ctx.tally("cli.accessible", int(m["acc"]))
                    forced = [c for f, mo, c in ts if len(set(m["gs"][c])) == 2 and
                              (len(set(m["gs"][f])) == 1 or len(set(m["gs"][mo])) == 1) and not conflict and not missing]
                    ctx.tally("cli.forced_child_calls", len(forced))
                tvs = tr["transmission_vector"]
                ctx.tally("cli.transmission_changes", sum(1 for a, b in zip(tvs, tvs[1:]) if a != b))
                ctx.tally("cli.family_instances")
                ctx.tally("cli.family_shape." + fam["shape"])
                parents_first = all(idx[f] < idx[c] and idx[m] < idx[c] for c, f, m in ped_trios)
                ctx.tally("cli.family_order." + ("topological" if parents_first else "child_before_parent"))
                ctx.tally("cli.superread_ties", sum(1 for srs in tr["superreads"] for sr in srs for _, a, _ in sr if a == 3))
                ctx.tally("cli.solver_reads", len(tr["reads"]))
                ctx.tally("cli.family_without_reads", int(not tr["reads"]))
                ctx.tally("cli.family_without_accessible_variant", int(not tr["accessible_positions"]))
    if len(ctx.samples) < 4 and l1_meta:
        replay, tr, cmeta, ts = l1_meta[0]
        ctx.sample({"cli_spec": replay["cli"], "family": tr["family"], "trios": tr["trios"],
                    "transmission_vector": tr["transmission_vector"], "variants": cmeta[:6]})
    if trio_mismatch:
        ctx.disagreements_checked += len(trio_mismatch)
        ctx.l2_disagreement("cli: trios used by the run differ from the trios of the PED file", trio_mismatch)
    if not l1_cases:
        return
    failing, errors = eval_checks("C05cli1", HEADER, {"L1": "cli_l1"}, l1_cases, shard=60)
    if errors:
        raise RuntimeError("coq evaluation failed: " + errors[0][1])
    for i in failing["L1"]:
        replay, tr, cmeta, ts = l1_meta[i]
        ctx.violation(classify_cli(tr, cmeta, ts),
                      f"output of `whatshap phase --ped` violates the property on chromosome {tr['chromosome']} "
                      f"(family {tr['family']}, PED trios (f,m,c) {ts}, trios used by the run (c,f,m) {tr['trios']}, "
                      f"transmission {tr['transmission_vector']} at {tr['accessible_positions']}): variants "
                      f"{describe(tr, cmeta, ts)}", replay)
    failing, errors = eval_checks("C05cli2", HEADER, {"L2": "cli_l2"}, l2_cases, shard=60)
    if errors:
        raise RuntimeError("coq evaluation failed: " + errors[0][1])
    if failing["L2"]:
        ctx.disagreements_checked += len(failing["L2"])
        ctx.l2_disagreement("cli: model chain accessible/get_alleles/write_call vs trace and output VCF",
                            [{"cli": l2_meta[i][0]["cli"], "chromosome": l2_meta[i][1]["chromosome"]} for i in failing["L2"]])


def py_variant_problems(tr, m, ts):
    """python mirror of Mendel.c05_variant_ok -> list of problem classes (used only to label / describe a violation
    that Coq found); m["tv"] is the transmission value handed to Coq for this variant (None = none reported)"""
    out = []
    gs, cs = m["gs"], m["calls"]
    t = m.get("tv")
    for k, (f, mo, c) in enumerate(ts):
        if cs[c] is None:
            continue
        a, b, ps = cs[c]
        for al, par, bit in ((a, f, 2 * k), (b, mo, 2 * k + 1)):
            if al not in gs[par]:
                out.append("allele-not-in-parent")
            if cs[par] is not None and cs[par][2] == ps:
                if t is None or al != cs[par][0 if (t >> bit) & 1 else 1]:
                    out.append("transmission-mismatch")
    conflict = md.py_conflict({"triples": ts}, gs)
    missing = any(not g for g in gs)
    if (conflict or missing) and any(c is not None for c in cs):
        out.append("conflict-or-missing-phased")
    if not conflict and not missing and tr["genetic_haplotyping"]:
        for f, mo, c in ts:
            if len(set(gs[c])) == 2 and (len(set(gs[f])) == 1 or len(set(gs[mo])) == 1) and cs[c] is None:
                out.append("forced-unphased")
    return out


def classify_cli(tr, cmeta, ts):
    kinds = set()
    for m in cmeta:
        kinds.update(py_variant_problems(tr, m, ts))
    for k in ("conflict-or-missing-phased", "allele-not-in-parent", "forced-unphased", "transmission-mismatch"):
        if k in kinds:
            return "phase-ped:" + k
    return "phase-ped:other"


def describe(tr, cmeta, ts):
    bad = [dict(m, problems=py_variant_problems(tr, m, ts)) for m in cmeta]
    bad = [m for m in bad if m["problems"]]
    return json.dumps(bad[:4])


def cli_runs(ctx, specs, jobs=14):
    root = workdir(ctx)
    with ThreadPoolExecutor(max_workers=jobs) as ex:
        return list(ex.map(lambda ks: run_cli_case(ctx, ks[1], os.path.join(root, f"run{ks[0]}")), enumerate(specs)))


# ======================================================================================= entry points
def run(ctx):
    import time
    t0 = time.time()
    insts = direct_instances(ctx)
    ctx.log(f"direct: {len(insts)} instances")
    results = md.run_direct(ctx, insts)
    ctx.log(f"direct: implementation done ({time.time() - t0:.0f}s)")
    l2_bad = evaluate_direct(ctx, insts, results)
    ctx.log(f"direct: evaluated in Coq ({time.time() - t0:.0f}s)")
    searched = False
    if l2_bad:
        search_direct(ctx)
        searched = True
    specs = [md.make_cli_spec(ctx.rng) for _ in range(ctx.n(150, 1500))]
    ctx.log(f"cli: {len(specs)} runs")
    runs = cli_runs(ctx, specs)
    ctx.log(f"cli: implementation done ({time.time() - t0:.0f}s)")
    evaluate_cli(ctx, runs)
    ctx.log(f"cli: evaluated in Coq ({time.time() - t0:.0f}s)")
    if ctx.l2 and not searched:
        search_direct(ctx)


def replay(ctx, data):
    if "direct" in data:
        inst = data["direct"]
        results = md.run_direct(ctx, [inst])
        evaluate_direct(ctx, [inst], results)
    elif "cli" in data:
        runs = cli_runs(ctx, [data["cli"]])
        evaluate_cli(ctx, runs)
    else:
        raise ValueError("unknown replay format")
