"""C06 — allele detection never assigns the wrong allele to an error-free read."""
import os

from ..coqeval import term, Raw, Nat, Some, eval_checks
from .. import alleledetect_gen as G
from .. import synth, util

RULE = ("a case = (reference of 40-260 bases, sorted list of listed variants [SNV / insertion / deletion / MNP, VCF-style "
        "with anchor, some with trailing context, some shiftable], one haplotype carrying a random subset of them plus unlisted "
        "insertions/deletions/mismatches (wide, random or tight spacing), 1-6 error-free alignments of that haplotype written "
        "to a real indexed BAM: random start/end columns incl. variant at first/last aligned base, CIGAR style M or =/X or "
        "mixed with extra operation boundaries, soft/hard clips, one reference skip (often next to a variant), FR/FF/RR/RF mate "
        "pairs, filtered alignments (mapq, duplicate, secondary, supplementary), random base qualities, supplementary distance "
        "threshold 100000 or of the order of the read length) x (with reference FASTA / without); plus exhaustive placements "
        "of a 12-base read over a 30-base reference with one variant of each type, both alleles, M and =/X style. "
        "A case is non-trivial if at least one usable alignment fully covers a listed variant; distinct = distinct "
        "(reference, variants, alignments, mode).")
TRUSTED = [
    "modelled, not verified: pysam/htslib decoding of BAM records (cigartuples, query_sequence incl. soft clips, "
    "query_qualities, reference_start/end, flags), pyfaidx, SampleBamReader read-group filtering, core.Read/ReadSet containers",
    "not modelled: affine-gap and kmerald re-alignment modes (non-default), restricted_genotypes, multi-ALT records, "
    "regions=, multiple BAM files, CRAM, use_supplementary=True; the P (padding) CIGAR operation is in the model but not generated",
    "edit_distance is the model of C19 (coq/model/EditDist.v); its equality with the Levenshtein distance and lev x y = 0 <-> x = y "
    "are imported from coq/proofs/EditDistProofs.v (edit_distance_is_lev, lev_zero_iff_eq)",
    "ground truth of a case (which allele the haplotype carries, which variants an alignment fully covers, whether the "
    "re-alignment window is free of other differences) is computed by the generator harness/alleledetect_gen.py",
]
ASSUMPTIONS = [
    "variants sorted by strictly increasing position (ReadSetReader.read asserts uniqueness; VcfReader delivers sorted records); "
    "the reference-free theorems assume the NORMALISED positions weakly increasing",
    "the BAM record is consistent: query-consuming CIGAR lengths sum to the length of the query sequence; CIGAR lengths positive",
    "realign_correct / detect_by_alignment_finds: the read shows the carried allele with clean flanks: no other difference to the "
    "reference within `overhang` bases of the variant (as far as the read reaches; the window may end at the read end, at clips "
    "or at a reference skip)",
    "reference-free, insertions/deletions: the indel is shown at the variant's normalised position, flanked by aligned bases "
    "(C06_detect_noref_never_wrong); 'no allele for a non-overlapped variant' without reference is proved for the normalised "
    "position (C06_detect_noref_within_span); in terms of the original record's footprint it is validated, not proved",
]

HEADER = """From Coq Require Import ZArith List Bool Arith.
From WH.Model Require Import EditDist AlleleDetect.
Import ListNotations.
Open Scope nat_scope.
"""

OPNAME = {"M": "OpM", "I": "OpI", "D": "OpD", "N": "OpN", "S": "OpS", "H": "OpH", "P": "OpP", "=": "OpEQ", "X": "OpX"}
SAMPLE = "S1"
CHROM = "chrA"


# ------------------------------------------------------------------------------------------ rendering
def seq_term(s):
    return "[" + "; ".join(str(ord(c)) for c in s) + "]%Z"


def cigar_term(cig):
    return "[" + "; ".join(f"({OPNAME[o]}, {n})" for o, n in cig) + "]"


def aln_term(a):
    b = lambda x: "true" if x else "false"
    f = a.get("flag", 0)
    quals = "[" + "; ".join(str(q) for q in a["quals"]) + "]%Z"
    return (f"(mkAln {a['nid']} {b(f & 0x800)} {b(f & 0x100)} {b(f & 0x4)} {b(f & 0x400)} {b(f & 0x10)} "
            f"{a.get('mapq', 60)} {a['start']} {cigar_term(a['cigar'])} {seq_term(a['seq'])} {quals})")


class Err:
    """the implementation raised: 0 = AssertionError, 1 = SampleNotFoundError, 2 = KeyError (alignment without RG tag),
    3 = any other exception (never predicted by the model: always an L2 disagreement and, on well-formed input, a violation)"""
    NAMES = {0: "AssertionError", 1: "SampleNotFoundError", 2: "KeyError", 3: "other exception"}

    def __init__(self, code, text=""):
        self.code, self.text = code, text

    def __repr__(self):
        return f"<{self.NAMES[self.code]}{': ' + self.text if self.text else ''}>"


def out_term(out):
    if isinstance(out, Err):
        return f"(None, {out.code})"
    return "(Some [" + "; ".join(
        f"({n}, [" + "; ".join(f"({p}, {al}, {q})" for p, al, q in vs) + "])" for n, vs in out) + "], 0)"


DEFAULT_OPTS = dict(overhang=10, mapq=20, use_supp=False, dup=False, gt=None)
NAME_SCHEMES = {          # index -> name; the second and third share prefixes / sort against their index
    "plain": lambda prefix, k: f"{prefix}{k}",
    "prefix": lambda prefix, k: prefix + "1" + "0" * k,
    "reverse": lambda prefix, k: f"{prefix}{chr(ord('z') - k)}",
}


def sm_name(case, k):
    return NAME_SCHEMES[case.get("names", "plain")]("S", k)


def rg_name(case, k):
    return NAME_SCHEMES[case.get("names", "plain")]("g", k)


def opts_of(case):
    return case.get("opts", DEFAULT_OPTS)


def opts_term(case):
    o = opts_of(case)
    b = lambda x: "true" if x else "false"
    gt = o.get("gt")
    gtt = "None" if gt is None else "(Some [" + "; ".join("[" + "; ".join(str(x) for x in g) + "]" for g in gt) + "])"
    return f"({o['overhang']}, {o['mapq']}, {b(o['use_supp'])}, {b(o['dup'])}, {gtt})"


def rg_term(case):
    """(header, requested sample, RG tag per alignment) -- sample/rg ids as nat"""
    hdr = "[" + "; ".join(f"({g}, {'None' if sm is None else f'Some {sm}'})" for g, sm in case.get("header", [(0, 0)])) + "]"
    smp = case.get("sample", 0)
    smp = "None" if smp is None else f"(Some {smp})"
    rgs = "[" + "; ".join("None" if a.get("rg", 0) is None else f"Some {a.get('rg', 0)}" for a in case["alns"]) + "]"
    return f"({hdr}, {smp}, {rgs})"


def truth_term(t):
    return "[" + "; ".join(f"({n}, [" + "; ".join(f"({p}, {al})" for p, al in x) + "])" for n, x in t) + "]"


def must_term(m):
    return "[" + "; ".join(f"({n}, [" + "; ".join(str(p) for p in x) + "])" for n, x in m) + "]"


def case_term(case, refmode, out):
    ref = case["ref"]
    vs = "[" + "; ".join(f"mkVar {p} {seq_term(r)} {seq_term(a)}" for p, r, a in case["listed"]) + "]"
    alns = "[" + ";\n   ".join(aln_term(a) for a in case["alns"]) + "]"
    if refmode:
        truth = f"({truth_term(case['truth_clean'])}, {truth_term(case['truth_skip'])})"
        must = f"({must_term(case['must'])}, {must_term(case['must_skip'])}, {must_term(case['must_pair'])})"
    else:
        truth = f"({truth_term(case['truth_all'])}, [])"
        must = "([], [], [])"
    rt = f"(Some {seq_term(ref)})" if refmode else "None"
    rt = f"({rt}, {case.get('threshold', 100000)}%Z, {opts_term(case)}, {rg_term(case)})"
    return f"(({rt}, {vs},\n  {alns},\n  {truth}, {must},\n  {out_term(out)}) : case_t)"


# ------------------------------------------------------------------------------------------ the real implementation
class _Sc:
    def __init__(self, ref):
        self.ref = {CHROM: ref}
        self.chroms = [CHROM]
        self.samples = [SAMPLE]


DECOY = "chrB"


def contigs(case):
    """contig names in header order; the decoy contig (same sequence) stands before or after the real one"""
    d = case.get("decoy")
    return [CHROM] if not d else ([DECOY, CHROM] if d["first"] else [CHROM, DECOY])


def files_of(case):
    """the input files of the case: only files that hold at least one alignment (whatshap rejects an empty alignment file
    by design: EmptyAlignmentFileError), in their order; source_id = position in this list"""
    return sorted({a.get("file", 0) for a in case["alns"]} |
                  {a.get("file", 0) for a in (case.get("decoy") or {}).get("alns", [])})


def write_case_bams(case, wd):
    """One BAM per input file of the case: @RG lines in the case's header order (SM or no SM), RG tag per alignment (or
    none); alignments sorted by contig and start (stable).  Decoy alignments sit on the other contig."""
    import pysam
    names = contigs(case)
    header = {"HD": {"VN": "1.6", "SO": "coordinate"}, "SQ": [{"SN": c, "LN": len(case["ref"])} for c in names],
              "RG": [dict(ID=rg_name(case, g), **({} if sm is None else {"SM": sm_name(case, sm)}))
                     for g, sm in case.get("header", [(0, 0)])]}
    paths = []
    for f in files_of(case):
        path = os.path.join(wd, f"r{f}.bam")
        for p in (path, path + ".bai"):
            if os.path.exists(p):
                os.remove(p)
        recs = [(names.index(CHROM), a) for a in case["alns"] if a.get("file", 0) == f]
        if case.get("decoy"):
            recs += [(names.index(DECOY), a) for a in case["decoy"]["alns"] if a.get("file", 0) == f]
        recs.sort(key=lambda x: (x[0], x[1]["start"]))
        with pysam.AlignmentFile(path, "wb", header=header) as out:
            for tid, a in recs:
                r = pysam.AlignedSegment(out.header)
                r.query_name = f"r{a.get('qname', a['nid'])}"
                r.query_sequence = a["seq"]
                r.flag = a.get("flag", 0)
                r.reference_id = tid
                r.reference_start = a["start"]
                r.mapping_quality = a.get("mapq", 60)
                r.cigartuples = [(G.OPCODE[o], n) for o, n in a["cigar"]]
                r.query_qualities = a["qarr"]
                if "mate_start" in a:
                    r.next_reference_id = tid
                    r.next_reference_start = a["mate_start"]
                if a.get("rg", 0) is not None:
                    r.set_tags([("RG", rg_name(case, a.get("rg", 0)))])
                out.write(r)
        pysam.index(path)
        paths.append(path)
    return paths


def run_impl(wd, case, refmode, perturb=None):
    """Run the real ReadSetReader(paths, ...).read(chromosome, variants, sample, reference) on the BAM(s) (+ FASTA) written
    for this case.  Returns sorted [(name id, [(position, allele, quality)])] or Err(code): every exception is an output."""
    import pyfaidx
    import logging
    from whatshap.variants import ReadSetReader
    from whatshap.core import NumericSampleIds, Genotype
    from whatshap.vcf import BiallelicVcfVariant
    from whatshap.bam import SampleNotFoundError
    logging.getLogger("whatshap.bam").setLevel(logging.ERROR)      # "read group without SM" warnings
    fa = os.path.join(wd, "ref.fa")
    for p in (fa, fa + ".fai"):
        if os.path.exists(p):
            os.remove(p)
    paths = write_case_bams(case, wd)
    variants = [BiallelicVcfVariant(p, r, a) for p, r, a in case["listed"]]
    reference = None
    fasta = None
    o = opts_of(case)
    sample = case.get("sample", 0)
    src = {f: k for k, f in enumerate(files_of(case))}
    key = {(src[a.get("file", 0)], a.get("qname", a["nid"])): a["nid"] for a in case["alns"]}
    try:
        if refmode:
            with open(fa, "w") as f:
                for c in contigs(case):
                    seq = case["decoy"].get("ref", case["ref"]) if c == DECOY else case["ref"]
                    f.write(f">{c}\n{seq}\n")
            import pysam
            pysam.faidx(fa)
            fasta = pyfaidx.Fasta(fa, as_raw=True, sequence_always_upper=True)
            reference = fasta[CHROM]
        with ReadSetReader(paths, reference=None, numeric_sample_ids=NumericSampleIds(),
                           mapq_threshold=o["mapq"], overhang=o["overhang"], duplicates=o["dup"],
                           use_supplementary=o["use_supp"],
                           supplementary_distance_threshold=case.get("threshold", 100000)) as rsr:
            gt = o.get("gt")
            smp = None if sample is None else sm_name(case, sample)
            rgt = None if gt is None else [Genotype(list(g)) for g in gt]
            # history on ONE reader object (as `whatshap phase` reuses its reader for every chromosome): an earlier call
            # for the twin contig (same coordinates, REF/ALT of the substitutions swapped) and / or the same call before
            for h in case.get("history", []):
                try:
                    if h == "twin":
                        tv = [BiallelicVcfVariant(p, r, a) for p, r, a in case["decoy"]["listed"]]
                        rsr.read(DECOY, tv, smp, fasta[DECOY] if refmode else None,
                                 restricted_genotypes=None if gt is None else
                                 [Genotype(list(g)) for g in case["decoy"]["gt"]])
                    else:
                        rsr.read(CHROM, variants, smp, reference, restricted_genotypes=rgt)
                except (AssertionError, SampleNotFoundError, KeyError):
                    pass                    # the judged call below shows the same class
            rs = rsr.read(CHROM, variants, smp, reference, restricted_genotypes=rgt)
            out = sorted((key.get((r.source_id, int(r.name[1:])), 9000 + int(r.name[1:])),
                          [(v.position, v.allele, v.quality) for v in r]) for r in rs)
    except AssertionError:
        out = Err(0)
    except SampleNotFoundError:
        out = Err(1)
    except KeyError as e:
        out = Err(2, repr(e))
    except Exception as e:              # noqa: any other exception is recorded as the implementation's output
        out = Err(3, f"{type(e).__name__}: {e}"[:200])
    finally:
        if fasta is not None:
            fasta.close()
    if perturb and isinstance(out, list) and out:
        out = perturb(out)
    return out


# ------------------------------------------------------------------------------------------ case generation
SKIP_RELATIONS = ["variant_directly_after_skip", "first_base_is_last_skipped", "variant_directly_before_skip",
                  "last_base_is_first_skipped", "inside_skip"]
KINDS = ["snv", "snv", "snv", "ins", "ins", "del", "del", "mnp", "insR", "delR", "cpx"]


def draw_opts(rng):
    """constructor options of ReadSetReader: mostly the defaults (what `whatshap phase` passes), sometimes other values"""
    o = dict(DEFAULT_OPTS)
    if rng.random() < 0.25:
        o["mapq"] = rng.choice([0, 1, 30, 60, 61])          # --mapping-quality
    if rng.random() < 0.2:
        o["overhang"] = rng.choice([1, 3, 25])
    if rng.random() < 0.25:
        o["use_supp"] = True                                # --use-supplementary
    if rng.random() < 0.15:
        o["dup"] = True
    return o


def gen_case(rng, small=False):
    opts = draw_opts(rng)
    L = rng.randint(40, 90) if small else rng.randint(60, 260)
    ref = G.rand_seq(rng, L, homopolymers=rng.random() < 0.25)
    margin = rng.choice([0, 1, 3, 12])
    # carried events and listed variants
    n_events = rng.randint(1, 3 if small else 6)
    events, listed_extra = [], []
    gap_mode = rng.choice(["wide", "wide", "any", "tight"])
    pos = margin + rng.randint(0, 12)
    while len(events) < n_events and pos < L - margin - 6:
        kind = rng.choice(KINDS)
        v = G.make_variant(rng, ref, pos, kind, shiftable_ok=rng.random() < 0.1)
        if v is None or v[0] + len(v[1]) >= L:
            pos += 1
            continue
        events.append(v)
        span = len(v[1])
        gap = {"wide": rng.randint(25, 40), "any": rng.randint(0, 30), "tight": rng.randint(0, 3)}[gap_mode]
        pos = v[0] + span + gap
        if G.kind_of(v) == "ins" and rng.random() < 0.3 and len(events) < n_events:
            # another insertion 0-2 bases downstream of this one
            w = G.make_variant(rng, ref, v[0] + span + rng.randint(0, 2), "ins")
            if w is not None and w[0] + len(w[1]) < L - 1:
                events.append(w)
                pos = w[0] + len(w[1]) + gap
    # which events are listed (known to whatshap) and which are unrelated differences
    listed, carried_flags, ev_tags = [], [], []
    for v in events:
        is_listed = rng.random() < 0.7
        ev_tags.append(is_listed)
    # non-carried listed variants, anywhere (positions distinct from all listed positions)
    used_pos = {v[0] for v, l in zip(events, ev_tags) if l}
    for _ in range(rng.randint(0, 3 if small else 5)):
        p = rng.randint(0, L - 8)
        if p in used_pos:
            continue
        v = G.make_variant(rng, ref, p, rng.choice(KINDS), shiftable_ok=rng.random() < 0.1)
        if v is None:
            continue
        used_pos.add(p)
        listed_extra.append(v)
    for v in events:
        # a listed SNV / MNP that lies inside a carried deletion
        if G.kind_of(v) == "del" and rng.random() < 0.35:
            np_, nr, _ = G.normalize(*v)
            p = np_ + rng.randrange(len(nr))
            if p not in used_pos and p + 2 < L:
                used_pos.add(p)
                listed_extra.append(G.make_variant(rng, ref, p, rng.choice(["snv", "snv", "mnp"])))
    listed_extra = [v for v in listed_extra if v is not None]
    # symbolic-ALT records anywhere in the list
    for _ in range(rng.choice([0, 0, 1, 1, 2])):
        p = rng.randint(0, L - 2)
        if p not in used_pos:
            used_pos.add(p)
            listed_extra.append((p, ref[p], rng.choice(["<DEL>", "<DUP>", "<INS>", "<INV>"])))
    # some carried listed deletions are listed as symbolic <DEL> records: the haplotype carries the real deletion
    alias = {v: (v[0], v[1][0], "<DEL>") for v, l in zip(events, ev_tags)
             if l and G.kind_of(v) == "del" and not G.is_right_anchored(v) and rng.random() < 0.3}
    allv = [(alias.get(v, v), True, v) for v, l in zip(events, ev_tags) if l] + [(v, False, v) for v in listed_extra]
    allv.sort(key=lambda x: x[0][0])
    listed = [v for v, _, _ in allv]
    carried = {i for i, (_, c, _) in enumerate(allv) if c}
    idx_of = {ev: i for i, (_, c, ev) in enumerate(allv) if c}
    real = {i: ev for i, (v, c, ev) in enumerate(allv) if c and v is not ev}
    ev = [(v[0], v[1], v[2], idx_of.get(v) if l else None) for v, l in zip(events, ev_tags)]
    cols = G.build_hap(ref, ev)
    # restricted_genotypes as haplotagphase passes them: nothing / all heterozygous / the genotypes of a sample that has
    # this haplotype (homozygous, heterozygous, triploid), some of them missing
    gmode = rng.choice(["none", "none", "none", "het", "true", "true", "true+missing"])
    if gmode == "het":
        opts["gt"] = [[0, 1] for _ in listed]
    elif gmode != "none":
        opts["gt"] = []
        for i in range(len(listed)):
            c = 1 if i in carried else 0
            g = sorted([c] + [rng.choice([0, 1, c, c]) for _ in range(rng.choice([1, 1, 1, 2]))])
            opts["gt"].append([] if gmode == "true+missing" and rng.random() < 0.3 else g)
    opts["gmode"] = gmode
    # alignments
    alns = []
    nid = 0
    n_reads = rng.randint(1, 3 if small else 4)
    for _ in range(n_reads):
        style = rng.choice(["M", "M", "EQX", "mixed"])
        split_prob = rng.choice([0.0, 0.0, 0.3])

        def one(lo=None):
            focus = rng.random() < 0.5 and events
            if focus:
                # start or end exactly at / next to a variant footprint
                v = rng.choice(events)
                fcols = [i for i, c in enumerate(cols) if v[0] - 1 <= c[1] <= v[0] + len(v[1])]
                if rng.random() < 0.5:
                    c0 = rng.choice(fcols)
                    c1 = min(len(cols), c0 + rng.randint(5, 80))
                else:
                    c1 = rng.choice(fcols) + 1
                    c0 = max(0, c1 - rng.randint(5, 80))
            else:
                c0 = rng.randint(0, max(0, len(cols) - 10))
                c1 = min(len(cols), c0 + rng.randint(8, 120))
            if lo is not None:
                c0 = max(c0, lo)
                c1 = max(c1, min(len(cols), c0 + 8))
            skip = None
            if listed and lo is None and rng.random() < 0.25:
                # systematic reference skips next to a listed variant (any kind, carried or not): the variant directly
                # after the skip, its first base (anchor) the last skipped base, directly before the skip, its last base
                # the first skipped base, or inside -- with 0 / 1 / 2 other listed variants inside the skipped region
                v = rng.choice(listed)
                rel = rng.choice(SKIP_RELATIONS)
                if G.kind_of(v) in ("ins", "del") and not G.is_right_anchored(v) and rng.random() < 0.4:
                    rel = "first_base_is_last_skipped"      # the indel itself sits at the first base after the skip
                want = rng.choice([0, 0, 1, 2])
                best = None
                for n in rng.sample(range(1, 45), 44):
                    if rel == "variant_directly_after_skip":
                        sk = (v[0] - n, v[0])
                    elif rel == "first_base_is_last_skipped":
                        sk = (v[0] + 1 - n, v[0] + 1)
                    elif rel == "variant_directly_before_skip":
                        sk = (v[0] + len(v[1]), v[0] + len(v[1]) + n)
                    elif rel == "last_base_is_first_skipped":
                        sk = (v[0] + len(v[1]) - 1, v[0] + len(v[1]) - 1 + n)
                    else:
                        off = rng.randint(0, n)
                        sk = (v[0] - off, v[0] - off + n + len(v[1]))
                    if sk[0] < 2 or sk[1] > L - 3:
                        continue
                    inside = sum(1 for w in listed if w is not v and sk[0] <= w[0] < sk[1])
                    if best is None or abs(inside - want) < abs(best[1] - want):
                        best = (sk, inside)
                    if inside == want:
                        break
                if best is not None:
                    sk = best[0]
                    i0 = [i for i, c in enumerate(cols) if c[1] < sk[0]]
                    i1 = [i for i, c in enumerate(cols) if c[1] >= sk[1] and c[0] != "I"]
                    if i0 and i1:
                        c0 = max(0, i0[-1] - rng.randint(2, 40))
                        c1 = min(len(cols), i1[0] + rng.randint(2, 40))
                        soft = (rng.choice([0, 0, 2, 7]), rng.choice([0, 0, 3, 9]))
                        hard = (rng.choice([0, 0, 4]), rng.choice([0, 0, 5]))
                        al = G.make_alignment(rng, cols, c0, c1, style=style, skip=sk, soft=soft, hard=hard,
                                              split_prob=split_prob, trim=False, ins_after_skip=rng.random() < 0.5)
                        if al is not None:
                            return al
            tagged = [t for t in {c[3] for c in cols} if t is not None and any(c[3] == t and c[0] in "ID" for c in cols)]
            if tagged and lo is None and rng.random() < 0.25:
                # the own insertion / deletion operation of a carried listed variant is the LAST (or first) operation of
                # an aligned block: followed (preceded) by the end of the alignment, a clip, or a reference skip
                tg = rng.choice(tagged)
                idc = [i for i, c in enumerate(cols) if c[3] == tg and c[0] in "ID"]
                mode = rng.choice(["end", "end", "skip", "begin"])
                soft = (rng.choice([0, 0, 2, 7]), rng.choice([0, 0, 3, 9]))
                hard = (rng.choice([0, 0, 4]), rng.choice([0, 0, 5]))
                if mode == "end":
                    c1 = idc[-1] + 1
                    c0 = max(0, c1 - rng.randint(6, 60))
                elif mode == "begin":
                    c0 = idc[0]
                    c1 = min(len(cols), c0 + rng.randint(6, 60))
                else:
                    c0 = max(0, idc[0] - rng.randint(3, 40))
                    c1 = min(len(cols), idc[-1] + rng.randint(8, 60))
                    a = cols[idc[-1]][1] + (0 if cols[idc[-1]][0] == "I" else 1)
                    skip = (a, a + rng.randint(1, 12))
                al = G.make_alignment(rng, cols, c0, c1, style=style, skip=skip, soft=soft, hard=hard,
                                      split_prob=split_prob, trim=False)
                if al is not None:
                    return al
                skip = None
            if rng.random() < 0.35 and c1 - c0 > 12:
                a = cols[rng.randint(c0 + 2, c1 - 6)][1]
                skip = (a, a + rng.randint(1, 25))
                if rng.random() < 0.5 and (events or listed):
                    # a skip that begins shortly after / ends shortly before a variant
                    v = rng.choice(events + listed)
                    if rng.random() < 0.5:
                        a = v[0] + len(v[1]) + rng.choice([0, 1, 2, 5, 9])
                        skip = (a, a + rng.randint(1, 25))
                    else:
                        b = v[0] - rng.choice([0, 1, 2, 5, 9])
                        skip = (max(1, b - rng.randint(1, 25)), b)
                    if not (skip[0] < skip[1] and cols[c0][1] + 1 < skip[0] and skip[1] < cols[c1 - 1][1]):
                        skip = None
            soft = (rng.choice([0, 0, 0, 2, 7]), rng.choice([0, 0, 0, 3, 9]))
            hard = (rng.choice([0, 0, 0, 4]), rng.choice([0, 0, 0, 5]))
            trim = rng.random() < 0.5       # else: the alignment / a block may begin or end with inserted / deleted bases
            if skip and not trim and rng.random() < 0.5 and events:
                # the skip begins directly after the last column of a carried event (e.g. its inserted bases)
                v = rng.choice(events)
                a = v[0] + len(v[1])
                if cols[c0][1] + 1 < a < cols[c1 - 1][1] - 2:
                    skip = (a, min(a + rng.randint(1, 25), cols[c1 - 1][1] - 1))
            al = G.make_alignment(rng, cols, c0, c1, style=style, skip=skip, soft=soft, hard=hard, split_prob=split_prob, trim=trim)
            if al is None and skip:
                al = G.make_alignment(rng, cols, c0, c1, style=style, soft=soft, hard=hard, split_prob=split_prob, trim=trim)
            return al
        a1 = one()
        if a1 is None:
            continue
        group = [a1]
        r = rng.random()
        if r < 0.3:      # mate pair
            a2 = one(lo=min(a1["kept"]) + rng.randint(0, 30))
            if a2 is not None:
                orient = rng.choice(["FR", "FR", "FF", "RR", "RF"])
                f1 = 0x1 | 0x2 | 0x40 | (0x10 if orient[0] == "R" else 0) | (0x20 if orient[1] == "R" else 0)
                f2 = 0x1 | 0x2 | 0x80 | (0x10 if orient[1] == "R" else 0) | (0x20 if orient[0] == "R" else 0)
                a1["flag"], a2["flag"] = f1, f2
                a1["mate_start"], a2["mate_start"] = a2["start"], a1["start"]
                group.append(a2)
        elif r < 0.45:   # an alignment that is filtered under the default options
            kind = "dup" if opts["dup"] and rng.random() < 0.6 else \
                rng.choice(["mapq", "dup", "dup", "secondary", "supp", "unmapped"])
            if kind == "mapq":
                a1["mapq"] = max(0, opts["mapq"] - rng.choice([1, 1, 15]))
            else:
                a1["flag"] = {"dup": 0x400, "secondary": 0x100, "supp": 0x800, "unmapped": 0x4}[kind] | rng.choice([0, 0x10])
        elif r < 0.53:   # mapping quality at / just above the threshold
            a1["mapq"] = opts["mapq"] + rng.choice([0, 0, 1])
        if rng.random() < (0.5 if opts["use_supp"] else 0.15) and not (a1.get("flag", 0) & 0x904):
            # a supplementary alignment of the same read: same or other strand, near or far
            a3 = one()
            if a3 is not None:
                a3["flag"] = 0x800 | (a1.get("flag", 0) & 0x10 if rng.random() < 0.6 else (~a1.get("flag", 0)) & 0x10)
                group.append(a3)
        for a in group:
            a["nid"] = nid
            qmode = rng.choice(["const", "rand", "rand", "none"])
            a["qarr"] = None if qmode == "none" else G.quals_array(rng, len(a["seq"]), qmode)
            a["quals"] = [] if qmode == "none" else list(a["qarr"])
            alns.append(a)
        nid += 1
    if not alns:
        return None
    # mostly the default supplementary distance threshold; sometimes one of the order of the read length
    threshold = 100000 if rng.random() < 0.8 else rng.choice([5, 20, 60, 150])
    gaps = sorted({max(b["start"] - ref_end(a), a["start"] - ref_end(b), 0)
                   for a in alns for b in alns if a is not b and a["nid"] == b["nid"]})
    if gaps and rng.random() < 0.25:
        threshold = max(0, rng.choice(gaps) + rng.choice([-1, 0, 0, 1]))    # at / just below / just above a real gap
    extra = dict(opts=opts, names=rng.choice(list(NAME_SCHEMES)), real=real)
    # several input files (MultiBamReader): every read name lives in one file; sometimes two files share a read name
    names = sorted({a["nid"] for a in alns})
    nfiles = min(len(names), rng.choice([1, 1, 1, 2, 3]))
    if nfiles > 1:
        where = {n: (k if k < nfiles else rng.randrange(nfiles)) for k, n in enumerate(rng.sample(names, len(names)))}
        for a in alns:
            a["file"] = where[a["nid"]]
        if rng.random() < 0.4:
            n0 = next(n for n in names if where[n] == 0)
            n1 = next(n for n in names if where[n] == 1)
            for a in alns:
                if a["nid"] == n1:
                    a["qname"] = n0            # same QNAME in two files: still two reads
    extra["nfiles"] = nfiles
    r = rng.random()
    if r < 0.2:
        # a second contig with copies of some alignments (same names, same read groups): must not be fetched
        extra["decoy"] = dict(first=rng.random() < 0.5, alns=[dict(a) for a in rng.sample(alns, min(len(alns), 2))])
    elif r < 0.45:
        extra["decoy"] = twin_contig(rng, ref, listed, alns, opts.get("gt"))
        extra["history"] = rng.choice([["twin"], ["twin"], ["twin", "same"], ["same", "twin"]])
    elif r < 0.55:
        extra["history"] = ["same"]
    if rng.random() < 0.7:
        return [finish_case(ref, listed, carried, cols, alns, threshold, extra=extra)]
    return multi_sample_drives(rng, ref, listed, carried, cols, alns, threshold, extra)


def gen_repeat_case(rng):
    """an insertion / deletion of one repeat unit at the start of a homopolymer or tandem repeat, and 2-5 error-free
    alignments of BOTH haplotypes in one case that END (or begin the next block / clip) inside the repeat: their query
    windows at the variant are byte-identical while their CIGARs (and right reference extents) differ"""
    unit = rng.choice(["A", "C", "G", "T", "AC", "TG", "CAG"])
    m = rng.randint(4, 8)
    left = G.rand_seq(rng, rng.randint(14, 40))
    while left[-1] == unit[0] or left[-1] == unit[-1]:
        left = left[:-1] + rng.choice(G.BASES)
    right = G.rand_seq(rng, rng.randint(12, 30))
    while right[0] == unit[0]:
        right = rng.choice(G.BASES) + right[1:]
    ref = left + unit * m + right
    p = len(left) - 1                                    # anchor: the base in front of the repeat
    v = (p, ref[p] + unit, ref[p]) if rng.random() < 0.5 else (p, ref[p], ref[p] + unit)
    listed = [v]
    if rng.random() < 0.5 and p > 12:
        q = rng.randint(2, p - 8)
        listed = [(q, ref[q], rng.choice([b for b in G.BASES if b != ref[q]])), v]
    vi = listed.index(v)
    haps = {0: (G.build_hap(ref, []), set()), 1: (G.build_hap(ref, [(v[0], v[1], v[2], vi)]), {vi})}
    alns = []
    c0 = rng.randint(0, max(0, p - 11))
    opts = draw_opts(rng)
    opts["use_supp"] = False
    for nid in range(rng.randint(2, 5)):
        h = nid % 2 if nid < 2 else rng.randint(0, 1)
        cols, carried = haps[h]
        k = rng.randint(1, m - 2) * len(unit)             # repeat bases shown before the alignment ends
        rep0 = next(i for i, c in enumerate(cols) if c[1] == p and c[0] != "I") + 1
        reps = [i for i in range(rep0, len(cols)) if cols[i][0] != "D"]
        c1 = reps[k - 1] + 1 if k <= len(reps) else len(cols)
        al = G.make_alignment(rng, cols, c0, c1, style=rng.choice(["M", "M", "EQX"]),
                              soft=(0, rng.choice([0, 0, 3])), hard=(0, rng.choice([0, 0, 5])), trim=True)
        if al is None:
            continue
        al["nid"] = nid
        al["cols"], al["carried"] = cols, carried
        al["qarr"] = G.quals_array(rng, len(al["seq"]), "const")
        al["quals"] = list(al["qarr"])
        alns.append(al)
    if len(alns) < 2:
        return None
    rng.shuffle(alns)
    extra = dict(opts=opts, names="plain", nfiles=1, stream="repeat")
    if rng.random() < 0.3:
        extra["history"] = ["same"]
    opts["gt"] = None
    opts["gmode"] = "none"
    return [finish_case(ref, listed, set(), haps[0][0], alns, 100000, extra=extra)]


def twin_contig(rng, ref, listed, alns, gt):
    """a twin contig for a history on one reader: the same sequence and coordinates, but the ALT of every substitution
    (SNV / MNP) written into the reference and its REF/ALT swapped; all alignments copied onto it (an alignment that shows
    ALT on the real contig shows REF there).  The twin is called first, the real contig -- whose ground truth is known --
    is judged."""
    seq = list(ref)
    tlisted, tgt = [], []
    for i, (p, r, a) in enumerate(listed):
        if not a.startswith("<") and len(r) == len(a) and "".join(seq[p:p + len(r)]) == r and rng.random() < 0.8:
            seq[p:p + len(r)] = list(a)
            tlisted.append((p, a, r))
        elif "".join(seq[p:p + len(r)]) == r:
            tlisted.append((p, r, a))
        else:
            continue
        tgt.append([0, 1] if gt is None else ([1 - x for x in gt[i]] if len(r) == len(a) else gt[i]))
    return dict(first=rng.random() < 0.5, alns=[dict(a) for a in alns], ref="".join(seq), listed=tlisted, gt=tgt)


def multi_sample_drives(rng, ref, listed, carried, cols, alns, threshold, extra=None):
    """2-3 samples, each owning 1-3 read groups whose @RG lines are interleaved in random header order, optionally a read
    group without SM; every read name goes to one read group (mates stay together).  One drive per sample, one with
    sample=None (what the CLI does for --ignore-read-groups), sometimes one for a sample the header does not know;
    sometimes an alignment loses its RG tag (then every drive with a sample must end in KeyError: malformed stream)."""
    nsamples = rng.randint(2, 3)
    header, gid = [], 0
    groups = {}
    for sm in range(nsamples):
        for _ in range(rng.randint(1, 3)):
            header.append((gid, sm))
            groups.setdefault(sm, []).append(gid)
            gid += 1
    if rng.random() < 0.3:
        header.append((gid, None))
        groups[None] = [gid]
        gid += 1
    rng.shuffle(header)
    owners = list(groups)
    name_rg = {}
    for a in alns:
        if a["nid"] not in name_rg:
            sm = rng.choice(owners)
            name_rg[a["nid"]] = (sm, rng.choice(groups[sm]))
        a["sm"], a["rg"] = name_rg[a["nid"]]
    if rng.random() < 0.12:
        rng.choice(alns)["rg"] = None
    drives = list(range(nsamples)) + [None]
    if rng.random() < 0.15:
        drives.append(nsamples + 3)
    if extra and extra.get("decoy"):
        for d in extra["decoy"]["alns"]:
            d["sm"], d["rg"] = name_rg[d["nid"]]
    return [finish_case(ref, listed, carried, cols, [dict(a) for a in alns], threshold, header=header, sample=s, extra=extra)
            for s in drives]


def usable(a, o=DEFAULT_OPTS):
    f = a.get("flag", 0)
    return not ((f & 0x800 and not o["use_supp"]) or f & 0x100 or f & 0x4 or (f & 0x400 and not o["dup"])
                or a.get("mapq", 60) < o["mapq"])


def ref_end(a):
    return a["start"] + sum(n for o, n in a["cigar"] if o in "MDN=X")


def in_sample(a, sample):
    """specification side: the alignment belongs to the requested sample (its read group's SM), or no sample is requested"""
    return sample is None or (a.get("rg", 0) is not None and a.get("sm", 0) == sample)


def finish_case(ref, listed, carried, cols, alns, threshold=100000, header=((0, 0),), sample=0, extra=None):
    """group-level ground truth.  A statement about (read name, variant) is only made when every alignment of that name
    that enters the group and touches the variant fully covers it (a partially covering mate may report anything).
    Alignments entering a group: usable under the options, of the requested sample, within the distance threshold of
    the last primary alignment of the name, and -- supplementary ones -- on its strand."""
    extra = extra or {}
    o = extra.get("opts", DEFAULT_OPTS)
    alns = sorted(alns, key=lambda a: a["start"])          # stable: the order within each BAM file
    by_name = {}
    ncov = 0
    malformed = sample is not None and (not any(sm == sample for _, sm in header) or any(a.get("rg", 0) is None for a in alns))
    for a in alns:
        if usable(a, o) and in_sample(a, sample) and not malformed:
            a["t"], a["touch"] = G.truth_of(ref, a.get("cols", cols), listed, a.get("carried", carried), a,
                                            overhang=o["overhang"], real=extra.get("real"))
            ncov += len(a["t"])
            by_name.setdefault(a["nid"], []).append(a)
    keys = ("truth_all", "truth_clean", "truth_skip", "must", "must_skip", "must_pair")
    res = {k: {} for k in keys}
    for n, g in by_name.items():
        prims = [a for a in g if not a.get("flag", 0) & 0x800]
        if not prims:
            continue                                        # only supplementary alignments: no read at all
        prim = prims[-1]
        prim_rev = bool(prim.get("flag", 0) & 0x10)         # strand of the last primary alignment of the group
        strand_ok = lambda a: bool(a.get("flag", 0) & 0x10) == prim_rev
        # alignments further than the threshold from the primary one are excluded from the group by design
        near = [a for a in g if max(a["start"] - ref_end(prim), prim["start"] - ref_end(a), 0) <= threshold]
        used = [a for a in near if strand_ok(a) or not a.get("flag", 0) & 0x800]
        # Which alignment is "the primary" of a group depends on which primary alignments report at least one allele
        # (an alignment without detected alleles never reaches the grouping; a group left with supplementary
        # alignments only yields no read).  Claims about variants a supplementary alignment touches are therefore only
        # made when every primary alignment of the name is certain to be present: it fully covers, with a clean
        # window, at least one variant.
        supps = [a for a in g if a.get("flag", 0) & 0x800]
        gts = o.get("gt")
        supp_ok = all(any(x[1] == "clean" and (gts is None or len(gts[i]) > 0) and G.kind_of(listed[i]) != "sym"
                          for i, x in a["t"].items()) for a in prims)
        for idx, v in enumerate(listed):
            if supps and not supp_ok and any(idx in a["touch"] for a in supps):
                continue
            touching = [a for a in used if idx in a["touch"]]
            if not touching or not all(idx in a["t"] for a in touching):
                continue
            allele = touching[0]["t"][idx][0]
            wins = {a["t"][idx][1] for a in touching}
            if G.kind_of(v) != "cpx":                       # replacements are outside the reference-free clause
                res["truth_all"].setdefault(n, {})[v[0]] = allele
            same = [a for a in touching if strand_ok(a)]
            gt = o.get("gt")
            # a missing genotype leaves no allele to report; a symbolic record is never reported
            findable = (gt is None or len(gt[idx]) > 0) and G.kind_of(v) != "sym"
            if wins == {"clean"}:
                res["truth_clean"].setdefault(n, {})[v[0]] = allele
                if findable:
                    res["must_pair"].setdefault(n, set()).add(v[0])
                if same and findable:
                    res["must"].setdefault(n, set()).add(v[0])
            elif wins <= {"clean", "skip"}:
                res["truth_skip"].setdefault(n, {})[v[0]] = allele
                if same and findable:
                    res["must_skip"].setdefault(n, set()).add(v[0])
    case = dict(ref=ref, listed=listed, carried=sorted(carried), alns=alns, ncov=ncov, threshold=threshold,
                header=[tuple(h) for h in header], sample=sample, malformed=malformed,
                **{k: v for k, v in extra.items() if k != "real"})
    for k in keys:
        case[k] = [(n, sorted(t.items()) if isinstance(t, dict) else sorted(t)) for n, t in sorted(res[k].items())]
    return case


KEYS = ("truth_all", "truth_clean", "truth_skip", "must", "must_skip", "must_pair")


def aln_json(a):
    return dict(nid=a["nid"], start=a["start"], cigar=[list(c) for c in a["cigar"]], seq=a["seq"],
                quals=a["quals"], flag=a.get("flag", 0), mapq=a.get("mapq", 60), rg=a.get("rg", 0), sm=a.get("sm", 0),
                file=a.get("file", 0), qname=a.get("qname", a["nid"]),
                **({"mate_start": a["mate_start"]} if "mate_start" in a else {}))


def aln_from_json(a):
    import array
    a = dict(a)
    a["cigar"] = [tuple(c) for c in a["cigar"]]
    a["qarr"] = array.array("B", a["quals"]) if a["quals"] else None
    return a


def case_json(case):
    d = dict(ref=case["ref"], listed=[list(v) for v in case["listed"]], threshold=case.get("threshold", 100000),
             header=[list(h) for h in case.get("header", [(0, 0)])], sample=case.get("sample", 0),
             opts=opts_of(case), names=case.get("names", "plain"), nfiles=case.get("nfiles", 1),
             alns=[aln_json(a) for a in case["alns"]])
    if case.get("decoy"):
        d["decoy"] = dict(first=case["decoy"]["first"], alns=[aln_json(a) for a in case["decoy"]["alns"]])
        for k in ("ref", "listed", "gt"):
            if k in case["decoy"]:
                d["decoy"][k] = case["decoy"][k]
    d["history"] = case.get("history", [])
    for k in KEYS:
        d[k] = [[n, [list(x) if isinstance(x, tuple) else x for x in t]] for n, t in case[k]]
    return d


def case_from_json(d):
    alns = [aln_from_json(a) for a in d["alns"]]
    case = dict(ref=d["ref"], listed=[tuple(v) for v in d["listed"]], alns=alns, ncov=1, threshold=d.get("threshold", 100000),
                header=[tuple(h) for h in d.get("header", [[0, 0]])], sample=d.get("sample", 0),
                opts=d.get("opts", DEFAULT_OPTS), names=d.get("names", "plain"), nfiles=d.get("nfiles", 1))
    if d.get("decoy"):
        case["decoy"] = dict(first=d["decoy"]["first"], alns=[aln_from_json(a) for a in d["decoy"]["alns"]])
        for k in ("ref", "gt"):
            if k in d["decoy"]:
                case["decoy"][k] = d["decoy"][k]
        if "listed" in d["decoy"]:
            case["decoy"]["listed"] = [tuple(v) for v in d["decoy"]["listed"]]
    case["history"] = d.get("history", [])
    for k in KEYS:
        case[k] = [(n, [tuple(x) if isinstance(x, list) else x for x in t]) for n, t in d[k]]
    return case


def gen_exhaustive(rng):
    """every placement of a 12-base read (hap columns) over a 30-base reference with one variant of each type,
    both alleles, M and =/X styles."""
    ref = G.rand_seq(rng, 30)
    for kind in ("snv", "ins", "del", "mnp"):
        v = None
        while v is None:
            v = G.make_variant(rng, ref, 14, kind, max_len=3)
        for carried in (False, True):
            listed = [v]
            ev = [(v[0], v[1], v[2], 0)] if carried else []
            cols = G.build_hap(ref, ev)
            for style in ("M", "EQX"):
                for c0 in range(0, len(cols) - 11):
                    al = G.make_alignment(rng, cols, c0, c0 + 12, style=style)
                    if al is None:
                        continue
                    al["nid"] = 0
                    al["qarr"] = G.quals_array(rng, len(al["seq"]), "const")
                    al["quals"] = list(al["qarr"])
                    yield finish_case(ref, listed, {0} if carried else set(), cols, [al])


# ------------------------------------------------------------------------------------------ checking
CHECKS = {"L1wrong": "l1_no_wrong", "L1wrong_skip": "l1_no_wrong_skip", "L1overlap": "l1_overlap",
          "L1missing": "l1_missing", "L1missing_skip": "l1_missing_skip",
          "L1missing_pair": "l1_missing_pair", "L1crash": "l1_no_crash", "L2": "l2_model", "repaired": "repaired_ok"}
# experiments against a patched scratch copy of the repo: WHVERIF_C06_RULES=1111 compares (L2) with the model under
# the repaired rules (bit k = rule k repaired); the default is the model of the code as it is
_bits = os.environ.get("WHVERIF_C06_RULES", "")
if _bits:
    CHECKS["L2"] = "l2_model_with (mkRules " + " ".join("true" if c == "1" else "false" for c in _bits) + ")"
L1_KEYS = ("L1wrong", "L1wrong_skip", "L1overlap", "L1missing", "L1missing_skip", "L1missing_pair", "L1crash")
# attribution of failing cases to the switchable rules of the model (second Coq round, failing cases only)
ATTRIB = {"L2orig": "l2_model_with original_rules", "rule0": "not_needed 0", "rule1": "not_needed 1", "rule2": "not_needed 2", "rule3": "not_needed 3",
          "rule4": "not_needed 4", "rule5": "not_needed 5", "rule6": "not_needed 6"}

# one signature per defect class (= per switchable rule of the model); everything else keeps a generic signature.
# All five classes are repaired in /repo; a regression (output = the model under original_rules) gets its signature back.
RULE_SIG = {
    "rule0": ("realign:window-extends-across-reference-skip",
              "cigar_prefix_length reports the requested instead of the consumed reference bases at a reference skip (N); "
              "the padded alleles extend across the skip: wrong allele / allele not found / AssertionError"),
    "rule1": ("noref:insertion-called-ref-at-start-of-aligned-block",
              "without reference an insertion whose anchor lies immediately before the first base of an aligned block "
              "(read start, after N) is reported as REF although the read does not span the insertion point"),
    "rule2": ("paired:opposite-strand-mate-dropped",
              "create_read_from_group drops every alignment on the other strand than the last primary one, i.e. one mate of "
              "an FR pair; its fully covered variants get no allele"),
    "rule3": ("noref:insertion-variant-queued-by-upstream-insertion-op",
              "_detect_alleles uses ref_end = ref_pos + length at an I operation: an insertion variant less than `length` "
              "bases downstream is queued against the wrong query bases and reported as REF (wrong allele / allele for a "
              "variant beyond the read end)"),
    "rule4": ("group:alignment-beyond-distance-threshold-of-itself",
              "AlignedRead.distance is max(other.end - self.start, other.start - self.end, 0) instead of the gap between the "
              "two alignments: a primary alignment whose reference span exceeds supplementary_distance_threshold (default "
              "100000) drops out of its own group and the read loses every allele; a mate to the right is measured to its end"),
    "rule5": ("noref:insertion-called-ref-at-block-beginning-with-insertion-op",
              "without reference, an aligned block that begins with an insertion operation (alignment starting inside an "
              "insertion, or N directly followed by I) queues the insertion variant at that I operation although the left "
              "junction is not covered: a partial insertion does not match and the empty REF allele is reported (q30) for a "
              "variant the read does not overlap and whose ALT allele its haplotype carries (fix 7e88262 exempts I operations)"),
    "rule6": ("noref:symbolic-alt-read-as-literal-sequence",
              "without reference a record with a symbolic ALT (<DEL>, <DUP>, ...) enters the CIGAR-based detection with the "
              "symbol taken as literal text (a 4-base insertion): every spanning read is reported as REF with full quality, "
              "including reads that carry the real deletion behind a <DEL> record (fixed by b8437fb)"),
}
GENERIC = {"L1wrong": "detect:wrong-allele", "L1wrong_skip": "detect:wrong-allele", "L1overlap": "detect:allele-for-non-overlapped-variant",
           "L1missing": "realign:allele-not-found", "L1missing_skip": "realign:allele-not-found",
           "L1missing_pair": "realign:allele-not-found", "L1crash": "detect:assertion-error"}


def prefix_exit(cig, want):
    """where a cigar_prefix_length walk ends and which aligned operation it passed last (tally only)"""
    rp, last = 0, "nothing"
    for op, n in cig:
        if op in "M=X":
            rp += n
            if rp >= want:
                return f"satisfied_in_M.after_{last}"
            last = "M"
        elif op == "D":
            rp += n
            if rp >= want:
                return f"satisfied_in_D.after_{last}"
            last = "D"
        elif op == "I":
            last = "I"
        elif op == "N":
            return f"stopped_at_N.after_{last}"
        elif op in "SH":
            last = last if last.endswith("+clip") or last == "nothing" else last + "+clip"
    return f"cigar_exhausted.after_{last}"


def tally_helpers(ctx, case):
    """which input classes of _iterate_cigar / split_cigar_left,right / cigar_prefix_length the case reaches
    (uses the implementation's own _iterate_cigar to find the split points; counters only)"""
    from types import SimpleNamespace
    from whatshap._variants import _iterate_cigar
    o = opts_of(case)
    t = ctx.tally
    variants = [SimpleNamespace(position=v[0]) for v in case["listed"]]
    for a in case["alns"]:
        if not usable(a, o):
            continue
        cig = [(G.OPCODE[op], n) for op, n in a["cigar"]]
        yielded = set()
        try:
            ys = list(_iterate_cigar(variants, 0, SimpleNamespace(reference_start=a["start"]), cig))
        except Exception:
            t("iterate_cigar.exception")
            continue
        clipped_before = any(op == "S" for op, _ in a["cigar"][:2])
        for j, i, consumed, qpos in ys:
            yielded.add(j)
            op, n = a["cigar"][i]
            v = case["listed"][j]
            t(f"iterate_cigar.yield_at.{'M' if op in 'M=X' else op}")
            t("split." + ("nothing_on_the_left" if i == 0 and consumed == 0 else
                          "only_clips_on_the_left" if consumed == 0 and all(x in "SH" for x, _ in a["cigar"][:i]) else
                          "at_operation_boundary" if consumed == 0 else
                          "last_base_of_operation" if consumed == n - 1 else "inside_operation"))
            left = ([(op, consumed)] if consumed else []) + a["cigar"][:i][::-1]
            right = ([(op, n - consumed)] if consumed < n else []) + a["cigar"][i + 1:]
            t("prefix_left." + prefix_exit(left, o["overhang"]))
            t("prefix_right." + prefix_exit(right, len(v[1]) + o["overhang"]))
            if any(x == "I" for x, _ in a["cigar"][:i]):
                t("query_pos.insertion_before_variant")
            if clipped_before:
                t("query_pos.soft_clip_before_variant")
        first, last = a["start"], ref_end(a)
        for j, v in enumerate(case["listed"]):
            if j not in yielded and first <= v[0] < last:
                t("iterate_cigar.variant_inside_reference_skip_not_yielded")
        if len(ys) >= 2 and any(ys[k][1] == ys[k + 1][1] for k in range(len(ys) - 1)):
            t("iterate_cigar.two_variants_in_one_operation")


def tally_dimensions(ctx, case):
    """input-distribution counters for the coverage audit (one call per case, reference-free pass only)"""
    o = opts_of(case)
    t = ctx.tally
    t(f"opt.mapq_threshold.{o['mapq']}")
    t(f"opt.overhang.{o['overhang']}")
    t(f"opt.use_supplementary.{o['use_supp']}")
    t(f"opt.duplicates.{o['dup']}")
    t(f"restricted_genotypes.{o.get('gmode', 'none')}")
    kinds = [G.kind_of(v) for v in case["listed"]]
    if "sym" in kinds:
        t("symbolic_alt_records", kinds.count("sym"))
        ncar = sum(1 for i, k in enumerate(kinds) if k == "sym" and i in set(case.get("carried", [])))
        if ncar:
            t("symbolic_del_record_with_carried_deletion", ncar)
        first = kinds.index("sym")
        if any(k != "sym" for k in kinds[first + 1:]):
            t("symbolic_alt_record_before_other_variants" + (".with_restriction" if o.get("gt") is not None else ""))
    for g in (o.get("gt") or []):
        t("genotype." + ("missing" if not g else "hom" if len(set(g)) == 1 else "het") + (".triploid" if len(g) == 3 else ""))
    t(f"names.{case.get('names', 'plain')}")
    t(f"bam_files.{len(files_of(case))}")
    thr = case.get("threshold", 100000)
    for n in {a["nid"] for a in case["alns"]}:
        g = [a for a in case["alns"] if a["nid"] == n]
        for a in g:
            for b in g:
                if a is not b and a["start"] <= b["start"]:
                    gap = max(b["start"] - ref_end(a), 0)
                    if abs(gap - thr) <= 1:
                        t("distance_gap_vs_threshold." + ("below" if gap < thr else "at" if gap == thr else "above"))
    if any(not a["quals"] for a in case["alns"]):
        t("alignment_without_base_qualities")
    if len({(a.get('qname', a['nid'])) for a in case['alns']}) < len({a['nid'] for a in case['alns']}):
        t("same_qname_in_two_files")
    if case.get("decoy"):
        t("decoy_contig." + ("before" if case["decoy"]["first"] else "after"))
    t("history_on_one_reader." + ("+".join(case.get("history", [])) or "single_call"))
    if "twin" in case.get("history", []):
        t("history.twin_swapped_substitutions", sum(1 for (p, r, a) in case["decoy"]["listed"] if (p, a, r) in case["listed"]))
    if case.get("stream") == "repeat":
        t("repeat_indel.cases")
        t("repeat_indel.alignments_ending_inside_repeat", len(case["alns"]))
        t("repeat_indel.haplotypes_in_case." + str(len({tuple(a.get("carried", ())) for a in case["alns"]})))
    t("n_listed." + ("0" if not case["listed"] else "1" if len(case["listed"]) == 1 else "2+"))
    t("n_alignments." + ("1" if len(case["alns"]) == 1 else "2-3" if len(case["alns"]) <= 3 else "4+"))
    if len(case.get("header", [0])) > 1:
        per = {}
        for g, sm in case["header"]:
            per[sm] = per.get(sm, 0) + 1
        for sm, k in per.items():
            t("read_groups_per_sample." + ("noSM" if sm is None else str(k)))
        # are the read groups of the requested sample adjacent in the header?
        smp = case.get("sample", 0)
        idx = [i for i, (g, sm) in enumerate(case["header"]) if sm == smp]
        if len(idx) > 1:
            t("requested_sample_groups." + ("adjacent" if idx[-1] - idx[0] == len(idx) - 1 else "interleaved"))
    tally_helpers(ctx, case)
    names = {}
    for a in case["alns"]:
        names.setdefault(a["nid"], []).append(a)
        for idx, x in a.get("t", {}).items():
            kind = G.kind_of(case["listed"][idx]) + ("_alt" if x[0] else "_ref")
            t(f"neighbour_before.{kind}.{x[2]}")
            t(f"neighbour_after.{kind}.{x[3]}")
        f = a.get("flag", 0)
        thr = o["mapq"]
        mq = a.get("mapq", 60)
        if mq in (thr - 1, thr, thr + 1):
            t("mapq_vs_threshold." + ("below" if mq < thr else "at" if mq == thr else "above"))
        for bit, nm in ((0x400, "duplicate"), (0x100, "secondary"), (0x800, "supplementary"), (0x4, "unmapped")):
            if f & bit:
                t("flag." + nm + (".duplicates=True" if bit == 0x400 and o["dup"] else "")
                  + (".use_supplementary=True" if bit == 0x800 and o["use_supp"] else ""))
        ops = [op for op, _ in a["cigar"] if op not in "SH"]
        if len(a["cigar"]) > len(ops):
            t("clipped_alignment")
        first, last = a["start"], ref_end(a) - 1
        # reference intervals of D / N operations and positions of I operations
        rp, dels, skips, inss = a["start"], [], [], []
        for op, n in a["cigar"]:
            if op == "D":
                dels.append((rp, rp + n))
            elif op == "N":
                skips.append((rp, rp + n))
            elif op == "I":
                inss.append(rp)
            if op in "MDN=X":
                rp += n
        for idx, v in enumerate(case["listed"]):
            p, e = v[0], v[0] + len(v[1]) - 1
            if e < first or p > last:
                if p == last + 1 or e == first - 1:
                    t("variant.adjacent_outside_alignment")
                continue
            kind = G.kind_of(v) + ("R" if G.is_right_anchored(v) else "")
            if p < first or e > last:
                t("variant.straddles_alignment_end")
                continue
            if p == first:
                t("variant.at_first_aligned_base." + kind)
            if e == last:
                t("variant.at_last_aligned_base." + kind)
            if 0 < p - first < o["overhang"] or 0 < last - e < o["overhang"]:
                t("variant.window_truncated_by_alignment_end")
            if any(x <= p < y and (x, y) != (p + 1, e + 1) for x, y in dels) and G.kind_of(v) in ("snv", "mnp"):
                t("variant.snv_or_mnp_inside_deletion_op")
            if any(x <= p < y for x, y in skips):
                t("variant.inside_reference_skip")
            for x, y in skips:
                rel = ("variant_directly_after_skip" if p == y else "first_base_is_last_skipped" if p == y - 1 else
                       "variant_directly_before_skip" if e == x - 1 else "last_base_is_first_skipped" if e == x and p < x else
                       "inside_skip" if x <= p and e < y else None)
                if rel:
                    others = sum(1 for w in case["listed"] if w is not v and x <= w[0] < y)
                    before = sum(1 for w in case["listed"] if w is not v and first <= w[0] < x)
                    t(f"skip.{kind}.{rel}.others_inside_{min(others, 2)}")
                    t(f"skip.{rel}.listed_before_skip_{min(before, 2)}.inside_{min(others, 2)}")
            if any(abs(x - p) <= 1 or abs(y - 1 - e) <= 1 or abs(y - p) <= 1 or abs(x - 1 - e) <= 1 for x, y in skips):
                t("variant.next_to_reference_skip")
            if any(abs(x - p) <= 1 for x in inss) and G.kind_of(v) != "ins":
                t("variant.non_insertion_within_1_of_insertion_op")
            if any(0 < x - (p + 1) < 5 for x in inss) and G.kind_of(v) == "ins":
                t("variant.insertion_shortly_before_another_insertion_op")
    for n, g in names.items():
        prim = [a for a in g if not a.get("flag", 0) & 0x900]
        if len(prim) == 2:
            r = ["R" if a.get("flag", 0) & 0x10 else "F" for a in prim]
            t("pair_orientation." + "".join(r))
            if ref_end(prim[0]) > prim[1]["start"]:
                t("pair.mates_overlap")
        if any(a.get("flag", 0) & 0x800 for a in g) and prim:
            same = any(bool(a.get("flag", 0) & 0x10) == bool(prim[-1].get("flag", 0) & 0x10) for a in g if a.get("flag", 0) & 0x800)
            t("supplementary_with_primary." + ("same_strand" if same else "other_strand"))


def check_cases(ctx, wd, cases, label, perturb=None):
    terms, raw = [], []
    for case in cases:
        for refmode in (True, False):
            out = run_impl(wd, case, refmode, perturb)
            terms.append(case_term(case, refmode, out))
            raw.append((case, refmode, out))
            key = (case["ref"], tuple(case["listed"]), tuple((a["start"], tuple(a["cigar"]), a["seq"], a.get("flag", 0))
                                                             for a in case["alns"]), refmode)
            ctx.count(key, nontrivial=case["ncov"] > 0)
            ctx.tally(f"{label}.cases")
            ctx.tally("alignments", len(case["alns"]))
            ctx.tally("mode.ref" if refmode else "mode.noref")
            if refmode:
                continue
            for a in case["alns"]:
                for o, _ in a["cigar"]:
                    ctx.tally("cigar_op." + o)
                if "mate_start" in a:
                    ctx.tally("mate_alignments")
                if not usable(a, opts_of(case)):
                    ctx.tally("filtered_alignments")
            for v in case["listed"]:
                ctx.tally("listed." + G.kind_of(v))
            ctx.tally("covered_variant_instances", case["ncov"])
            ctx.tally(f"distance_threshold.{case.get('threshold', 100000)}")
            tally_dimensions(ctx, case)
            ctx.tally("drive." + ("single-read-group" if len(case.get("header", [0])) == 1 else
                                  "malformed" if case.get("malformed") else
                                  "sample=None" if case.get("sample", 0) is None else "sample-of-interleaved-read-groups"))
            for k in KEYS:
                ctx.tally("truth." + k, sum(len(t) for _, t in case[k]))
    failing, errors = eval_checks("C06", HEADER, CHECKS, terms, shard=ctx.n(40, 150), timeout=1500)
    if errors:
        raise RuntimeError("coq evaluation failed: " + errors[0][1])
    return raw, failing


def describe(case, refmode, out):
    return (f"reference={'yes' if refmode else 'no'} ref={case['ref']} variants={case['listed']} "
            f"alignments={[(a['nid'], a['start'], cig_str(a['cigar']), a['seq'], a.get('flag', 0)) for a in case['alns']]} "
            f"truth={case['truth_clean'] if refmode else case['truth_all']} truth_skip={case['truth_skip'] if refmode else []} "
            f"must={case['must_pair'] if refmode else []} distance_threshold={case.get('threshold', 100000)} "
            f"read_groups(id,sample)={case.get('header', [(0, 0)])} requested_sample={case.get('sample', 0)} "
            f"alignment_RG={[a.get('rg', 0) for a in case['alns']]} options={opts_of(case)} files={case.get('nfiles', 1)} "
            f"alignment_file={[a.get('file', 0) for a in case['alns']]} history={case.get('history', [])} detected={out}")


def cig_str(c):
    return "".join(f"{n}{o}" for o, n in c)


def report(ctx, raw, failing):
    """L1 failures (evaluated in Coq on the implementation's output) -> violations.  The signature is chosen by a second
    Coq evaluation: which of the model's switchable (defective) rules must be repaired for this input to satisfy all
    clauses.  A failure no rule explains keeps the generic signature of the failing clause."""
    F = {k: set(v) for k, v in failing.items()}
    bad = sorted(set().union(*[F[k] for k in L1_KEYS]))
    if not bad:
        return
    terms = [case_term(*raw[i]) for i in bad]
    att, errors = eval_checks("C06a", HEADER, ATTRIB, terms, shard=100, timeout=1500)
    if errors:
        raise RuntimeError("coq evaluation failed: " + errors[0][1])
    needed = {i: [r for r in RULE_SIG if k in set(att[r])] for k, i in enumerate(bad)}
    as_original = {i for k, i in enumerate(bad) if k not in set(att["L2orig"])}   # output = model of the code before the fixes
    for i in bad:
        case, refmode, out = raw[i]
        rp = {"case": case_json(case), "refmode": refmode}
        clauses = [k for k in L1_KEYS if i in F[k]]
        d = describe(case, refmode, out)
        if (i in F["L2"] and i not in as_original) or i in F["repaired"] or not needed[i]:
            for c in clauses:
                sig = GENERIC[c] + ("" if refmode else "-noref")
                multi_rg = len(case.get("header", [0])) > 1 and case.get("sample", 0) is not None
                if multi_rg and c.startswith("L1missing"):
                    # input class: a sample owning several read groups (interleaved @RG lines) loses alignments
                    sig = "readgroups:alignments-of-sample-dropped"
                elif c == "L1crash" and isinstance(out, Err) and out.code != 0:
                    sig = "readgroups:well-formed-input-rejected"
                ctx.violation(sig, f"clause {c} fails: {d}", rp)
        else:
            for r in needed[i]:
                sig, text = RULE_SIG[r]
                ctx.violation(sig, f"{text}; failing clauses {clauses}: {d}", rp)
    for i in sorted(F["repaired"] - F["L2"]):
        case, refmode, out = raw[i]
        # not a verdict about the code: the repaired rules of the model must satisfy all clauses
        ctx.l2_disagreement("repaired rules satisfy the specification", [{"case": case_json(case), "refmode": refmode}])
        ctx.violation("correspondence:repaired-rules",
                      f"the repaired rules of the model do not satisfy the specification on this input: {describe(case, refmode, out)}",
                      {"case": case_json(case), "refmode": refmode}, found_input=False)


def run(ctx, perturb=None):
    rng = ctx.rng
    wd = util.workdir(ctx)
    cases = []
    target_alns = ctx.n(400, 20000)
    n = 0
    while n < target_alns:
        cs = gen_repeat_case(rng) if rng.random() < 0.12 else gen_case(rng, small=rng.random() < 0.3)
        if cs is None:
            continue
        cases += cs                      # one case per drive (requested sample) of the scenario
        n += len(cs[0]["alns"])
    ex = list(gen_exhaustive(rng)) if not ctx.quick else list(gen_exhaustive(rng))[::3]
    raw, failing = check_cases(ctx, wd, cases + ex, "all", perturb)
    ctx.exhaustive = not ctx.quick
    ctx.extra["exhaustive_placements"] = len(ex)
    for case, refmode, out in raw[:3]:
        ctx.sample({"case": case_json(case), "refmode": refmode, "impl": out})
    report(ctx, raw, failing)
    if failing["L2"]:
        l2 = [raw[i] for i in failing["L2"]]
        ctx.disagreements_checked += len(l2)
        ctx.l2_disagreement("AlleleDetect.read_set = ReadSetReader.read (L2)",
                            [{"case": case_json(c), "refmode": m, "impl": o} for c, m, o in l2])
        known = {sig for sig, _ in RULE_SIG.values()}
        if not any(v["signature"] not in known for v in ctx.violations):
            # the model no longer describes the code: search for an input violating the property text itself.
            # First the disagreeing cases reduced to single alignments, then a wider seeded sample; verdicts in Coq.
            cand = []
            for c, m, o in l2[:40]:
                for a in c["alns"]:
                    if usable(a, opts_of(c)) and in_sample(a, c.get("sample", 0)) and not c.get("malformed"):
                        cand.append(restrict_case(c, [a]))
            more = []
            while len(more) < ctx.n(300, 1500):
                cs = gen_case(rng, small=True)
                if cs is not None:
                    more += cs
            raw2, failing2 = check_cases(ctx, wd, cand + more, "search", perturb)
            report(ctx, raw2, failing2)
        if not any(v["signature"] not in known for v in ctx.violations):
            # (the framework's own "no failing input found" line is suppressed by the violations of the known defect
            # classes, so it is emitted here)
            ctx.violation("correspondence:AlleleDetect.read_set",
                          f"model correspondence no longer checks on {len(l2)} cases (ReadSetReader.read differs from "
                          f"AlleleDetect.read_set); search found no input violating the property text beyond the known defect classes",
                          {"broken_correspondence": ["AlleleDetect.read_set = ReadSetReader.read (L2)"],
                           "disagreeing_cases": [{"case": case_json(c), "refmode": m, "impl": o} for c, m, o in l2[:5]]},
                          found_input=False)


def restrict_case(case, alns):
    """the same scenario with only the given alignments (ground truth restricted accordingly)"""
    names = {a["nid"] for a in alns}
    c = dict(case)
    c["alns"] = alns
    for k in KEYS:
        c[k] = [(n, t) for n, t in case[k] if n in names and len([a for a in case["alns"] if a["nid"] == n and usable(a, opts_of(case)) and in_sample(a, case.get("sample", 0))]) ==
                len([a for a in alns if a["nid"] == n])]
    return c


def replay(ctx, data):
    wd = util.workdir(ctx)
    case = case_from_json(data["case"])
    raw, failing = [], None
    out = run_impl(wd, case, data["refmode"])
    t = case_term(case, data["refmode"], out)
    failing, errors = eval_checks("C06r", HEADER, CHECKS, [t], shard=10)
    if errors:
        raise RuntimeError("coq evaluation failed: " + errors[0][1])
    ctx.count(("replay",), nontrivial=True)
    report(ctx, [(case, data["refmode"], out)], failing)
    if failing["L2"]:
        ctx.l2_disagreement("AlleleDetect.read_set = ReadSetReader.read (L2)", [{"case": data["case"], "impl": out}])
