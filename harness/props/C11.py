"""C11 — compare reports the defined error counts, independent of haplotype labelling.

(a) direct calls of the real python functions of whatshap/cli/compare.py and of the real
    SwitchFlipCalculator (ploidy 2-4);  (b) the real CLI `whatshap compare` on generated VCF pairs/triples.
All verdicts are computed inside Coq (model/Compare.v) on the implementation's own outputs.
"""
import contextlib
import io
import itertools
import os
from concurrent.futures import ThreadPoolExecutor

from ..coqeval import term, Raw, Nat, NN, Some, eval_checks
from ..util import run_cli, workdir

RULE = ("diploid blocks: every pair of equally long 0/1 strings up to length 7 (quick) / 8 (thorough, plus 40000 random pairs of length 9) as first "
        "haplotypes of two heterozygous phasings, run through compare_block, compute_switch_flips, BedCreator.records and "
        "compare_pair (longest-block agreement) and through the three relabellings (haplotype order swapped in either "
        "phasing, phasings exchanged); seeded random longer pairs (length 10-60: few switches/flips, complements, random) "
        "and random non-complementary haplotype pairs; polyploid blocks: random 2-4 haplotypes x 1-7 positions, alleles "
        "0/1(/2), cost pairs (1,1), (1,2nk+1), (2,3), (3,1), every permutation of the rows of either phasing; CLI: generated "
        "VCF pairs/triples (1-3 chromosomes, several/interleaved/negative/missing phase-set ids, unphased, homozygous, "
        "missing and half-missing calls, indels, duplicate positions, records without ALT, one or two samples, --sample / "
        "--ignore-sample-name / --only-snvs / --names, ploidy 2-4) with --tsv-pairwise --longest-block-tsv "
        "--switch-error-bed --tsv-multiway, each also re-run with the haplotype order permuted per phase set in one file, "
        "plus identical-input and diploid multi-allelic (allele 2) streams. A case is non-trivial if the two phasings "
        "differ in at least one switch-encoding position or allele (direct) / the run has at least one intersection "
        "block with >= 2 variants (CLI); distinct = distinct input.")
TRUSTED = [
    "modelled, not verified: python string/dict/float semantics behind compare.py (dict insertion order of block_intersection, "
    "int()/float division for ploidy 2, '/ploidy' for ploidy > 2), pysam/htslib VCF parsing and VcfReader's record filter "
    "(re-stated by the harness in reader_view: skip records without ALT, duplicate positions, non-SNVs under --only-snvs; "
    "Genotype([]) of a missing call counts as heterozygous)",
    "the dominance pruning inside SwitchFlipCalculator::compare is not modelled (model = unpruned DP, proved equal to the "
    "brute-force minimum); tied to the C++ code only by correspondence (cost, returned path, set of optimal decompositions)",
    "for strings longer than 11 the L1 value 'minimum number of switch points' is evaluated as hamming of the switch "
    "encodings (theorem C11_switches_def), for polyploid blocks with more than 8000 permutation sequences the minimum is "
    "evaluated by sf_dp (theorem C11_sf_dp_eq_spec); below these sizes the brute-force definitions are evaluated directly",
    "rate columns (floats) are checked in python as nominator/denominator of the integer columns",
]
ASSUMPTIONS = [
    "diploid theorems: both haplotype strings over {0,1}, equally long, second haplotype = complement of the first "
    "(heterozygous bi-allelic block); diploid calls with an allele >= 2 are outside the model (separate crash-only stream)",
    "polyploid invariance/zero theorems: every column has exactly ploidy alleles",
    "block intersection: one block-id entry per data set for every common variant",
    "VCF input: positions ascending per chromosome, one ploidy per file (what VcfReader enforces)",
]

SIG_F1 = "compare:longest-block-orientation"
SIG_POLY_TIE = "compare:poly-switchflip-decomposition-label-dependent"
SIG_SINGLE = "compare:poly-single-position-phantom-switches"
SIG_MAV = "compare:diploid-multiallelic-complement-crash"
SIG_TRIPLE_POLY = "compare:polyploid-triple-assertion"
SIG_MULTIWAY = "compare:multiway-no-all-agree-assertion"
SIG_PAIRDEF = "compare:pair-report-differs-from-two-file-definitions"
NONE_BID = -999999   # stands for block_id None (phased call with PS '.')

HEADER = """From Coq Require Import List Bool Arith NArith ZArith.
From WH.Model Require Import Compare.
Import ListNotations.
Definition B (l : list nat) : hap := map (fun x => negb (Nat.eqb x 0)) l.
Definition pe5 (t : nat * nat * nat * nat * nat) : phasing_errors :=
  let '(a, b, c, d, e) := t in PE a b (c, d) e.
Definition opt_pe_eqb (a : option phasing_errors) (b : phasing_errors) : bool :=
  match a with Some x => pe_eqb x b | None => false end.
Definition onat_eqb (a : option nat) (b : nat) : bool := match a with Some x => Nat.eqb x b | None => false end.
Definition nn_in (x : N * N) (l : list (N * N)) : bool := existsb (nn_eqb x) l.
Definition is_perm_b (k : nat) (p : list nat) : bool :=
  Nat.eqb (length p) k && forallb (fun i => mem_nat i p) (seq 0 k).
Definition zlistlist_eqb (a b : list (list Z)) : bool :=
  Nat.eqb (length a) (length b) && forallb (fun ab => zlist_eqb (fst ab) (snd ab)) (combine a b).
"""


# ====================================================================== helpers
def comp(s):
    return "".join("1" if c == "0" else "0" for c in s)


def B(s):
    """0/1 string -> Coq hap"""
    return Raw("(B [" + ";".join(s) + "])") if s else Raw("(@nil bool)")


def L(items, ty):
    """python list -> Coq list literal with an explicit element type when empty"""
    return Raw(term(list(items))) if items else Raw(f"(@nil {ty})")


def bools(v):
    return Raw("[" + ";".join("true" if x else "false" for x in v) + "]") if v else Raw("(@nil bool)")


def quiet(f, *a, **kw):
    with contextlib.redirect_stdout(io.StringIO()):
        return f(*a, **kw)


def pe_tuple(e):
    return (Nat(int(e.switches)), Nat(int(e.hamming)), Nat(int(e.switch_flips.switches)),
            Nat(int(e.switch_flips.flips)), Nat(int(e.diff_genotypes)))


def fail_on_errors(errors, what):
    if errors:
        raise RuntimeError(f"coq evaluation failed ({what}): " + errors[0][1])


# ====================================================================== (a1) diploid, direct
def run_pair_direct(p0, p1, positions):
    """compare_pair on one heterozygous block with first haplotypes p0, p1 (len >= 2)."""
    from whatshap.cli import compare as C
    from whatshap.vcf import VariantCallPhase, BiallelicVcfVariant
    n = len(p0)
    ph0 = [VariantCallPhase(0, (int(a), 1 - int(a)), None) for a in p0]
    ph1 = [VariantCallPhase(0, (int(a), 1 - int(a)), None) for a in p1]
    variants = [BiallelicVcfVariant(pos, "A", "C") for pos in positions]
    bed, agree, lpos, pcr = quiet(C.compare_pair, {(0, 0): list(range(n))}, 1, n, [ph0, ph1], 2, variants,
                                  C.BedCreator("chrT", ["x", "y"]))
    return bed, agree, lpos, pcr


def dip_case(p0, p1):
    """Run the real functions on a heterozygous diploid block; returns (coq term, raw dict)."""
    from whatshap.cli import compare as C
    n = len(p0)
    c0, c1 = comp(p0), comp(p1)
    e = C.compare_block([p0, c0], [p1, c1])
    sf = C.compute_switch_flips(p0, p1)
    sw0 = C.switch_encoding(p0)
    relabel = [C.compare_block([c0, p0], [p1, c1]), C.compare_block([p0, c0], [c1, p1]),
               C.compare_block([p1, c1], [p0, c0])]
    positions = [10 * i + 3 for i in range(n)]
    bed = [(r[1], r[2]) for r in C.BedCreator("chrT", ["x", "y"]).records(p0, p1, positions)]
    agree = None
    pair = None
    if n >= 2:
        bed2, agree, lpos, pcr = run_pair_direct(p0, p1, positions)
        pair = dict(bed=[(r[1], r[2]) for r in bed2], lpos=lpos,
                    tot=(pcr.all_switches, pcr.blockwise_hamming, pcr.all_switchflips.switches,
                         pcr.all_switchflips.flips, pcr.blockwise_diff_genotypes),
                    lb=(pcr.largestblock_switches, pcr.largestblock_hamming, pcr.largestblock_switchflips.switches,
                        pcr.largestblock_switchflips.flips, pcr.largestblock_diff_genotypes),
                    pairs=pcr.all_assessed_pairs)
    raw = dict(p0=p0, p1=p1, e=repr(e), sf=repr(sf), bed=bed, agree=agree)
    pair_ok = True
    if pair is not None:
        t5 = (e.switches, e.hamming, e.switch_flips.switches, e.switch_flips.flips, e.diff_genotypes)
        pair_ok = (pair["bed"] == bed and pair["tot"] == t5 and pair["lb"] == t5 and pair["lpos"] == positions
                   and pair["pairs"] == n - 1)
    t = term((B(p0), B(p1), pe_tuple(e), (Nat(sf.switches), Nat(sf.flips)), B(sw0),
              [pe_tuple(x) for x in relabel], L([(a, b) for a, b in bed], "(Z * Z)"),
              (Some(bools(agree)) if agree is not None else Raw("(@None (list bool))")),
              L(positions, "Z"), pair_ok))
    return t, raw


# accessors of the case tuple (((((((((p0,p1),e),sf),sw0),relabel),bed),agree),pos),pair_ok)
T5 = "(nat * nat * nat * nat * nat)"
DIP_LET = ("fun c : (hap * hap * " + T5 + " * (nat * nat) * hap * list " + T5 + " * list (Z * Z) * option (list bool) * list Z * bool) => "
           "let '(p0, p1, e, sf, sw0, relabel, bed, agree, pos, pair_ok) := c in "
           "let ph0 := (p0, complement p0) in let ph1 := (p1, complement p1) in ")
DIP_CHECKS = {
    # ---- L1: the property's definitions and identities, on the implementation's numbers
    "L1_switches_def": DIP_LET + "if Nat.leb (length p0) 11 then onat_eqb (min_switches_bf p0 p1) (pe_switches (pe5 e)) "
                                 "else Nat.eqb (hamming (switch_encoding p0) (switch_encoding p1)) (pe_switches (pe5 e))",
    "L1_sf_identity": DIP_LET + "Nat.eqb (pe_switches (pe5 e)) (fst (pe_sf (pe5 e)) + 2 * snd (pe_sf (pe5 e)))",
    "L1_hamming_def": DIP_LET + "Nat.eqb (pe_hamming (pe5 e)) (Nat.min (hamming p0 p1) (hamming p0 (complement p1)))",
    "L1_diff_genotypes": DIP_LET + "Nat.eqb (pe_diff (pe5 e)) 0",
    "L1_zero_on_equal": DIP_LET + "if hap_eqb p0 p1 || hap_eqb p0 (complement p1) then pe_eqb (pe5 e) pe_zero else true",
    "L1_label_invariance": DIP_LET + "forallb (fun r => pe_eqb (pe5 r) (pe5 e)) relabel",
    "L1_bed_count": DIP_LET + "Nat.eqb (length bed) (pe_switches (pe5 e))",
    "L1_agreement": DIP_LET + "match agree with Some v => Nat.eqb (zeros v) (pe_hamming (pe5 e)) | None => true end",
    "L1_agreement_shape": DIP_LET + "match agree with Some v => Nat.eqb (length v) (length p0) | None => true end",
    # ---- L2: implementation = model
    "L2_compare_block": DIP_LET + "opt_pe_eqb (compare_block_dip ph0 ph1) (pe5 e)",
    "L2_switch_flips": DIP_LET + "Nat.eqb (fst (compute_switch_flips p0 p1)) (fst sf) && Nat.eqb (snd (compute_switch_flips p0 p1)) (snd sf)",
    "L2_switch_encoding": DIP_LET + "hap_eqb (switch_encoding p0) sw0",
    "L2_bed": DIP_LET + "zzlist_eqb (bed_records p0 p1 pos) bed",
    "L2_agreement": DIP_LET + "match agree with Some v => hap_eqb (agreement ph0 ph1) v | None => true end",
    "L2_compare_pair": DIP_LET + "pair_ok",
}
DIP_SIG = {
    "L1_switches_def": "compare:switches-not-minimum", "L1_sf_identity": "compare:switchflip-identity",
    "L1_hamming_def": "compare:hamming-not-minimum", "L1_diff_genotypes": "compare:diff-genotypes",
    "L1_zero_on_equal": "compare:nonzero-on-equal", "L1_label_invariance": "compare:label-dependent",
    "L1_bed_count": "compare:bed-count", "L1_agreement": SIG_F1, "L1_agreement_shape": "compare:longest-block-shape",
}


def check_diploid(ctx, pairs, label, shard=600):
    cases, raws = [], []
    for p0, p1 in dict.fromkeys(pairs):
        try:
            t, raw = dip_case(p0, p1)
        except Exception as ex:      # an exception of the implementation is an output, not a harness error
            ctx.violation(f"compare:exception-{type(ex).__name__}", f"compare functions raise {ex!r} on h0={p0} h1={p1}",
                          {"kind": "diploid", "p0": p0, "p1": p1})
            ctx.count(("dip", p0, p1), nontrivial=True)
            continue
        cases.append(t)
        raws.append(raw)
        ctx.count(("dip", p0, p1), nontrivial=(p0 != p1 and p0 != comp(p1)))
        ctx.tally(f"diploid.{label}.pairs")
        ctx.tally(f"diploid.len.{min(len(p0) // 10 * 10, 60) if len(p0) > 9 else len(p0)}")
        d = sum(a != b for a, b in zip(p0, p1))
        if 2 * d == len(p0) and p0:
            ctx.tally("diploid.orientation_tie")
        if d in (0, len(p0)):
            ctx.tally("diploid.equal_or_complement")
        nsw = sum((a == b) != (c == e) for a, b, c, e in zip(p0, p0[1:], p1, p1[1:]))
        ctx.tally(f"diploid.switch_errors.{min(nsw, 4)}{'+' if nsw >= 4 else ''}")
    failing, errors = eval_checks("C11dip", HEADER, DIP_CHECKS, cases, shard=shard, timeout=1500)
    fail_on_errors(errors, "diploid")
    nviol = 0
    for lab, sig in DIP_SIG.items():
        idx = failing[lab]
        # report the shortest few inputs per class
        for i in sorted(idx, key=lambda i: (len(raws[i]["p0"]), i))[:2]:
            r = raws[i]
            ctx.violation(sig, f"{lab} fails for compare on h0={r['p0']} h1={r['p1']}: compare_block -> {r['e']}, "
                               f"bed={r['bed']}, longest-block agreement={r['agree']}"
                               + (f" ({len(idx)} such inputs in this stream)" if len(idx) > 1 else ""),
                          {"kind": "diploid", "p0": r["p0"], "p1": r["p1"]})
            nviol += 1
        if idx:
            ctx.tally(f"diploid.{label}.fail.{lab}", len(idx))
    l2 = {}
    for lab in DIP_CHECKS:
        if lab.startswith("L2_") and failing[lab]:
            l2[lab] = [raws[i] for i in failing[lab]]
    return failing, l2, raws


def gen_dip_exhaustive(maxlen):
    for n in range(0, maxlen + 1):
        for a in itertools.product("01", repeat=n):
            for b in itertools.product("01", repeat=n):
                yield "".join(a), "".join(b)


def gen_dip_random(rng, count):
    for _ in range(count):
        n = rng.choice([8, 10, 10, 11, 12, 15, 20, 30, 45, 60])
        p0 = "".join(rng.choice("01") for _ in range(n))
        kind = rng.random()
        if kind < 0.55:      # few switch / flip errors, maybe relabelled
            cur = 0
            out = []
            for i, c in enumerate(p0):
                if i and rng.random() < 0.12:
                    cur ^= 1
                b = int(c) ^ cur
                if rng.random() < 0.08:
                    b ^= 1
                out.append(str(b))
            p1 = "".join(out)
            if rng.random() < 0.5:
                p1 = comp(p1)
        elif kind < 0.65:
            p1 = p0 if rng.random() < 0.5 else comp(p0)
        else:
            p1 = "".join(rng.choice("01") for _ in range(n))
        yield p0, p1


# ---- non-complementary diploid haplotype pairs (compare_block only; L2 of the general branch)
def check_diploid_general(ctx, rng, count):
    from whatshap.cli import compare as C
    cases, raws = [], []
    for _ in range(count):
        n = rng.randint(0, 9)
        hs = ["".join(rng.choice("01") for _ in range(n)) for _ in range(4)]
        try:
            e = C.compare_block(hs[:2], hs[2:])
        except Exception as ex:
            ctx.violation(f"compare:exception-{type(ex).__name__}", f"compare_block raises {ex!r} on {hs[:2]} vs {hs[2:]}",
                          {"kind": "dipgen", "haps": hs})
            continue
        cases.append(term((B(hs[0]), B(hs[1]), B(hs[2]), B(hs[3]), pe_tuple(e))))
        raws.append((hs, repr(e)))
        ctx.count(("dipgen", tuple(hs)), nontrivial=n > 1)
        ctx.tally("diploid.general.blocks")
    chk = {"L2_compare_block_general": "fun c : (hap * hap * hap * hap * " + T5 + ") => let '(a, b, c0, d, e) := c in opt_pe_eqb (compare_block_dip (a, b) (c0, d)) (pe5 e)"}
    failing, errors = eval_checks("C11dipgen", HEADER, chk, cases, shard=500)
    fail_on_errors(errors, "diploid general")
    return [raws[i] for i in failing["L2_compare_block_general"]]


# ====================================================================== (a2) polyploid, direct
COSTS = ["unit", "big", (2, 3), (3, 1)]


def poly_case(ph0, ph1, with_perms=True):
    """ph0, ph1: lists of k allele strings. Runs SwitchFlipCalculator for several cost pairs, compare_block, and every
    row permutation of either side."""
    from whatshap.cli import compare as C
    from whatshap.polyphase.solver import SwitchFlipCalculator
    k, n = len(ph0), len(ph0[0])
    runs = []
    for cst in COSTS:
        sc, fc = (1, 1) if cst == "unit" else (1, 2 * n * k + 1) if cst == "big" else cst
        s, f, swc, flc, pc = SwitchFlipCalculator(k, sc, fc).compute_switch_flips_poly(ph0, ph1)
        assert s == int(s) and f == int(f)
        runs.append((sc, fc, int(s), int(f), [[int(x) for x in p] for p in pc]))
    cb = None
    perm_cb = []
    perm_sf = []
    num = lambda x: int(round(x * k))

    def cbt(a, b):
        e = C.compare_block(a, b)
        vals = (e.switches * k, e.hamming * k, e.switch_flips.switches * k, e.switch_flips.flips * k)
        assert all(abs(v - round(v)) < 1e-6 for v in vals), vals
        return (num(e.switches), num(e.hamming), num(e.switch_flips.switches), num(e.switch_flips.flips),
                int(e.diff_genotypes))
    if k >= 3:
        cb = cbt(ph0, ph1)
    if with_perms:
        for perm in itertools.permutations(range(k)):
            if perm == tuple(range(k)):
                continue
            for a, b in (([ph0[i] for i in perm], ph1), (ph0, [ph1[i] for i in perm])):
                r = C.compute_switch_flips_poly(a, b)
                perm_sf.append((num(r.switches), num(r.flips)))
                if k >= 3:
                    perm_cb.append(cbt(a, b))
    rows = lambda ph: [[int(c) for c in h] for h in ph]
    t = term((Nat(k), Nat(n), rows(ph0), rows(ph1),
              [(NN(sc), NN(fc), NN(s), NN(f), L([L([Nat(x) for x in p], "nat") for p in pc], "(list nat)")) for sc, fc, s, f, pc in runs],
              (Some((NN(cb[0]), NN(cb[1]), NN(cb[2]), NN(cb[3]), Nat(cb[4]))) if cb else Raw("(@None " + PT5 + ")")),
              L([(NN(a), NN(b)) for a, b in perm_sf], "(N * N)"),
              L([(NN(c[0]), NN(c[1]), NN(c[2]), NN(c[3]), Nat(c[4])) for c in perm_cb], PT5)))
    raw = dict(ph0=ph0, ph1=ph1, runs=[r[:4] for r in runs], compare_block=cb, perm_sf=sorted(set(perm_sf)),
               perm_cb_sf=sorted(set((c[2], c[3]) for c in perm_cb)))
    return t, raw


PT5 = "(N * N * N * N * nat)"
POLY_LET = ("fun c : (nat * nat * list (list Z) * list (list Z) * list (N * N * N * N * list (list nat)) * option " + PT5 +
            " * list (N * N) * list " + PT5 + ") => let '(k, n, r0, r1, runs, cb, perm_sf, perm_cb) := c in "
            "let cs := combine (columns_of n r0) (columns_of n r1) in "
            "let small := Nat.leb (Nat.pow (length (perms k)) n) 8000 in ")
POLY_CHECKS = {
    # L1: reported cost = minimum over all sequences of permutations (brute force where feasible)
    "L1_cost_is_minimum": POLY_LET + "forallb (fun r => let '(sc, fc, s, f, path) := r in "
                          "N.eqb (sc * s + fc * f) (if small then sf_spec sc fc k cs else sf_dp sc fc k cs)) runs",
    "L1_zero_on_equal": POLY_LET + "if zlistlist_eqb r0 r1 then forallb (fun r => let '(sc, fc, s, f, path) := r in "
                        "N.eqb s 0 && N.eqb f 0) runs else true",
    # relabelling either side: total cost, switches, hamming, diff_genotypes unchanged
    "L1_perm_invariance_cost": POLY_LET + "match runs with (_, _, s, f, _) :: _ => forallb (fun sf => N.eqb (fst sf + snd sf) (s + f)) perm_sf | [] => false end",
    "L1_perm_invariance_block": POLY_LET + "match cb with Some (a, b, s, f, d) => forallb (fun x => let '(a', b', s', f', d') := x in "
                                "N.eqb a a' && N.eqb b b' && N.eqb (s' + f') (s + f) && Nat.eqb d d') perm_cb | None => true end",
    "L1_perm_invariance_decomposition": POLY_LET + "match cb with Some (a, b, s, f, d) => forallb (fun x => let '(a', b', s', f', d') := x in "
                                        "N.eqb s s' && N.eqb f f') perm_cb | None => true end",
    "L1_block_defs": POLY_LET + "match cb with Some (a, b, s, f, d) => "
                     "let m := filter (fun c => geno_eqb (fst c) (snd c)) cs in let big := (2 * N.of_nat n * N.of_nat k + 1)%N in "
                     "N.eqb b (poly_hamming_num r0 r1) && N.eqb (s + f) (if small then sf_spec 1 1 k cs else sf_dp 1 1 k cs) && "
                     "N.eqb a (if small then sf_spec 1 big k m else sf_dp 1 big k m) && Nat.eqb d (length cs - length m) | None => true end",
    # L2
    "L2_dp": POLY_LET + "forallb (fun r => let '(sc, fc, s, f, path) := r in N.eqb (sc * s + fc * f) (sf_dp sc fc k cs)) runs",
    "L2_path": POLY_LET + "forallb (fun r => let '(sc, fc, s, f, path) := r in "
               "Nat.eqb (length path) n && forallb (is_perm_b k) path && nn_eqb (path_sf path cs) (s, f) && "
               "nn_in (s, f) (sf_optimal_decompositions sc fc k cs)) runs",
    "L2_compare_block": POLY_LET + "match cb with Some (a, b, s, f, d) => let m := compare_block_poly r0 r1 in "
                        "N.eqb a (ppe_switches_num m) && N.eqb b (ppe_hamming_num m) && N.eqb (s + f) (ppe_sf_cost m) && "
                        "nn_in (s, f) (ppe_sf_allowed m) && Nat.eqb d (ppe_diff m) | None => true end",
}
POLY_SIG = {
    "L1_cost_is_minimum": "compare:poly-cost-not-minimum", "L1_zero_on_equal": "compare:poly-nonzero-on-equal",
    "L1_perm_invariance_cost": "compare:poly-cost-label-dependent",
    "L1_perm_invariance_block": "compare:poly-block-label-dependent",
    "L1_perm_invariance_decomposition": SIG_POLY_TIE, "L1_block_defs": "compare:poly-block-definitions",
}


def gen_poly(rng, count):
    for _ in range(count):
        k = rng.choice([2, 3, 3, 4])
        n = rng.randint(1, {2: 9, 3: 7, 4: 5}[k])
        alph = "01" if rng.random() < 0.8 else "012"
        ph0 = ["".join(rng.choice(alph) for _ in range(n)) for _ in range(k)]
        x = rng.random()
        if x < 0.15:
            ph1 = list(ph0)
        elif x < 0.3:
            perm = list(range(k))
            rng.shuffle(perm)
            ph1 = [ph0[i] for i in perm]
        elif x < 0.7:     # same genotypes, switches and flips
            colsv = [[h[i] for h in ph0] for i in range(n)]
            perm = list(range(k))
            out = []
            for col in colsv:
                if rng.random() < 0.3:
                    i, j = rng.sample(range(k), 2)
                    perm[i], perm[j] = perm[j], perm[i]
                c = [col[p] for p in perm]
                if rng.random() < 0.15:
                    c[rng.randrange(k)] = rng.choice(alph)
                out.append(c)
            ph1 = ["".join(out[i][h] for i in range(n)) for h in range(k)]
        else:
            ph1 = ["".join(rng.choice(alph) for _ in range(n)) for _ in range(k)]
        yield ph0, ph1


def check_poly(ctx, blocks, label, shard=40):
    cases, raws = [], []
    for ph0, ph1 in blocks:
        try:
            t, raw = poly_case(ph0, ph1)
        except Exception as ex:
            ctx.violation(f"compare:exception-{type(ex).__name__}", f"polyploid compare functions raise {ex!r} on phasing0={ph0} phasing1={ph1}",
                          {"kind": "poly", "ph0": ph0, "ph1": ph1})
            ctx.count(("poly", tuple(ph0), tuple(ph1)), nontrivial=True)
            continue
        cases.append(t)
        raws.append(raw)
        ctx.count(("poly", tuple(ph0), tuple(ph1)), nontrivial=sorted(ph0) != sorted(ph1))
        ctx.tally(f"poly.{label}.blocks")
        ctx.tally(f"poly.ploidy.{len(ph0)}")
        ctx.tally(f"poly.positions.{len(ph0[0])}")
        if any("2" in h for h in ph0 + ph1):
            ctx.tally("poly.allele_2")
        if ph0 == ph1:
            ctx.tally("poly.identical")
        elif sorted(ph0) == sorted(ph1):
            ctx.tally("poly.row_permuted")
        if len(set(ph0)) < len(ph0) or len(set(ph1)) < len(ph1):
            ctx.tally("poly.duplicate_haplotypes")
        nm = sum(1 for i in range(len(ph0[0])) if sorted(h[i] for h in ph0) == sorted(h[i] for h in ph1))
        ctx.tally("poly.matching_genotype_positions." + ("0" if nm == 0 else "1" if nm == 1 else "all" if nm == len(ph0[0]) else "some"))
    failing, errors = eval_checks("C11poly", HEADER, POLY_CHECKS, cases, shard=shard, timeout=1500)
    fail_on_errors(errors, "polyploid")
    def n_matched(r):
        cols0 = [sorted(h[i] for h in r["ph0"]) for i in range(len(r["ph0"][0]))]
        cols1 = [sorted(h[i] for h in r["ph1"]) for i in range(len(r["ph1"][0]))]
        return sum(1 for a, b in zip(cols0, cols1) if a == b)
    l1_failed = set()
    for lab, sig in POLY_SIG.items():
        idx = failing[lab]
        l1_failed |= set(idx)
        by_sig = {}
        for i in idx:
            r = raws[i]
            single = len(r["ph0"][0]) == 1 or (lab in ("L1_block_defs", "L1_perm_invariance_block") and n_matched(r) == 1)
            by_sig.setdefault(SIG_SINGLE if single else sig, []).append(i)
        for sg, ii in by_sig.items():
            # prefer ploidy >= 3 (reachable from the CLI), then small inputs
            for i in sorted(ii, key=lambda i: (len(raws[i]["ph0"]) < 3, len(raws[i]["ph0"]) * len(raws[i]["ph0"][0]), i))[:2]:
                r = raws[i]
                ctx.violation(sg, f"{lab} fails for polyploid block phasing0={r['ph0']} phasing1={r['ph1']}: "
                                  f"(switch_cost, flip_cost, switches, flips)={r['runs']} compare_block*ploidy={r['compare_block']} "
                                  f"(sf.switches, sf.flips)*ploidy of compare_block over all row permutations={r['perm_cb_sf']}"
                                  + (f" ({len(ii)} such inputs in this stream)" if len(ii) > 1 else ""),
                              {"kind": "poly", "ph0": r["ph0"], "ph1": r["ph1"]})
            ctx.tally(f"poly.{label}.fail.{lab}.{sg}", len(ii))
    l2 = {}
    for lab in POLY_CHECKS:
        rest = [i for i in failing[lab] if i not in l1_failed]      # explained by an L1 violation of the same input
        if lab.startswith("L2_") and rest:
            l2[lab] = [raws[i] for i in rest]
    return failing, l2


# ====================================================================== (b) CLI
VCF_HEAD = ("##fileformat=VCFv4.2\n"
            "##FORMAT=<ID=GT,Number=1,Type=String,Description=\"Genotype\">\n"
            "##FORMAT=<ID=PS,Number=1,Type=Integer,Description=\"Phase set identifier\">\n"
            "##FORMAT=<ID=HP,Number=.,Type=String,Description=\"Phasing haplotype identifier\">\n")
CHROMS = ["chrA", "chrB", "chrC"]
# chromosome name pools in FILE order; several of them do not sort like their file order
CHROM_POOLS = [["chrA", "chrB", "chrC"], ["chr2", "chr10", "chr1"], ["2", "10", "X"], ["scaffold_b", "scaffold_ab", "scaffold_a"]]
DATASET_NAMES = ["z", "a", "ab", "a_b", "B", "file1", "file0", "x-y", "truth", "10", "9", "phased.vcf"]
SAMPLE_NAMES = ["s1", "s2", "NA12878", "child", "mother", "S", "s", "sample", "HG002"]


def write_vcf(path, f):
    with open(path, "w") as out:
        out.write(VCF_HEAD)
        seen = []
        for r in f["records"]:
            if r["chrom"] not in seen:
                seen.append(r["chrom"])
        for c in seen:
            out.write(f"##contig=<ID={c},length=1000000>\n")
        out.write("#CHROM\tPOS\tID\tREF\tALT\tQUAL\tFILTER\tINFO\tFORMAT\t" + "\t".join(f["samples"]) + "\n")
        for r in f["records"]:
            has_hp = r.get("has_hp", False)
            fmt = "GT" + (":PS" if r["has_ps"] else "") + (":HP" if has_hp else "")
            calls = []
            for c in r["calls"]:
                x = c["gt"]
                if r["has_ps"]:
                    x += ":" + ("." if c["ps"] is None else str(c["ps"]))
                if has_hp:
                    x += ":" + (",".join(c["hp"]) if c.get("hp") else ".")
                calls.append(x)
            out.write("\t".join([r["chrom"], str(r["pos"]), ".", r["ref"], ",".join(r["alts"]) if r["alts"] else ".",
                                 ".", ".", ".", fmt] + calls) + "\n")


def parse_gt(gt):
    al = tuple(None if x == "." else int(x) for x in gt.replace("|", "/").split("/"))
    return al, ("|" in gt)


def reader_view(f, chrom, sidx, only_snvs):
    """What VcfReader(phases=True, mav=True, only_snvs=...) delivers for sample sidx on one chromosome:
    list of dict(pos0, key, het, phase) with phase = None | (block_id, alleles)."""
    out = []
    prev = None
    for r in f["records"]:
        if r["chrom"] != chrom:
            continue
        if not r["alts"]:
            continue
        snv = len(r["ref"]) == 1 and all(len(a) == 1 for a in r["alts"])
        if only_snvs and not snv:
            continue
        pos0 = r["pos"] - 1
        if prev == pos0:
            continue
        prev = pos0
        c = r["calls"][sidx]
        al, phased = parse_gt(c["gt"])
        het = True if any(a is None for a in al) else not all(a == al[0] for a in al)
        phase = None
        if r.get("has_hp") and c.get("hp"):          # _extract_HP_phase
            fields = [[int(x) for x in h.split("-")] for h in c["hp"]]
            order = [x[1] - 1 for x in fields]
            phase = (fields[0][0], tuple(al[order.index(i)] for i in range(len(order))))
        elif phased and not all(a == al[0] for a in al):   # _extract_GT_PS_phase
            bid = (c["ps"] if c["ps"] is not None else NONE_BID) if r["has_ps"] else 0
            phase = (bid, al)
        if phase is not None and any(a is None for a in phase[1]):
            phase = None          # compare(): any(p is None for p in phase.phase) -> treated like unphased
        out.append(dict(pos0=pos0, key=(r["ref"], tuple(r["alts"])), het=het, phase=phase))
    return out


def file_chroms(f):
    return {r["chrom"] for r in f["records"]}


def select_samples(sc):
    """get_sample_names: returns list of sample index per file and the names."""
    files = sc["files"]
    if sc["sample"]:
        names = [sc["sample"]] * len(files)
    elif sc["ignore_sample_name"]:
        names = [f["samples"][0] for f in files]
    else:
        inter = set(files[0]["samples"])
        for f in files[1:]:
            inter &= set(f["samples"])
        assert len(inter) == 1
        names = [list(inter)[0]] * len(files)
    return [f["samples"].index(nm) for f, nm in zip(files, names)], names


def simple_scenario(ploidy, gts_per_file, ps=7):
    """one chromosome, one sample, one phase set per file; gts_per_file[f][i] = GT string of site i in file f
    (None = no record for the site in that file)"""
    files = []
    for gts in gts_per_file:
        files.append(dict(samples=["s1"], records=[
            dict(chrom="chrA", pos=100 * (i + 1), ref="A", alts=["C"], has_ps=True,
                 calls=[dict(gt=g[0], ps=g[1]) if isinstance(g, tuple) else dict(gt=g, ps=ps)])
            for i, g in enumerate(gts) if g is not None]))
    return dict(ploidy=ploidy, only_snvs=False, ignore_sample_name=False, sample=None, names=None, files=files)


def disjoint_chrom_scenario():
    sc = simple_scenario(2, [dip_gts("0101"), dip_gts("0110")])
    for r in sc["files"][1]["records"]:
        r["chrom"] = "chrB"
    return sc


def dip_gts(h):
    return [f"{c}|{1 - int(c)}" for c in h]


def gen_scenario(rng, ploidy, nfiles, identical=False, mav=False, targeted=False):
    """targeted: files 0 and 1 are cleanly phased; every further file lacks / has homozygous / missing / unphased calls
    at many sites (the pairwise report of files 0,1 must not depend on them)."""
    k = ploidy
    pool = rng.choice(CHROM_POOLS)
    chroms = pool[:rng.choice([1, 1, 2, 3])] if not mav else pool[:1]
    smode = rng.choice(["single", "single", "multi", "shared", "ignore", "ignore_same"]) if not mav else "single"
    clean = identical or mav
    p_switch, p_flip = (0.0, 0.0) if identical else (0.05, 0.03) if nfiles > 2 else (0.15, 0.08)
    nm = rng.sample(SAMPLE_NAMES, nfiles + 2)
    if smode == "single":
        samples = [[nm[0]]] * nfiles
        sample, ignore = None, False
    elif smode == "multi":
        samples = [rng.sample(nm[:2], 2) for _ in range(nfiles)]
        sample, ignore = rng.choice(nm[:2]), False
    elif smode == "shared":
        samples = [rng.sample([nm[0], nm[2 + i]], 2) for i in range(nfiles)]
        sample, ignore = None, False
    elif smode == "ignore":
        samples = [[nm[2 + i]] for i in range(nfiles)]
        sample, ignore = None, True
    else:
        samples = [[nm[0]]] * nfiles
        sample, ignore = None, True
    sc = dict(ploidy=k, only_snvs=(rng.random() < 0.25 and not mav), ignore_sample_name=ignore, sample=sample,
              names=(",".join(rng.choice([rng.sample(DATASET_NAMES, nfiles), ["ab", "a", "abc", "a_b"][:nfiles],
                                              ["file1", "file0", "file3", "file2"][:nfiles]])) if rng.random() < 0.4 else None), files=[])
    alph = [0, 1] if (k == 2 and not mav) or rng.random() < 0.7 else [0, 1, 2]
    # sites and a "true" phasing
    sites = []
    for c in chroms:
        pos = rng.choice([1, 1, rng.randint(2, 500)])
        for _ in range(rng.randint(3, 22) if not mav else rng.randint(3, 8)):
            x = rng.random()
            ref, alts = ("A", ["C"]) if x < 0.8 else ("AT", ["A"]) if x < 0.88 else ("G", ["GTT"]) if x < 0.94 else ("A", ["C", "G"])
            if len(alph) == 3 and x < 0.4:
                ref, alts = "A", ["C", "G"]
            na = len(alts) + 1
            while True:
                truth = [rng.choice([a for a in alph if a < na]) for _ in range(k)]
                if len(set(truth)) > 1:
                    break
            if mav and x < 0.5:
                ref, alts, truth = "A", ["C", "G"], rng.choice([[1, 2], [2, 1], [0, 2]])
            sites.append(dict(chrom=c, pos=pos, ref=ref, alts=alts, truth=truth))
            pos += rng.choice([1, 1, rng.randint(2, 400)])
    for fi in range(nfiles):
        degraded = targeted and fi >= 2
        tclean = targeted and fi < 2
        hp_mode = (not mav) and (not identical) and rng.random() < 0.12
        drop_chrom = rng.choice(chroms) if (len(chroms) > 1 and rng.random() < 0.2 and not targeted) else None
        records = []
        nb = rng.randint(1, 4) if not mav else 1
        ids = rng.sample([5, 17, 100, 2041, 33333, 0, 77] + ([] if hp_mode else [-4]), nb)
        contiguous = rng.random() < 0.65
        cur_block = {}
        perm_of = {}
        forder = list(chroms)
        if rng.random() < 0.5:
            rng.shuffle(forder)                      # chromosome groups in another order than in the other files
        for s in sorted(sites, key=lambda s: forder.index(s["chrom"])):
            if s["chrom"] == drop_chrom or (rng.random() < (0.25 if degraded else 0.1) and not mav and not tclean):
                continue
            c = s["chrom"]
            if contiguous:
                if c not in cur_block or rng.random() < 0.2:
                    cur_block[c] = rng.choice(ids)
                bid = cur_block[c]
            else:
                bid = rng.choice(ids)
            key = (c, bid)
            if key not in perm_of:
                p = list(range(k))
                rng.shuffle(p)
                perm_of[key] = p
            if rng.random() < p_switch:         # switch error from here on
                i, j = rng.sample(range(k), 2)
                p = perm_of[key]
                p[i], p[j] = p[j], p[i]
            al = [s["truth"][i] for i in perm_of[key]]
            if rng.random() < p_flip:                # flip error
                i, j = rng.sample(range(k), 2)
                al[i], al[j] = al[j], al[i]
            if not identical and k > 2 and rng.random() < 0.06:      # different genotype
                al[rng.randrange(k)] = rng.choice([a for a in alph if a <= len(s["alts"])])
            has_ps = (rng.random() > 0.06 or mav) and not hp_mode
            calls = []
            any_hp = False
            for si in range(len(samples[fi])):
                x = rng.random()
                if degraded and si == 0:
                    x = rng.choice([0.5, 0.8, 0.88, 0.92, 0.97])
                a = al if si == 0 else [rng.choice([a for a in alph if a <= len(s["alts"])]) for _ in range(k)]
                ps = bid if (rng.random() > 0.04 or mav) else None
                hp = None
                if x < 0.78 or clean or (tclean and si == 0):
                    if hp_mode and len(set(a)) > 1:
                        pi = list(range(k))
                        rng.shuffle(pi)
                        gt = "/".join(str(a[pi[j]]) for j in range(k))
                        hp = [f"{bid}-{pi[j] + 1}" for j in range(k)]
                        any_hp = True
                    else:
                        gt = ("/" if hp_mode else "|").join(map(str, a))
                elif x < 0.86:
                    gt = "/".join(map(str, sorted(a)))
                elif x < 0.91:
                    h = rng.choice([0, 1])
                    gt = (rng.choice("|/") if not hp_mode else "/").join([str(h)] * k)
                elif x < 0.94:
                    gt = "/".join(["."] * k)
                    ps = None
                else:
                    b = list(map(str, a))
                    b[rng.randrange(k)] = "."
                    gt = ("/" if hp_mode else "|").join(b)
                calls.append(dict(gt=gt, ps=ps, hp=hp))
            records.append(dict(chrom=c, pos=s["pos"], ref=s["ref"], alts=list(s["alts"]), has_ps=has_ps, has_hp=any_hp, calls=calls))
            if rng.random() < 0.03 and not mav:     # duplicate position (second record is skipped by the reader)
                records.append(dict(chrom=c, pos=s["pos"], ref="A", alts=["AGG"], has_ps=not hp_mode, has_hp=False,
                                    calls=[dict(gt=("/" if hp_mode else "|").join(["0"] * (k - 1) + ["1"]), ps=ids[0], hp=None) for _ in samples[fi]]))
            if rng.random() < 0.02:     # record without ALT
                records.append(dict(chrom=c, pos=s["pos"] + 0, ref="A", alts=[], has_ps=False, has_hp=False,
                                    calls=[dict(gt="/".join(["0"] * k), ps=None, hp=None) for _ in samples[fi]]))
        sc["files"].append(dict(samples=list(samples[fi]), records=records, hp_mode=hp_mode))
    if identical:
        base = sc["files"][0]
        for fi in range(nfiles):
            sc["files"][fi] = dict(samples=list(samples[fi]), hp_mode=False,
                                   records=[dict(r, calls=[dict(c) for c in r["calls"]][:1] * len(samples[fi])) for r in base["records"]])
    # the constructed phasing is in column 0: put the compared sample's name there
    sidx, names = select_samples(sc)
    for f, i in zip(sc["files"], sidx):
        if i != 0:
            f["samples"][0], f["samples"][i] = f["samples"][i], f["samples"][0]
    return sc


def relabel_scenario(rng, sc):
    """Same phasing with the haplotypes of every phase set of one file (or of every file) listed in a different order."""
    import copy
    sc2 = copy.deepcopy(sc)
    k = sc["ploidy"]
    nf = len(sc2["files"])
    which = list(range(nf)) if rng.random() < 0.3 else [rng.randrange(nf)]
    sidx, _ = select_samples(sc2)
    for fi in which:
        perms = {}
        for r in sc2["files"][fi]["records"]:
            c = r["calls"][sidx[fi]]
            if c.get("hp"):
                key = (r["chrom"], "hp", c["hp"][0].split("-")[0])
            elif "|" in c["gt"]:
                key = (r["chrom"], c["ps"] if r["has_ps"] else 0)
            else:
                continue
            if key not in perms:
                p = list(range(k))
                while p == list(range(k)):
                    rng.shuffle(p)
                perms[key] = p
            if c.get("hp"):      # haplotype h becomes haplotype perms[h]: rename the haplotype indices
                c["hp"] = [f"{h.split('-')[0]}-{perms[key][int(h.split('-')[1]) - 1] + 1}" for h in c["hp"]]
            else:
                al = c["gt"].split("|")
                c["gt"] = "|".join(al[i] for i in perms[key])
    return sc2, which


def cli_args(sc, files, outs):
    a = ["compare", "--ploidy", sc["ploidy"], "--tsv-pairwise", outs["pair"]]
    if sc["ploidy"] == 2:
        a += ["--longest-block-tsv", outs["lb"], "--switch-error-bed", outs["bed"]]
        if len(files) > 2:
            a += ["--tsv-multiway", outs["mw"]]
    if sc["only_snvs"]:
        a += ["--only-snvs"]
    if sc["ignore_sample_name"]:
        a += ["--ignore-sample-name"]
    if sc["sample"]:
        a += ["--sample", sc["sample"]]
    if sc["names"]:
        a += ["--names", sc["names"]]
    return a + files


def run_scenario(ctx, wd, tag, sc):
    d = os.path.join(wd, tag)
    os.makedirs(d, exist_ok=True)
    files = []
    for i, f in enumerate(sc["files"]):
        p = os.path.join(d, f"in{i}.vcf")
        write_vcf(p, f)
        files.append(p)
    outs = {x: os.path.join(d, x + ".out") for x in ("pair", "lb", "bed", "mw")}
    rc, so, se = run_cli(ctx, cli_args(sc, files, outs), cwd=d)
    res = dict(rc=rc, stderr=se[-1500:], files=files, pair=[], lb={}, bed=[], mw=[])
    rd = lambda p: [l.rstrip("\n").split("\t") for l in open(p)] if os.path.exists(p) else []
    rows = rd(outs["pair"])
    if rows:
        hdr = [h.lstrip("#") for h in rows[0]]
        res["pair"] = [dict(zip(hdr, r)) for r in rows[1:]]
    for r in rd(outs["lb"])[1:]:
        res["lb"].setdefault((r[0], r[1], r[3]), []).append((int(r[4]), int(r[5])))
    res["bed"] = [(r[0], int(r[1]), int(r[2]), r[3]) for r in rd(outs["bed"])]
    res["mw"] = [(r[1], r[2], r[3], int(r[4]), r[0]) for r in rd(outs["mw"])[1:]]
    return res


def expected_structure(sc):
    """dataset names, sample names, sorted common chromosomes, per chromosome and file the reader view."""
    n = len(sc["files"])
    dnames = sc["names"].split(",") if sc["names"] else [f"file{i}" for i in range(n)]
    sidx, snames = select_samples(sc)
    common = set.intersection(*[file_chroms(f) for f in sc["files"]])
    views = {c: [reader_view(f, c, si, sc["only_snvs"]) for f, si in zip(sc["files"], sidx)] for c in sorted(common)}
    return dnames, snames, sorted(common), views


def key_ids(views_all):
    ids = {}
    for views in views_all.values():
        for v in views:
            for c in v:
                ids.setdefault(c["key"], len(ids))
    return ids


def table_term(view, ids, k):
    out = []
    for c in view:
        if c["phase"] is None:
            ph = None
        elif k == 2:
            ph = Some((c["phase"][0], (bool(c["phase"][1][0]), bool(c["phase"][1][1]))))
        else:
            ph = Some((c["phase"][0], [int(a) for a in c["phase"][1]]))
        out.append((c["pos0"], ids[c["key"]], bool(c["het"]), ph))
    return L(out, "call" if k == 2 else "pcall")


def fnum(x, k):
    v = float(x) * k
    assert abs(v - round(v)) < 1e-6, (x, k)
    return int(round(v))


def rate_ok(nom, den, shown):
    import math
    if den == 0:
        return shown == "nan"
    return shown == str(nom / den) or math.isclose(float(shown), nom / den, rel_tol=1e-12, abs_tol=1e-12)


def has_allele2(views):
    return any(c["phase"] is not None and any(a is not None and a > 1 for a in c["phase"][1]) for v in views for c in v)


CLI2_LET = ("fun c : (list call * list call * (nat * nat * nat) * " + T5 + " * nat * " + T5 + " * list Z * list bool * list (Z * Z) * nat * list call) => "
            "let '(t0, t1, counts, tot, lpairs, lb, lpos, lagree, bed, het0, tfirst) := c in "
            "let '(nb, nv, pairs) := counts in ")
CLI2_CHECKS = {
    # L1 (identities between the outputs of one run, as the property states them)
    "L1_sf_identity": CLI2_LET + "Nat.eqb (pe_switches (pe5 tot)) (fst (pe_sf (pe5 tot)) + 2 * snd (pe_sf (pe5 tot))) && "
                                 "Nat.eqb (pe_switches (pe5 lb)) (fst (pe_sf (pe5 lb)) + 2 * snd (pe_sf (pe5 lb)))",
    "L1_bed_count": CLI2_LET + "Nat.eqb (length bed) (pe_switches (pe5 tot))",
    "L1_agreement": CLI2_LET + "Nat.eqb (zeros lagree) (pe_hamming (pe5 lb))",
    "L1_agreement_shape": CLI2_LET + "Nat.eqb (length lagree) (length lpos) && "
                                     "(Nat.eqb (length lpos) 0 || Nat.eqb (length lpos) (S lpairs))",
    # L1: the row of a pair equals the definitions evaluated on the two files of the pair only
    "L1_pair_definition": CLI2_LET + "let '(sb, sv, sp, ssw, sham, smx, smax) := pair_spec t0 t1 in "
                          "Nat.eqb nb sb && Nat.eqb nv sv && Nat.eqb pairs sp && Nat.eqb (pe_switches (pe5 tot)) ssw && "
                          "Nat.eqb (pe_hamming (pe5 tot)) sham && Nat.eqb (pe_diff (pe5 tot)) 0 && Nat.eqb lpairs (smx - 1) && "
                          "(if Nat.eqb smx 0 then pe_eqb (pe5 lb) pe_zero else "
                          "existsb (fun x => Nat.eqb (fst x) (pe_switches (pe5 lb)) && Nat.eqb (snd x) (pe_hamming (pe5 lb))) smax)",
    # L2: every column = model
    "L2_row": CLI2_LET + "match compare2 t0 t1 with (nb', nv', Some s) => "
              "Nat.eqb nb nb' && Nat.eqb nv nv' && Nat.eqb pairs (ps_pairs s) && pe_eqb (pe5 tot) (ps_total s) && "
              "Nat.eqb lpairs (ps_longest s - 1) && pe_eqb (pe5 lb) (ps_longest_err s) && "
              "Nat.eqb het0 (length (filter c_het tfirst)) | _ => false end",
    "L2_longest_block": CLI2_LET + "match compare2 t0 t1 with (_, _, Some s) => "
                        "zlist_eqb lpos (ps_longest_pos s) && hap_eqb lagree (ps_longest_agree s) | _ => false end",
    "L2_bed": CLI2_LET + "match compare2 t0 t1 with (_, _, Some s) => zzlist_eqb (zz_sort (ps_bed s)) bed | _ => false end",
}
CLIP_LET = ("fun c : (nat * list pcall * list pcall * (nat * nat * nat) * " + PT5 + " * nat * " + PT5 + " * nat * list pcall) => "
            "let '(k, t0, t1, counts, tot, lpairs, lb, het0, tfirst) := c in let '(nb, nv, pairs) := counts in "
            "let '(tsw, tham, tsfs, tsff, tdiff) := tot in let '(lsw, lham, lsfs, lsff, ldiff) := lb in "
            "let '(nb', nv', s) := compare2_poly k t0 t1 in ")
CLIP_CHECKS = {
    "L1_pair_definition": CLIP_LET + "let '(sb, sv, sp, ssw, sham, scost, sdiff, smx, smax) := pair_spec_poly k t0 t1 in "
                          "Nat.eqb nb sb && Nat.eqb nv sv && Nat.eqb pairs sp && N.eqb tsw ssw && N.eqb tham sham && "
                          "N.eqb (tsfs + tsff) scost && Nat.eqb tdiff sdiff && Nat.eqb lpairs (smx - 1) && "
                          "(if Nat.eqb smx 0 then N.eqb lsw 0 && N.eqb lham 0 && N.eqb (lsfs + lsff) 0 && Nat.eqb ldiff 0 else "
                          "existsb (fun x => let '(a, b, c0, d) := x in N.eqb a lsw && N.eqb b lham && N.eqb c0 (lsfs + lsff) && Nat.eqb d ldiff) smax)",
    "L2_row": CLIP_LET + "Nat.eqb nb nb' && Nat.eqb nv nv' && Nat.eqb pairs (pps_pairs s) && N.eqb tsw (pps_switches s) && "
              "N.eqb tham (pps_hamming s) && N.eqb (tsfs + tsff) (pps_sf_cost s) && Nat.eqb tdiff (pps_diff s) && "
              "Nat.eqb lpairs (pps_longest s - 1) && N.eqb lsw (ppe_switches_num (pps_longest_err s)) && "
              "N.eqb lham (ppe_hamming_num (pps_longest_err s)) && nn_in (lsfs, lsff) (ppe_sf_allowed (pps_longest_err s)) && "
              "Nat.eqb ldiff (ppe_diff (pps_longest_err s)) && Nat.eqb het0 (length (filter (fun c => c_het (strip c)) tfirst))",
}
MW_CHECKS = {
    "L2_multiway": "fun c : (list (list call) * nat * list (hap * nat)) => let '(ts, total, hist) := c in "
                   "hist_eqb (snd (compare_multiway ts)) hist && Nat.eqb (fst (compare_multiway ts)) total",
}
ROW5 = ["switches", "hamming", "switchflips", "diff_genotypes"]


def row_numbers(row, k):
    """(counts, total 5-tuple, largest pairs, largest 5-tuple, het0) of one --tsv-pairwise row (ints; *k for k>2)."""
    def five(prefix, ham, diff):
        s, f = row[prefix + "_switchflips"].split("/")
        if k == 2:
            return (int(row[prefix + "_switches"]), int(row[ham]), int(s), int(f), int(row[diff]))
        return (fnum(row[prefix + "_switches"], k), fnum(row[ham], k), fnum(s, k), fnum(f, k), int(row[diff]))
    counts = (int(row["intersection_blocks"]), int(row["covered_variants"]), int(row["all_assessed_pairs"]))
    tot = five("all", "blockwise_hamming", "blockwise_diff_genotypes")
    lb = five("largestblock", "largestblock_hamming", "largestblock_diff_genotypes")
    return counts, tot, int(row["largestblock_assessed_pairs"]), lb, int(row["het_variants0"])


def rates_ok(row, k):
    c, tot, lp, lb, _ = row_numbers(row, k)
    kk = 1 if k == 2 else k
    compared = c[1]
    longest = lp + 1 if lp > 0 or c[0] > 0 else 0
    return (rate_ok(tot[0], c[2] * kk, row["all_switch_rate"]) and rate_ok(tot[2] + tot[3], c[2] * kk, row["all_switchflip_rate"])
            and rate_ok(tot[1], compared * kk, row["blockwise_hamming_rate"])
            and rate_ok(tot[4], compared, row["blockwise_diff_genotypes_rate"])
            and rate_ok(lb[0], lp * kk, row["largestblock_switch_rate"])
            and rate_ok(lb[2] + lb[3], lp * kk, row["largestblock_switchflip_rate"])
            and rate_ok(lb[1], longest * kk, row["largestblock_hamming_rate"])
            and rate_ok(lb[4], longest, row["largestblock_diff_genotypes_rate"]))


def check_cli(ctx, scenarios, label):
    """scenarios: list of dict(sc=..., kind='plain'|'identical'|'mav', relabel_of=index|None)."""
    wd = workdir(ctx)
    with ThreadPoolExecutor(max_workers=8) as ex:
        results = list(ex.map(lambda it: run_scenario(ctx, wd, f"{label}{it[0]}", it[1]["sc"]), enumerate(scenarios)))
    cases2, meta2, casesp, metap, casesmw, metamw = [], [], [], [], [], []
    parsed = {}
    for si, (item, res) in enumerate(zip(scenarios, results)):
        sc = item["sc"]
        k, n = sc["ploidy"], len(sc["files"])
        dnames, snames, chroms, views = expected_structure(sc)
        replay = {"kind": "cli", "scenario": sc}
        ctx.tally(f"cli.{label}.runs")
        ctx.tally(f"cli.ploidy.{k}.files.{n}")
        scenario_tallies(ctx, item, views, dnames)
        nontrivial = False
        if item["kind"] == "reject":         # malformed stream: only the error class is compared
            ctx.count(("cli", label, si, "reject"), nontrivial=False)
            ctx.tally("cli.reject.runs")
            if res["rc"] == 0 or "Traceback" in res["stderr"]:
                ctx.violation("compare:ploidy-mismatch-not-rejected", f"--ploidy {k} on files of another ploidy is not rejected with a "
                              f"whatshap error (rc={res['rc']}): {res['stderr'][-300:]}", replay)
            continue
        # ---- crash classes
        if res["rc"] != 0:
            se = res["stderr"]
            if not chroms:
                if "No chromosome is contained in all VCFs" not in se:
                    ctx.violation("compare:no-common-chromosome-error", f"unexpected failure without common chromosome: {se[-300:]}", replay)
                ctx.count(("cli", label, si), nontrivial=False)
                continue
            if k == 2 and any(has_allele2(v) for v in views.values()) and "KeyError: '2'" in se:
                ctx.violation(SIG_MAV, "whatshap compare (ploidy 2) crashes with KeyError '2' in complement() when the longest "
                              "intersection block contains a phased multi-allelic heterozygous call such as 1|2", replay)
                ctx.count(("cli", label, si), nontrivial=True)
                continue
            if k > 2 and n > 2 and "Traceback" not in se:
                ctx.tally("cli.polyploid_triple.rejected_cleanly")       # a clean rejection is fine
                ctx.count(("cli", label, si), nontrivial=False)
                continue
            if k > 2 and n > 2 and "assert ploidy == 2" in se:
                ctx.violation(SIG_TRIPLE_POLY, f"whatshap compare --ploidy {k} with {n} VCFs ends in AssertionError "
                              "(run_compare: assert ploidy == 2) after the pairwise comparisons of the first chromosome", replay)
                ctx.count(("cli", label, si), nontrivial=True)
                continue
            if n > 2 and "compare_multiway" in se and "AssertionError" in se:
                ctx.violation(SIG_MULTIWAY, "whatshap compare with 3 VCFs ends in AssertionError in compare_multiway "
                              "(assert {c for c in s} == set('0')) because no pair of adjacent variants is phased alike by all data sets", replay)
                ctx.count(("cli", label, si), nontrivial=True)
                continue
            ctx.violation("compare:cli-crash", f"whatshap compare failed (rc={res['rc']}): {se[-400:]}", replay)
            ctx.count(("cli", label, si), nontrivial=True)
            continue
        if not chroms:
            ctx.violation("compare:no-common-chromosome-error", "compare succeeded although no chromosome is common", replay)
            continue
        if k == 2 and any(has_allele2(v) for v in views.values()):
            ctx.count(("cli", label, si), nontrivial=False)     # allele 2 outside the longest block: outside the model
            ctx.tally("cli.mav.no_crash")
            continue
        ids = key_ids(views)
        rows = {(r["chromosome"], r["dataset_name0"], r["dataset_name1"]): r for r in res["pair"]}
        exp_keys = [(c, dnames[i], dnames[j]) for c in chroms for i in range(n) for j in range(i + 1, n)]
        if [(r["chromosome"], r["dataset_name0"], r["dataset_name1"]) for r in res["pair"]] != exp_keys:
            ctx.violation("compare:tsv-rows", f"--tsv-pairwise rows {list(rows)} differ from the expected chromosome/pair list {exp_keys}", replay)
            continue
        run_summary = {}
        for c in chroms:
            for i in range(n):
                for j in range(i + 1, n):
                    row = rows[(c, dnames[i], dnames[j])]
                    exp_sample = f"{snames[i]}_{snames[j]}" if sc["ignore_sample_name"] else snames[i]
                    if row["sample"] != exp_sample or row["only_snvs"] != str(int(sc["only_snvs"])):
                        ctx.violation("compare:tsv-meta", f"sample/only_snvs column {row['sample']}/{row['only_snvs']} unexpected", replay)
                    if not rates_ok(row, k):
                        ctx.violation("compare:rate-columns", f"a rate column is not nominator/denominator of the count columns: {row}", replay)
                    counts, tot, lp, lb, het0 = row_numbers(row, k)
                    nontrivial = nontrivial or counts[0] > 0
                    t0, t1 = table_term(views[c][i], ids, k), table_term(views[c][j], ids, k)
                    summ = dict(counts=counts, tot=tot, lp=lp, lb=lb)
                    if k == 2:
                        ann = f"{dnames[i]}<-->{dnames[j]}"
                        bed = sorted((b[1], b[2]) for b in res["bed"] if b[0] == c and b[3] == ann)
                        lbv = res["lb"].get((dnames[i], dnames[j], c), [])
                        cases2.append(term((t0, t1, tuple(Nat(x) for x in counts), tuple(Nat(x) for x in tot), Nat(lp),
                                            tuple(Nat(x) for x in lb), L([p for p, _ in lbv], "Z"),
                                            bools([a for _, a in lbv]), L(bed, "(Z * Z)"), Nat(het0),
                                            table_term(views[c][0], ids, k))))
                        meta2.append((si, c, i, j, row, lbv, bed))
                        summ.update(bed=bed, lb_zeros=sum(1 for _, a in lbv if a == 0))
                    else:
                        casesp.append(term((Nat(k), t0, t1, tuple(Nat(x) for x in counts),
                                            tuple(NN(x) for x in tot[:4]) + (Nat(tot[4]),), Nat(lp),
                                            tuple(NN(x) for x in lb[:4]) + (Nat(lb[4]),), Nat(het0),
                                            table_term(views[c][0], ids, k))))
                        metap.append((si, c, i, j, row))
                    run_summary[(c, i, j)] = summ
            if n > 2 and k == 2:
                mw = [m for m in res["mw"] if m[0] == c]
                exp_mw_sample = "_".join(sorted(set(snames))) if sc["ignore_sample_name"] else snames[0]
                if any(m[4] != exp_mw_sample for m in mw):
                    ctx.violation("compare:tsv-meta", f"--tsv-multiway sample column {[m[4] for m in mw][:1]} != {exp_mw_sample}", replay)
                hist = []
                for _, l0, l1, cnt, _ in mw:
                    left = set(l0.strip("{}").split(",")) - {""}
                    hist.append((bools([d not in left for d in dnames]), Nat(cnt)))
                total = sum(m[3] for m in mw)
                casesmw.append(term((Raw("[" + "; ".join(str(table_term(v, ids, 2)) for v in views[c]) + "]"), Nat(total),
                                     L(hist, "(hap * nat)"))))
                metamw.append((si, c, mw))
        parsed[si] = run_summary
        ctx.count(("cli", label, si, repr(sc["files"])), nontrivial=nontrivial)
        # ---- identical inputs: everything zero
        if item["kind"] == "identical":
            for key, s in run_summary.items():
                if any(s["tot"]) or any(s["lb"]) or s.get("bed"):
                    ctx.violation("compare:nonzero-on-equal", f"identical phasings (up to haplotype order) compared with errors: {key} -> {s}", replay)
    # ---- Coq evaluation
    f2, e2 = eval_checks("C11cli2", HEADER, CLI2_CHECKS, cases2, shard=40) if cases2 else ({k: [] for k in CLI2_CHECKS}, [])
    fail_on_errors(e2, "cli diploid")
    fp, ep = eval_checks("C11clip", HEADER, CLIP_CHECKS, casesp, shard=20) if casesp else ({k: [] for k in CLIP_CHECKS}, [])
    fail_on_errors(ep, "cli polyploid")
    fm, em = eval_checks("C11climw", HEADER, MW_CHECKS, casesmw, shard=40) if casesmw else ({k: [] for k in MW_CHECKS}, [])
    fail_on_errors(em, "cli multiway")
    sigs = {"L1_sf_identity": "compare:switchflip-identity", "L1_bed_count": "compare:bed-count", "L1_agreement": SIG_F1,
            "L1_agreement_shape": "compare:longest-block-shape", "L1_pair_definition": SIG_PAIRDEF}
    for i in fp["L1_pair_definition"][:4]:
        si, c, a, b, row = metap[i]
        ctx.violation(SIG_PAIRDEF, f"L1_pair_definition fails on CLI output (ploidy {scenarios[si]['sc']['ploidy']}, {len(scenarios[si]['sc']['files'])} files): "
                                   f"chromosome {c} files {a},{b}: the row is not what the definitions give on these two files alone: "
                                   f"{ {x: row[x] for x in row if 'rate' not in x and 'file_name' not in x} }",
                      {"kind": "cli", "scenario": scenarios[si]["sc"]})
    for lab, sig in sigs.items():
        for i in f2[lab][:4]:
            si, c, a, b, row, lbv, bed = meta2[i]
            ctx.violation(sig, f"{lab} fails on CLI output: chromosome {c} files {a},{b}: row={ {x: row[x] for x in row if 'rate' not in x and 'file_name' not in x} } "
                               f"longest-block zeros={sum(1 for _, x in lbv if x == 0)} of {len(lbv)}, bed lines={len(bed)}",
                          {"kind": "cli", "scenario": scenarios[si]["sc"]})
    l2 = {}
    for lab in ("L2_row", "L2_longest_block", "L2_bed"):
        if f2[lab]:
            l2["cli2." + lab] = [dict(scenario=scenarios[meta2[i][0]]["sc"], chrom=meta2[i][1], pair=meta2[i][2:4], row=meta2[i][4]) for i in f2[lab]]
    if fp["L2_row"]:
        l2["clipoly.L2_row"] = [dict(scenario=scenarios[metap[i][0]]["sc"], chrom=metap[i][1], pair=metap[i][2:4], row=metap[i][4]) for i in fp["L2_row"]]
    if fm["L2_multiway"]:
        l2["cli.L2_multiway"] = [dict(scenario=scenarios[metamw[i][0]]["sc"], chrom=metamw[i][1], mw=metamw[i][2]) for i in fm["L2_multiway"]]
    # ---- relabelling: same report
    for si, item in enumerate(scenarios):
        b = item.get("relabel_of")
        if b is None or si not in parsed or b not in parsed:
            continue
        k = item["sc"]["ploidy"]
        for key in parsed[b]:
            x, y = parsed[b][key], parsed[si].get(key)
            if y is None:
                continue
            replay = {"kind": "cli-relabel", "scenario": scenarios[b]["sc"], "relabelled": item["sc"]}
            same = (x["counts"] == y["counts"] and x["lp"] == y["lp"] and x["tot"][:2] == y["tot"][:2] and x["tot"][4] == y["tot"][4]
                    and x["lb"][:2] == y["lb"][:2] and x["lb"][4] == y["lb"][4]
                    and x["tot"][2] + x["tot"][3] == y["tot"][2] + y["tot"][3] and x["lb"][2] + x["lb"][3] == y["lb"][2] + y["lb"][3]
                    and x.get("bed") == y.get("bed"))
            if not same:
                ctx.violation("compare:label-dependent", f"report changes when the haplotypes of the phase sets of file {item['relabel_file']} "
                              f"are listed in another order: {key}: {x} vs {y}", replay)
            elif (x["tot"][2:4] != y["tot"][2:4] or x["lb"][2:4] != y["lb"][2:4]):
                ctx.violation(SIG_POLY_TIE, f"ploidy {k}: the switch/flip decomposition column changes when the haplotypes of the phase sets of "
                              f"file {item['relabel_file']} are listed in another order (sum unchanged): {key}: "
                              f"all_switchflips*{k}={x['tot'][2:4]} vs {y['tot'][2:4]}, largestblock {x['lb'][2:4]} vs {y['lb'][2:4]}", replay)
            ctx.tally("cli.relabel.compared_rows")
    return l2


def py_joint_blocks(v0, v1):
    """search helper only (python re-statement of compare()'s block intersection): phasings of the joint blocks >= 2"""
    idx1 = {(c["pos0"], c["key"]): c for c in v1}
    groups = {}
    for c in v0:
        d = idx1.get((c["pos0"], c["key"]))
        if d is None or not c["het"] or not d["het"] or c["phase"] is None or d["phase"] is None:
            continue
        groups.setdefault((c["phase"][0], d["phase"][0]), []).append((c["phase"][1], d["phase"][1]))
    out = []
    for g in groups.values():
        if len(g) >= 2:
            k = len(g[0][0])
            out.append((["".join(str(a[j]) for a, _ in g) for j in range(k)], ["".join(str(b[j]) for _, b in g) for j in range(k)]))
    return out


def search_cli_l2(ctx, l2):
    """L2 failures of CLI rows: look for the failing input among the joint blocks of the disagreeing runs
    (direct checks on the real functions, verdict by Coq); keep only unexplained disagreements."""
    rest = {}
    for name, cases in l2.items():
        if name == "cli.L2_multiway":
            rest[name] = cases
            continue
        keep = []
        for case in cases[:6]:
            sc = case["scenario"]
            _, _, _, views = expected_structure(sc)
            i, j = case["pair"]
            blocks = py_joint_blocks(views[case["chrom"]][i], views[case["chrom"]][j])
            before = len(ctx.violations)
            if blocks and sc["ploidy"] > 2:
                check_poly(ctx, blocks, "cli-search")
            elif blocks:
                check_diploid(ctx, [(a[0], b[0]) for a, b in blocks], "cli-search")
            if len(ctx.violations) == before:
                keep.append(case)
        keep += cases[6:] if keep else []
        if keep:
            rest[name] = keep
    return rest


def gen_cli_batch(rng, nruns, offset=0):
    items = []
    for r in range(nruns):
        k = rng.choice([2, 2, 2, 2, 3, 3, 4])
        n = rng.choice([2, 2, 2, 3, 3, 4])
        x = rng.random()
        kind = "identical" if x < 0.1 else "plain"
        targeted = n > 2 and x > 0.6
        sc = gen_scenario(rng, k, n, identical=(kind == "identical"), targeted=targeted)
        items.append(dict(sc=sc, kind=kind, relabel_of=None, targeted=targeted))
        sc2, fi = relabel_scenario(rng, sc)
        items.append(dict(sc=sc2, kind=kind, relabel_of=offset + len(items) - 1, relabel_file=fi, targeted=targeted))
    return items


def scenario_tallies(ctx, item, views, dnames):
    """input-distribution counters of one CLI scenario (what the generator actually produced)"""
    sc = item["sc"]
    n, k = len(sc["files"]), sc["ploidy"]
    t = ctx.tally
    t(f"cli.nfiles.{n}")
    t(f"cli.ploidy.{k}")
    t(f"cli.kind.{item['kind']}" + (".relabelled" if item.get("relabel_of") is not None else ""))
    if item.get("relabel_of") is not None:
        t("cli.relabel.files." + ("all" if len(item.get("relabel_file") or []) > 1 else "one"))
    if item.get("targeted"):
        t("cli.multifile.targeted_runs")
    for o in ("only_snvs", "ignore_sample_name", "sample", "names"):
        if sc[o]:
            t(f"cli.opt.{o}")
    if dnames != sorted(dnames):
        t("cli.names.sort_against_file_order")
    if any(a != b and (a.startswith(b) or b.startswith(a)) for a in dnames for b in dnames):
        t("cli.names.share_prefix")
    t(f"cli.samples_per_file.{max(len(f['samples']) for f in sc['files'])}")
    if len({tuple(f["samples"]) for f in sc["files"]}) > 1:
        t("cli.samples.differ_between_files")
    orders = []
    for f in sc["files"]:
        o = []
        for r in f["records"]:
            if r["chrom"] not in o:
                o.append(r["chrom"])
        orders.append(o)
        if o != sorted(o):
            t("cli.chrom_order.file_not_sorted")
        if f.get("hp_mode"):
            t("cli.file.hp_tags")
        for r in f["records"]:
            if not r["alts"]:
                t("cli.record.no_alt")
            elif len(r["alts"]) > 1:
                t("cli.record.multi_alt")
            elif len(r["ref"]) != 1 or len(r["alts"][0]) != 1:
                t("cli.record.indel")
            if not r["has_ps"] and not r.get("has_hp"):
                t("cli.record.format_without_ps")
        pp = [(r["chrom"], r["pos"]) for r in f["records"]]
        t("cli.record.duplicate_position", len(pp) - len(set(pp)))
        t("cli.record.adjacent_positions", sum(1 for a, b in zip(pp, pp[1:]) if a[0] == b[0] and b[1] == a[1] + 1))
        t("cli.record.position_1", sum(1 for a in pp if a[1] == 1))
    if len({tuple(o) for o in orders}) > 1:
        t("cli.chrom_order.differs_between_files")
    t(f"cli.common_chromosomes.{min(len(views), 3)}")
    sidx, _ = select_samples(sc)
    for f, si in zip(sc["files"], sidx):
        for r in f["records"]:
            c = r["calls"][si]
            g = c["gt"]
            al, ph = parse_gt(g)
            kindc = ("hp_phased" if c.get("hp") else "missing" if all(a is None for a in al) else "half_missing" if None in al
                     else "hom" if len(set(al)) == 1 else "phased" if ph else "unphased")
            t(f"cli.call.{kindc}")
            if ph and r["has_ps"] and c["ps"] is None:
                t("cli.call.phased_ps_missing")
            if ph and c["ps"] is not None and c["ps"] < 0:
                t("cli.call.negative_ps")
    for c, vs in views.items():
        for i in range(n):
            for j in range(i + 1, n):
                blocks = py_pair_structure(vs[i], vs[j])
                big = [b for b in blocks if len(b) >= 2]
                t(f"cli.pair.joint_blocks.{min(len(big), 3)}{'+' if len(big) >= 3 else ''}")
                t("cli.pair.singleton_joint_blocks", sum(1 for b in blocks if len(b) == 1))
                t("cli.pair.blocks_of_length_2", sum(1 for b in big if len(b) == 2))
                if big:
                    mx = max(len(b) for b in big)
                    if sum(1 for b in big if len(b) == mx) > 1:
                        t("cli.pair.longest_block_tie")
                    spans = sorted((b[0][0], b[-1][0]) for b in big)
                    if any(x[1] > y[0] for x, y in zip(spans, spans[1:])):
                        t("cli.pair.interleaved_joint_blocks")
                for m in range(n):
                    if m in (i, j):
                        continue
                    hetm = {(d["pos0"], d["key"]) for d in vs[m] if d["het"]}
                    phm = {(d["pos0"], d["key"]) for d in vs[m] if d["phase"] is not None}
                    t("cli.multifile.pair_block_variant_not_het_in_other_file", sum(1 for b in big for v in b if v not in hetm))
                    t("cli.multifile.pair_block_variant_unphased_in_other_file", sum(1 for b in big for v in b if v in hetm and v not in phm))


def py_pair_structure(v0, v1):
    """search/tally helper: joint blocks of two reader views as lists of (pos0, key), in position order"""
    idx1 = {(c["pos0"], c["key"]): c for c in v1}
    groups = {}
    for c in v0:
        d = idx1.get((c["pos0"], c["key"]))
        if d is None or not c["het"] or not d["het"] or c["phase"] is None or d["phase"] is None:
            continue
        groups.setdefault((c["phase"][0], d["phase"][0]), []).append((c["pos0"], c["key"]))
    return list(groups.values())


# ====================================================================== driver
CORPUS_DIP = [("0000000000", "1111111000"),     # F1 of DESIGN section 7
              ("000", "001"), ("00011", "00100"), ("00011", "00111"), ("1111111111", "1111100000"), ("", ""), ("0", "1")]
CORPUS_POLY = [(["0100", "1011"], ["0000", "1111"]), (["000000", "101111", "111010"], ["000000", "101010", "111111"]),
               (["1110001", "1011101", "0000010"], ["1110001", "1010010", "0001101"]),
               (["111111", "111111", "111111"], ["111111", "000000", "111111"]),
               (["0100", "1101", "1010"], ["0100", "0100", "1001"])]


def corpus_cli():
    f1a, f1b = "0000000000", "1111111000"
    return [
        dict(sc=simple_scenario(2, [dip_gts(f1a), dip_gts(f1b)]), kind="plain", relabel_of=None),          # F1
        dict(sc=simple_scenario(2, [dip_gts("0101101"), dip_gts("0101101"), dip_gts("0100101")]), kind="plain", relabel_of=None),
        dict(sc=simple_scenario(2, [dip_gts("010"), dip_gts("000"), dip_gts("010")]), kind="plain", relabel_of=None),   # no all-agree pair
        dict(sc=simple_scenario(3, [["0|1|1", "1|1|0"], ["0|1|1", "0|0|1"]]), kind="plain", relabel_of=None),         # one matching genotype
        dict(sc=simple_scenario(3, [["0|1|1", "1|0|1", "0|0|1", "1|1|0"], ["1|0|1", "0|1|1", "0|1|0", "1|0|1"]]), kind="plain", relabel_of=None),
        dict(sc=simple_scenario(2, [["0|1", "1|2", "0|1"], ["0|1", "2|1", "0|1"]]), kind="mav", relabel_of=None),       # allele 2
        # a third / fourth file that is homozygous, missing, unphased or has no record where the pair is phased
        dict(sc=simple_scenario(2, [dip_gts("00000"), dip_gts("00110"), ["0|1", "0|1", "1|1", "0|1", "0|1"]]), kind="plain", relabel_of=None),
        dict(sc=simple_scenario(2, [dip_gts("00000"), dip_gts("01101"), ["0|1", None, "./.", "0/1", "0|1"]]), kind="plain", relabel_of=None),
        dict(sc=simple_scenario(2, [dip_gts("000000"), dip_gts("010010"), ["0|1", "0|0", "0|1", "1|0", None, "0|1"],
                                    [None, "0|1", "1/1", "0|1", "0|1", "0|1"]]), kind="plain", relabel_of=None),
        dict(sc=simple_scenario(3, [["0|1|1", "1|0|1", "0|0|1", "1|1|0"], ["1|0|1", "0|1|1", "0|1|0", "1|0|1"],
                                    ["0|1|1", "1|1|1", None, "1/0/1"]]), kind="plain", relabel_of=None),
        # two joint blocks of equal (longest) length with different error counts: the first one is the largest block
        dict(sc=simple_scenario(2, [[("0|1", 1), ("0|1", 1), ("0|1", 1), ("0|1", 9), ("0|1", 9), ("0|1", 9)],
                                    [("0|1", 1), ("0|1", 1), ("0|1", 1), ("0|1", 9), ("1|0", 9), ("0|1", 9)]]), kind="plain", relabel_of=None),
        dict(sc=simple_scenario(2, [[("0|1", 1), ("0|1", 9), ("0|1", 1), ("0|1", 9), ("0|1", 1), ("0|1", 9)],
                                    [("0|1", 4), ("0|1", 4), ("1|0", 4), ("0|1", 4), ("0|1", 4), ("0|1", 4)]]), kind="plain", relabel_of=None),
        # no chromosome in common: clean error expected
        dict(sc=disjoint_chrom_scenario(), kind="plain", relabel_of=None),
        # --ploidy does not fit the files: clean rejection expected
        dict(sc=simple_scenario(3, [dip_gts("0101"), dip_gts("0110")]), kind="reject", relabel_of=None),
        dict(sc=simple_scenario(2, [["0|1|1", "1|0|1"], ["0|1|1", "1|1|0"]]), kind="reject", relabel_of=None),
    ]


def report_l2(ctx, l2, prefix):
    for name, cases in l2.items():
        ctx.disagreements_checked += len(cases)
        ctx.l2_disagreement(f"{prefix}{name}", cases)


def run(ctx):
    rng = ctx.rng
    # --- (a1) diploid direct
    maxlen = ctx.n(7, 8)
    ex = list(gen_dip_exhaustive(maxlen))
    rnd = list(gen_dip_random(rng, ctx.n(1500, 20000)))
    if not ctx.quick:      # length 9: a large seeded sample instead of all 262144 pairs (memory/time budget)
        rnd += [("".join(rng.choice("01") for _ in range(9)), "".join(rng.choice("01") for _ in range(9))) for _ in range(40000)]
    allpairs = list(dict.fromkeys(CORPUS_DIP + ex + rnd))
    l2, nf1, first = {}, 0, None
    for off in range(0, len(allpairs), 30000):        # chunked: bounded memory of the harness and of the coqc shards
        failing, l2c_, raws = check_diploid(ctx, allpairs[off:off + 30000], "all", shard=1500)
        nf1 += len(failing["L1_agreement"])
        for k_, v_ in l2c_.items():
            l2.setdefault(k_, []).extend(v_)
        if first is None:
            first = raws[:1] + raws[-2:]
    ctx.exhaustive = True
    ctx.extra["diploid_exhaustive_pairs"] = len(ex)
    ctx.extra["diploid_exhaustive_maxlen"] = maxlen
    ctx.extra["diploid_F1_inputs_in_stream"] = nf1
    for r in first or []:
        ctx.sample({"diploid": r})
    report_l2(ctx, l2, "direct.")
    g = check_diploid_general(ctx, rng, ctx.n(1500, 20000))
    if g:
        report_l2(ctx, {"L2_compare_block_general": [dict(haps=h, impl=e) for h, e in g]}, "direct.")
    # --- (a2) polyploid direct
    blocks = CORPUS_POLY + list(gen_poly(rng, ctx.n(500, 6000)))
    _, l2p = check_poly(ctx, blocks, "all", shard=ctx.n(35, 100))
    report_l2(ctx, l2p, "direct.poly.")
    # --- (b) CLI
    items = corpus_cli()
    items += gen_cli_batch(rng, ctx.n(30, 500), offset=len(items))
    # polyploid triple and multi-allelic diploid streams (crash classes)
    items.append(dict(sc=gen_scenario(rng, 3, 3), kind="plain", relabel_of=None))
    for _ in range(ctx.n(3, 12)):
        items.append(dict(sc=gen_scenario(rng, 2, 2, mav=True), kind="mav", relabel_of=None))
    l2c = search_cli_l2(ctx, check_cli(ctx, items, "run"))
    ctx.sample({"cli_scenario": {"ploidy": items[0]["sc"]["ploidy"], "options": {x: items[0]["sc"][x] for x in ("only_snvs", "ignore_sample_name", "sample", "names")},
                                 "file0_first_records": items[0]["sc"]["files"][0]["records"][:4]}})
    report_l2(ctx, l2c, "")
    ctx.extra["cli_runs"] = len(items)


def replay(ctx, data):
    kind = data.get("kind")
    if kind == "diploid":
        _, l2, _ = check_diploid(ctx, [(data["p0"], data["p1"])], "replay")
        report_l2(ctx, l2, "direct.")
    elif kind == "poly":
        _, l2 = check_poly(ctx, [(data["ph0"], data["ph1"])], "replay")
        report_l2(ctx, l2, "direct.poly.")
    elif kind == "dipgen":
        from whatshap.cli import compare as C
        C.compare_block(data["haps"][:2], data["haps"][2:])
    elif kind == "cli":
        report_l2(ctx, search_cli_l2(ctx, check_cli(ctx, [dict(sc=data["scenario"], kind="plain", relabel_of=None)], "replay")), "")
    elif kind == "cli-relabel":
        items = [dict(sc=data["scenario"], kind="plain", relabel_of=None),
                 dict(sc=data["relabelled"], kind="plain", relabel_of=0, relabel_file="?")]
        report_l2(ctx, search_cli_l2(ctx, check_cli(ctx, items, "replay")), "")
    else:
        run(ctx)
