"""C01 — the exact solver returns a minimum-cost (Ped)MEC solution with a matching witness."""
import json

from ..coqeval import Raw, Nat, term, eval_checks
from .. import util

RULE = ("corpus (5 hand-written instances incl. tests/test_pedigreephasing.py::test_phase_trio1, an empty read set, columns "
        "without reads, a Mendelian conflict) + generated instances: 1-9 reads x 1-8 columns (>= 4 columns in most cases so that k=floor(sqrt(n))>1 and the "
        "recompute-on-backtrace branch runs), alleles 0/1/gap with interior gaps and nested/interleaved spans, weights 0-6 "
        "with ties, pedigrees: single individual / two unrelated individuals / trio / quartet, a few three-generation pedigrees "
        "and pairs of unrelated trios (individual order, trio order and numeric sample ids permuted), trusted genotypes (random, mostly Mendelian-consistent) or phred triples (distrust mode, with "
        "arbitrary ignored genotypes), recombination costs 0-8 incl. zeros, explicit `positions` incl. columns no read covers "
        "and interior read variants at positions that are not phased; plus a malformed stream of trusted-genotype instances "
        "with a Mendelian conflict (must raise). Generated coverage is kept <= 6 (trios <= 5, quartets <= 4, deeper pedigrees <= 3) plus a few trio-free instances with coverage up to 9. Plus an end-to-end stream: `whatshap phase` runs on "
        "synthetic FASTA/VCF/BAM (single sample, trio, quartet via --ped with true recombination events; trusted or "
        "--distrust-genotypes with GL-less VCFs and default/explicit --default-gq; default or explicit --recombrate; with or "
        "without genetic haplotyping; reads with sequencing errors and varying base qualities; --internal-downsampling 2-6), "
        "where the WHATSHAP_VERIF_TRACE hook records every instance handed to PedigreeDPTable with its result; each traced "
        "instance goes through the same Coq checks. Plus an API-history stream: a ReadSet is "
        "solved, then mutated IN PLACE through the public API (add_variant on an existing read at an existing or new column + "
        "Read.sort, ReadSet.add + ReadSet.sort, ReadSet.subset) and solved again on the same object, 1-3 rounds; every round is "
        "compared with the model on the current content of the read set. A case is non-trivial if it has >= 2 "
        "columns, >= 2 reads and some column with coverage >= 2; distinct = distinct instance.")
TRUSTED = [
    "modelled, not verified: Gray-code enumeration with incremental cost update (update_partitioning; the model "
    "recomputes the flip cost of every bipartition and only uses the Gray order for tie-breaking in the back-pointers), "
    "bit-mask index arithmetic of ColumnIndexingScheme/Iterator (the model uses bit lists, take and mask), Vector2D "
    "storage, and WHEN compute_table stores, drops and recomputes columns (sqrt(n) check-pointing): the model treats the "
    "tables of a column as a function of the column; tied by the exact comparison of cost, witness and alleles on "
    "instances with k = floor(sqrt(n)) > 1",
    "32-bit unsigned arithmetic with UINT_MAX as infinity is modelled as nat + None (guard no_overflow); the double -> "
    "unsigned conversion of genotype likelihood costs is modelled for integral phred values only; Genotype::get_index / "
    "operator!= are modelled as 'number of ALT alleles' for diploid bi-allelic genotypes",
    "mapping of genomic positions to column indices and of (name -> numeric sample id -> pedigree index) is done by the "
    "harness; variants of a read at positions outside `positions` are dropped by the harness as ColumnIterator skips them",
]
ASSUMPTIONS = [
    "wf inst: reads sorted by first position, every read's first and last position is in `positions`, sample of every "
    "read is in the pedigree, pedigree acyclic with distinct children, one genotype/likelihood entry per (column, individual)",
    "no_overflow inst: total weight + largest genotype costs + 2*#trios*total recombination cost + 1 < 2^31",
    "diploid bi-allelic genotypes, read alleles in {0,1}, integral phred-scaled genotype likelihoods",
]

HEADER = """From Coq Require Import List.
From WH.Model Require Import PedMEC.
Import ListNotations.
"""

CHECKS = {
    "pre": "fun c => andb (wf (fst c)) (no_overflow (fst c))",      # the generator stays inside the theorem's hypotheses
    "L2cost": "fun c => l2_cost (fst c) (snd c)",
    "L2alleles": "fun c => l2_alleles (fst c) (snd c)",
    "L2witness": "fun c => l2_witness (fst c) (snd c)",
    "L1witness": "fun c => l1_witness (fst c) (snd c)",
    "L1alleles": "fun c => l1_alleles (fst c) (snd c)",
}
CHECK_OPT = {"L1opt": "fun c => l1_opt (fst c) (snd c)"}

# ------------------------------------------------------------------ implementation driver (child process)
CHILD = r'''
import sys, json
from whatshap.core import Read, ReadSet, Pedigree, PedigreeDPTable, NumericSampleIds, PhredGenotypeLikelihoods, Genotype

def gt(n):
    return Genotype([0, 0] if n == 0 else ([0, 1] if n == 1 else [1, 1]))

def run_one(d):
    ids = NumericSampleIds()
    nind = d["nind"]
    for i in d.get("id_order", list(range(nind))):      # numeric ids differ from pedigree indices
        ids["ind%d" % i]
    ped = Pedigree(ids)
    for i in range(nind):
        gts = [gt(g) for g in d["gt"][i]]
        gls = None
        if d["mode"] == "gl":
            gls = [PhredGenotypeLikelihoods([float(a) for a in tr]) for tr in d["gl"][i]]
        elif "gl_ignored" in (d.get("api") or {}):
            gls = [PhredGenotypeLikelihoods([float(a) for a in tr]) for tr in d["api"]["gl_ignored"][i]]
        ped.add_individual("ind%d" % i, gts, gls)
    for f, m, c in d["trios"]:
        ped.add_relationship("ind%d" % f, "ind%d" % m, "ind%d" % c)
    api = d.get("api") or {}
    import random as _random
    nrng = _random.Random(api.get("name_seed", 0))
    rs = ReadSet()
    for k, r in enumerate(d["reads"]):
        style = api.get("names", "index")
        name = "r%d" % k if style == "index" else ("%08x_%d" % (nrng.randrange(1 << 32), k) if style == "random"
                                                   else "read" + "0" * nrng.randint(0, 3) + "_%d" % k)
        sid = api.get("source_ids", [0] * len(d["reads"]))[k]
        rd = Read(name, 50, sid, ids["ind%d" % r["sample"]])
        for p, a, w in r["vars"]:
            rd.add_variant(p, a, w)
        rs.add(rd)
    got = {}
    try:
        t = PedigreeDPTable(rs, d["recomb"], ped, d["mode"] == "gl", None if api.get("positions_none") else d["positions"])
        for g in list(api.get("getters", [])) + ["cost", "part", "sr"]:      # order and repetition of the getters must not matter
            if g == "cost":
                v = t.get_optimal_cost()
            elif g == "part":
                v = list(t.get_optimal_partitioning())
            else:
                srs, tv = t.get_super_reads()
                for s in srs:
                    assert len(s) == 2
                v = [[[[x.position, x.allele, x.quality] for x in s[h]] for h in (0, 1)] for s in srs], list(tv)
            if g in got and got[g] != v:
                return {"err": "error:getter %s returned a different value on the second call" % g}
            got[g] = v
    except RuntimeError as e:
        msg = str(e)
        return {"err": "conflict" if "Mendelian conflict" in msg else "error:" + msg}
    cost, part = got["cost"], got["part"]
    al, tv = got["sr"]
    if "perturb" in d:      # self-test of the check only
        if d["perturb"] == "cost":
            cost += 1
        elif d["perturb"] == "part" and part:
            part[0] ^= 1
        elif d["perturb"] == "quality" and al and al[0][0]:
            p, a, q = al[0][0][0]
            al[0][0][0] = (p, a, q + 1)
            p, a, q = al[0][1][0]
            al[0][1][0] = (p, a, q + 1)
    return {"cost": cost, "part": part, "tv": tv, "sr": al}

for line in sys.stdin:
    line = line.strip()
    if not line:
        continue
    k, d = json.loads(line)
    sys.stdout.write(json.dumps([k, run_one(d)]) + "\n")
    sys.stdout.flush()
'''


def run_impl(ctx, insts):
    """Run the real solver on every instance in child processes (a C++ assert aborts the child: the
    instance it died on is reported as {'crash': ...} and the rest is resumed in a new child)."""
    res = [None] * len(insts)
    todo = list(range(len(insts)))
    while todo:
        payload = "".join(json.dumps([k, insts[k]]) + "\n" for k in todo)
        rc, out, err = util.run_py(ctx, CHILD, stdin=payload, timeout=1200)
        done = set()
        for line in out.splitlines():
            try:
                k, r = json.loads(line)
            except ValueError:
                continue
            res[k] = r
            done.add(k)
        rest = [k for k in todo if k not in done]
        if rest and (rc != 0 or len(done) < len(todo)):
            res[rest[0]] = {"crash": (err or "")[-400:], "rc": rc}
            rest = rest[1:]
        todo = rest
    return res


# ------------------------------------------------------------------ API-history driver (child process)
CHILD_HIST = r'''
import sys, json
from whatshap.core import Read, ReadSet, Pedigree, PedigreeDPTable, NumericSampleIds, PhredGenotypeLikelihoods, Genotype

def gt(n):
    return Genotype([0, 0] if n == 0 else ([0, 1] if n == 1 else [1, 1]))

def make_ids(d):
    ids = NumericSampleIds()
    for i in d.get("id_order", list(range(d["nind"]))):
        ids["ind%d" % i]
    return ids

def solve(rs, d, fr):
    ids = make_ids(d)
    ped = Pedigree(ids)
    for i in range(d["nind"]):
        gts = [gt(g) for g in fr["gt"][i]]
        gls = None
        if d["mode"] == "gl":
            gls = [PhredGenotypeLikelihoods([float(a) for a in tr]) for tr in fr["gl"][i]]
        ped.add_individual("ind%d" % i, gts, gls)
    for f, m, c in d["trios"]:
        ped.add_relationship("ind%d" % f, "ind%d" % m, "ind%d" % c)
    try:
        t = PedigreeDPTable(rs, fr["recomb"], ped, d["mode"] == "gl", fr["positions"])
        cost = t.get_optimal_cost()
        part = t.get_optimal_partitioning()
        srs, tv = t.get_super_reads()
    except RuntimeError as e:
        msg = str(e)
        return {"err": "conflict" if "Mendelian conflict" in msg else "error:" + msg}
    al = [[[(v.position, v.allele, v.quality) for v in s[h]] for h in (0, 1)] for s in srs]
    return {"cost": cost, "part": part, "tv": tv, "sr": al}

def index_of(rs, name):
    for i in range(len(rs)):
        if rs[i].name == name:
            return i
    raise KeyError(name)

def run_hist(k, h):
    d = h["base"]
    ids = make_ids(d)
    sample_of = {ids["ind%d" % i]: i for i in range(d["nind"])}
    rs = ReadSet()
    for r in d["reads"]:
        rd = Read(r["name"], 50, 0, ids["ind%d" % r["sample"]])
        for p, a, w in r["vars"]:
            rd.add_variant(p, a, w)
        rs.add(rd)
    for rnd, step in enumerate(h["steps"]):
        for op in step["ops"]:
            if op[0] == "addvar":       # extend an existing read of the SAME read set in place
                i = index_of(rs, op[1])
                rs[i].add_variant(op[2], op[3], op[4])
                rs[i].sort()
            elif op[0] == "addread":
                rd = Read(op[1], 50, 0, ids["ind%d" % op[2]])
                for p, a, w in op[3]:
                    rd.add_variant(p, a, w)
                rs.add(rd)
            elif op[0] == "sortset":
                rs.sort()
            elif op[0] == "subset":
                rs = rs.subset([index_of(rs, n) for n in op[1]])
        content = [[r.name, sample_of[r.sample_id], [[v.position, v.allele, v.quality] for v in r]] for r in rs]
        out = solve(rs, d, step["frame"])
        sys.stdout.write(json.dumps([k, rnd, {"reads": content, "out": out}]) + "\n")
        sys.stdout.flush()

for line in sys.stdin:
    line = line.strip()
    if not line:
        continue
    k, h = json.loads(line)
    run_hist(k, h)
    sys.stdout.write(json.dumps([k, -1, None]) + "\n")
    sys.stdout.flush()
'''


def run_hists(ctx, hists):
    '''Run API histories in child processes. Returns per history a list of per-round dicts
    {"reads": content, "out": result}; a round on which the child died is {"crash": stderr tail, "rc": rc}
    (later rounds of that history are not run).'''
    res = [[] for _ in hists]
    done = set()
    todo = list(range(len(hists)))
    while todo:
        payload = "".join(json.dumps([k, hists[k]]) + "\n" for k in todo)
        rc, out, err = util.run_py(ctx, CHILD_HIST, stdin=payload, timeout=1200)
        for line in out.splitlines():
            try:
                k, rnd, r = json.loads(line)
            except ValueError:
                continue
            if rnd == -1:
                done.add(k)
            elif len(res[k]) == rnd:
                res[k].append(r)
        rest = [k for k in todo if k not in done]
        if rest:      # the child stopped inside history rest[0]
            res[rest[0]].append({"crash": (err or "")[-400:], "rc": rc})
            done.add(rest[0])
            rest = rest[1:]
        todo = rest
    return res


# ------------------------------------------------------------------ instance -> Coq term
def columns_of(inst):
    return {p: i for i, p in enumerate(inst["positions"])}


def dense_reads(inst):
    """reads in column coordinates: (sample, first column, [None | (allele, weight)] per consecutive column)"""
    col = columns_of(inst)
    out = []
    for r in inst["reads"]:
        vs = [(col[p], a, w) for p, a, w in r["vars"] if p in col]
        first, last = vs[0][0], vs[-1][0]
        ents = [None] * (last - first + 1)
        for c, a, w in vs:
            ents[c - first] = (a, w)
        out.append((r["sample"], first, ents))
    return out


def inst_term(inst):
    n = len(inst["positions"])
    reads = []
    for s, first, ents in dense_reads(inst):
        es = [Raw("None") if e is None else Raw(f"Some ({'true' if e[0] else 'false'}, {e[1]})") for e in ents]
        reads.append(Raw(f"MkRead {s} {first} {term(es)}"))
    geno = []
    for c in range(n):
        rowc = []
        for i in range(inst["nind"]):
            if inst["mode"] == "gl":
                a, b, cc = inst["gl"][i][c]
                rowc.append(Raw(f"GL {a} {b} {cc}"))
            else:
                rowc.append(Raw(f"GT {inst['gt'][i][c]}"))
        geno.append(rowc)
    trios = [Raw(f"({f}, {m}, {c})") for f, m, c in inst["trios"]]
    return (f"(MkInst {term(reads)} {n} {inst['nind']} {term(trios)} {term(geno)} "
            f"{term([Nat(x) for x in inst['recomb']])})")


def outcome_term(inst, res):
    if "err" in res:
        return "(None : outcome)"
    n = len(inst["positions"])
    als = []
    for c in range(n):
        rowc = []
        for i in range(inst["nind"]):
            (p0, a0, q0), (p1, a1, q1) = res["sr"][i][0][c], res["sr"][i][1][c]
            rowc.append(Raw(f"({a0}, {a1}, {q1})"))
        als.append(rowc)
    part = [bool(b) for b in res["part"]]
    return (f"(Some ({res['cost']}, {term(part)}, {term([Nat(t) for t in res['tv']])}, {term(als)}) : outcome)")


def shape_ok(inst, res):
    """canonical shape of the super reads (positions, two haplotypes with one shared quality per column)"""
    if "err" in res:
        return res["err"] == "conflict"
    n = len(inst["positions"])
    if len(res["sr"]) != inst["nind"] or len(res["tv"]) != n or len(res["part"]) != len(inst["reads"]):
        return False
    for i in range(inst["nind"]):
        for h in (0, 1):
            v = res["sr"][i][h]
            if [x[0] for x in v] != list(inst["positions"]):
                return False
        if [x[2] for x in res["sr"][i][0]] != [x[2] for x in res["sr"][i][1]]:
            return False
    return True


def case_term(inst, res):
    return "(" + inst_term(inst) + ", " + outcome_term(inst, res) + ")"


# ------------------------------------------------------------------ python oracle (search only; verdicts come from Coq)
def o_h2p(inst, t, i, h, depth=0):
    trio_of = {}
    for k, (f, m, c) in enumerate(inst["trios"]):
        trio_of[c] = k
    if depth > inst["nind"] + 1:
        raise ValueError("cyclic pedigree")
    if i not in trio_of:
        rank = sum(1 for j in range(i) if j not in trio_of)
        return 2 * rank + h
    k = trio_of[i]
    f, m, _ = inst["trios"][k]
    if h == 0:
        return o_h2p(inst, t, f, 1 - ((t >> (2 * k)) & 1), depth + 1)
    return o_h2p(inst, t, m, 1 - ((t >> (2 * k + 1)) & 1), depth + 1)


def o_allowed(inst, c, t):
    npart = 2 * (inst["nind"] - len(inst["trios"]))
    out = []
    for a in range(1 << npart):
        g = 0
        ok = True
        for i in range(inst["nind"]):
            k = ((a >> o_h2p(inst, t, i, 0)) & 1) + ((a >> o_h2p(inst, t, i, 1)) & 1)
            if inst["mode"] == "gl":
                g += inst["gl"][i][c][k]
            elif k != inst["gt"][i][c]:
                ok = False
                break
        if ok:
            out.append((a, g))
    return out


def o_assignment_costs(inst, dense, c, beta, t):
    """[(assignment, cost)] for column c, global bipartition beta, transmission value t"""
    ents = []
    for j, (s, first, es) in enumerate(dense):
        if first <= c < first + len(es) and es[c - first] is not None:
            al, w = es[c - first]
            ents.append((o_h2p(inst, t, s, beta[j]), al, w))
    return [(a, g + sum(w for p, al, w in ents if ((a >> p) & 1) != al)) for a, g in o_allowed(inst, c, t)]


def o_local(inst, dense, c, beta, t):
    cs = [x for _, x in o_assignment_costs(inst, dense, c, beta, t)]
    return min(cs) if cs else None


def o_cost_of(inst, beta, tau):
    dense = dense_reads(inst)
    tot = 0
    for c in range(len(inst["positions"])):
        l = o_local(inst, dense, c, beta, tau[c])
        if l is None:
            return None
        tot += l
        if c > 0:
            tot += bin(tau[c] ^ tau[c - 1]).count("1") * inst["recomb"][c]
    return tot


def o_opt(inst):
    """brute force over all bipartitions; the minimum over transmission paths by a forward sweep"""
    dense = dense_reads(inst)
    n, T = len(inst["positions"]), 4 ** len(inst["trios"])
    best = None
    for b in range(1 << len(dense)):
        beta = [(b >> j) & 1 for j in range(len(dense))]
        V = [0] * T
        for c in range(n):
            W = []
            for t in range(T):
                l = o_local(inst, dense, c, beta, t)
                if l is None:
                    W.append(None)
                    continue
                if c == 0:
                    W.append(l)
                    continue
                cands = [V[u] + bin(t ^ u).count("1") * inst["recomb"][c] for u in range(T) if V[u] is not None]
                W.append(l + min(cands) if cands else None)
            V = W
        fin = [v for v in V if v is not None]
        if fin and (best is None or min(fin) < best):
            best = min(fin)
    return best


def o_check(inst, res, with_opt=True):
    """python mirror of the L1 checks; returns the list of failing labels"""
    if "crash" in res or not shape_ok(inst, res):
        return ["shape"]
    bad = []
    if "err" in res:
        if with_opt and o_opt(inst) is not None:
            bad.append("L1opt")
        return bad
    T = 4 ** len(inst["trios"])
    if any(t >= T for t in res["tv"]) or o_cost_of(inst, res["part"], res["tv"]) != res["cost"]:
        bad.append("L1witness")
    dense = dense_reads(inst)
    for c in range(len(inst["positions"])):
        acs = o_assignment_costs(inst, dense, c, res["part"], res["tv"][c])
        if not acs:
            continue
        m = min(x for _, x in acs)
        for a, x in acs:
            if x != m:
                continue
            for i in range(inst["nind"]):
                for h in (0, 1):
                    got = res["sr"][i][h][c][1]
                    if got != 3 and got != ((a >> o_h2p(inst, res["tv"][c], i, h)) & 1):
                        bad.append("L1alleles")
    if with_opt and o_opt(inst) != res["cost"]:
        bad.append("L1opt")
    return sorted(set(bad))


# ------------------------------------------------------------------ generator
PED_KINDS = ["single", "single", "two", "trio", "trio", "quartet"]


def gen_pedigree(rng, kind):
    """returns (nind, trios) with roles assigned to a random permutation of the individual indices"""
    if kind == "single":
        return 1, []
    if kind == "two":
        return 2, []
    if kind == "trio":
        p = [0, 1, 2]
        rng.shuffle(p)
        return 3, [[p[0], p[1], p[2]]]
    if kind == "quartet":
        p = [0, 1, 2, 3]
        rng.shuffle(p)
        tr = [[p[0], p[1], p[2]], [p[0], p[1], p[3]]]
        rng.shuffle(tr)
        return 4, tr
    if kind == "threegen":      # grandparents -> parent, parent + spouse -> child
        p = [0, 1, 2, 3, 4]
        rng.shuffle(p)
        tr = [[p[0], p[1], p[2]], [p[2], p[3], p[4]]] if rng.random() < 0.5 else [[p[0], p[1], p[2]], [p[3], p[2], p[4]]]
        rng.shuffle(tr)
        return 5, tr
    if kind == "twotrios":      # two unrelated trios
        p = [0, 1, 2, 3, 4, 5]
        rng.shuffle(p)
        tr = [[p[0], p[1], p[2]], [p[3], p[4], p[5]]]
        rng.shuffle(tr)
        return 6, tr
    raise ValueError(kind)


def consistent_genotypes(rng, nind, trios, n):
    """random Mendelian-consistent genotypes: founder haplotypes + random transmission"""
    child_of = {c: (f, m) for f, m, c in trios}
    gts = [[0] * n for _ in range(nind)]
    for col in range(n):
        hap = {}

        def get(i):
            if i not in hap:
                if i in child_of:
                    f, m = child_of[i]
                    hap[i] = (get(f)[rng.randrange(2)], get(m)[rng.randrange(2)])
                else:
                    pr = rng.random()
                    hap[i] = (int(rng.random() < 0.5), int(rng.random() < 0.5)) if pr < 0.8 else (0, 0)
            return hap[i]
        for i in range(nind):
            gts[i][col] = sum(get(i))
    return gts


def gen_instance(rng, kind=None, mode=None, n=None, conflict=False, maxcov=None, maxreads=9):
    kind = kind or rng.choice(PED_KINDS)
    nind, trios = gen_pedigree(rng, kind)
    if n is None:
        n = rng.choice([1, 2, 3, 4, 4, 5, 5, 6, 7, 8])
    if maxcov is None:
        maxcov = {"single": 6, "two": 6, "trio": 5, "quartet": 4, "threegen": 3, "twotrios": 3}[kind]
        maxcov = rng.randint(2, maxcov)
    if kind in ("quartet", "threegen", "twotrios"):
        n = min(n, 6 if kind == "quartet" else 5)
        maxreads = min(maxreads, 6 if kind == "quartet" else 5)
    step = rng.choice([1, 10, 7])
    positions, p = [], rng.randint(0, 50)
    for _ in range(n):
        p += rng.randint(1, 3) * step + 1      # + 1 leaves room for unphased positions in between
        positions.append(p)
    mode = mode or rng.choice(["gt", "gt", "gl"])
    # hidden haplotypes per individual give the reads some structure
    truth = [[(rng.randrange(2), rng.randrange(2)) for _ in range(n)] for _ in range(nind)]
    nreads = rng.randint(1, maxreads)
    wmax = rng.choice([1, 2, 6, 6, 6, 40, 120])
    noise = rng.choice([0.0, 0.1, 0.3, 0.5])
    cov = [0] * n
    reads = []
    for _ in range(nreads):
        for _try in range(8):
            span = min(n - 1, rng.choice([0, 1, 1, 2, 2, 3, 4, 7]))
            f = rng.randrange(n - span)
            l = f + span
            if all(cov[c] < maxcov for c in range(f, l + 1)):
                break
        else:
            continue
        s = rng.randrange(nind)
        h = rng.randrange(2)
        vs = []
        for c in range(f, l + 1):
            if c not in (f, l) and rng.random() < 0.3:
                if rng.random() < 0.3:      # a variant at a position that is not phased
                    vs.append([positions[c] - 1, rng.randrange(2), rng.randint(0, wmax)])
                continue
            a = truth[s][c][h]
            if rng.random() < noise:
                a = 1 - a
            vs.append([positions[c], a, rng.randint(0, wmax)])
        for c in range(f, l + 1):
            cov[c] += 1
        reads.append({"sample": s, "vars": vs, "_first": f})
    reads.sort(key=lambda r: r["_first"])      # stable: ties keep generation order
    for r in reads:
        del r["_first"]
    if mode == "gt":
        if nind <= 2 and not conflict and rng.random() < 0.15:
            gts = [[1] * n for _ in range(nind)]      # all heterozygous (the classical MEC case)
        elif rng.random() < 0.8 or conflict:
            gts = consistent_genotypes(rng, nind, trios, n)
        else:
            gts = [[rng.randrange(3) for _ in range(n)] for _ in range(nind)]
        if conflict and trios:
            f, m, c = rng.choice(trios)
            col = rng.randrange(n)
            bad = rng.choice([(0, 0, 1), (0, 0, 2), (2, 2, 0), (2, 2, 1), (0, 2, 0), (2, 0, 2), (0, 1, 2), (1, 2, 0), (2, 1, 0)])
            gts[f][col], gts[m][col], gts[c][col] = bad
        gls = None
    else:
        gts = [[rng.randrange(3) for _ in range(n)] for _ in range(nind)]      # ignored by the solver
        gmax = rng.choice([0, 3, 10, 30, 60])
        gls = []
        for i in range(nind):
            rowi = []
            for c in range(n):
                tr = [rng.randint(0, gmax) for _ in range(3)]
                if rng.random() < 0.7:
                    tr[rng.randrange(3)] = 0
                rowi.append(tr)
            gls.append(rowi)
    rmax = rng.choice([0, 1, 3, 8, 8])
    recomb = [rng.randint(0, rmax) if rng.random() < 0.8 else 0 for _ in range(n)]
    ids = list(range(nind))
    rng.shuffle(ids)
    inst = {"kind": kind, "positions": positions, "nind": nind, "trios": trios, "mode": mode, "reads": reads,
            "gt": gts, "recomb": recomb, "id_order": ids}
    if gls is not None:
        inst["gl"] = gls
    # how the public API is driven (does not change the instance the model sees)
    api = {"source_ids": [rng.choice([0, 0, 1, 7]) for _ in reads],
           "names": rng.choice(["index", "random", "prefix"]),
           "getters": rng.choice([["cost", "part", "sr"], ["sr", "part", "cost"], ["part", "sr", "cost", "sr", "part"],
                                  ["sr", "cost", "sr", "part"], ["cost", "cost", "part", "part", "sr"]]),
           "name_seed": rng.randrange(1 << 30)}
    if mode == "gt" and rng.random() < 0.25:      # likelihoods supplied although the genotypes are trusted: must be ignored
        api["gl_ignored"] = [[[rng.randint(0, 30) for _ in range(3)] for _ in range(n)] for _ in range(nind)]
    inst["api"] = api
    if rng.random() < 0.2 and not conflict:
        positions_none(inst)
    return inst


def positions_none(inst):
    """drive the constructor with positions=None: the columns are then the positions that occur in the reads"""
    col = columns_of(inst)
    for r in inst["reads"]:
        r["vars"] = [v for v in r["vars"] if v[0] in col]
    used = sorted({v[0] for r in inst["reads"] for v in r["vars"]})
    if not used:
        return
    keep = [col[p] for p in used]
    inst["positions"] = used
    inst["gt"] = [[row[k] for k in keep] for row in inst["gt"]]
    if "gl" in inst:
        inst["gl"] = [[row[k] for k in keep] for row in inst["gl"]]
    if "gl_ignored" in inst.get("api", {}):
        inst["api"]["gl_ignored"] = [[row[k] for k in keep] for row in inst["api"]["gl_ignored"]]
    inst["recomb"] = [inst["recomb"][k] for k in keep]
    inst["api"]["positions_none"] = True


def shape_tallies(ctx, inst):
    """tallies of the input dimensions that matter to the solver (generator coverage audit)"""
    dense = dense_reads(inst)
    n = len(inst["positions"])
    cov = coverage(inst)
    col = columns_of(inst)
    api = inst.get("api") or {}
    spans = [(f, f + len(e) - 1) for _, f, e in dense]
    if any(c == 0 for c in cov):
        ctx.tally("shape.uncovered-column")
        if cov and (cov[0] == 0 or cov[-1] == 0):
            ctx.tally("shape.uncovered-first-or-last-column")
    if any(None in e for _, _, e in dense):
        ctx.tally("shape.read-with-interior-gap")
    if any(v[0] not in col for r in inst["reads"] for v in r["vars"]):
        ctx.tally("shape.read-with-unphased-variant")
    if any(len(e) == 1 for _, _, e in dense):
        ctx.tally("shape.single-variant-read")
    if any(a[0] < b[0] and b[1] < a[1] for a in spans for b in spans):
        ctx.tally("shape.nested-spans")
    if any(a[0] < b[0] <= a[1] < b[1] for a in spans for b in spans):
        ctx.tally("shape.interleaved-spans")
    if len({f for f, _ in spans}) < len(spans):
        ctx.tally("shape.reads-sharing-first-column")
    if len(set(spans)) < len(spans):
        ctx.tally("shape.reads-with-identical-span")
    if n and any(sp == (0, n - 1) for sp in spans):
        ctx.tally("shape.read-spanning-all-columns")
    ws = [e[1] for _, _, es in dense for e in es if e]
    if 0 in ws:
        ctx.tally("shape.weight-zero")
    if ws and max(ws) >= 30:
        ctx.tally("shape.weight>=30")
    if len(ws) != len(set(ws)):
        ctx.tally("shape.equal-weights")
    if n and all(x == 0 for x in inst["recomb"]):
        ctx.tally("shape.recomb-all-zero")
    if any(x == 0 for x in inst["recomb"]) and any(x > 0 for x in inst["recomb"]):
        ctx.tally("shape.recomb-mixed-zero-nonzero")
    if inst["recomb"] and max(inst["recomb"]) >= 9:
        ctx.tally("shape.recomb>=9")
    k = int(n ** 0.5)
    ctx.tally(f"shape.sqrt-k={k}" + (".perfect-square" if k * k == n and n else ""))
    if inst["mode"] == "gt" and n:
        flat = [g for row in inst["gt"] for g in row]
        if all(g == 1 for g in flat):
            ctx.tally("shape.all-heterozygous")
        if any(all(row[c] != 1 for row in inst["gt"]) for c in range(n)):
            ctx.tally("shape.column-homozygous-in-all")
    if inst["mode"] == "gl" and any(len(set(t)) == 1 for row in inst["gl"] for t in row):
        ctx.tally("shape.gl-all-equal-triple")
    for f, m, c in inst["trios"]:
        if c < f or c < m:
            ctx.tally("shape.child-indexed-before-a-parent")
            break
    used = {r["sample"] for r in inst["reads"]}
    if len(used) < inst["nind"]:
        ctx.tally("shape.individual-without-reads")
    if api.get("positions_none"):
        ctx.tally("api.positions=None")
    if "gl_ignored" in api:
        ctx.tally("api.likelihoods-given-but-trusted")
    if api.get("getters") and api["getters"] != ["cost", "part", "sr"]:
        ctx.tally("api.getters-reordered-or-repeated")
    if any(api.get("source_ids", [])):
        ctx.tally("api.nonzero-source-id")
    if api.get("names", "index") != "index":
        ctx.tally("api.read-names-" + api["names"])
    if inst.get("id_order") and inst["id_order"] != sorted(inst["id_order"]):
        ctx.tally("api.numeric-ids-permuted")


# ------------------------------------------------------------------ API histories: solve, mutate in place, solve again
def gen_history(rng):
    """a fresh instance plus 1-3 rounds of in-place mutations of the SAME ReadSet through the public API (add a variant
    to an existing read at an existing or a new column + Read.sort; add a read + ReadSet.sort; subset), a solve after
    every round. Each step carries the frame (positions, genotypes/likelihoods, recombination costs) of its solve."""
    kind = rng.choice(["single", "single", "two", "trio", "trio", "quartet"])
    maxcov = {"single": 6, "two": 6, "trio": 5, "quartet": 4}[kind]
    base = gen_instance(rng, kind=kind, n=rng.choice([2, 3, 4, 4, 5, 6]), maxcov=rng.randint(2, maxcov - 1), maxreads=6)
    col = columns_of(base)
    for r in base["reads"]:      # histories stay on phased positions only
        r["vars"] = [v for v in r["vars"] if v[0] in col]
    for k, r in enumerate(base["reads"]):
        r["name"] = "r%d" % k
    frame = {"positions": list(base["positions"]), "gt": [list(x) for x in base["gt"]], "recomb": list(base["recomb"])}
    if base["mode"] == "gl":
        frame["gl"] = [[list(t) for t in x] for x in base["gl"]]
    reads = {r["name"]: {"sample": r["sample"], "vars": [list(v) for v in r["vars"]]} for r in base["reads"]}
    steps = [{"ops": [], "frame": json.loads(json.dumps(frame))}]
    nextname = len(reads)
    wmax = 6

    def cov_ok(extra=None):
        pos = frame["positions"]
        cov = {p: 0 for p in pos}
        for r in list(reads.values()) + ([extra] if extra else []):
            ps = [v[0] for v in r["vars"]]
            for p in pos:
                if min(ps) <= p <= max(ps):
                    cov[p] += 1
        return max(cov.values() or [0]) <= maxcov

    def new_column():
        """insert a new position with genotype / likelihood / recombination entries; returns the position or None"""
        pos = frame["positions"]
        cands = [q for a, b in zip(pos, pos[1:]) for q in range(a + 1, b)] + [pos[-1] + rng.randint(1, 9)] + \
                ([pos[0] - 1] if pos[0] > 0 else [])
        if not cands or len(pos) >= 8:
            return None
        q = rng.choice(cands)
        k = sum(1 for p in pos if p < q)
        pos.insert(k, q)
        g1 = consistent_genotypes(rng, base["nind"], base["trios"], 1)
        for i in range(base["nind"]):
            frame["gt"][i].insert(k, g1[i][0])
            if "gl" in frame:
                tr = [rng.randint(0, 10) for _ in range(3)]
                tr[rng.randrange(3)] = 0
                frame["gl"][i].insert(k, tr)
        frame["recomb"].insert(k, rng.randint(0, 8))
        return q

    for _ in range(rng.randint(1, 3)):
        ops = []
        need_sort = False
        for _ in range(rng.randint(1, 3)):
            x = rng.random()
            names = sorted(reads)
            if x < 0.5 and names:
                name = rng.choice(names)
                r = reads[name]
                have = {v[0] for v in r["vars"]}
                lo, hi = min(have), max(have)
                pos = frame["positions"]
                inside = [p for p in pos if lo < p < hi and p not in have]
                k0, k1 = pos.index(lo), pos.index(hi)
                outside = ([pos[k0 - 1]] if k0 > 0 else []) + ([pos[k1 + 1]] if k1 + 1 < len(pos) else [])
                y = rng.random()
                if y < 0.3:
                    q = new_column()
                elif y < 0.65 and inside:
                    q = rng.choice(inside)
                elif outside:
                    q = rng.choice(outside)
                else:
                    q = rng.choice(inside) if inside else None
                if q is None or q in have:
                    continue
                trial = {"sample": r["sample"], "vars": sorted(r["vars"] + [[q, 0, 0]])}
                others = {n: v for n, v in reads.items() if n != name}
                saved = dict(reads)
                reads.clear()
                reads.update(others)
                ok = cov_ok(trial)
                reads.clear()
                reads.update(saved)
                if not ok:
                    continue
                v = [q, rng.randrange(2), rng.randint(0, wmax)]
                r["vars"] = sorted(r["vars"] + [v])
                ops.append(["addvar", name, v[0], v[1], v[2]])
                if q < lo:
                    need_sort = True
            elif x < 0.8:
                pos = frame["positions"]
                f = rng.randrange(len(pos))
                l = min(len(pos) - 1, f + rng.choice([0, 1, 1, 2, 3]))
                vs = [[pos[c], rng.randrange(2), rng.randint(0, wmax)] for c in range(f, l + 1)
                      if c in (f, l) or rng.random() < 0.7]
                nr = {"sample": rng.randrange(base["nind"]), "vars": vs}
                if not cov_ok(nr) or len(reads) >= 9:
                    continue
                name = "r%d" % nextname
                nextname += 1
                reads[name] = nr
                ops.append(["addread", name, nr["sample"], vs])
                need_sort = True
            elif len(reads) >= 3:
                if need_sort:      # positions of a subset are given as indices of the current (sorted) set
                    ops.append(["sortset"])
                    need_sort = False
                keep = [n for n in names if rng.random() < 0.75]
                if not keep or len(keep) == len(names):
                    continue
                for n in names:
                    if n not in keep:
                        del reads[n]
                ops.append(["subset", keep])
        if need_sort:
            ops.append(["sortset"])
        if ops:
            steps.append({"ops": ops, "frame": json.loads(json.dumps(frame)),
                          "expect": {n: json.loads(json.dumps(v)) for n, v in reads.items()}})
    steps[0]["expect"] = {r["name"]: {"sample": r["sample"], "vars": [list(v) for v in r["vars"]]} for r in base["reads"]}
    return {"base": base, "steps": steps}


def history_cases(ctx, hists, outs):
    """(instance, result, replay) for every solved round; content mismatches and aborts are reported here"""
    insts, results, replays = [], [], []
    for h, rounds in zip(hists, outs):
        base = h["base"]
        ctx.tally("history.histories")
        for rnd, (step, r) in enumerate(zip(h["steps"], rounds)):
            rp = {"hist": h, "round": rnd}
            if "crash" in r:
                ctx.count(("hist", json.dumps(h, sort_keys=True), rnd), nontrivial=True)
                ctx.tally("history.abort")
                ctx.violation("pedmec:solver-abort-after-api-history",
                              f"the solver process aborted (rc={r.get('rc')}: {r['crash'][-200:]}) in round {rnd} of the API history "
                              f"{json.dumps(h['steps'][:rnd + 1])[:600]} on base {inst_key(base)[:400]}", rp)
                break
            got = {n: {"sample": smp, "vars": vs} for n, smp, vs in r["reads"]}
            if got != step["expect"] or len(got) != len(r["reads"]):
                ctx.violation("pedmec:readset-content", f"ReadSet content after the API history differs from the operations applied: "
                              f"{json.dumps(r['reads'])[:300]} vs {json.dumps(step['expect'])[:300]}", rp)
                break
            inst = {"kind": "hist-" + base["kind"], "positions": step["frame"]["positions"], "nind": base["nind"],
                    "trios": base["trios"], "mode": base["mode"], "gt": step["frame"]["gt"], "recomb": step["frame"]["recomb"],
                    "reads": [{"sample": smp, "vars": vs} for n, smp, vs in r["reads"]], "id_order": base.get("id_order")}
            if base["mode"] == "gl":
                inst["gl"] = step["frame"]["gl"]
            insts.append(inst)
            results.append(r["out"])
            replays.append(rp)
            ctx.tally(f"history.round{rnd}")
            for op in step["ops"]:
                ctx.tally("history.op." + op[0])
    return insts, results, replays


def coverage(inst):
    n = len(inst["positions"])
    cov = [0] * n
    for s, first, ents in dense_reads(inst):
        for c in range(first, first + len(ents)):
            cov[c] += 1
    return cov


def nontrivial(inst):
    return len(inst["positions"]) >= 2 and len(inst["reads"]) >= 2 and max(coverage(inst) or [0]) >= 2


def small(inst):
    """small enough for the brute-force optimum inside Coq (all bipartitions x all transmission paths)"""
    nr, n, nt = len(inst["reads"]), len(inst["positions"]), len(inst["trios"])
    return nr <= 9 and (4 ** nt) ** n * 2 ** nr <= (1 << 17)


def strip(inst):
    return {k: v for k, v in inst.items() if k != "perturb"}


def inst_key(inst):
    return json.dumps({k: v for k, v in inst.items() if k != "perturb"}, sort_keys=True)


# ------------------------------------------------------------------ checking
SIGNATURES = {
    "L1opt": ("pedmec:cost-not-optimal", "reported cost differs from the brute-force PedMEC optimum"),
    "L1witness": ("pedmec:witness-cost", "returned partition/transmission vector do not achieve the reported cost"),
    "L1alleles": ("pedmec:non-tie-allele", "a super-read allele not flagged as tie contradicts a cost-optimal assignment"),
}


def check_cases(ctx, insts, label, with_opt=True, count=True):
    """run the implementation and evaluate all checks in Coq. Returns (results, failing: label -> [index])."""
    import os
    pert = os.environ.get("WHVERIF_C01_PERTURB")
    if pert:
        insts = [dict(i, perturb=pert) for i in insts]
    results = run_impl(ctx, insts)
    return results, evaluate(ctx, insts, results, label, with_opt=with_opt, count=count)


def evaluate(ctx, insts, results, label, with_opt=True, count=True, replays=None, traced=None):
    """evaluate all checks in Coq on (instance, implementation result) pairs. replays[k] = replay payload of case k
    (default: the instance itself); traced[k] = True for instances taken from an end-to-end CLI run (they need not
    satisfy the generator's invariants). Returns failing: label -> [index]."""
    cases, idx = [], []
    failing = {k: [] for k in list(CHECKS) + list(CHECK_OPT) + ["shape"]}

    def rp(k):
        return replays[k] if replays and replays[k] is not None else {"inst": strip(insts[k])}
    for k, (inst, res) in enumerate(zip(insts, results)):
        lab = "cli" if traced and traced[k] else label
        if count:
            ctx.count(inst_key(inst), nontrivial=nontrivial(inst))
            ctx.tally(f"{lab}.instances")
            ctx.tally(f"kind.{inst.get('kind', '?')}.{inst['mode']}")
            ctx.tally(f"columns.{len(inst['positions'])}")
            ctx.tally(f"reads.{len(inst['reads'])}")
            ctx.tally(f"maxcov.{max(coverage(inst) or [0])}")
            ctx.tally("outcome." + ("conflict" if res.get("err") == "conflict" else "crash" if "crash" in res
                                    else "error" if "err" in res else "solved"))
            if "tv" in res and len(set(res["tv"])) > 1:
                ctx.tally("outcome.with-recombination")
            if res.get("cost"):
                ctx.tally(f"{lab}.nonzero-cost")
            shape_tallies(ctx, inst)
            if "sr" in res and any(v[1] == 3 for m in res["sr"] for h in m for v in h):
                ctx.tally("outcome.with-tie-allele")
            if len(inst["positions"]) >= 4:
                ctx.tally("sqrt-checkpointing(k>1)")
        if "crash" in res:
            failing["shape"].append(k)
            ctx.violation("pedmec:solver-abort", f"the solver process aborted (rc={res.get('rc')}: {res['crash'][-200:]}) on {inst_key(inst)}",
                          rp(k))
            continue
        if not shape_ok(inst, res):
            failing["shape"].append(k)
            ctx.violation("pedmec:malformed-result", f"unexpected error or malformed super reads {json.dumps(res)[:300]} on {inst_key(inst)}",
                          rp(k))
            continue
        cases.append(case_term(inst, res))
        idx.append(k)
    f1, errors = eval_checks("C01", HEADER, CHECKS, cases, shard=max(4, min(24, len(cases) // 16 + 1)), timeout=1500)
    if errors:
        raise RuntimeError("coq evaluation failed: " + errors[0][1])
    for lab, lst in f1.items():
        failing[lab] = [idx[i] for i in lst]
    outside = [k for k in failing["pre"] if traced and traced[k]]
    gen_bad = [k for k in failing["pre"] if not (traced and traced[k])]
    if gen_bad:
        raise RuntimeError("generator bug: instance outside wf/no_overflow: " + inst_key(insts[gen_bad[0]]))
    if outside:      # the CLI handed the solver an instance outside the theorem's hypotheses: L1 still decides
        ctx.tally("cli.outside-hypotheses", len(outside))
        ctx.extra.setdefault("cli_outside_hypotheses", []).append(inst_key(insts[outside[0]])[:2000])
    if with_opt:
        sm = [j for j, k in enumerate(idx) if small(insts[k])]
        f2, errors = eval_checks("C01opt", HEADER, CHECK_OPT, [cases[j] for j in sm], shard=max(2, min(12, len(sm) // 16 + 1)), timeout=1500)
        if errors:
            raise RuntimeError("coq evaluation failed: " + errors[0][1])
        failing["L1opt"] = [idx[sm[i]] for i in f2["L1opt"]]
        if count:
            ctx.tally("bruteforce-optimum-in-coq", len(sm))
            ctx.tally("cli.bruteforce-optimum-in-coq", len([j for j in sm if traced and traced[idx[j]]]))
    for lab, (sig, what) in SIGNATURES.items():
        for k in failing[lab]:
            ctx.violation(sig, f"{what}: impl={json.dumps(results[k])[:300]} on {inst_key(insts[k])}", rp(k))
    return failing


def shrink_instance(inst, bad):
    """greedy delta debugging on reads, then on trailing/leading columns; bad(inst) -> True if still failing"""
    cur = json.loads(json.dumps(inst))

    def with_reads(rs):
        d = dict(cur)
        d["reads"] = rs
        return d
    cur["reads"] = util.shrink_list(cur["reads"], lambda rs: bool(rs) and bad(with_reads(rs)))
    changed = True
    while changed and len(cur["positions"]) > 1:
        changed = False
        for side in ("last", "first"):
            n = len(cur["positions"])
            if n <= 1:
                break
            drop = n - 1 if side == "last" else 0
            pos = cur["positions"][drop]
            lo = cur["positions"][1] if side == "first" else None
            hi = cur["positions"][-2] if side == "last" else None
            d = dict(cur)
            d["positions"] = [p for k, p in enumerate(cur["positions"]) if k != drop]
            keep = set(d["positions"])
            rs = []
            for r in cur["reads"]:
                vs = [v for v in r["vars"] if v[0] != pos and (lo is None or v[0] >= lo) and (hi is None or v[0] <= hi)]
                while vs and vs[0][0] not in keep:
                    vs = vs[1:]
                while vs and vs[-1][0] not in keep:
                    vs = vs[:-1]
                if vs:
                    rs.append({"sample": r["sample"], "vars": vs})
            d["reads"] = rs
            d["gt"] = [[g for k, g in enumerate(row) if k != drop] for row in cur["gt"]]
            if "gl" in cur:
                d["gl"] = [[g for k, g in enumerate(row) if k != drop] for row in cur["gl"]]
            d["recomb"] = [g for k, g in enumerate(cur["recomb"]) if k != drop]
            firsts = [r["vars"][0][0] for r in rs]
            if firsts == sorted(firsts) and bad(d):
                cur = d
                changed = True
    return cur


CORPUS = [
    # the trio of props/C01.v (gaps, weights, recombination)
    {"kind": "trio", "positions": [10, 20, 30, 40, 50], "nind": 3, "trios": [[0, 1, 2]], "mode": "gt",
     "reads": [{"sample": 0, "vars": [[10, 1, 3], [20, 0, 2], [40, 1, 1]]}, {"sample": 1, "vars": [[10, 0, 3], [30, 1, 2]]},
               {"sample": 2, "vars": [[20, 1, 3], [30, 0, 2], [40, 1, 5]]}, {"sample": 2, "vars": [[30, 1, 4], [40, 0, 2], [50, 0, 1]]}],
     "gt": [[1, 1, 1, 1, 0], [1, 0, 1, 1, 0], [1, 1, 1, 2, 0]], "recomb": [3, 1, 0, 2, 3]},
    # empty read set, no columns
    {"kind": "single", "positions": [], "nind": 1, "trios": [], "mode": "gt", "reads": [], "gt": [[]], "recomb": []},
    # columns but no reads
    {"kind": "trio", "positions": [5, 6], "nind": 3, "trios": [[0, 1, 2]], "mode": "gt", "reads": [],
     "gt": [[1, 0], [1, 2], [2, 1]], "recomb": [1, 1]},
    # test_phase_trio1 of tests/test_pedigreephasing.py
    {"kind": "trio", "positions": [10, 20, 30], "nind": 3, "trios": [[0, 1, 2]], "mode": "gt",
     "reads": [{"sample": s, "vars": [[10 * (k + 1), int(ch), 1] for k, ch in enumerate(row)]} for s, row in
               [(0, "111"), (0, "010"), (0, "110"), (1, "001"), (1, "110"), (1, "101"), (2, "001"), (2, "010"), (2, "010")]],
     "gt": [[1, 2, 1], [1, 1, 1], [0, 1, 1]], "recomb": [10, 10, 10]},
    # Mendelian conflict in the second column
    {"kind": "trio", "positions": [10, 20], "nind": 3, "trios": [[0, 1, 2]], "mode": "gt",
     "reads": [{"sample": 2, "vars": [[10, 1, 1], [20, 0, 1]]}], "gt": [[1, 0], [1, 0], [1, 2]], "recomb": [0, 0]},
]


# ------------------------------------------------------------------ end-to-end stream (whatshap phase + trace hook)
def cli_spec(rng):
    fam = rng.choice(["single", "single", "trio", "trio", "trio", "quartet"])
    spec = {
        "seed": rng.randrange(1 << 40),
        "family": fam,
        "k": {"single": rng.randint(2, 6), "trio": rng.choice([3, 4, 6]), "quartet": 4}[fam],   # --internal-downsampling
        "nvars": rng.randint(4, 9) if fam != "quartet" else rng.randint(3, 6),
        "reads_per_sample": rng.randint(6, 30),
        "err": rng.choice([0.0, 0.03, 0.08, 0.15]),         # per-allele sequencing error of the simulated reads
        "quals": rng.choice([[30], [10, 20, 30], [5, 12, 33, 40]]),
        "het_fraction": rng.choice([0.6, 0.8, 1.0]),
        "distrust": rng.random() < 0.35,
        "default_gq": rng.choice([None, None, 10, 45]),
        "recombrate": rng.choice([None, 1e5, 1e6, 5e6, 3e7]),   # cM/Mb; the synthetic variants are ~100 bp apart
        "recomb_prob": rng.choice([0.0, 0.15, 0.3]),        # true recombination events in the children
        "genetic": rng.random() < 0.7,
        "kinds": rng.choice([["snv"], ["snv"], ["snv", "snv", "ins", "del", "mnp"]]),
        "min_gap": rng.choice([25, 40]),
        "nchrom": rng.choice([1, 1, 2]),
        "extra_sample": rng.random() < 0.3,                  # an unrelated sample in the same VCF/BAM (phased as its own family)
    }
    # sample names: random, so that they sort against their role; sometimes sharing a prefix
    alphabet = "abcdefghijklmnopqrstuvwxyzABCDEFGHIJKLMNOPQRSTUVWXYZ0123456789"
    pre = rng.choice(["", "", "NA", "sample_"])
    names = set()
    while len(names) < 5:
        names.add(pre + "".join(rng.choice(alphabet) for _ in range(rng.randint(1, 5))))
    names = sorted(names)
    rng.shuffle(names)
    spec["names"] = names
    g = spec["min_gap"]
    spec["len_range"] = rng.choice([[3 * g, 9 * g], [4 * g, 14 * g], [6 * g, 20 * g]])
    return spec


CLI_FAMILIES = {"single": ["S1"], "trio": ["father", "mother", "child"], "quartet": ["father", "mother", "child", "child2"]}


def cli_reads(rng, sc, sample, chrom, n, len_range, err, quals):
    """reads copying one true haplotype with each allele flipped with probability err (canonical CIGARs)"""
    from .. import synth
    ref, vs = sc.ref[chrom], sc.variants[chrom]
    L = len(ref)
    out = []
    for k in range(n):
        h = rng.randint(0, 1)
        alleles = [x[h] if rng.random() >= err else 1 - x[h] for x in sc.haps[sample][chrom]]
        length = rng.randint(*len_range)
        s0 = rng.randint(0, max(0, L - length - 1))
        e0 = min(L - 1, s0 + length)
        while s0 < e0 and not synth.legal_boundary(vs, s0):
            s0 += 1
        while e0 > s0 and not synth.legal_boundary(vs, e0, alleles, True):
            e0 -= 1
        if e0 - s0 < 10:
            continue
        seq, cig = synth.hap_walk(ref, vs, alleles, s0, e0)
        out.append(dict(name=f"{sample}_{chrom}_r{k}", sample=sample, chrom=chrom, start=s0, cigar=cig, seq=seq,
                        qual=rng.choice(quals), hap=h, flag=0))
    return out


def run_cli_spec(ctx, spec):
    """build the synthetic inputs of one spec, run `whatshap phase` with the trace hook; returns (rc, stderr, traces)"""
    import os
    import random
    from .. import synth
    rng = random.Random(spec["seed"])
    wd = util.workdir(ctx, "C01cli")
    roles = CLI_FAMILIES[spec["family"]] + (["extra"] if spec.get("extra_sample") else [])
    nm = dict(zip(roles, spec.get("names") or roles))
    samples = [nm[r] for r in roles]
    sc = synth.make_scenario(rng, nchrom=spec.get("nchrom", 1), nsamples=len(samples), nvars=spec["nvars"], sample_names=samples,
                             het_fraction=spec["het_fraction"], min_gap=spec["min_gap"], kinds=tuple(spec["kinds"]))
    trios = []
    if spec["family"] != "single":
        children = [nm[r] for r in roles if r.startswith("child")]
        for c in sc.chroms:
            for child in children:
                sc.haps[child][c], _ = synth.inherit(rng, sc.haps[nm["father"]][c], sc.haps[nm["mother"]][c], recomb_prob=spec["recomb_prob"])
        trios = [(child, nm["father"], nm["mother"]) for child in children]
    ref = synth.write_fasta(sc, os.path.join(wd, "ref.fa"))
    vcf = synth.write_vcf(sc, os.path.join(wd, "in.vcf"))
    reads = []
    for smp in samples:
        for c in sc.chroms:
            reads += cli_reads(rng, sc, smp, c, spec["reads_per_sample"], tuple(spec["len_range"]), spec["err"], spec["quals"])
    bam = synth.write_bam(sc, reads, os.path.join(wd, "reads.bam"))
    trace = os.path.join(wd, "trace.jsonl")
    args = ["phase", "--reference", ref, "-o", os.path.join(wd, "out.vcf"), "--internal-downsampling", spec["k"]]
    if trios:
        args += ["--ped", synth.write_ped(os.path.join(wd, "fam.ped"), trios)]
        if not spec["genetic"]:
            args += ["--no-genetic-haplotyping"]
        if spec["recombrate"] is not None:
            args += ["--recombrate", spec["recombrate"]]
    if spec["distrust"]:
        args += ["--distrust-genotypes"]
        if spec["default_gq"] is not None:
            args += ["--default-gq", spec["default_gq"]]
    args += [vcf, bam]
    rc, so, se = util.run_cli(ctx, args, cwd=wd, env_extra={"WHATSHAP_VERIF_TRACE": trace}, timeout=600)
    traces = []
    if rc == 0 and os.path.exists(trace):
        with open(trace) as f:
            traces = [json.loads(line) for line in f if line.strip()]
    return rc, se, traces


def trace_to_case(tr):
    """one trace record -> (instance, result) in the shapes of gen_instance / run_impl; None if the record is outside
    the modelled domain (other algorithm, multi-allelic genotype, non-integral likelihood)"""
    if tr.get("algorithm") != "whatshap" or tr.get("partitioning") is None or tr.get("transmission_vector") is None:
        return None, "other-algorithm"
    fam = tr["family"]
    idx = {s: i for i, s in enumerate(fam)}                      # pedigree index = position in the family list
    by_numeric = {tr["numeric_ids"][s]: idx[s] for s in fam}
    gts, gls = [], []
    for smp in fam:
        rowg = []
        for g in tr["genotypes"][smp]:
            if len(g) != 2 or any(a not in (0, 1) for a in g):
                return None, "not-diploid-biallelic"
            rowg.append(sum(g))
        gts.append(rowg)
        if tr["distrust_genotypes"]:
            rowl = []
            for gl in tr["phred_genotype_likelihoods"][smp]:
                if gl is None or len(gl) != 3 or any(x != int(x) or x < 0 for x in gl):
                    return None, "non-integral-likelihood"
                rowl.append([int(x) for x in gl])
            gls.append(rowl)
    if any(c != int(c) or c < 0 for c in tr["recombination_costs"]):
        return None, "non-integral-recombination-cost"
    reads = []
    for r in tr["reads"]:
        if r["sample_id"] not in by_numeric or any(a not in (0, 1) for _, a, _ in r["variants"]):
            return None, "read-outside-domain"
        reads.append({"sample": by_numeric[r["sample_id"]], "vars": [[p, a, q] for p, a, q in r["variants"]]})
    inst = {"kind": "cli-" + {1: "single", 3: "trio", 4: "quartet"}.get(len(fam), str(len(fam))),
            "positions": list(tr["accessible_positions"]), "nind": len(fam),
            "trios": [[idx[f], idx[m], idx[c]] for c, f, m in tr["trios"]],
            "mode": "gl" if tr["distrust_genotypes"] else "gt", "reads": reads, "gt": gts,
            "recomb": [int(c) for c in tr["recombination_costs"]]}
    if tr["distrust_genotypes"]:
        inst["gl"] = gls
    res = {"cost": tr["cost"], "part": list(tr["partitioning"]), "tv": list(tr["transmission_vector"]),
           "sr": [[[list(v) for v in sr] for sr in member] for member in tr["superreads"]]}
    return (inst, res), None


def cli_stream(ctx, specs):
    """run the CLI specs (in parallel) and return (insts, results, replays) of every traced solver instance"""
    from concurrent.futures import ThreadPoolExecutor
    with ThreadPoolExecutor(max_workers=8) as ex:
        outs = list(ex.map(lambda sp: run_cli_spec(ctx, sp), specs))
    insts, results, replays = [], [], []
    for spec, (rc, se, traces) in zip(specs, outs):
        ctx.tally("cli.runs")
        ctx.tally(f"cli.family.{spec['family']}" + (".distrust" if spec["distrust"] else ""))
        if spec.get("nchrom", 1) > 1:
            ctx.tally("cli.two-chromosomes")
        if spec.get("extra_sample"):
            ctx.tally("cli.unrelated-extra-sample")
        if spec["family"] != "single" and spec.get("names") and spec["names"][2] < min(spec["names"][:2]):
            ctx.tally("cli.child-name-sorts-before-parents")
        if rc != 0:
            ctx.count(("cli", json.dumps(spec, sort_keys=True)), nontrivial=False)
            ctx.violation("pedmec:cli-crash", f"whatshap phase exited with {rc} on synthetic input {json.dumps(spec, sort_keys=True)}: {se[-400:]}",
                          {"cli": spec})
            continue
        if not traces:
            ctx.tally("cli.runs-without-trace")
        for j, tr in enumerate(traces):
            case, why = trace_to_case(tr)
            if case is None:
                ctx.tally("cli.skipped." + why)
                continue
            insts.append(case[0])
            results.append(case[1])
            replays.append({"cli": spec, "record": j, "inst": strip(case[0])})
    return insts, results, replays


def search(ctx, cands_from_l2):
    """L2 broke without an L1 failure: look for an input that violates the property text."""
    found = []
    rng = ctx.rng
    pool = []
    for inst in cands_from_l2[:10]:
        res = run_impl(ctx, [inst])[0]
        if o_check(inst, res, with_opt=len(inst["reads"]) <= 9):
            pool.append(inst)
    tries = ctx.n(1500, 8000)
    batch = [gen_instance(rng, maxreads=6, n=rng.choice([2, 3, 4, 5])) for _ in range(tries)]
    for inst, res in zip(batch, run_impl(ctx, batch)):
        ctx.count(inst_key(inst), nontrivial=nontrivial(inst))
        if "crash" in res or o_check(inst, res, with_opt=True):
            pool.append(inst)
            if len(pool) >= 3:
                break
    for inst in pool[:3]:
        def bad(d):
            r = run_impl(ctx, [d])[0]
            return "crash" in r or bool(o_check(d, r, with_opt=True))
        found.append(shrink_instance(inst, bad))
    if found:
        check_cases(ctx, found, "search", with_opt=True, count=False)      # confirmation in Coq
    return found


def run(ctx):
    rng = ctx.rng
    insts = [json.loads(json.dumps(c)) for c in CORPUS]
    import os
    nrand = int(os.environ.get("WHVERIF_C01_N") or ctx.n(300, 5000))
    for _ in range(nrand):
        insts.append(gen_instance(rng))
    for _ in range(ctx.n(30, 300)):      # malformed stream: trusted genotypes with a Mendelian conflict
        insts.append(gen_instance(rng, kind=rng.choice(["trio", "trio", "quartet"]), mode="gt", conflict=True))
    for _ in range(ctx.n(10, 120)):      # deeper / wider pedigrees: three generations, two unrelated trios
        insts.append(gen_instance(rng, kind=rng.choice(["threegen", "twotrios"])))
    for _ in range(ctx.n(6, 150)):      # high coverage (up to 9 reads in one column), no trios
        insts.append(gen_instance(rng, kind=rng.choice(["single", "two"]), maxcov=rng.randint(7, 9), maxreads=9))
    for _ in range(ctx.n(20, 300)):      # 9-17 columns: k = floor(sqrt(n)) in {3, 4}, incl. the perfect squares 9 and 16
        kind = rng.choice(["single", "two", "trio", "trio"])
        insts.append(gen_instance(rng, kind=kind, n=rng.choice([9, 9, 10, 12, 15, 16, 16, 17]),
                                  maxcov=rng.randint(2, 3 if kind == "trio" else 4), maxreads=9))
    if not ctx.quick:
        ex = exhaustive_small()
        ctx.extra["exhaustive_spaces"] = ("all 3x3 and 2x4 unit-weight gap-free matrices of one heterozygous individual (%d instances "
                                          "incl. a quarter of them re-read as a distrust-mode trio)" % len(ex))
        insts += ex
    pert = os.environ.get("WHVERIF_C01_PERTURB")
    if pert:
        insts = [dict(i, perturb=pert) for i in insts]
    results = run_impl(ctx, insts)
    # end-to-end stream: every solver instance that `whatshap phase` hands to PedigreeDPTable on synthetic runs
    specs = [cli_spec(rng) for _ in range(int(os.environ.get("WHVERIF_C01_CLI") or ctx.n(15, 200)))]
    c_insts, c_results, c_replays = cli_stream(ctx, specs)
    if pert == "cost":
        for r in c_results:
            r["cost"] += 1
    # API histories: the same ReadSet object is solved, mutated in place through the public API and solved again
    hists = [gen_history(rng) for _ in range(int(os.environ.get("WHVERIF_C01_HIST") or ctx.n(40, 600)))]
    h_insts, h_results, h_replays = history_cases(ctx, hists, run_hists(ctx, hists))
    ngen = len(insts)
    insts = insts + c_insts + h_insts
    results = results + c_results + h_results
    replays = [None] * ngen + c_replays + h_replays
    traced = [False] * ngen + [True] * len(c_insts) + [False] * len(h_insts)
    failing = evaluate(ctx, insts, results, "generated", replays=replays, traced=traced)
    pairs = list(zip(insts, results))
    for inst, res in pairs[:3] + pairs[ngen - 1:ngen] + pairs[ngen:ngen + 2]:
        ctx.sample({"instance": inst, "impl": {k: v for k, v in res.items() if k != "sr"}})
    l2 = sorted(set(failing["L2cost"]) | set(failing["L2alleles"]) | set(failing["L2witness"]))
    if l2:
        ctx.disagreements_checked += len(l2)
        for name in ("L2cost", "L2alleles", "L2witness"):
            if failing[name]:
                fn = {"L2cost": "dp_cost", "L2alleles": "get_alleles", "L2witness": "dp_witness"}[name]
                ctx.l2_disagreement(f"PedMEC.{fn} = PedigreeDPTable output ({name})",
                                    [{"inst": insts[k], "impl": {a: b for a, b in results[k].items() if a != 'sr'}} for k in failing[name]])
        if not any(failing[k] for k in ("L1opt", "L1witness", "L1alleles", "shape")):
            def still(d):
                try:
                    _, f = check_cases(ctx, [d], "shrink", with_opt=False, count=False)
                except RuntimeError:      # a shrunk candidate left the theorem's hypotheses
                    return False
                return bool(f["L2cost"] or f["L2alleles"] or f["L2witness"])
            shrunk = [shrink_instance(insts[k], still) for k in l2[:2]]
            ctx.extra["shrunk_disagreements"] = shrunk
            search(ctx, shrunk + [insts[k] for k in l2])


def exhaustive_small():
    """all 3x3 and 2x4 unit-weight matrices without gaps for one individual (heterozygous) and for a trio child"""
    out = []
    for nr, nc in ((3, 3), (2, 4)):
        for bits in range(1 << (nr * nc)):
            rows = [[(bits >> (r * nc + c)) & 1 for c in range(nc)] for r in range(nr)]
            reads = [{"sample": 0, "vars": [[10 * (c + 1), rows[r][c], 1] for c in range(nc)]} for r in range(nr)]
            out.append({"kind": "single", "positions": [10 * (c + 1) for c in range(nc)], "nind": 1, "trios": [], "mode": "gt",
                        "reads": reads, "gt": [[1] * nc], "recomb": [0] * nc})
            if bits % 4 == 0:
                reads3 = [{"sample": 2 if r == 0 else r - 1 if nr == 3 else 2, "vars": rd["vars"]} for r, rd in enumerate(reads)]
                out.append({"kind": "trio", "positions": [10 * (c + 1) for c in range(nc)], "nind": 3, "trios": [[0, 1, 2]],
                            "mode": "gl", "reads": reads3, "gt": [[1] * nc] * 3,
                            "gl": [[[1, 0, 1]] * nc, [[0, 1, 2]] * nc, [[2, 0, 2]] * nc], "recomb": [1] * nc})
    return out


def replay(ctx, data):
    if isinstance(data, dict) and "cli" in data:
        insts, results, replays = cli_stream(ctx, [data["cli"]])
        if not insts:
            ctx.log("replay: the CLI run produced no traced solver instance")
            return
        failing = evaluate(ctx, insts, results, "replay", replays=replays, traced=[True] * len(insts))
        ctx.log("replay (cli) outcomes:", [{k: v for k, v in r.items() if k != "sr"} for r in results], "failing checks:",
                {k: v for k, v in failing.items() if v})
        for name in ("L2cost", "L2alleles", "L2witness"):
            if failing[name]:
                ctx.l2_disagreement(f"PedMEC model = PedigreeDPTable output ({name})", [{"inst": insts[k]} for k in failing[name]])
    elif isinstance(data, dict) and "hist" in data:
        hists = [data["hist"]]
        insts, results, replays = history_cases(ctx, hists, run_hists(ctx, hists))
        if insts:
            failing = evaluate(ctx, insts, results, "replay", replays=replays)
            ctx.log("replay (API history) outcomes:", [{k: v for k, v in r.items() if k != "sr"} for r in results], "failing checks:",
                    {k: v for k, v in failing.items() if v})
            for name in ("L2cost", "L2alleles", "L2witness"):
                if failing[name]:
                    ctx.l2_disagreement(f"PedMEC model = PedigreeDPTable output ({name})", [{"inst": insts[k]} for k in failing[name]])
    elif isinstance(data, dict) and "inst" in data:
        inst = strip(data["inst"])
        results, failing = check_cases(ctx, [inst], "replay", with_opt=small(inst) or len(inst["reads"]) <= 6)
        ctx.log("replay outcome:", {k: v for k, v in results[0].items() if k != "sr"}, "failing checks:",
                {k: v for k, v in failing.items() if v})
        for name in ("L2cost", "L2alleles", "L2witness"):
            if failing[name]:
                ctx.l2_disagreement(f"PedMEC model = PedigreeDPTable output ({name})", [{"inst": inst}])
    else:
        run(ctx)
