"""C08 — genotyping reports the exact posterior of its HMM; GT, GL and GQ agree."""
import json
import os
import re
from fractions import Fraction

from .. import genohmm as G
from ..coqeval import eval_shards, parse_eval_results

RULE = ("core: seeded read matrices (1..6 reads, 2..6 columns, alleles 0/1, qualities from {0,10,20,30,7,13}, reads with "
        "gaps (BLANK entries), optionally columns no read covers, up to 10 columns with few reads, and long "
        "matrices of 9-20 columns (<= 12 reads) with NON-uniform coverage profiles (per-column coverage 0..4 in short "
        "segments, dips next to peaks, reads of varying length) so that the sqrt check-pointing keeps only every "
        "2nd/3rd/4th backward column and re-computes the others from wide and narrow ones), priors uniform / 1/3 / "
        "dyadic / unnormalised-skewed, recombination costs from {0,1,3,10,20,30}; single individuals, trios, quartets "
        "(two children), three-generation pedigrees (grandparents -> parent -> child; with a sibling in the thorough "
        "tier) with the relationships registered top-down / bottom-up / mixed and the individuals indexed in any order "
        "(the specification's partition structure comes from the pedigree definition: h2p of the model, a recursion over "
        "the parents that does not depend on the registration order); plus the hand-made matrices of tests/test_genotyping.py; small streams for the value dimensions: qualities "
        "1, 2, 40..300 (incl. the >= 256 code path), recombination costs up to 1000, hard (zero) priors, 7-8 active reads, "
        "pedigree roles in every index order (child not last, father not first), positions=None vs explicit positions, the "
        "empty read set, 25-30 columns (check-point stride 5), and coverage 9..13 (2^k bipartitions, beyond batch sizes "
        "of the Gray-code enumeration) with a gapped read followed by covering reads in the high-coverage column -- for "
        "these L1 is the chain form over the specification columns themselves (no tables; C08_chain_form), compared at "
        "the column of highest coverage only, and there is no L2 (the model's association-list tables are too slow for "
        "2^k >= 512); every table is queried twice (second time in reverse order). The real GenotypeDPTable runs in a "
        "child process; its likelihoods (doubles -> exact rationals) are compared inside Coq, relative tolerance 1e-9, "
        "with (L1) the plain brute-force posterior over (bipartition, transmission path, assignment path) on tiny "
        "instances and its per-bipartition chain form on all (both proved equal to posterior_spec, C08_spec_variants) "
        "and that each triple sums to one (for matrices with many reads, where 2^#reads bipartitions are too many, L1 is "
        "evaluated through the theorem C08_posterior_exact: fb_run of a well-formed instance IS posterior_spec), a crashed "
        "child process is a violation (core:crash, instance = replay), and (L2) with the faithful model fb_run of the scaled, projected, "
        "check-pointed forward-backward pass. CLI: `whatshap genotype` on synthetic reference/VCF/BAM data (single "
        "sample; trio with PED; 3-4 unrelated samples with --sample selecting every position subset (first, middle, "
        "last, pairs, all); a three-generation family whose PED file lists the grandchild first; trio plus unrelated extra VCF columns before/after/inside the family with --ped "
        "--use-ped-samples; one or two chromosomes with --chromosome subsets; quartets; PED with and without --use-ped-samples; "
        "random sample names (roles and column order independent of names), --sample options in any order, one BAM or "
        "one per sample, 1-2 read groups per sample, paired reads, SNV and indel/MNP variants, --only-snvs (records "
        "outside the variant table), --constant, --prioroutput (the prior VCF is checked as well), --ignore-read-groups, "
        "integer and fractional thresholds 0..100, a chromosome / a sample without reads; --no-priors and prior genotyping; "
        "several --gt-qual-threshold / --max-coverage / --recombrate); every call of every sample of every record "
        "on a processed chromosome is checked (samples that were not to be genotyped must have uniform/absent GL, "
        "GT ./. and no GQ), against the rules alone (L1) and against the writer model on the likelihood table "
        "handed to the writer (L2); the DP instance the CLI builds (reads, recombination costs, priors, pedigree) is recorded in "
        "the child process, L1: the output VCF's GL triple is a distribution, GT its unique maximum above the threshold "
        "or ./., GQ the rounded phred value of the other mass (on the VCF alone, tolerance 1e-4 for float formatting); "
        "L2: GL/GT/GQ against the writer model applied to fb_run of the recorded instance. Writer-direct stream: "
        "determine_genotype + GenotypeVcfWriter.write_genotypes driven as in the tail of run_genotype on chosen "
        "likelihood tables (exact zeros -> GL floor -1000 and GQ cap 10000, exact ties, maximum exactly at / next to the "
        "threshold, denormal and tiny values, thresholds 0..200, samples without table), same per-call rules. A case is non-trivial if "
        "some column has >= 2 active reads and some read ends before the last column or starts after the first "
        "(projections are not the identity); distinct = distinct instance.")
TRUSTED = [
    "modelled, not verified: IEEE/x87 rounding of the long double arithmetic, under/overflow for long instances, "
    "pow(10,-q/10): the error-probability table p_q (p_0 = 0.9999), the recombination probabilities and the priors enter the "
    "model as rationals within 1e-12 (relative, for p and 1-p) of the doubles the C++ uses; implementation results (doubles) "
    "are converted to exact rationals and compared with relative tolerance 1e-9 (the only tolerance for the core)",
    "the model iterates over bipartitions as bit lists in a fixed order instead of Gray-code order with incremental "
    "multiply/divide updates of the emission products (equal in exact arithmetic because p and 1-p are nonzero; "
    "set_partitioning's bit shift that skips BLANK entries is only ever called with partitioning 0, where it is immaterial); "
    "sums over the allele assignment are factored out of inner loops (distributivity); the division by the scaling "
    "parameter is applied to sum_prev_values; tables indexed by integer projections are functions of the projected bit list",
    "the executable model is polymorphic in the number type: the theorems instantiate it with an arbitrary mathcomp "
    "fieldType (e.g. rat; Leibniz equality), the correspondence evaluates the same definitions with Bignums' BigQ "
    "(normalising operations add_norm/mul_norm/div_norm; BigQ's correctness lemmas are the library's and rest on the "
    "axioms of Coq's primitive 63-bit integers; they are not used by any theorem of this property)",
    "the prior genotyper (compute_genotypes, first pass of `whatshap genotype`) is outside the property and not modelled: "
    "its output enters as the recorded priors; read extraction/selection of the CLI is not modelled (the recorded DP "
    "instance is the model's input); VCF float formatting (6 significant digits) and python's 10**x used to read GL back "
    "are trusted canonicalisation: tolerance 1e-4 (relative) on GL-derived values (2e-4 / 2e-3 for likelihoods below 1e-10 / 1e-100, whose GL has only 4 / 3 decimals); exact model values are rounded to 80 "
    "significant bits (qround) before the slack-tolerant GT/GQ rules are evaluated on them",
    "log10/round in the GQ rule are characterised by exact rational inequalities (n-1/2 <= -10 log10 m <= n+1/2 <-> "
    "10^-(2n+1) <= m^20 <= 10^-(2n-1)); this equivalence is mathematics outside Coq (no Reals in this development)",
]
ASSUMPTIONS = [
    "wf: reads sorted by first position and numbered by first appearance, every column = reads shared with the previous "
    "column followed by the new reads (what ColumnIterator delivers for sorted reads covering >= 2 columns each; the C++ "
    "throws / asserts otherwise), read sources are individuals of the pedigree, the pedigree resolves",
    "the run returns Some: no scaling sum / normalisation is zero (true whenever all error probabilities are in (0,1) and "
    "the priors are positive; with zero divisors the C++ produces inf/nan and the model None)",
]

TOL = "(1 # 1000000000)%Q"
HEADER = G.COQ_HEADER + f"""
Definition bq_eq0 (x : bigQ) := BigQ.eq_bool x 0%bigQ.
Definition run := @fb_run bigQ 0%bigQ 1%bigQ BigQ.add_norm BigQ.sub_norm BigQ.mul_norm BigQ.div_norm bq_eq0.
Definition spec_chain := @posterior_chain_memo bigQ 0%bigQ 1%bigQ BigQ.add_norm BigQ.sub_norm BigQ.mul_norm BigQ.div_norm.
Definition spec_plain := @posterior_spec_memo bigQ 0%bigQ 1%bigQ BigQ.add_norm BigQ.sub_norm BigQ.mul_norm BigQ.div_norm.
Definition tol : Q := {TOL}.
Definition at3 (t : seq (seq (seq Q))) (c ind g : nat) : Q := nth 0%Q (nth [::] (nth [::] t c) ind) g.
Definition shape_ok (I : inst bigQ) (impl : seq (seq (seq Q))) : bool :=
  (size impl == size (i_cols I)) &&
  all (fun row => (size row == p_nind (i_ped I)) && all (fun l => size l == 3%nat) row) impl.
Definition tab_close (f : nat -> nat -> nat -> Q) (I : inst bigQ) (impl : seq (seq (seq Q))) : bool :=
  shape_ok I impl &&
  all (fun c => all (fun ind => all (fun g => qclose tol (at3 impl c ind g) (f c ind g)) (iota 0%nat 3%nat))
                    (iota 0%nat (p_nind (i_ped I)))) (iota 0%nat (size impl)).
Definition model_table (I : inst bigQ) : option (nat -> nat -> nat -> Q) :=
  if run I is Some out then
    Some (fun c ind g => BigQ.to_Q (nth 0%bigQ (nth [::] (nth [::] out c) ind) g)) else None.
(* L2: the implementation's table equals the faithful model's *)
Definition L2 (cs : inst bigQ * seq (seq (seq Q))) : bool :=
  wf cs.1 && (if model_table cs.1 is Some f then tab_close f cs.1 cs.2 else false).
(* L1: the implementation's table equals the HMM posterior (plain sum / chain form) and sums to one *)
Definition L1plain (cs : inst bigQ * seq (seq (seq Q))) : bool :=
  let sp := spec_plain cs.1 in tab_close (fun c ind g => BigQ.to_Q (sp c ind g)) cs.1 cs.2.
Definition L1chain (cs : inst bigQ * seq (seq (seq Q))) : bool :=
  let sp := spec_chain cs.1 in tab_close (fun c ind g => BigQ.to_Q (sp c ind g)) cs.1 cs.2.
(* L1 through the theorem C08_posterior_exact: for a well-formed instance whose run returns Some, fb_run IS
   posterior_spec; used where even the chain form (2^#reads bipartitions) is too large to evaluate *)
Definition L1thm (cs : inst bigQ * seq (seq (seq Q))) : bool := L2 cs.
(* L1 for columns of high coverage (2^k bipartitions with k up to 13, where the model's association-list tables
   are too slow): the chain form of the posterior over the specification columns themselves (local factors computed
   from the entries, no tables); equal to posterior_spec by C08_chain_form *)
Definition spec_chain_raw_col (I : inst bigQ) (c : nat) : nat -> nat -> bigQ :=
  @posterior_chain_col bigQ 0%bigQ 1%bigQ BigQ.add_norm BigQ.mul_norm BigQ.div_norm
    (ntrans (i_ped I)) (nassign (i_ped I)) (geno (i_ped I))
    (@spec_cols bigQ 0%bigQ 1%bigQ BigQ.add_norm BigQ.sub_norm BigQ.mul_norm BigQ.div_norm I) c.
(* evaluated at the first column of highest coverage only (sub-sample: the other columns of these instances are
   not compared) *)
Definition hi_col (I : inst bigQ) : nat :=
  let covs := [seq size (c_entries c) | c <- i_cols I] in index (foldr maxn 0%nat covs) covs.
Definition L1raw (cs : inst bigQ * seq (seq (seq Q))) : bool :=
  wf cs.1 && shape_ok cs.1 cs.2 &&
  (let c := hi_col cs.1 in
   let sp := spec_chain_raw_col cs.1 c in
   all (fun ind => all (fun g => qclose tol (at3 cs.2 c ind g) (BigQ.to_Q (sp ind g))) (iota 0%nat 3%nat))
       (iota 0%nat (p_nind (i_ped cs.1)))).
Definition L1sum (cs : inst bigQ * seq (seq (seq Q))) : bool :=
  all (fun row => all (fun l => qclose tol (foldr Qplus 0%Q l) 1%Q) row) cs.2.
(* CLI level. case = (instance recorded from the CLI, threshold, calls) with
   call = (column, individual, GT (None = ./.), GQ (None = .), 10^GL as rationals) *)
Definition cli_tol : Q := (1 # 10000)%Q.
Definition call_t := (nat * nat * option nat * option Z * seq Q)%type.
(* VCF floats carry 6 significant digits: a GL of magnitude >= 10 (>= 100) has only 4 (3) decimals, i.e. the value
   10^GL read back has relative error up to 1.2e-4 (1.2e-3) *)
Definition gl_tol (l : Q) : Q :=
  if Qle_bool (1 # 10000000000)%Q l then cli_tol
  else if Qle_bool (Qpower (1 # 10)%Q 100) l then (2 # 10000)%Q else (2 # 1000)%Q.
(* L1 on the output alone: GL is a distribution, GT its unique maximum above the threshold or ./., GQ the
   phred-scaled mass of the other genotypes *)
Definition call_L1 (thr : Q) (cl : call_t) : bool :=
  let: (c, ind, gt, gq, p) := cl in
  gl_distribution cli_tol p && gt_ok cli_tol p thr gt &&
  match gt, gq with
  | Some g, Some q => gq_rule_tol cli_tol (other_mass p g) q
  | None, None => true
  | _, _ => false
  end.
Definition CLI_L1 (cs : inst bigQ * Q * seq call_t) : bool := all (call_L1 cs.1.2) cs.2.
(* L2: against the model evaluated on the recorded instance: GL = log10 of the model's likelihoods,
   GT = determine_genotype of them (either answer next to a tie), GQ by the rounding rule *)
Definition call_L2 (f : nat -> nat -> nat -> Q) (thr : Q) (cl : call_t) : bool :=
  let: (c, ind, gt, gq, p) := cl in
  let l := [seq qround (f c ind g) | g <- iota 0%nat 3%nat] in
  (size p == 3%nat) && all (fun g => qclose (gl_tol (nth 0%Q l g)) (nth 0%Q p g) (nth 0%Q l g)) (iota 0%nat 3%nat) &&
  ((gt == call_gt l thr) || gt_ok tol l thr gt) &&
  match gt, gq with
  | Some g, Some q => gq_rule_tol tol (other_mass l g) q
  | None, None => true
  | _, _ => false
  end.
(* writer level, every sample of every record.  call = (sample was to be genotyped, GT, GQ, 10^GL or None if GL is
   absent, the likelihood triple the writer was handed for this sample and variant or None) *)
Definition wcall_t := (bool * option nat * option Z * option (seq Q) * option (seq Q))%type.
Definition uniform3 (p : seq Q) : bool := (size p == 3%nat) && all (fun x => qclose cli_tol x (1 # 3)%Q) p.
Definition no_call (gt : option nat) (gq : option Z) : bool :=
  (if gt is None then true else false) && (if gq is None then true else false).
(* L1 on the output alone: a present GL triple is a distribution, GT its unique maximum above the threshold or
   ./., GQ the phred-scaled other mass (absent for ./.); a sample that was not to be genotyped has uniform or
   absent GL, hence no unique maximum: GT ./. and no GQ *)
Definition wcall_L1 (thr : Q) (cl : wcall_t) : bool :=
  let: (sel, gt, gq, p, l) := cl in
  (if p is Some p' then
     gl_distribution cli_tol p' && gt_ok cli_tol p' thr gt &&
     match gt, gq with
     | Some g, Some q => gq_rule_tol cli_tol (other_mass p' g) q
     | None, None => true
     | _, _ => false
     end
   else no_call gt gq) &&
  (sel || ((if p is Some p' then uniform3 p' else true) && no_call gt gq)).
Definition CLIW_L1 (cs : Q * seq wcall_t) : bool := all (wcall_L1 cs.1) cs.2.
(* L2: the writer model on the likelihoods the writer was handed (default: uniform, no genotype) *)
Definition wcall_L2 (thr : Q) (cl : wcall_t) : bool :=
  let: (sel, gt, gq, p, l) := cl in
  match l with
  | Some l' =>
      (size l' == 3%nat) &&
      (if p is Some p' then (size p' == 3%nat) && all (fun g => qclose (gl_tol (nth 0%Q l' g)) (nth 0%Q p' g) (nth 0%Q l' g)) (iota 0%nat 3%nat)
       else false) &&
      ((gt == call_gt l' thr) || gt_ok tol l' thr gt) &&
      match gt, gq with
      | Some g, Some q => gq_rule_tol tol (other_mass l' g) q
      | None, None => true
      | _, _ => false
      end
  | None => (if p is Some p' then uniform3 p' else true) && no_call gt gq
  end.
Definition CLIW_L2 (cs : Q * seq wcall_t) : bool := all (wcall_L2 cs.1) cs.2.
Definition CLI_L2 (cs : inst bigQ * Q * seq call_t) : bool :=
  wf cs.1.1 && (if model_table cs.1.1 is Some f then all (call_L2 f cs.1.2) cs.2 else false).
"""


# ------------------------------------------------------------------ Coq evaluation with cost-balanced shards
def eval_items(name, items, nshards, timeout=2400):
    """items: list of (check_fn, case_term, cost). Returns list of True/False/None (None = evaluation error)."""
    order = sorted(range(len(items)), key=lambda i: -items[i][2])
    bins = [[] for _ in range(max(1, min(nshards, len(items))))]
    load = [0.0] * len(bins)
    for i in order:
        b = load.index(min(load))
        bins[b].append(i)
        load[b] += items[i][2]
    bins = [b for _, b in sorted(zip(load, bins), key=lambda t: -t[0])]
    bodies = []
    for b in bins:
        lines = []
        for n, i in enumerate(b):
            fn, case, _ = items[i]
            lines.append(f"Definition case_{n} := {case}.\nEval vm_compute in ({fn} case_{n}).")
        bodies.append("\n".join(lines))
    outs = eval_shards(name, HEADER, bodies, timeout=timeout)
    res = [None] * len(items)
    errors = []
    for b, (rc, out, dt) in zip(bins, outs):
        terms = parse_eval_results(out)
        if rc != 0 or len(terms) != len(b):
            errors.append(out[-1500:])
        for i, t in zip(b, terms):
            res[i] = (t.strip() == "true")
    return res, errors


def cost_estimate(inst):
    cols = G.active_columns(inst)
    tn = 4 ** len(inst["trios"])
    na = 2 ** (2 * (inst["nind"] - len(inst["trios"])))
    return sum((2 ** len(c)) * tn * na for c in cols) * (1 + len(cols)) + 50


def nontrivial(inst):
    cols = G.active_columns(inst)
    n = inst["ncols"]
    multi = any(len(c) >= 2 for c in cols)
    partial = any(r["vars"][0][0] > 0 or r["vars"][-1][0] < n - 1 for r in inst["reads"])
    return multi and partial


def case_term(inst, res):
    return "(" + G.inst_term(inst) + ", " + G.impl_term(res) + ")"


# ------------------------------------------------------------------ corpus: the hand-made matrices of the test-suite
def matrix_instance(rows, weights=None, scale=10, priors=None, samples=None, nind=1, trios=(), recomb=None):
    reads = []
    ncols = max(len(r) for r in rows)
    for k, row in enumerate(rows):
        vs = []
        for c, ch in enumerate(row):
            if ch == " ":
                continue
            q = 1 if weights is None else int(weights[k][c])
            vs.append([c, int(ch), q * scale])
        reads.append({"sample": 0 if samples is None else samples[k], "vars": vs})
    reads.sort(key=lambda r: r["vars"][0][0])
    pri = priors or [[[1 / 3.0, 1 / 3.0, 1 / 3.0] for _ in range(ncols)] for _ in range(nind)]
    return {"ncols": ncols, "nind": nind, "trios": [list(t) for t in trios], "reads": reads, "priors": pri,
            "recomb": recomb or [1] * ncols}


def corpus():
    out = [
        matrix_instance(["11 ", " 01"]),
        matrix_instance(["11", "11"], ["11", "11"]),
        matrix_instance(["01", "11"], ["11", "11"]),
        matrix_instance(["111", "101", "111"]),
        matrix_instance(["0101", "0101", "1010", " 010"]),
        matrix_instance(["00", "00", "11", "11", "11", "00"], samples=[0, 0, 1, 1, 2, 2], nind=3, trios=[(0, 1, 2)],
                        recomb=[10, 10]),
        matrix_instance(["111", "000", "1 1", "010"], samples=[0, 1, 2, 2], nind=3, trios=[(0, 1, 2)], recomb=[3, 3, 3],
                        priors=[[[0.25, 0.5, 0.25]] * 3, [[0.5, 0.25, 0.25]] * 3, [[0.125, 0.75, 0.125]] * 3]),
    ]
    return out


# ------------------------------------------------------------------ generation
def gen_core(ctx):
    rng = ctx.rng
    trio = [(0, 1, 2)]
    quartet = [(0, 1, 2), (0, 1, 3)]
    plan = []   # (label, kwargs, count, plain?)
    q = ctx.quick
    nice = dict(quals=[10, 20, 30, 0, 10, 20], prior_mode=None)
    plan.append(("tiny-single", dict(nind=1, trios=(), max_reads=3, max_cols=3), ctx.n(20, 200), True))
    plan.append(("tiny-trio", dict(nind=3, trios=trio, max_reads=2, max_cols=2, quals=[10, 20, 30], prior_mode="uniform"),
                 ctx.n(3, 24), True))
    plan.append(("single", dict(nind=1, trios=(), max_reads=6, max_cols=6), ctx.n(80, 1500), False))
    plan.append(("single-uncovered", dict(nind=1, trios=(), max_reads=5, max_cols=6, uncovered=True), ctx.n(20, 300), False))
    plan.append(("single-long", dict(nind=1, trios=(), max_reads=3, max_cols=10, uncovered=True), ctx.n(14, 200), False))
    plan.append(("trio-small", dict(nind=3, trios=trio, max_reads=4, max_cols=4), ctx.n(12, 300), False))
    plan.append(("trio-small-nice", dict(nind=3, trios=trio, max_reads=4, max_cols=4, quals=nice["quals"],
                                         prior_mode="nice"), ctx.n(24, 400), False))
    plan.append(("trio", dict(nind=3, trios=trio, max_reads=6, max_cols=6, quals=nice["quals"], prior_mode="nice"),
                 ctx.n(6, 120), False))
    plan.append(("trio-long", dict(nind=3, trios=trio, max_reads=2, max_cols=9, uncovered=True, quals=nice["quals"],
                                   prior_mode="nice"), ctx.n(4, 60), False))
    plan.append(("quartet", dict(nind=4, trios=quartet, max_reads=2, max_cols=3, quals=nice["quals"], prior_mode="nice"),
                 ctx.n(4, 60), False))
    out = []
    for label, kw, count, plain in plan:
        for _ in range(count):
            out.append((label, G.make_instance(rng, **kw), plain))
    # three generations (grandparents -> parent -> child, also with a sibling), relationships registered top-down,
    # bottom-up and mixed; individuals are re-indexed at random below
    for order in ("top-down", "bottom-up", "mixed"):
        for _ in range(ctx.n(2, 10)):
            out.append(("threegen", G.make_threegen_instance(rng, sibling=False, order=order), False))
    # with a sibling (6 individuals, 3 trios: 64 transmission values x 64 assignments, minutes per instance in Coq):
    # thorough tier only, one read, one shared evaluation (L1 through C08_posterior_exact)
    for order in (() if ctx.quick else ("bottom-up", "mixed")):
        out.append(("threegen-sib", G.make_threegen_instance(rng, sibling=True, order=order, one_read=True), False))
    # value dimensions the main classes do not reach: large / odd qualities (incl. the >= 256 code path), large
    # recombination costs, hard (zero) priors, 7-8 active reads, positions=None, the empty read set
    for _ in range(ctx.n(10, 150)):
        out.append(("single-quals", G.make_instance(rng, nind=1, trios=(), max_reads=4, max_cols=5,
                                                    quals=[1, 2, 40, 60, 93, 255, 256, 300, 10, 0],
                                                    recomb_choices=(0, 46, 60, 100, 1000)), False))
    for _ in range(ctx.n(3, 40)):
        out.append(("trio-quals", G.make_instance(rng, nind=3, trios=trio, max_reads=3, max_cols=3, prior_mode="nice",
                                                  quals=[1, 40, 60, 256, 300, 10], recomb_choices=(46, 60, 100, 1000)), False))
    for _ in range(ctx.n(10, 150)):
        out.append(("single-zero-prior", G.make_instance(rng, nind=1, trios=(), max_reads=4, max_cols=5, prior_mode="zero"), False))
    for _ in range(ctx.n(4, 24)):
        out.append(("single-wide", G.make_instance(rng, nind=1, trios=(), min_reads=7, max_reads=8, min_cols=2, max_cols=3,
                                                   quals=nice["quals"], prior_mode="nice"), False))
    out.append(("empty", {"ncols": 0, "nind": 1, "trios": [], "reads": [], "priors": [[]], "recomb": []}, False))
    out.append(("empty", {"ncols": 0, "nind": 3, "trios": [[0, 1, 2]], "reads": [], "priors": [[], [], []], "recomb": []}, False))
    # pedigree roles in every order; positions=None where every column is covered
    res = []
    for label, inst, plain in out:
        if inst["trios"] and rng.random() < 0.7:
            inst = G.permute_individuals(rng, inst)
        covered = {v[0] for r in inst["reads"] for v in r["vars"]}
        if inst["reads"] and len(covered) == inst["ncols"] and rng.random() < 0.3:
            inst = dict(inst, positions_none=True)
        res.append((label, inst, plain))
    out = res
    # coverage 9..13 (2^k bipartitions: beyond batch sizes of the Gray-code enumeration such as 1024), always with a
    # gapped read followed by covering reads in a high-coverage column
    for k, cnt in ((9, ctx.n(2, 6)), (10, ctx.n(2, 6)), (11, ctx.n(2, 6)), (12, ctx.n(1, 4)), (13, ctx.n(1, 3))):
        for _ in range(cnt):
            out.append(("single-wide-gap", G.make_wide_instance(rng, k), False))
    # 25-30 columns: check-pointing stride 5
    for _ in range(ctx.n(3, 30)):
        out.append(("single-stride5", G.make_profile_instance(rng, nind=1, trios=(), min_cols=25, max_cols=30, max_reads=10,
                                                              levels=(0, 1, 1, 2, 3)), False))
    # long matrices (9-20 columns) with non-uniform coverage profiles: check-pointing with re-computation
    for _ in range(ctx.n(24, 400)):
        out.append(("single-profile", G.make_profile_instance(rng, nind=1, trios=()), False))
    for _ in range(ctx.n(3, 40)):
        out.append(("trio-profile", G.permute_individuals(rng, G.make_profile_instance(
            rng, nind=3, trios=trio, min_cols=9, max_cols=11, max_reads=6, levels=(0, 1, 1, 2, 3), quals=nice["quals"],
            prior_mode="nice")), False))
    return out


def check_core(ctx, labelled, tag="core"):
    """labelled: list of (label, inst, plain?) -> runs impl, evaluates L1/L2 in Coq, records outcomes.
    Returns list of dicts(inst, res, ok: {check: bool})."""
    insts = [x[1] for x in labelled]
    results = G.run_impl(ctx, insts)
    items, meta = [], []
    records = []
    for (label, inst, plain), r in zip(labelled, results):
        ctx.tally(f"{tag}.{label}")
        ctx.tally(f"{tag}.columns", inst["ncols"])
        ctx.tally(f"{tag}.reads", len(inst["reads"]))
        rec = {"inst": inst, "label": label, "impl": r, "ok": {}}
        records.append(rec)
        if "ok" not in r:
            # the real code rejected / crashed on a structurally valid instance: a violation of "for every read set"
            ctx.violation("core:crash", f"GenotypeDPTable fails on a valid instance: {r} instance={json.dumps(inst)}",
                          {"kind": "core", "inst": inst})
            continue
        import math
        if not all(math.isfinite(float.fromhex(h)) for row in r["ok"] for tr in row for h in tr):
            ctx.violation("core:not-finite", f"GenotypeDPTable returns nan/inf likelihoods on a valid instance: {json.dumps(inst)} -> {r['ok']}",
                          {"kind": "core", "inst": inst})
            continue
        ctx.count(G.inst_key(inst), nontrivial=nontrivial(inst))
        term = case_term(inst, r["ok"])
        cost = cost_estimate(inst)
        ctx.tally(f"{tag}.checkpoint-profile", 1 if G.checkpoint_profile(inst) else 0)
        for key, v in G.shape_tallies(inst).items():
            ctx.tally(f"{tag}.shape.{key}", v)
        nr = len(inst["reads"])
        if label == "single-wide-gap":
            # the model's association-list tables are too slow for 2^9..2^13 bipartitions: L1 only, by the chain form
            # over the specification columns (no tables), at the column of highest coverage only
            k = max(len(c) for c in G.active_columns(inst))
            checks = [("L1raw", 400 * 2 ** k), ("L1sum", 1)]
        elif label != "threegen-sib" and nr <= (5 if label.endswith("-profile") else 6) and not (label == "trio-profile" and nr > 3):
            checks = [("L2", cost), ("L1chain", cost * (1 + 2 ** max(0, nr - 6) // 8)), ("L1sum", 1)]
        else:
            # one evaluation of fb_run serves as L2 and, through the theorem, as L1
            checks = [("L1thm", cost), ("L1sum", 1)]
        if plain:
            checks.append(("L1plain", cost * 4))
        for fn, cst in checks:
            items.append((fn, term, cst))
            meta.append((rec, fn))
    res, errors = eval_items("C08core", items, nshards=ctx.n(48, 240))
    if errors:
        raise RuntimeError("coq evaluation failed: " + errors[0])
    for (rec, fn), ok in zip(meta, res):
        rec["ok"][fn] = ok
        if fn == "L1thm":
            rec["ok"]["L2"] = ok
    return records


def report_core(ctx, records, search=True):
    l2bad = []
    for rec in records:
        ok = rec["ok"]
        inst = rec["inst"]
        for fn in ("L1plain", "L1chain", "L1thm", "L1raw"):
            if ok.get(fn) is False:
                ctx.violation("core:posterior",
                              f"genotype likelihoods differ from the HMM posterior ({fn}) by more than 1e-9 relative on "
                              f"instance {json.dumps(inst)}: impl={rec['impl'].get('ok')}",
                              {"kind": "core", "inst": inst})
                break
        if ok.get("L1sum") is False:
            ctx.violation("core:not-normalised", f"likelihood triple does not sum to one: {json.dumps(inst)}",
                          {"kind": "core", "inst": inst})
        if ok.get("L2") is False:
            l2bad.append(rec)
    if l2bad:
        ctx.disagreements_checked += len(l2bad)
        ctx.l2_disagreement("GenotypeHMM.fb_run = GenotypeDPTable.get_genotype_likelihoods (L2, 1e-9)",
                            [{"inst": r["inst"], "impl": r["impl"].get("ok")} for r in l2bad])
        if search and not any(v["signature"].startswith("core:") for v in ctx.violations):
            search_core(ctx, l2bad)
    return l2bad


def oracle_bad(inst, res):
    """python oracle: does the implementation's table differ from the exact posterior?"""
    o = G.Oracle(inst)
    fb = o.forward_backward()
    for ind in range(inst["nind"]):
        for c in range(inst["ncols"]):
            for g in range(3):
                if not G.rel_close(G.hex_to_fraction(res[ind][c][g]), fb[ind][c][g]):
                    return True
    return False


def search_core(ctx, l2bad):
    """L2 broke but no L1 violation yet: shrink the disagreeing instances and run a wider seeded search with the
    python oracle; every candidate is confirmed in Coq (L1chain) before it is reported."""
    cands = []
    for rec in l2bad[:3]:
        if "ok" in rec["impl"] and oracle_bad(rec["inst"], rec["impl"]["ok"]):
            cands.append(rec["inst"])
    rng = ctx.rng
    tries = 0
    while len(cands) < 3 and tries < ctx.n(300, 3000):
        tries += 1
        nind, trios = rng.choice([(1, ()), (1, ()), (3, [(0, 1, 2)])])
        inst = G.make_instance(rng, nind=nind, trios=trios, max_reads=4, max_cols=4)
        r = G.run_impl(ctx, [inst])[0]
        if "ok" in r and oracle_bad(inst, r["ok"]):
            cands.append(inst)
    small = []
    for inst in cands:
        def bad(reads):
            if not reads:
                return False
            cand = dict(inst, reads=reads)
            r = G.run_impl(ctx, [cand])[0]
            return "ok" in r and oracle_bad(cand, r["ok"])
        from ..util import shrink_list
        reads = shrink_list(inst["reads"], bad)
        small.append(("search", dict(inst, reads=reads), False))
    if small:
        recs = check_core(ctx, small, tag="search")
        report_core(ctx, recs, search=False)


# ------------------------------------------------------------------ CLI level
CLI_DRIVER = r'''
import sys, json, io
import whatshap.cli.genotype as g
from whatshap.core import GenotypeDPTable as RealTable, Genotype
rec = []
class Recorder:
    def __init__(self, numeric_sample_ids, readset, recombcost, pedigree, positions=None):
        self.t = RealTable(numeric_sample_ids, readset, recombcost, pedigree, positions)
        self.ids = numeric_sample_ids
        reads = []
        for r in readset:
            reads.append({"name": r.name, "sample_id": r.sample_id, "vars": [[v.position, v.allele, v.quality] for v in r]})
        self.entry = {"reads": reads, "recomb": list(recombcost), "positions": list(positions),
                      "nind": len(pedigree), "lik": {}, "priors": {}, "pedigree": str(pedigree), "chrom": cur.get("chrom")}
        self.pedigree = pedigree
        rec.append(self.entry)
    def get_genotype_likelihoods(self, sample, pos):
        gl = self.t.get_genotype_likelihoods(sample, pos)
        self.entry["lik"].setdefault(sample, {})[pos] = [float(x).hex() for x in gl]
        pr = self.pedigree.genotype_likelihoods(sample, pos)
        self.entry["priors"].setdefault(sample, {})[pos] = [float(x) for x in pr]
        self.entry.setdefault("sample_ids", {})[sample] = self.ids[sample]
        return gl
g.GenotypeDPTable = Recorder
# the chromosome being processed (argument of PhasedInputReader.read) and the writer's input: the likelihood
# table of every sample (None = not genotyped) as handed to GenotypeVcfWriter.write_genotypes
cur = {}
_read = g.PhasedInputReader.read
def read(self, chromosome, *a, **k):
    cur["chrom"] = chromosome
    return _read(self, chromosome, *a, **k)
g.PhasedInputReader.read = read
tables = []
_wg = g.GenotypeVcfWriter.write_genotypes
def write_genotypes(self, chromosome, variant_table, *a, **k):
    tab = {}
    for smp in variant_table.samples:
        tab[smp] = [None if l is None else [float(x).hex() for x in l] for l in variant_table.genotype_likelihoods_of(smp)]
    tables.append({"chrom": chromosome, "positions": [v.position for v in variant_table.variants], "lik": tab})
    return _wg(self, chromosome, variant_table, *a, **k)
g.GenotypeVcfWriter.write_genotypes = write_genotypes
args = json.load(sys.stdin)
try:
    g.run_genotype(output="out.vcf", **args)
    res = {"vcf": open("out.vcf").read(), "rec": rec, "tables": tables}
    if args.get("prioroutput"):
        res["prior_vcf"] = open(args["prioroutput"]).read()
    print(json.dumps(res))
except SystemExit as e:
    print(json.dumps({"exit": str(e)}))
'''


def parse_vcf_calls(text):
    """-> {(chrom, pos0, sample): (GT string, GQ string, GL strings)}"""
    samples = []
    calls = {}
    for line in text.splitlines():
        if line.startswith("##"):
            continue
        f = line.split("\t")
        if line.startswith("#CHROM"):
            samples = f[9:]
            continue
        fmt = f[8].split(":")
        for s, col in zip(samples, f[9:]):
            d = dict(zip(fmt, col.split(":")))
            calls[(f[0], int(f[1]) - 1, s)] = (d.get("GT"), d.get("GQ"), d.get("GL"))
    return calls


def gt_index(gt):
    if gt in (".", "./.", ".|."):
        return None
    a = re.split(r"[/|]", gt)
    return sum(int(x) for x in a)


SUBSETS3 = [[0], [1], [2], [0, 1], [0, 2], [1, 2], [0, 1, 2]]
NAME_POOL = ["zeta", "alpha", "s_1", "S-2", "NA12878", "x", "A", "a1", "a10", "a2", "child", "mother", "father", "kid.1",
             "Zed", "m", "sampleB", "sample", "B0"]


def cli_plan(ctx, n):
    """kinds of CLI runs, cycling so that the quick tier already contains: single sample, trio (all genotyped),
    three unrelated samples with --sample selecting every position subset, four samples, a trio with extra
    unrelated VCF columns before / after / inside the family with --use-ped-samples, the same without
    --use-ped-samples (the extra sample is genotyped as a family of its own), a quartet (two children), and
    --chromosome subsets."""
    base = [("single", {}), ("trio", {})]
    multi = [("multi3", {"subset": sub, "twochrom": i % 3 == 1}) for i, sub in enumerate(SUBSETS3)]
    multi.append(("multi4", {"twochrom": True}))
    ped = [("pedextra", {"extra_first": True, "twochrom": False}), ("pedextra", {"extra_first": False, "twochrom": True}),
           ("pedplus", {"extra_first": True, "twochrom": False}), ("quartet", {"twochrom": False}),
           ("pedextra", {"extra_first": True, "twochrom": True}), ("pedextra", {"extra_first": False, "twochrom": False}),
           ("pedplus", {"extra_first": False, "twochrom": True}), ("threegen", {"twochrom": False})]
    cycle = []
    for i in range(8):
        cycle += [base[i % 2], multi[i], ped[i]]
    return [cycle[i % len(cycle)] for i in range(n)]


def cli_spec(rng, kind, opt):
    """everything needed to (re-)execute one CLI case: scenario, reads, file layout, options"""
    from .. import synth
    roles = {}
    if kind == "single":
        nsmp = 1
    elif kind in ("trio",):
        nsmp = 3
    elif kind == "multi3":
        nsmp = 3
    elif kind == "multi4":
        nsmp = 4
    elif kind == "quartet":
        nsmp = 4
    elif kind == "threegen":
        nsmp = 5
    else:
        nsmp = 4 + (1 if rng.random() < 0.3 else 0)
    # sample names are drawn at random: roles must not follow from names or their sort order
    names = rng.sample(NAME_POOL, nsmp)
    selected = None
    ped_trios = []
    if kind in ("trio", "pedextra", "pedplus"):
        fam = names[:3] if kind == "trio" else None
        if kind != "trio":
            # the family occupies columns after / before the extra sample(s); its members in random order
            extra = names[3:]
            fam = names[:3]
            order = fam[:]
            rng.shuffle(order)
            names = (extra[:1] + order + extra[1:]) if opt["extra_first"] else (order + extra)
            if len(extra) > 1 and rng.random() < 0.5:
                names.remove(extra[1])
                names.insert(rng.randint(1, 3), extra[1])
        f, m, c = rng.sample(fam, 3)
        roles = {"father": f, "mother": m, "children": [c]}
        ped_trios = [(c, f, m)]
    elif kind == "threegen":
        # grandparents -> parent; parent + married-in parent -> grandchild; the PED file lists the grandchild FIRST
        gf, gm, par, oth, kid = rng.sample(names, 5)
        f, m = (par, oth) if rng.random() < 0.5 else (oth, par)
        roles = {"father": f, "mother": m, "children": [kid], "grand": [gf, gm, par]}
        ped_trios = [(kid, f, m), (par, gf, gm)]
    elif kind == "quartet":
        f, m, c1, c2 = rng.sample(names, 4)
        roles = {"father": f, "mother": m, "children": [c1, c2]}
        ped_trios = [(c1, f, m), (c2, f, m)]
    elif kind == "multi3":
        selected = [names[i] for i in opt["subset"]]
        if rng.random() < 0.5:
            rng.shuffle(selected)          # the order of --sample options is free
    elif kind == "multi4":
        selected = rng.sample(names, rng.randint(1, 3))
    nchrom = 2 if opt.get("twochrom") else 1
    small = kind in ("quartet", "threegen")
    nvars = (rng.randint(3, 4) if kind == "threegen" else rng.randint(2, 3)) if small else (rng.randint(3, 6) if nchrom == 1 else rng.randint(2, 4))
    kinds = ("snv",) if (kind == "threegen" or rng.random() < 0.5) else ("snv", "ins", "del", "mnp")
    sc = synth.make_scenario(rng, nchrom=nchrom, nsamples=len(names), nvars=nvars, kinds=kinds, sample_names=names)
    for chrom in sc.chroms:
        if "grand" in roles:
            gf_, gm_, par_ = roles["grand"]
            sc.haps[par_][chrom] = synth.inherit(rng, sc.haps[gf_][chrom], sc.haps[gm_][chrom])[0]
        for ch in roles.get("children", []):
            sc.haps[ch][chrom] = synth.inherit(rng, sc.haps[roles["father"]][chrom], sc.haps[roles["mother"]][chrom])[0]
    famset = set([roles.get("father"), roles.get("mother")] + roles.get("children", []) + roles.get("grand", [])) - {None}
    # three generations: 16 transmission values x 64 assignments; reads only for the grandchild and one grandparent
    reads_only = {roles["children"][0], rng.choice(roles["grand"][:2])} if kind == "threegen" else None
    # dimensions of the read data: a chromosome / a sample without any read, paired reads, several read groups
    noreads_chrom = sc.chroms[-1] if (nchrom == 2 and rng.random() < 0.25) else None
    noreads_sample = rng.choice(names) if (len(names) > 1 and rng.random() < 0.2) else None
    reads = []
    for chrom in sc.chroms:
        for s in names:
            if chrom == noreads_chrom or s == noreads_sample or (reads_only is not None and s not in reads_only):
                continue
            nr = (1 if small else rng.randint(1, 2)) if s in famset else rng.randint(3, 5)
            reads += synth.simulate_reads(rng, sc, s, chrom, nr, len_range=(330, 450) if kind == "threegen" else (120, 320),
                                          name_prefix=f"{s}_{chrom}_",
                                          qual=rng.choice([10, 20, 30, 40]),
                                          paired_fraction=0.0 if kind == "threegen" else rng.choice([0.0, 0.0, 0.5]))
    args = dict(reference=None, max_coverage=(10 if kind == "threegen" else 8 if small else 6) if famset else rng.choice([3, 4, 6, 15]),
                nopriors=rng.random() < 0.5,
                gt_qual_threshold=rng.choice([0, 0, 3, 10, 20, 60, 0.5, 7.5, 100] if kind in ("single", "trio")
                                             else [0, 0, 0, 3, 3, 10, 0.5]),
                write_command_line_header=False)
    if not args["nopriors"]:
        args["constant"] = rng.choice([0.0, 0.0, 0.1, 3.0])
        if rng.random() < 0.3:
            args["prioroutput"] = "prior.vcf"
    if selected is not None:
        args["samples"] = selected
    if ped_trios:
        args["ped"] = "t.ped"
        args["recombrate"] = rng.choice([1.26, 50.0, 0.01])
        if kind == "pedextra":
            args["use_ped_samples"] = True
    if kind == "single" and rng.random() < 0.3:
        args["ignore_read_groups"] = True
    if rng.random() < 0.2:
        args["only_snvs"] = True
    processed = None
    if nchrom == 2 and rng.random() < 0.6:
        processed = [rng.choice(sc.chroms)]
        args["chromosomes"] = processed
    if kind == "pedextra":
        genotyped = sorted(famset)
    else:
        genotyped = selected if selected is not None else list(names)
    return dict(kind=kind, names=names, roles=roles, ped_trios=ped_trios, scenario=sc.to_json(), reads=reads,
                bam_per_sample=(len(names) > 1 and not args.get("ignore_read_groups") and rng.random() < 0.3),
                rg_per_sample=1 if args.get("ignore_read_groups") else rng.choice([1, 1, 2]),
                args=args, genotyped=genotyped, processed=processed or list(sc.chroms),
                noreads_chrom=noreads_chrom, noreads_sample=noreads_sample, variant_kinds=list(kinds))


def exec_cli(ctx, spec, d):
    """write the files of a CLI case into directory d and run `whatshap genotype` (recording driver) there"""
    from .. import synth
    from ..util import run_py
    sc = synth.Scenario.from_json(spec["scenario"])
    synth.write_fasta(sc, os.path.join(d, "ref.fa"))
    synth.write_vcf(sc, os.path.join(d, "in.vcf"))
    bams = []
    if spec["bam_per_sample"]:
        for i, s in enumerate(spec["names"]):
            rs = [r for r in spec["reads"] if r["sample"] == s]
            if not rs:
                continue
            p = os.path.join(d, f"reads{i}.bam")
            sub = synth.Scenario(sc.ref, sc.variants, [s], sc.haps)
            synth.write_bam(sub, rs, p, rg_per_sample=spec["rg_per_sample"])
            bams.append(os.path.basename(p))
    if not bams:
        synth.write_bam(sc, spec["reads"], os.path.join(d, "reads.bam"), rg_per_sample=spec["rg_per_sample"])
        bams = ["reads.bam"]
    if spec["ped_trios"]:
        synth.write_ped(os.path.join(d, "t.ped"), [tuple(t) for t in spec["ped_trios"]])
    args = dict(spec["args"], phase_input_files=bams, variant_file="in.vcf")
    rc, so, se = run_py(ctx, CLI_DRIVER, stdin=json.dumps(args), cwd=d)
    return dict(kind=spec["kind"], spec=spec, args=args, rc=rc, stdout=so, stderr=se[-2000:], vcf_samples=spec["names"],
                genotyped=spec["genotyped"], processed=spec["processed"])


def cli_cases(ctx, n):
    from concurrent.futures import ThreadPoolExecutor
    from ..util import workdir
    wd = workdir(ctx)
    jobs = []
    for k, (kind, opt) in enumerate(cli_plan(ctx, n)):
        spec = cli_spec(ctx.rng, kind, opt)          # all random choices are made here, sequentially
        d = os.path.join(wd, f"cli{k}")
        os.makedirs(d)
        jobs.append((spec, d))
    with ThreadPoolExecutor(max_workers=8) as ex:
        return list(ex.map(lambda j: exec_cli(ctx, j[0], j[1]), jobs))


def check_cli(ctx, n):
    check_cli_runs(ctx, cli_cases(ctx, n))


def cli_tallies(ctx, spec):
    a = spec["args"]
    ctx.tally("cli.kind." + spec["kind"])
    ctx.tally("cli.opt.nopriors=%s" % a["nopriors"])
    ctx.tally("cli.opt.threshold=%s" % a["gt_qual_threshold"])
    ctx.tally("cli.opt.max_coverage=%s" % a["max_coverage"])
    for k in ("constant", "prioroutput", "samples", "use_ped_samples", "ignore_read_groups", "only_snvs", "chromosomes", "recombrate"):
        if a.get(k):
            ctx.tally("cli.opt." + k + ("=%s" % a[k] if k in ("constant", "recombrate") else ""))
    if a.get("samples"):
        idx = sorted(spec["names"].index(s) for s in a["samples"])
        ctx.tally("cli.sample-subset=%s/%d" % (",".join(map(str, idx)), len(spec["names"])))
        if a["samples"] != [spec["names"][i] for i in idx]:
            ctx.tally("cli.sample-options-not-in-vcf-order")
    if spec["roles"]:
        r = spec["roles"]
        pos = {s: i for i, s in enumerate(spec["names"])}
        if "grand" in r:
            ctx.tally("cli.ped-lists-grandchild-first")
        ctx.tally("cli.family-column-order=" + "".join(
            x for _, x in sorted([(pos[r["father"]], "F"), (pos[r["mother"]], "M")] + [(pos[c], "C") for c in r["children"]]
                                 + [(pos[s], "x") for s in spec["names"] if s not in spec["genotyped"] or
                                    (s not in [r["father"], r["mother"]] + r["children"])])))
        if sorted(spec["names"]) != spec["names"]:
            ctx.tally("cli.names-not-sorted")
    ctx.tally("cli.bam-files=%s" % ("per-sample" if spec["bam_per_sample"] else "one"))
    ctx.tally("cli.read-groups-per-sample=%d" % spec["rg_per_sample"])
    ctx.tally("cli.chromosomes=%d" % len(spec["scenario"]["ref"]))
    if spec["noreads_chrom"]:
        ctx.tally("cli.chromosome-without-reads")
    if spec["noreads_sample"]:
        ctx.tally("cli.sample-without-reads" + ("(genotyped)" if spec["noreads_sample"] in spec["genotyped"] else "(unselected)"))
    ctx.tally("cli.variant-kinds=" + "+".join(spec["variant_kinds"]))
    if any("mate_start" in r for r in spec["reads"]):
        ctx.tally("cli.paired-reads")


def check_cli_runs(ctx, runs):
    items, meta = [], []
    for run in runs:
        ctx.tally("cli.runs")
        cli_tallies(ctx, run["spec"])
        if run["rc"] != 0:
            ctx.violation("cli:crash", f"whatshap genotype failed on synthetic data: {run['stderr'][-600:]}",
                          {"kind": "cli", "spec": run["spec"]})
            continue
        try:
            data = json.loads(run["stdout"].splitlines()[-1])
        except Exception:
            ctx.violation("cli:crash", f"no result from whatshap genotype: {run['stdout'][-300:]} {run['stderr'][-300:]}",
                          {"kind": "cli", "spec": run["spec"]})
            continue
        if "vcf" not in data:
            ctx.violation("cli:crash", f"whatshap genotype exits: {data}", {"kind": "cli", "spec": run["spec"]})
            continue
        calls = parse_vcf_calls(data["vcf"])
        thr = Fraction(1.0 - 10 ** (-run["args"]["gt_qual_threshold"] / 10.0))
        for entry in data["rec"]:
            if not entry.get("lik"):
                continue
            inst, order = recorded_instance(entry, run)
            if inst is None:
                ctx.tally("cli.skipped-too-large")
                continue
            chrom = entry.get("chrom") or list(run["spec"]["scenario"]["ref"])[0]
            cl = []
            for ind, s in enumerate(order):
                for c, p in enumerate(entry["positions"]):
                    gt, gq, gl = calls[(chrom, p, s)]
                    pvals = gl_values(gl) or []
                    cl.append((c, ind, gt_index(gt), None if gq in (None, ".") else int(gq), pvals))
            ctx.tally("cli.calls", len(cl))
            ctx.tally("cli.calls.nocall", sum(1 for x in cl if x[2] is None))
            term = cli_term(inst, thr, cl)
            cost = cost_estimate(inst)
            ctx.count(("cli", G.inst_key(inst), str(thr)), nontrivial=nontrivial(inst))
            ctx.sample({"cli_args": run["args"], "ncols": inst["ncols"], "reads": len(inst["reads"]),
                        "first_calls": [(c, i, g, q) for c, i, g, q, _ in cl[:4]]}, limit=8)
            for fn, cst in (("CLI_L1", 5), ("CLI_L2", cost)):
                items.append((fn, term, cst))
                meta.append((run, inst, cl, fn))
        # writer level: EVERY call of EVERY sample of every record on a processed chromosome
        wcalls = []
        tabs, ptabs = {}, {}
        for t in data.get("tables", []):
            if run["args"].get("prioroutput") and t["chrom"] not in ptabs:
                ptabs[t["chrom"]] = t          # the prior writer is called first for every chromosome
            else:
                tabs[t["chrom"]] = t
        outputs = [(calls, tabs, "")]
        if run["args"].get("prioroutput"):
            outputs.append((parse_vcf_calls(data.get("prior_vcf", "")), ptabs, "prior:"))
        for calls_x, tabs_x, pfx in outputs:
          for chrom in run["processed"]:
            calls, tabs = calls_x, tabs_x
            t = tabs.get(chrom)
            if t is None:
                ctx.violation("cli:chromosome-not-written", f"requested chromosome {chrom} was not written: args={run['args']}",
                              {"kind": "cli", "spec": run["spec"]})
                continue
            tindex = {p: vi for vi, p in enumerate(t["positions"])}
            # every record of the chromosome in the output, also those that are not in the variant table
            for p in sorted({pp for (cc, pp, _) in calls if cc == chrom}):
                vi = tindex.get(p)
                if vi is None:
                    ctx.tally("cli.records-not-in-variant-table")
                for s in run["vcf_samples"]:
                    gt, gq, gl = calls[(chrom, p, s)]
                    tl = t["lik"].get(s) if vi is not None else None
                    l = None if tl is None or tl[vi] is None else [G.hex_to_fraction(h) for h in tl[vi]]
                    wcalls.append((s in run["genotyped"] and vi is not None, gt_index(gt),
                                   None if gq in (None, ".") else int(gq), gl_values(gl), l, (pfx + chrom, p, s, gt, gq, gl)))
        calls = outputs[0][0]
        ctx.tally("cli.wcalls", len(wcalls))
        ctx.tally("cli.wcalls.unselected", sum(1 for w in wcalls if not w[0]))
        ctx.tally("cli.wcalls.called", sum(1 for w in wcalls if w[1] is not None))
        ctx.tally("cli.wcalls.prior-output", sum(1 for w in wcalls if w[5][0].startswith("prior:")))
        if wcalls:
            wterm = wcli_term(thr, wcalls)
            ctx.count(("cliw", json.dumps(run["args"], sort_keys=True), tuple(w[5] for w in wcalls)),
                      nontrivial=any(not w[0] for w in wcalls) or len(run["vcf_samples"]) > 1)
            for fn in ("CLIW_L1", "CLIW_L2"):
                items.append((fn, wterm, 5 + len(wcalls)))
                meta.append((run, None, wcalls, fn))
    res, errors = eval_items("C08cli", items, nshards=16)
    if errors:
        raise RuntimeError("coq evaluation failed: " + errors[0])
    l2bad = []
    for (run, inst, cl, fn), ok in zip(meta, res):
        if ok:
            continue
        if fn == "CLIW_L1":
            bad = find_bad_wcalls(run, cl)
            sig = "cli:unselected-sample-called" if any(not w[0] for w in bad) else "cli:gt-gl-gq"
            ctx.violation(sig, f"output VCF violates the GT/GL/GQ rules (every sample of every record): args={run['args']} "
                               f"samples={run['vcf_samples']} genotyped={run['genotyped']} offending calls={[w[5] for w in bad][:6]}",
                          {"kind": "cli", "spec": run["spec"]})
        elif fn == "CLIW_L2":
            l2bad.append({"args": run["args"], "writer_calls": [w[5] for w in find_bad_wcalls(run, cl, l2=True)][:10]})
        elif fn == "CLI_L1":
            ctx.violation("cli:gt-gl-gq", f"output VCF violates the GT/GL/GQ rules: args={run['args']} calls={[(c, i, g, q, [float(x) for x in p]) for c, i, g, q, p in cl]}",
                          {"kind": "cli", "spec": run["spec"]})
        else:
            l2bad.append({"args": run["args"], "inst": inst, "calls": [(c, i, g, q, [float(x) for x in p]) for c, i, g, q, p in cl]})
    if l2bad:
        ctx.disagreements_checked += len(l2bad)
        ctx.l2_disagreement("writer model on fb_run of the recorded CLI instance = output VCF (GT/GL/GQ)", l2bad)


WRITER_DRIVER = r'''
import sys, json
import whatshap.cli.genotype as g
from whatshap.vcf import VcfReader, GenotypeVcfWriter
from whatshap.core import PhredGenotypeLikelihoods
spec = json.load(sys.stdin)
gt_prob = 1.0 - (10 ** (-spec["thr_q"] / 10.0))
with GenotypeVcfWriter(command_line=None, in_path="in.vcf", out_file="out.vcf") as w:
    with VcfReader("in.vcf", only_snvs=False, genotype_likelihoods=False, ignore_genotypes=True) as r:
        for table in r:
            for s, per_chrom in spec["lik"].items():
                gls = table.genotype_likelihoods_of(s)
                gts = table.genotypes_of(s)
                for i, l in enumerate(per_chrom[table.chromosome]):
                    if l is None:
                        continue
                    pl = PhredGenotypeLikelihoods([float.fromhex(x) for x in l])
                    gls[i] = pl
                    gts[i] = g.determine_genotype(pl, gt_prob)
                table.set_genotypes_of(s, gts)
                table.set_genotype_likelihoods_of(s, gls)
            w.write_genotypes(table.chromosome, table, False)
print(json.dumps({"vcf": open("out.vcf").read()}))
'''


def writer_triple(rng, gt_prob):
    """likelihood triples around every boundary of the writer: exact zeros (GL floor -1000, GQ cap 10000), exact
    ties, the maximum exactly at / next to the threshold, denormal and tiny values, plus random distributions"""
    import math
    kind = rng.choice(["zero2", "zero1", "tie", "tie3", "at-thr", "above-thr", "tiny", "denormal", "random", "random"])
    if kind == "zero2":
        t = [1.0, 0.0, 0.0]
    elif kind == "zero1":
        a = rng.choice([0.5, 0.75, 0.999])
        t = [a, 1.0 - a, 0.0]
    elif kind == "tie":
        t = [0.4, 0.4, 0.2]
    elif kind == "tie3":
        t = [1 / 3.0, 1 / 3.0, 1 / 3.0]
    elif kind in ("at-thr", "above-thr"):
        m = gt_prob if kind == "at-thr" else math.nextafter(gt_prob, 2.0)
        m = min(max(m, 0.5), 1.0)
        t = [m, (1.0 - m) * 0.75, (1.0 - m) * 0.25]
    elif kind == "tiny":
        t = [1e-300, 1.0, 1e-120]
    elif kind == "denormal":
        t = [5e-324, 1.0 - 1e-9, 1e-9]
    else:
        x = [rng.random() ** 3 for _ in range(3)]
        sm = sum(x)
        t = [v / sm for v in x]
    rng.shuffle(t)
    return kind, t


def check_writer_direct(ctx, n):
    """GenotypeVcfWriter.write_genotypes + determine_genotype driven directly (as the tail of run_genotype does) on a
    multi-sample VCF with chosen likelihood tables: reaches the GL floor, the GQ cap, exact ties and the threshold
    boundary, which the DP never produces on small data.  Checked with the same per-call rules (CLIW_L1 / CLIW_L2)."""
    from .. import synth
    from ..util import workdir, run_py
    rng = ctx.rng
    wd = workdir(ctx)
    items, meta = [], []
    for k in range(n):
        names = rng.sample(NAME_POOL, rng.randint(1, 4))
        sc = synth.make_scenario(rng, nchrom=rng.randint(1, 2), nsamples=len(names), nvars=rng.randint(2, 5), kinds=("snv",),
                                 sample_names=names)
        thr_q = rng.choice([0, 0, 3, 10, 0.5, 100, 200])
        gt_prob = 1.0 - (10 ** (-thr_q / 10.0))
        chosen = [s for s in names if rng.random() < 0.7] or [names[-1]]
        lik, kinds = {}, {}
        for s in chosen:
            lik[s] = {}
            for chrom in sc.chroms:
                row = []
                for _ in sc.variants[chrom]:
                    if rng.random() < 0.15:
                        row.append(None)
                    else:
                        kind, t = writer_triple(rng, gt_prob)
                        ctx.tally("writer.triple." + kind)
                        row.append([float(x).hex() for x in t])
                lik[s][chrom] = row
        d = os.path.join(wd, f"wr{k}")
        os.makedirs(d)
        synth.write_vcf(sc, os.path.join(d, "in.vcf"))
        spec = {"thr_q": thr_q, "lik": lik}
        rc, so, se = run_py(ctx, WRITER_DRIVER, stdin=json.dumps(spec), cwd=d)
        ctx.tally("writer.runs")
        ctx.tally("writer.threshold=%s" % thr_q)
        replay = {"kind": "writer", "scenario": sc.to_json(), "spec": spec}
        try:
            data = json.loads(so.splitlines()[-1]) if rc == 0 else None
        except Exception:
            data = None
        if not data:
            ctx.violation("writer:crash", f"write_genotypes / determine_genotype fail on a valid likelihood table: {se[-500:]}", replay)
            continue
        calls = parse_vcf_calls(data["vcf"])
        wcalls = []
        for chrom in sc.chroms:
            for vi, v in enumerate(sc.variants[chrom]):
                for s in names:
                    gt, gq, gl = calls[(chrom, v.pos, s)]
                    hx = lik.get(s, {}).get(chrom, [None] * (vi + 1))[vi]
                    l = None if hx is None else [G.hex_to_fraction(h) for h in hx]
                    wcalls.append((l is not None, gt_index(gt), None if gq in (None, ".") else int(gq), gl_values(gl), l,
                                   (chrom, v.pos, s, gt, gq, gl)))
        ctx.tally("writer.calls", len(wcalls))
        ctx.tally("writer.calls.GQ=10000", sum(1 for w in wcalls if w[2] == 10000))
        ctx.tally("writer.calls.GL=-1000", sum(1 for w in wcalls if "-1000" in (w[5][5] or "")))
        ctx.tally("writer.calls.called", sum(1 for w in wcalls if w[1] is not None))
        ctx.tally("writer.calls.no-table", sum(1 for w in wcalls if w[4] is None))
        thr = Fraction(gt_prob)
        wterm = wcli_term(thr, wcalls)
        ctx.count(("writer", json.dumps(spec, sort_keys=True)), nontrivial=True)
        for fn in ("CLIW_L1", "CLIW_L2"):
            items.append((fn, wterm, 5 + len(wcalls)))
            meta.append((replay, wcalls, fn))
    res, errors = eval_items("C08wr", items, nshards=8)
    if errors:
        raise RuntimeError("coq evaluation failed: " + errors[0])
    l2bad = []
    for (replay, wcalls, fn), ok in zip(meta, res):
        if ok:
            continue
        if fn == "CLIW_L1":
            ctx.violation("writer:gt-gl-gq", f"GenotypeVcfWriter output violates the GT/GL/GQ rules: threshold={replay['spec']['thr_q']} "
                                             f"calls={[w[5] for w in wcalls][:12]}", replay)
        else:
            l2bad.append({"spec": replay["spec"], "calls": [w[5] for w in wcalls][:12]})
    if l2bad:
        ctx.disagreements_checked += len(l2bad)
        ctx.l2_disagreement("writer model (determine_genotype + write_genotypes on rationals) = written VCF, direct stream", l2bad)


def gl_values(gl):
    """GL field -> [10^GL] as exact rationals of the python floats, None if absent"""
    if gl in (None, "."):
        return None
    vals = []
    for x in gl.split(","):
        try:
            v = 10.0 ** float(x)
            vals.append(Fraction(v))
        except (ValueError, OverflowError):
            vals.append(Fraction(-1))      # nan / inf / unparsable: fails every GL rule (not a distribution)
    return vals


def wcli_term(thr, wcalls):
    cl = []
    for sel, gt, gq, p, l, _ in wcalls:
        g = "(@None nat)" if gt is None else f"(Some {gt})"
        q = "(@None Z)" if gq is None else f"(Some ({gq})%Z)"
        pp = "(@None (seq Q))" if p is None else f"(Some {G.coq_list([G.qraw(x) for x in p])})"
        ll = "(@None (seq Q))" if l is None else f"(Some {G.coq_list([G.qraw(x) for x in l])})"
        cl.append(f"({'true' if sel else 'false'}, {g}, {q}, {pp}, {ll})")
    return f"({G.qraw(thr)}, {G.coq_list(cl)})"


def find_bad_wcalls(run, wcalls, l2=False):
    """python mirror of the writer-level rules, only to name the offending calls in the message"""
    bad = []
    for w in wcalls:
        sel, gt, gq, p, l, _ = w
        uniform = p is None or all(abs(float(x) - 1 / 3) < 1e-4 for x in p)
        if (l is None if l2 else not sel) and not (uniform and gt is None and gq is None):
            bad.append(w)
        elif (gt is None) != (gq is None):
            bad.append(w)
    return bad or list(wcalls[:3])


def recorded_instance(entry, run):
    """The DP instance recorded inside the CLI run -> model instance (individual order = pedigree order)."""
    pos = entry["positions"]
    col = {p: i for i, p in enumerate(pos)}
    sid = entry["sample_ids"]
    # pedigree order = order of add_individual = order of `family` in run_genotype; recover it from str(pedigree)
    order = pedigree_order(entry, sid)
    idx = {sid[s]: i for i, s in enumerate(order)}
    reads = []
    for r in entry["reads"]:
        vs = [[col[p], a, q] for p, a, q in r["vars"]]
        reads.append({"sample": idx[r["sample_id"]], "vars": vs})
    trios = pedigree_trios(entry)
    priors = [[entry["priors"][s][str(c)] for c in range(len(pos))] for s in order]
    inst = {"ncols": len(pos), "nind": len(order), "trios": trios, "reads": reads, "priors": priors,
            "recomb": entry["recomb"]}
    if any(a not in (0, 1) for r in reads for _, a, _ in r["vars"]):
        return None, order
    if max((len(c) for c in G.active_columns(inst)), default=0) > 6:
        return None, order
    return inst, order


def pedigree_order(entry, sid):
    """Pedigree::toString lists "individuals (index,id): 0,1 1,2 2,0" and the triples by index."""
    txt = entry["pedigree"]
    m = re.search(r"individuals \(index,id\):((?: \d+,\d+)*)", txt)
    pairs = sorted((int(i), int(d)) for i, d in re.findall(r"(\d+),(\d+)", m.group(1)))
    inv = {v: k for k, v in sid.items()}
    order = [inv[d] for _, d in pairs]
    if sorted(order) != sorted(sid) or [i for i, _ in pairs] != list(range(len(pairs))):
        raise RuntimeError("cannot recover pedigree order from: " + txt[:300])
    return order


def pedigree_trios(entry):
    line = re.search(r"triples by index \(father,mother,child\):([^\n]*)", entry["pedigree"]).group(1)
    return [[int(a), int(b), int(c)] for a, b, c in re.findall(r"\((\d+),(\d+),(\d+)\)", line)]


def cli_term(inst, thr, calls):
    cl = []
    for c, ind, gt, gq, p in calls:
        g = "(@None nat)" if gt is None else f"(Some {gt})"
        q = "(@None Z)" if gq is None else f"(Some ({gq})%Z)"
        cl.append(f"({c}, {ind}, {g}, {q}, {G.coq_list([G.qraw(x) for x in p])})")
    return f"({G.inst_term(inst)}, {G.qraw(thr)}, {G.coq_list(cl)})"


# ------------------------------------------------------------------ entry points
def run(ctx):
    labelled = [("corpus", inst, len(inst["reads"]) <= 3 and inst["nind"] == 1) for inst in corpus()]
    labelled += gen_core(ctx)
    records = check_core(ctx, labelled)
    for rec in records[:2] + records[-3:]:
        ctx.sample({"inst": rec["inst"], "impl": rec["impl"].get("ok"), "checks": rec["ok"]})
    report_core(ctx, records)
    ctx.extra["core_checks"] = {k: sum(1 for r in records if k in r["ok"]) for k in ("L2", "L1chain", "L1thm", "L1raw", "L1plain", "L1sum")}
    check_cli(ctx, ctx.n(24, 120))
    check_writer_direct(ctx, ctx.n(8, 60))


def replay(ctx, data):
    if data.get("kind") == "core":
        inst = data["inst"]
        recs = check_core(ctx, [("replay", inst, len(inst["reads"]) <= 3 and inst["nind"] == 1)], tag="replay")
        report_core(ctx, recs, search=False)
    elif data.get("kind") == "writer":
        check_writer_direct(ctx, 4)      # the stream is cheap; the stored spec documents the failing table
    elif data.get("kind") == "cli" and "spec" in data:
        from ..util import workdir
        d = os.path.join(workdir(ctx), "replay")
        os.makedirs(d)
        check_cli_runs(ctx, [exec_cli(ctx, data["spec"], d)])
    else:
        run(ctx)
