"""C19 — genotype indexing is a bijection; edit distance is true Levenshtein distance."""
import itertools

from ..coqeval import term, Raw, Nat, eval_checks

RULE = ("genotypes: every multiset of ploidy 0..6 over alleles 0..5 (sorted, reversed and shuffled argument order; list / "
        "tuple / generator / numpy-array arguments), every index 0..C(n+p-1,p)-1 for those (ploidy, alleles) restored through "
        "__setstate__ on a fresh object, the indices around every boundary C(p+a-1,p) up to the limits, histories that reuse one "
        "object for many __setstate__ calls (tuple and list states, object initially empty or not), all ordered pairs of "
        "genotypes of small sizes (incl. different ploidies, the same object, adjacent indices) for ==, !=, <, plus sorted() / "
        "min / max / set / dict over shuffled collections with duplicates, seeded samples up to the limits (ploidy 14, 16 "
        "alleles) in both directions, binomial_coefficient(n,k) for all -2<=n<=29, -2<=k<=n+2, the pickle/copy protocols (also "
        "inside containers and after a history), and a malformed stream (ploidy >= 15, allele >= 16) compared on the error "
        "class; edit distance: all ordered pairs of strings of length <= 4 (quick) / 5 (thorough) over a 3-letter alphabet with "
        "every band -1..6 and the default argument (a fifth of the pairs also with -2 and -5), seeded random longer strings "
        "(related by few edits, unrelated, common prefix/suffix around a difference; band positional or by keyword) with bands "
        "around the true distance and around the length difference, every call of both streams made for all four "
        "argument-type combinations str/str, bytes/bytes, str/bytes, bytes/str; bytes over {0x00,0x41,0x80,0xff}; a few long "
        "strings; bands up to INT_MAX; a small non-ASCII str stream. Implementation calls run in a forked child: an exception "
        "on a well-formed input or a dying child is reported as a violation with the input as replay. Non-trivial: genotype "
        "with ploidy >= 2 and >= 2 distinct alleles / index > 0 / pair of distinct genotypes / 0 < k < n; string pair with both "
        "strings non-empty and different. distinct = distinct input.")
TRUSTED = [
    "modelled, not verified: C++ uint32_t/uint64_t/int arithmetic as Z with explicit reductions (signed overflow = two's "
    "complement wrap, proved unreachable within the limits), std::sort as insertion sort, std::vector as list, the 4-bit "
    "fields of the 64-bit word as base-16 digits ((gt / 16^pos) mod 16 for shift-and-mask)",
    "modelled, not verified: Cython conversions (python int -> uint32_t/uint64_t/int, str -> UTF-8 bytes), the int[] "
    "memoryview of align.pyx as a list of nat (costs stay within [0, len s + len t + 1]; int overflow for strings "
    ">= 2^31 characters is not modelled), char* pointer arithmetic as list suffixes/reversal",
    "the private Genotype(index, ploidy) constructor is not reachable from Python and is not modelled; "
    "Genotype::toString is compared only through the parsed allele list",
    "the pickle/copy protocols (__reduce__ -> Genotype([]) + __setstate__) are Python machinery and are exercised "
    "directly (all pickle protocols, copy.copy, copy.deepcopy: restored object == original, same vector, index, ploidy); "
    "the Coq model covers __getstate__/__setstate__ themselves",
]
ASSUMPTIONS = [
    "supported limits as enforced by the constructor: ploidy <= 14 (Genotype(vector) rejects size >= MAX_PLOIDY = 15), "
    "alleles 0..15 (MAX_ALLELES = 16); indices handed to __setstate__ are < C(16+p-1, p)",
    "index/alleles round trip for ALL ploidies and allele counts is proved for unbounded integers; the 32-bit code is "
    "proved equal to it within the limits above",
    "edit distance theorems: strings are sequences over a type with decidable equality (bytes in the code); the model "
    "reads str arguments as their UTF-8 bytes with m = len(bytes), which matches the code for ASCII text and bytes",
    "the band of the model is an unbounded natural number; the code computes j + maxdiff + 1 in a C int, so the banded "
    "theorem speaks about the code only while that sum stays below 2^31 (the huge-band stream evaluates the specification "
    "side only and reports the overflow as editdist:band-int-overflow)",
]

HEADER = """From Coq Require Import ZArith List Bool Arith.
From WH.Model Require Import GenotypeIndex EditDist.
Import ListNotations.
Open Scope Z_scope.
"""
FUEL = 20

# ------------------------------------------------------------------ python oracles (search only)
def py_binom(n, k):
    if k < 0 or n < 0 or k > n:
        return 0
    r = 1
    for i in range(k):
        r = r * (n - i) // (i + 1)
    return r


def py_index(al):
    s = sorted(al)
    return sum(py_binom(k + a - 1, k) for k, a in enumerate(s, 1))


def py_lev(s, t):
    prev = list(range(len(t) + 1))
    for i, a in enumerate(s, 1):
        cur = [i]
        for j, b in enumerate(t, 1):
            cur.append(min(prev[j] + 1, cur[j - 1] + 1, prev[j - 1] + (a != b)))
        prev = cur
    return prev[-1]


# ------------------------------------------------------------------ drivers of the real implementation
def impl_genotype(al):
    """Genotype(al) and everything observable about it; None if the constructor raises RuntimeError."""
    import copy
    from whatshap.core import Genotype
    try:
        g = Genotype(list(al))
    except RuntimeError:
        return None
    vec = [int(x) for x in g.as_vector()]
    idx = int(g.get_index())
    pl = int(g.get_ploidy())
    st = g.__getstate__()
    h = Genotype([])
    h.__setstate__(st)
    rvec = [int(x) for x in h.as_vector()]
    req = bool(h == g) and not bool(h != g)
    s = str(g)
    sal = [] if s == "." else [int(x) for x in s.split("/")]
    dvec = [int(x) for x in copy.deepcopy(g).as_vector()]
    return dict(vec=vec, idx=idx, pl=pl, sti=int(st[0]), stp=int(st[1]), rvec=rvec, req=req,
                fn=bool(g.is_none()), fh=bool(g.is_homozygous()), fd=bool(g.is_diploid_and_biallelic()),
                sal=sal, dvec=dvec, hidx=int(hash(g)), repr_ok=(repr(g) == s))


def impl_unindex(i, p):
    from whatshap.core import Genotype
    h = Genotype([])
    h.__setstate__((i, p))
    return dict(vec=[int(x) for x in h.as_vector()], idx=int(h.get_index()), pl=int(h.get_ploidy()))


def impl_pair(al, bl):
    from whatshap.core import Genotype
    a, b = Genotype(list(al)), Genotype(list(bl))
    return dict(lt=bool(a < b), gt=bool(b < a), eq=bool(a == b), ne=bool(a != b),
                ia=int(a.get_index()), ib=int(b.get_index()))


def impl_binom(n, k):
    from whatshap.core import binomial_coefficient
    return int(binomial_coefficient(n, k))


MODES = ("str/str", "bytes/bytes", "str/bytes", "bytes/str")


def impl_edit(s, t, e, mode=0):
    """mode: index into MODES = python types of the two arguments (ASCII str and bytes denote the same byte string)."""
    from whatshap.align import edit_distance
    if mode in (1, 3):
        s = s.encode()
    if mode in (1, 2):
        t = t.encode()
    return int(edit_distance(s, t) if e is None else edit_distance(s, t, e))


# ------------------------------------------------------------------ Coq check functions
G_PAT = "let '(al, n, vec, idx, pl, sti, stp, rvec, req, fn, fh, fd, sal, dvec, hidx) := c in"
G_L1 = f"""fun c => {G_PAT}
  list_eqb vec (rev (isort al)) && (pl =? Z.of_nat (length al)) && valid_desc pl n vec &&
  (idx =? idx_desc_fast vec) && (0 <=? idx) && (idx <? choose_fast (n + pl - 1) pl) &&
  (sti =? idx) && (stp =? pl) && list_eqb rvec vec && req"""
G_L2 = f"""fun c => {G_PAT}
  match mk32 al with
  | inr g =>
      list_eqb (as_vector g) vec && (get_index32 g =? idx) && (get_ploidy g =? pl) &&
      (fst (getstate32 g) =? sti) && (snd (getstate32 g) =? stp) &&
      match setstate32 {FUEL} (sti, stp) with
      | inr g2 => list_eqb (as_vector g2) rvec && Bool.eqb (g_eq g2 g && negb (g_ne g2 g)) req
      | inl _ => false
      end &&
      Bool.eqb (is_none g) fn && Bool.eqb (is_homozygous g) fh && Bool.eqb (is_diploid_and_biallelic g) fd &&
      list_eqb (rev (as_vector g)) sal && list_eqb (as_vector g) dvec && (get_index32 g =? hidx)
  | inl _ => false
  end"""
U_PAT = "let '(i, p, n, vec, idx2, pl2) := c in"
U_L1 = f"""fun c => {U_PAT}
  (pl2 =? p) && valid_desc p n vec && (idx_desc_fast vec =? i) && (idx2 =? i)"""
U_L2 = f"""fun c => {U_PAT}
  olist_eqb (unindex32 {FUEL} i p) (Some (rev vec)) &&
  match setstate32 {FUEL} (i, p) with
  | inr g => list_eqb (as_vector g) vec && (get_index32 g =? idx2) && (get_ploidy g =? pl2)
  | inl _ => false
  end"""
P_PAT = "let '(al, bl, lt, gt, eq, ne, ia, ib) := c in"
P_L1 = f"""fun c => {P_PAT}
  let sa := idx_desc_fast (rev (isort al)) in let sb := idx_desc_fast (rev (isort bl)) in
  (ia =? sa) && (ib =? sb) && Bool.eqb ne (negb eq) && Bool.eqb eq (list_eqb (isort al) (isort bl)) &&
  (if Nat.eqb (length al) (length bl)
   then Bool.eqb eq (sa =? sb) && Bool.eqb lt (sa <? sb) && Bool.eqb gt (sb <? sa) else true)"""
P_L2 = f"""fun c => {P_PAT}
  match mk32 al, mk32 bl with
  | inr g1, inr g2 => Bool.eqb (g_eq g1 g2) eq && Bool.eqb (g_ne g1 g2) ne &&
                      Bool.eqb (g_lt32 g1 g2) lt && Bool.eqb (g_lt32 g2 g1) gt
  | _, _ => false
  end"""
B_L1 = "fun c => let '(n, k, r) := c in r =? choose_fast n k"
B_L2 = "fun c => let '(n, k, r) := c in (r =? binom32 n k) && binom_exact wrap_s32 n k"
M_L2 = "fun c => let '(al, iserr) := c in Bool.eqb iserr (match mk32 al with inl _ => true | inr _ => false end)"
E_L1 = """fun c => let '(s, t, ers) := c in let l := lev_Z s t in
  forallb (fun er => (0 <=? snd er) && (if fst er =? -1 then Z.of_nat l =? snd er
                                         else banded_contract l (fst er) (Z.to_nat (snd er)))) ers"""
EF_L1 = E_L1.replace("lev_Z s t", "lev_fast_Z s t")
E_L2 = """fun c => let '(s, t, ers) := c in
  forallb (fun er => Z.of_nat (edit_distance_Z s t (fst er)) =? snd er) ers"""


def zl(xs):
    """a list of Z; the empty list is annotated so that a file holding a single case still type-checks."""
    xs = list(xs)
    return term(xs) if xs else Raw("(@nil Z)")


def evaluate(name, fns, cases, shard=400):
    """eval_checks with the cases dealt round-robin over the shards (expensive cases come in runs)."""
    n = len(cases)
    if n == 0:
        return {lab: [] for lab in fns}
    shard = max(1, min(shard, -(-n // 16)))
    nsh = -(-n // shard)
    order = sorted(range(n), key=lambda i: (i % nsh, i))
    failing, errors = eval_checks(name, HEADER, fns, [cases[i] for i in order], shard=-(-n // nsh))
    if errors:
        raise RuntimeError("coq evaluation failed: " + errors[0][1])
    return {lab: sorted(order[k] for k in ks) for lab, ks in failing.items()}


# ------------------------------------------------------------------ genotype streams
def multisets(p, n):
    return itertools.combinations_with_replacement(range(n), p)


def check_genotypes(ctx, inputs, label):
    """inputs: list of (alleles in the order handed to the constructor, n = number of alleles of the space)."""
    cases, raw = [], []
    for al, n in inputs:
        r = impl_genotype(al)
        if r is None or not r["repr_ok"]:
            raw.append((al, n, r))
            cases.append(None)
            continue
        raw.append((al, n, r))
        cases.append(term((Raw(zl(al)), n, Raw(zl(r["vec"])), r["idx"], r["pl"], r["sti"], r["stp"], Raw(zl(r["rvec"])), r["req"],
                           r["fn"], r["fh"], r["fd"], Raw(zl(r["sal"])), Raw(zl(r["dvec"])), r["hidx"])))
        ctx.count(("G", tuple(al)), nontrivial=len(al) >= 2 and len(set(al)) >= 2)
        ctx.tally(f"genotype.{label}")
        ctx.tally(f"genotype.ploidy.{len(al)}")
    l2 = []
    idxmap = [i for i, c in enumerate(cases) if c is not None]
    for i, c in enumerate(cases):
        if c is None:
            al, n, r = raw[i]
            ctx.violation("genotype:constructor-rejects-valid",
                          f"Genotype({list(al)}) within the limits raised RuntimeError or repr != str", {"kind": "G", "al": list(al), "n": n})
    failing = evaluate("C19g", {"L1": G_L1, "L2": G_L2}, [cases[i] for i in idxmap])
    for k in failing["L1"]:
        al, n, r = raw[idxmap[k]]
        ctx.violation("genotype:index-roundtrip",
                      f"Genotype({list(al)}): as_vector/get_index/__getstate__/__setstate__ contradict the canonical index: {r}",
                      {"kind": "G", "al": list(al), "n": n})
    for k in failing["L2"]:
        al, n, r = raw[idxmap[k]]
        l2.append({"al": list(al), "n": n, "impl": r})
    return raw, failing, l2


def check_unindex(ctx, inputs, label):
    """inputs: list of (index, ploidy, n)."""
    cases, raw = [], []
    for i, p, n in inputs:
        r = impl_unindex(i, p)
        raw.append((i, p, n, r))
        cases.append(term((i, p, n, Raw(zl(r["vec"])), r["idx"], r["pl"])))
        ctx.count(("U", i, p), nontrivial=i > 0 and p >= 2)
        ctx.tally(f"unindex.{label}")
    failing = evaluate("C19u", {"L1": U_L1, "L2": U_L2}, cases)
    for k in failing["L1"]:
        i, p, n, r = raw[k]
        ctx.violation("genotype:unindex",
                      f"__setstate__(({i}, {p})) gives {r}: not the genotype of ploidy {p} over {n} alleles with index {i}",
                      {"kind": "U", "i": i, "p": p, "n": n})
    l2 = [{"i": raw[k][0], "p": raw[k][1], "impl": raw[k][3]} for k in failing["L2"]]
    return raw, failing, l2


def check_pairs(ctx, pairs, label):
    cases, raw = [], []
    for al, bl in pairs:
        r = impl_pair(al, bl)
        raw.append((al, bl, r))
        cases.append(term((Raw(zl(al)), Raw(zl(bl)), r["lt"], r["gt"], r["eq"], r["ne"], r["ia"], r["ib"])))
        ctx.count(("P", tuple(al), tuple(bl)), nontrivial=sorted(al) != sorted(bl))
        ctx.tally(f"pairs.{label}")
    failing = evaluate("C19p", {"L1": P_L1, "L2": P_L2}, cases)
    for k in failing["L1"]:
        al, bl, r = raw[k]
        ctx.violation("genotype:order-vs-index",
                      f"Genotype({list(al)}) vs Genotype({list(bl)}): ==, !=, < = {r} disagree with the canonical index / multiset equality",
                      {"kind": "P", "al": list(al), "bl": list(bl)})
    l2 = [{"al": list(raw[k][0]), "bl": list(raw[k][1]), "impl": raw[k][2]} for k in failing["L2"]]
    return raw, failing, l2


def check_binom(ctx, nks, label):
    cases, raw = [], []
    for n, k in nks:
        r = impl_binom(n, k)
        raw.append((n, k, r))
        cases.append(term((n, k, r)))
        ctx.count(("B", n, k), nontrivial=0 < k < n)
        ctx.tally(f"binom.{label}")
    failing = evaluate("C19b", {"L1": B_L1, "L2": B_L2}, cases)
    for i in failing["L1"]:
        n, k, r = raw[i]
        ctx.violation("binom:value", f"binomial_coefficient({n}, {k}) = {r} is not C(n,k)", {"kind": "B", "n": n, "k": k})
    l2 = [{"n": raw[i][0], "k": raw[i][1], "impl": raw[i][2]} for i in failing["L2"]]
    return raw, failing, l2


def check_malformed(ctx, als):
    cases, raw = [], []
    for al in als:
        r = impl_genotype(al)
        raw.append((al, r is None))
        cases.append(term((Raw(zl(al)), r is None)))
        ctx.count(("M", tuple(al)), nontrivial=False)
        ctx.tally("genotype.malformed")
    failing = evaluate("C19m", {"L2": M_L2}, cases)
    return [{"al": list(raw[i][0]), "impl_raises": raw[i][1]} for i in failing["L2"]]


def check_pickle(ctx, als):
    """the pickle / copy protocols themselves (not expressible in Coq: the failure mode is an exception);
    the restored object must be == the original, with the same vector and index."""
    import copy
    import pickle
    from whatshap.core import Genotype
    for al in als:
        g = Genotype(list(al))
        routes = [(f"pickle protocol {pr}", (lambda pr=pr: pickle.loads(pickle.dumps(g, protocol=pr))))
                  for pr in range(pickle.HIGHEST_PROTOCOL + 1)]
        routes.append(("copy.copy", lambda: copy.copy(g)))
        routes.append(("copy.deepcopy", lambda: copy.deepcopy(g)))
        for name, fn in routes:
            ctx.count(("pickle", tuple(al), name), nontrivial=len(set(al)) >= 2)
            ctx.tally("genotype.pickle")
            try:
                h = fn()
                ok = (bool(h == g) and not bool(h != g) and list(h.as_vector()) == list(g.as_vector())
                      and h.get_index() == g.get_index() and h.get_ploidy() == g.get_ploidy() and h is not g)
                what = f"{name} of Genotype({list(al)}) gives {h} (index {h.get_index()}), original index {g.get_index()}"
            except Exception as e:  # noqa: BLE001 - any failure to restore is the finding
                ok = False
                what = (f"{name} of Genotype({list(al)}) raises {type(e).__name__}: {e} "
                        "(state save/restore through the pickle protocol does not work)")
            if not ok:
                ctx.violation("genotype:pickle-cinit", what, {"kind": "pickle", "al": list(al)})
                return False
    return True


# ------------------------------------------------------------------ edit distance streams
ALPHA = "ACG"


def codes(s):
    return [ord(c) for c in s]


ALL_MODES = (0, 1, 2, 3)


def edit_case(s, t, bands, modes=ALL_MODES):
    """every (band, argument-type combination): list of (mode, maxdiff or -1 for the default argument, result)."""
    out = []
    for mode in modes:
        for e in bands:
            out.append((mode, -1 if e is None else e, impl_edit(s, t, e, mode)))
    return out


def check_edit(ctx, triples, label, fast=False, name="C19e", shard=500, modes=ALL_MODES):
    """triples: list of (s, t, bands); bands contain ints (-1 = explicit no band) or None (default argument).
    Every call is made for each argument-type combination in `modes`; the Coq case carries the set of distinct
    (maxdiff, result) observations (the model and the specification do not depend on the python type)."""
    cases, raw = [], []
    for tr in triples:
        s, t, bands = tr[0], tr[1], tr[2]
        obs = edit_case(s, t, bands, modes)
        ers = sorted({(e, r) for _, e, r in obs})
        raw.append((s, t, obs, ers))
        cases.append(term((Raw(zl(codes(s))), Raw(zl(codes(t))), [(e, r) for e, r in ers])))
        ctx.count(("E", s, t, tuple(sorted({e for e, _ in ers}))), nontrivial=bool(s) and bool(t) and s != t, k=len(obs))
        ctx.tally(f"edit.{label}.pairs")
        ctx.tally(f"edit.{label}.calls", len(obs))
        if len(ers) != len({e for e, _ in ers}):
            ctx.tally(f"edit.{label}.type_dependent_results")
    failing = evaluate(name, {"L1": EF_L1 if fast else E_L1, "L2": E_L2}, cases, shard=shard)
    for i in failing["L1"]:
        s, t, obs, ers = raw[i]
        d = py_lev(s, t)                          # only to name the offending calls in the message
        bad = [(MODES[m], e, r) for m, e, r in obs if not ((r == d) if (e == -1 or d <= e) else r > e)]
        sig = "editdist:not-levenshtein" if (not bad or any(e == -1 for _, e, _ in bad)) else "editdist:band-contract"
        ctx.violation(sig,
                      f"edit_distance({s!r}, {t!r}, maxdiff): (argument types, maxdiff, result) = {bad[:8] or ers}; "
                      f"the Levenshtein distance is {d}",
                      {"kind": "E", "s": s, "t": t, "bands": sorted({e for _, e, _ in obs})})
    l2 = [{"s": raw[i][0], "t": raw[i][1], "impl": [(MODES[m], e, r) for m, e, r in raw[i][2]][:40]} for i in failing["L2"]]
    return raw, failing, l2


def all_strings(maxlen):
    for L in range(maxlen + 1):
        for tup in itertools.product(ALPHA, repeat=L):
            yield "".join(tup)


def mutate(rng, s, alpha, k):
    s = list(s)
    for _ in range(k):
        op = rng.randrange(3)
        if op == 0 and s:
            s[rng.randrange(len(s))] = rng.choice(alpha)
        elif op == 1:
            s.insert(rng.randint(0, len(s)), rng.choice(alpha))
        elif s:
            del s[rng.randrange(len(s))]
    return "".join(s)


def gen_random_edit(rng, n, maxlen):
    out = []
    for _ in range(n):
        alpha = rng.choice(["AC", "ACG", "ACGT", "ACGTN"])
        L = rng.randint(0, maxlen)
        s = "".join(rng.choice(alpha) for _ in range(L))
        mode = rng.random()
        if mode < 0.6:
            t = mutate(rng, s, alpha, rng.randint(0, 8))
        elif mode < 0.8:
            t = "".join(rng.choice(alpha) for _ in range(rng.randint(0, maxlen)))
        else:                                   # long common prefix/suffix around a small difference
            core = mutate(rng, s[L // 3: 2 * L // 3], alpha, rng.randint(0, 3))
            t = s[:L // 3] + core + s[2 * L // 3:]
        d = py_lev(s, t)                        # oracle only used to place the bands around the interesting values
        bands = {None, -1, 0, 1, 2, 3, max(0, d - 2), max(0, d - 1), d, d + 1, d + 2, abs(len(s) - len(t)),
                 max(0, abs(len(s) - len(t)) - 1), len(s) + len(t) + 3, rng.randint(0, maxlen)}
        bl = sorted((b for b in bands if b is not None)) + [None]
        out.append((s, t, bl))
    return out


NONASCII = [("é", "è"), ("é", "a"), ("aé", "ab"), ("aé", "aè"), ("üü", "üö")]   # fixed probe set: str with a non-ASCII character


def check_nonascii(ctx):
    """str arguments with non-ASCII characters: distance over characters (code points)."""
    cases, raw = [], []
    for s, t in NONASCII:
        ers = sorted({(e, r) for _, e, r in edit_case(s, t, [None, 1], modes=(0,))})
        raw.append((s, t, ers))
        cases.append(term((Raw(zl(codes(s))), Raw(zl(codes(t))), [(e, r) for e, r in ers])))
        ctx.count(("E8", s, t), nontrivial=True, k=len(ers))
        ctx.tally("edit.nonascii.pairs")
    failing = evaluate("C19n", {"L1": E_L1}, cases)
    for i in failing["L1"]:
        s, t, ers = raw[i]
        ctx.violation("editdist:non-ascii-str",
                      f"edit_distance({s!r}, {t!r}) -> {ers} but the Levenshtein distance of these strings is {py_lev(s, t)} "
                      "(len() counts characters, the loops run over UTF-8 bytes)",
                      {"kind": "nonascii", "s": s, "t": t})
        break                                    # one report per defect class
    return failing


# ------------------------------------------------------------------ search after an L2-only failure
def search_genotype(ctx):
    rng = ctx.rng
    cand_g, cand_u = [], []
    for _ in range(20000):
        p = rng.randint(0, 14)
        n = rng.randint(1, 16)
        al = [rng.randrange(n) for _ in range(p)]
        r = impl_genotype(al)
        ctx.count(("G", tuple(al)), nontrivial=len(set(al)) >= 2)
        if r is None or r["vec"] != sorted(al, reverse=True) or r["idx"] != py_index(al) or r["rvec"] != r["vec"] or not r["req"]:
            cand_g.append((al, n))
        if p:
            i = rng.randrange(py_binom(n + p - 1, p))
            u = impl_unindex(i, p)
            if py_index(u["vec"]) != i or u["idx"] != i or len(u["vec"]) != p or (u["vec"] and max(u["vec"]) >= n):
                cand_u.append((i, p, n))
        if len(cand_g) + len(cand_u) >= 3:
            break
    if cand_g:
        check_genotypes(ctx, cand_g, "search")
    if cand_u:
        check_unindex(ctx, cand_u, "search")


def search_edit(ctx):
    rng = ctx.rng
    cand = []
    for s, t, bands in gen_random_edit(rng, 20000, 24):
        d = py_lev(s, t)
        for mode in ALL_MODES:
            for e in bands:
                r = impl_edit(s, t, e, mode)
                ee = -1 if e is None else e
                ok = (r == d) if (ee == -1 or d <= ee) else r > ee
                ctx.count(("E", s, t, ee, mode), nontrivial=bool(s) and bool(t) and s != t)
                if not ok and (s, t, [e]) not in cand:
                    cand.append((s, t, [e]))
        if len(cand) >= 3:
            break
    if cand:
        check_edit(ctx, cand, "search", fast=True)


# ------------------------------------------------------------------ driver
def run(ctx):
    rng = ctx.rng
    from whatshap.core import get_max_genotype_ploidy, get_max_genotype_alleles
    lim = (int(get_max_genotype_ploidy()), int(get_max_genotype_alleles()))
    ctx.extra["reported_limits"] = {"get_max_genotype_ploidy": lim[0], "get_max_genotype_alleles": lim[1],
                                    "note": "the constructor accepts ploidy <= 14 only (size >= MAX_PLOIDY is rejected)"}

    # ---- genotypes: exhaustive ploidy <= 6 x alleles <= 6
    PMAX, NMAX = 6, 6
    g_inputs = []
    for p in range(PMAX + 1):
        for ms in multisets(p, NMAX):
            n_eff = (max(ms) + 1) if ms else 1          # the tightest allele count: implies the bound for every larger n
            g_inputs.append((list(ms), n_eff))
            if len(set(ms)) >= 2:
                sh = list(ms)
                rng.shuffle(sh)
                g_inputs.append((sh, NMAX))
                g_inputs.append((list(reversed(ms)), n_eff))
    corpus = [([2, 0, 1], 3), ([], 1), ([15] * 14, 16), ([0] * 14, 1), ([15] + [0] * 13, 16), (list(range(14)), 14),
              (list(range(15, 1, -1)), 16), ([7] * 14, 8), ([15], 16), ([14, 15] * 7, 16)]
    n_samp = ctx.n(600, 12000)
    samp = []
    for _ in range(n_samp):
        p = rng.choice([rng.randint(0, 14), rng.randint(7, 14), 14])
        n = rng.choice([rng.randint(1, 16), 16])
        samp.append(([rng.randrange(n) for _ in range(p)], n))
    import time
    t0 = time.time()
    raw, failing, l2g = check_genotypes(ctx, corpus + g_inputs + samp, "all")
    ctx.log(f"genotypes: {len(raw)} cases, {time.time()-t0:.0f}s")
    ctx.extra["genotypes_exhaustive"] = {"ploidy<=": PMAX, "alleles<=": NMAX,
                                         "multisets": sum(1 for p in range(PMAX + 1) for _ in multisets(p, NMAX))}
    for al, n, r in raw[:2]:
        ctx.sample({"Genotype": al, "impl": r})

    u_inputs = []
    for p in range(0, PMAX + 1):
        for n in range(1, NMAX + 1):
            total = py_binom(n + p - 1, p)
            lo = py_binom(n - 1 + p - 1, p) if n > 1 and p > 0 else 0      # indices new for this n (smaller ones: smaller n)
            for i in range(lo, total):
                u_inputs.append((i, p, n))
    for _ in range(ctx.n(400, 6000)):
        p = rng.choice([rng.randint(1, 14), 14, 13])
        n = rng.choice([rng.randint(1, 16), 16])
        total = py_binom(n + p - 1, p)
        i = rng.choice([rng.randrange(total), total - 1, rng.randrange(total)])
        u_inputs.append((i, p, n))
    u_inputs += [(77558759, 14, 16), (0, 14, 16), (77558758, 14, 16), (1, 14, 2), (15, 1, 16)]
    t0 = time.time()
    rawu, failu, l2u = check_unindex(ctx, u_inputs, "all")
    ctx.log(f"unindex: {len(rawu)} cases, {time.time()-t0:.0f}s")
    ctx.sample({"__setstate__": list(rawu[-1][:2]), "impl": rawu[-1][3]})

    # ---- ordering / equality: all ordered pairs of the small genotypes, incl. different ploidies
    pp, pn = ctx.n((3, 4), (4, 4))
    small = [list(ms) for p in range(pp + 1) for ms in multisets(p, pn)]
    pairs = [(a, b) for a in small for b in small]
    big = [x[0] for x in samp[: ctx.n(150, 2000)]]
    for a in big:
        b = list(a)
        if b and rng.random() < 0.7:
            b[rng.randrange(len(b))] = rng.randrange(16)
        rng.shuffle(b)
        pairs.append((a, b))
        pairs.append((b, a))
    t0 = time.time()
    rawp, failp, l2p = check_pairs(ctx, pairs, "all")
    ctx.log(f"pairs: {len(rawp)} cases, {time.time()-t0:.0f}s")
    ctx.extra["pairs_exhaustive"] = {"ploidy<=": pp, "alleles<=": pn, "genotypes": len(small), "ordered_pairs": len(small) ** 2}

    # ---- binomial coefficient within the domain used by the limits (n <= 29), plus the guards
    nks = [(n, k) for n in range(-2, 30) for k in range(-2, n + 3)]
    rawb, failb, l2b = check_binom(ctx, nks, "n<=29")
    over = [(n, k) for n in (30, 31, 33, 34, 40) for k in (n // 2, n // 2 - 1, 3)]
    ctx.extra["binom_beyond_limits_informational"] = [
        {"n": n, "k": k, "impl": impl_binom(n, k), "exact": py_binom(n, k)} for n, k in over]

    # ---- malformed stream (error class only)
    mal = [[0] * 15, [0] * 16, [15] * 15, [16], [0, 16], [17, 3], [255], [1, 2, 3, 100], [0] * 14 + [16], [16] * 15, [4294967295]]
    l2m = check_malformed(ctx, mal)

    l2_all = l2g + l2u + l2p + l2b + l2m
    if l2_all:
        ctx.disagreements_checked += len(l2_all)
        ctx.l2_disagreement("GenotypeIndex model = whatshap.core.Genotype / binomial_coefficient (L2)", l2_all)
        if not (failing["L1"] or failu["L1"] or failp["L1"] or failb["L1"]):
            search_genotype(ctx)

    # ---- the pickle protocol
    check_pickle(ctx, [[0, 1], [2, 0, 1], [], [15] * 14, [3, 3, 0, 7, 15]])

    # ---- edit distance: exhaustive small pairs x every band
    L = ctx.n(4, 5)
    strs = list(all_strings(L))
    bands = [None, -1, 0, 1, 2, 3, 4, 5, 6]
    triples = [(s, t, bands) for s in strs for t in strs]
    t0 = time.time()
    rawe, faile, l2e = check_edit(ctx, triples, "exhaustive", shard=500)
    ctx.log(f"edit exhaustive: {len(rawe)} pairs, {time.time()-t0:.0f}s")
    ctx.extra["edit_exhaustive"] = {"alphabet": ALPHA, "maxlen": L, "strings": len(strs), "ordered_pairs": len(triples),
                                    "bands": "-1..6 (+ default argument)", "argument_types": list(MODES)}
    ctx.exhaustive = True
    ctx.sample({"edit_distance": [rawe[-2][0], rawe[-2][1]], "(maxdiff, result), same for all 4 argument-type combinations": rawe[-2][3]})
    corpus_e = [("ABCDEF", "ABXDEF", [None, 0, 1, 2]), ("", "", [None, 0]), ("", "ACGT", [None, 0, 3, 4, 5]),
                ("GATTACA", "GCATGCU", [None, 0, 1, 2, 3, 4, 5]), ("kitten", "sitting", [None, 1, 2, 3, 4]),
                ("A" * 40, "A" * 20 + "C" + "A" * 19, [None, 0, 1]), ("ACGT" * 10, "TGCA" * 10, [None, 5, 10, 20, 40])]
    rnd = gen_random_edit(rng, ctx.n(500, 3000), ctx.n(60, 80))
    t0 = time.time()
    rawr, failr, l2r = check_edit(ctx, corpus_e + rnd, "random", fast=True, name="C19r", shard=200)
    ctx.log(f"edit random: {len(rawr)} pairs, {time.time()-t0:.0f}s")
    ctx.sample({"edit_distance": [rawr[-1][0], rawr[-1][1]], "(maxdiff, result), same for all 4 argument-type combinations": rawr[-1][3]})
    l2_all = l2e + l2r
    if l2_all:
        ctx.disagreements_checked += len(l2_all)
        ctx.l2_disagreement("EditDist.edit_distance = whatshap.align.edit_distance (L2)", l2_all)
        if not (faile["L1"] or failr["L1"]):
            search_edit(ctx)

    # ---- non-ASCII str arguments
    check_nonascii(ctx)


def replay(ctx, data):
    k = data.get("kind")
    if k == "G":
        check_genotypes(ctx, [(data["al"], data["n"])], "replay")
    elif k == "U":
        check_unindex(ctx, [(data["i"], data["p"], data["n"])], "replay")
    elif k == "P":
        check_pairs(ctx, [(data["al"], data["bl"])], "replay")
    elif k == "B":
        check_binom(ctx, [(data["n"], data["k"])], "replay")
    elif k == "pickle":
        check_pickle(ctx, [data["al"]])
    elif k == "E":
        bands = [None if b is None else int(b) for b in data["bands"]]
        check_edit(ctx, [(data["s"], data["t"], bands)], "replay", fast=len(data["s"]) + len(data["t"]) > 12)
    elif k == "nonascii":
        check_nonascii(ctx)
    else:
        run(ctx)
