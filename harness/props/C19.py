"""C19 — genotype indexing is a bijection; edit distance is true Levenshtein distance."""
import itertools

from ..coqeval import term, Raw, Nat, eval_checks

RULE = ("genotypes: every multiset of ploidy 0..6 over alleles 0..5 (sorted, reversed and shuffled argument order; list / "
        "tuple / generator / numpy-array arguments), every index 0..C(n+p-1,p)-1 for those (ploidy, alleles) restored through "
        "__setstate__ on a fresh object, the indices around every boundary C(p+a-1,p) up to the limits, histories that reuse one "
        "object for many __setstate__ calls (tuple and list states, object initially empty or not), all ordered pairs of "
        "genotypes of small sizes (incl. different ploidies, the same object, adjacent indices) for ==, !=, <, plus sorted() / "
        "min / max / set / dict over shuffled collections with duplicates, seeded samples up to the limits (ploidy 14, 16 "
        "alleles) in both directions, binomial_coefficient(n,k) for all -2<=n<=29, -2<=k<=n+2, the pickle/copy protocols (also "
        "inside containers and after a history), and a malformed stream (ploidy >= 15, allele >= 16) compared on the error "
        "class; edit distance: all ordered pairs of strings of length <= 4 (quick) / 5 (thorough) over a 3-letter alphabet with "
        "every band -1..6 and the default argument (a fifth of the pairs also with -2 and -5), seeded random longer strings "
        "(related by few edits, unrelated, common prefix/suffix around a difference; band positional or by keyword) with bands "
        "around the true distance and around the length difference, every call of both streams made for all four "
        "argument-type combinations str/str, bytes/bytes, str/bytes, bytes/str; bytes over {0x00,0x41,0x80,0xff}; a few long "
        "strings; bands up to INT_MAX; a small non-ASCII str stream. Implementation calls run in a forked child: an exception "
        "on a well-formed input or a dying child is reported as a violation with the input as replay. Non-trivial: genotype "
        "with ploidy >= 2 and >= 2 distinct alleles / index > 0 / pair of distinct genotypes / 0 < k < n; string pair with both "
        "strings non-empty and different. distinct = distinct input.")
TRUSTED = [
    "modelled, not verified: C++ uint32_t/uint64_t/int arithmetic as Z with explicit reductions (signed overflow = two's "
    "complement wrap, proved unreachable within the limits), std::sort as insertion sort, std::vector as list, the 4-bit "
    "fields of the 64-bit word as base-16 digits ((gt / 16^pos) mod 16 for shift-and-mask)",
    "modelled, not verified: Cython conversions (python int -> uint32_t/uint64_t/int, str -> UTF-8 bytes), the int[] "
    "memoryview of align.pyx as a list of nat (costs stay within [0, len s + len t + 1]; int overflow for strings "
    ">= 2^31 characters is not modelled), char* pointer arithmetic as list suffixes/reversal",
    "the private Genotype(index, ploidy) constructor is not reachable from Python and is not modelled; "
    "Genotype::toString is compared only through the parsed allele list",
    "the pickle/copy protocols (__reduce__ -> Genotype([]) + __setstate__) are Python machinery and are exercised "
    "directly (all pickle protocols, copy.copy, copy.deepcopy: restored object == original, same vector, index, ploidy); "
    "the Coq model covers __getstate__/__setstate__ themselves",
]
ASSUMPTIONS = [
    "supported limits as enforced by the constructor: ploidy <= 14 (Genotype(vector) rejects size >= MAX_PLOIDY = 15), "
    "alleles 0..15 (MAX_ALLELES = 16); indices handed to __setstate__ are < C(16+p-1, p)",
    "index/alleles round trip for ALL ploidies and allele counts is proved for unbounded integers; the 32-bit code is "
    "proved equal to it within the limits above",
    "edit distance theorems: strings are sequences over a type with decidable equality (bytes in the code); the model "
    "reads str arguments as their UTF-8 bytes with m = len(bytes), which matches the code for ASCII text and bytes",
    "the band of the model is an unbounded natural number; the code computes j + maxdiff + 1 in a C int, so the banded "
    "theorem speaks about the code only while that sum stays below 2^31 (the huge-band stream evaluates the specification "
    "side only and reports the overflow as editdist:band-int-overflow)",
]

HEADER = """From Coq Require Import ZArith List Bool Arith.
From WH.Model Require Import GenotypeIndex EditDist.
Import ListNotations.
Open Scope Z_scope.
"""
FUEL = 20

# ------------------------------------------------------------------ python oracles (search only)
def py_binom(n, k):
    if k < 0 or n < 0 or k > n:
        return 0
    r = 1
    for i in range(k):
        r = r * (n - i) // (i + 1)
    return r


def py_index(al):
    s = sorted(al)
    return sum(py_binom(k + a - 1, k) for k, a in enumerate(s, 1))


def py_lev(s, t):
    prev = list(range(len(t) + 1))
    for i, a in enumerate(s, 1):
        cur = [i]
        for j, b in enumerate(t, 1):
            cur.append(min(prev[j] + 1, cur[j - 1] + 1, prev[j - 1] + (a != b)))
        prev = cur
    return prev[-1]


# ------------------------------------------------------------------ running the implementation in a forked child
def _safe(fn, x):
    try:
        return fn(x)
    except Exception as e:  # noqa: BLE001 - exceptions are outputs
        return {"exc": f"{type(e).__name__}: {e}"}


def isolated_map(ctx, fn, items, stream, replay_of, max_crashes=3):
    """[fn(x) for x in items], computed in a forked child that streams its results back. An exception becomes the
    output {"exc": ...}; if the child dies (abort, segfault, exit) the item it was working on is reported as a violation
    (signature <stream>:crash, the input as replay), gets the output {"exc": "CRASH ..."} and a new child continues."""
    import os
    import pickle
    import struct
    items = list(items)
    results = []
    crashes = 0
    while len(results) < len(items):
        start = len(results)
        r, w = os.pipe()
        pid = os.fork()
        if pid == 0:                                    # child: never returns
            code = 0
            try:
                os.close(r)
                for k in range(start, len(items)):
                    blob = pickle.dumps(_safe(fn, items[k]))
                    os.write(w, struct.pack("<I", len(blob)) + blob)
            except BaseException:  # noqa: BLE001
                code = 3
            os._exit(code)
        os.close(w)
        with os.fdopen(r, "rb") as f:
            while True:
                head = f.read(4)
                if len(head) < 4:
                    break
                (n,) = struct.unpack("<I", head)
                blob = f.read(n)
                if len(blob) < n:
                    break
                results.append(pickle.loads(blob))
        _, status = os.waitpid(pid, 0)
        if len(results) < len(items):                   # the child died on items[len(results)]
            x = items[len(results)]
            how = (f"signal {os.WTERMSIG(status)}" if os.WIFSIGNALED(status) else f"exit status {os.WEXITSTATUS(status)}")
            ctx.violation(f"{stream}:crash", f"the process died ({how}) while running the implementation on {x!r}",
                          replay_of(x))
            ctx.tally(f"{stream}.crash")
            results.append({"exc": f"CRASH {how}"})
            crashes += 1
            if crashes >= max_crashes:
                results += [{"exc": "SKIPPED after repeated crashes"}] * (len(items) - len(results))
    return results


def is_exc(r):
    return isinstance(r, dict) and "exc" in r


# ------------------------------------------------------------------ drivers of the real implementation
CONTAINERS = ("list", "tuple", "generator", "numpy")


def as_container(al, kind):
    al = [int(a) for a in al]
    if kind == "tuple":
        return tuple(al)
    if kind == "generator":
        return (a for a in al)
    if kind == "numpy":
        import numpy
        return numpy.array(al, dtype=numpy.int64)
    return al


def impl_genotype(item):
    """item = (alleles, n, container kind). Genotype(alleles) and everything observable about it;
    None if the constructor raises RuntimeError."""
    import copy
    from whatshap.core import Genotype
    al, kind = item[0], (item[2] if len(item) > 2 else "list")
    try:
        g = Genotype(as_container(al, kind))
    except RuntimeError:
        return None
    vec = [int(x) for x in g.as_vector()]
    idx = int(g.get_index())
    pl = int(g.get_ploidy())
    st = g.__getstate__()
    h = Genotype([])
    h.__setstate__(st)
    rvec = [int(x) for x in h.as_vector()]
    req = bool(h == g) and not bool(h != g) and bool(g == g) and not bool(g < g)
    s = str(g)
    sal = [] if s == "." else [int(x) for x in s.split("/")]
    dvec = [int(x) for x in copy.deepcopy(g).as_vector()]
    stable = (idx == int(g.get_index()) and vec == [int(x) for x in g.as_vector()])      # reading twice changes nothing
    return dict(vec=vec, idx=idx, pl=pl, sti=int(st[0]), stp=int(st[1]), rvec=rvec, req=req and stable,
                fn=bool(g.is_none()), fh=bool(g.is_homozygous()), fd=bool(g.is_diploid_and_biallelic()),
                sal=sal, dvec=dvec, hidx=int(hash(g)), repr_ok=(repr(g) == s))


def impl_unindex(item):
    from whatshap.core import Genotype
    i, p = item[0], item[1]
    h = Genotype([])
    h.__setstate__((i, p))
    return dict(vec=[int(x) for x in h.as_vector()], idx=int(h.get_index()), pl=int(h.get_ploidy()))


def impl_history(item):
    """item = (initial alleles, [(index, ploidy, n, state_as_list)...]): ONE object receives all the states in turn;
    a witness built from the initial alleles must stay what it was. Returns one snapshot per step + the witness."""
    from whatshap.core import Genotype
    al0, steps = item
    h = Genotype(list(al0))
    witness = Genotype(list(al0))
    w0 = ([int(x) for x in witness.as_vector()], int(witness.get_index()))
    out = []
    prev = None
    for i, p, _n, as_list in steps:
        h.__setstate__([i, p] if as_list else (i, p))
        snap = dict(vec=[int(x) for x in h.as_vector()], idx=int(h.get_index()), pl=int(h.get_ploidy()))
        st = h.__getstate__()
        snap["state_ok"] = (int(st[0]), int(st[1])) == (snap["idx"], snap["pl"])
        if prev is not None:                             # a snapshot object of the previous state is not disturbed
            snap["prev_ok"] = ([int(x) for x in prev[0].as_vector()] == prev[1])
        keep = Genotype([])
        keep.__setstate__(st)
        prev = (keep, [int(x) for x in keep.as_vector()])
        out.append(snap)
    w1 = ([int(x) for x in witness.as_vector()], int(witness.get_index()))
    return dict(steps=out, witness_ok=(w0 == w1))


def impl_pair(item):
    from whatshap.core import Genotype
    al, bl = item[0], item[1]
    a = Genotype(list(al))
    b = a if (len(item) > 2 and item[2]) else Genotype(list(bl))       # item[2]: compare the object with itself
    return dict(lt=bool(a < b), gt=bool(b < a), eq=bool(a == b), ne=bool(a != b),
                ia=int(a.get_index()), ib=int(b.get_index()))


def impl_collection(als):
    """sorted / min / max / set / dict over one collection of genotypes (allele lists in the given order)."""
    from whatshap.core import Genotype
    gs = [Genotype(list(al)) for al in als]
    out = sorted(gs)
    same_objects = sorted(map(id, out)) == sorted(map(id, gs))
    d = {}
    for g in gs:
        d[g] = d.get(g, 0) + 1
    lookups = all(d.get(Genotype(list(reversed(al))), 0) >= 1 for al in als)
    return dict(out=[[int(x) for x in reversed(g.as_vector())] for g in out],
                nset=len(set(gs)), ndict=len(d), total=sum(d.values()), same_objects=same_objects, lookups=lookups,
                imin=int(min(gs).get_index()) if gs else -1, imax=int(max(gs).get_index()) if gs else -1,
                rsorted=[[int(x) for x in reversed(g.as_vector())] for g in sorted(gs, reverse=True)])


def impl_binom(item):
    from whatshap.core import binomial_coefficient
    return int(binomial_coefficient(item[0], item[1]))


MODES = ("str/str", "bytes/bytes", "str/bytes", "bytes/str")


def impl_edit(s, t, e, mode=0, kw=False):
    """mode: index into MODES = python types of the two arguments (ASCII str and bytes denote the same byte string;
    bytes are produced with latin-1 so that the byte-value stream can carry 0x00..0xff). kw: band passed by keyword."""
    from whatshap.align import edit_distance
    if mode in (1, 3):
        s = s.encode("latin-1")
    if mode in (1, 2):
        t = t.encode("latin-1")
    if e is None:
        return int(edit_distance(s, t))
    return int(edit_distance(s, t, maxdiff=e) if kw else edit_distance(s, t, e))


# ------------------------------------------------------------------ Coq check functions
G_PAT = "let '(al, n, vec, idx, pl, sti, stp, rvec, req, fn, fh, fd, sal, dvec, hidx) := c in"
G_L1 = f"""fun c => {G_PAT}
  list_eqb vec (rev (isort al)) && (pl =? Z.of_nat (length al)) && valid_desc pl n vec &&
  (idx =? idx_desc_fast vec) && (0 <=? idx) && (idx <? choose_fast (n + pl - 1) pl) &&
  (sti =? idx) && (stp =? pl) && list_eqb rvec vec && req"""
G_L2 = f"""fun c => {G_PAT}
  match mk32 al with
  | inr g =>
      list_eqb (as_vector g) vec && (get_index32 g =? idx) && (get_ploidy g =? pl) &&
      (fst (getstate32 g) =? sti) && (snd (getstate32 g) =? stp) &&
      match setstate32 {FUEL} (sti, stp) with
      | inr g2 => list_eqb (as_vector g2) rvec && Bool.eqb (g_eq g2 g && negb (g_ne g2 g)) req
      | inl _ => false
      end &&
      Bool.eqb (is_none g) fn && Bool.eqb (is_homozygous g) fh && Bool.eqb (is_diploid_and_biallelic g) fd &&
      list_eqb (rev (as_vector g)) sal && list_eqb (as_vector g) dvec && (get_index32 g =? hidx)
  | inl _ => false
  end"""
U_PAT = "let '(i, p, n, vec, idx2, pl2) := c in"
U_L1 = f"""fun c => {U_PAT}
  (pl2 =? p) && valid_desc p n vec && (idx_desc_fast vec =? i) && (idx2 =? i)"""
U_L2 = f"""fun c => {U_PAT}
  olist_eqb (unindex32 {FUEL} i p) (Some (rev vec)) &&
  match setstate32 {FUEL} (i, p) with
  | inr g => list_eqb (as_vector g) vec && (get_index32 g =? idx2) && (get_ploidy g =? pl2)
  | inl _ => false
  end"""
P_PAT = "let '(al, bl, lt, gt, eq, ne, ia, ib) := c in"
P_L1 = f"""fun c => {P_PAT}
  let sa := idx_desc_fast (rev (isort al)) in let sb := idx_desc_fast (rev (isort bl)) in
  (ia =? sa) && (ib =? sb) && Bool.eqb ne (negb eq) && Bool.eqb eq (list_eqb (isort al) (isort bl)) &&
  (if Nat.eqb (length al) (length bl)
   then Bool.eqb eq (sa =? sb) && Bool.eqb lt (sa <? sb) && Bool.eqb gt (sb <? sa) else true)"""
P_L2 = f"""fun c => {P_PAT}
  match mk32 al, mk32 bl with
  | inr g1, inr g2 => Bool.eqb (g_eq g1 g2) eq && Bool.eqb (g_ne g1 g2) ne &&
                      Bool.eqb (g_lt32 g1 g2) lt && Bool.eqb (g_lt32 g2 g1) gt
  | _, _ => false
  end"""
S_PAT = "let '(outs, routs, nset, imin, imax) := c in"
S_BODY = """
  let ix := map IDX outs in let rx := map IDX routs in
  forallb (fun xy => fst xy <=? snd xy) (combine ix (tl ix)) && list_eqb rx (rev ix) &&
  (nset =? Z.of_nat (length (nodup Z.eq_dec ix))) && (imin =? hd (-1) ix) && (imax =? last ix (-1))"""
S_L1 = f"fun c => {S_PAT}" + S_BODY.replace("IDX", "(fun al => idx_desc_fast (rev (isort al)))")
S_L2 = f"fun c => {S_PAT}" + S_BODY.replace("IDX", "(fun al => match mk32 al with inr g => get_index32 g | inl _ => -2 end)")
B_L1 = "fun c => let '(n, k, r) := c in r =? choose_fast n k"
B_L2 = "fun c => let '(n, k, r) := c in (r =? binom32 n k) && binom_exact wrap_s32 n k"
M_L2 = "fun c => let '(al, iserr) := c in Bool.eqb iserr (match mk32 al with inl _ => true | inr _ => false end)"
E_L1 = """fun c => let '(s, t, ers) := c in let l := lev_Z s t in
  forallb (fun er => (0 <=? snd er) && (if fst er =? -1 then Z.of_nat l =? snd er
                                         else banded_contract l (fst er) (Z.to_nat (snd er)))) ers"""
EF_L1 = E_L1.replace("lev_Z s t", "lev_fast_Z s t")
E_L2 = """fun c => let '(s, t, ers) := c in
  forallb (fun er => Z.of_nat (edit_distance_Z s t (fst er)) =? snd er) ers"""


def zl(xs):
    """a list of Z; the empty list is annotated so that a file holding a single case still type-checks."""
    xs = list(xs)
    return term(xs) if xs else Raw("(@nil Z)")


def evaluate(name, fns, cases, shard=400):
    """eval_checks with the cases dealt round-robin over the shards (expensive cases come in runs)."""
    n = len(cases)
    if n == 0:
        return {lab: [] for lab in fns}
    shard = max(1, min(shard, -(-n // 16)))
    nsh = -(-n // shard)
    order = sorted(range(n), key=lambda i: (i % nsh, i))
    failing, errors = eval_checks(name, HEADER, fns, [cases[i] for i in order], shard=-(-n // nsh))
    if errors:
        raise RuntimeError("coq evaluation failed: " + errors[0][1])
    return {lab: sorted(order[k] for k in ks) for lab, ks in failing.items()}


# ------------------------------------------------------------------ genotype streams
def multisets(p, n):
    return itertools.combinations_with_replacement(range(n), p)


def order_kind(al):
    al = list(al)
    if len(set(al)) <= 1:
        return "constant"
    if al == sorted(al):
        return "ascending"
    if al == sorted(al, reverse=True):
        return "descending"
    return "mixed"


def exc_violation(ctx, stream, what, r, replay):
    ctx.tally(f"{stream}.exception")
    if not r["exc"].startswith(("CRASH", "SKIPPED")):          # a crash has been reported by isolated_map already
        ctx.violation(f"{stream}:exception", f"{what} raised {r['exc']}", replay)


def check_genotypes(ctx, inputs, label):
    """inputs: (alleles in the order handed to the constructor, n = number of alleles of the space[, container])."""
    inputs = [tuple(x) if len(x) > 2 else (x[0], x[1], "list") for x in inputs]
    rep = lambda x: {"kind": "G", "al": list(x[0]), "n": x[1], "container": x[2]}
    res = isolated_map(ctx, impl_genotype, inputs, "genotype", rep)
    cases, raw = [], []
    for (al, n, kind), r in zip(inputs, res):
        ctx.count(("G", tuple(al), kind), nontrivial=len(al) >= 2 and len(set(al)) >= 2)
        ctx.tally(f"genotype.{label}")
        ctx.tally(f"genotype.ploidy.{len(al)}")
        ctx.tally(f"genotype.max_allele.{max(al) if len(al) else 'none'}")
        ctx.tally(f"genotype.arg_order.{order_kind(al)}")
        ctx.tally(f"genotype.container.{kind}")
        ctx.tally("genotype.homozygous" if len(set(al)) == 1 else "genotype.heterozygous" if al else "genotype.empty")
        if is_exc(r):
            exc_violation(ctx, "genotype", f"Genotype({kind} {list(al)}) / its accessors", r, rep((al, n, kind)))
            continue
        if r is None or not r["repr_ok"]:
            ctx.violation("genotype:constructor-rejects-valid",
                          f"Genotype({list(al)}) within the limits raised RuntimeError or repr != str", rep((al, n, kind)))
            continue
        raw.append((al, n, kind, r))
        cases.append(term((Raw(zl(al)), n, Raw(zl(r["vec"])), r["idx"], r["pl"], r["sti"], r["stp"], Raw(zl(r["rvec"])), r["req"],
                           r["fn"], r["fh"], r["fd"], Raw(zl(r["sal"])), Raw(zl(r["dvec"])), r["hidx"])))
    failing = evaluate("C19g", {"L1": G_L1, "L2": G_L2}, cases)
    for k in failing["L1"]:
        al, n, kind, r = raw[k]
        ctx.violation("genotype:index-roundtrip",
                      f"Genotype({kind} {list(al)}): as_vector/get_index/__getstate__/__setstate__ contradict the canonical index: {r}",
                      rep((al, n, kind)))
    l2 = [{"al": list(raw[k][0]), "n": raw[k][1], "impl": raw[k][3]} for k in failing["L2"]]
    return raw, failing, l2


def _unindex_cases(ctx, triples, results, label, what_of, replay_of):
    """shared by the fresh-object stream and the histories: (i, p, n) with the observed vec / idx / ploidy."""
    cases, raw = [], []
    for (i, p, n), r, w, rp in zip(triples, results, what_of, replay_of):
        ctx.count(("U", label, i, p), nontrivial=i > 0 and p >= 2)
        ctx.tally(f"unindex.{label}")
        ctx.tally(f"unindex.ploidy.{p}")
        if is_exc(r):
            exc_violation(ctx, "unindex", w, r, rp)
            continue
        raw.append((i, p, n, r, w, rp))
        cases.append(term((i, p, n, Raw(zl(r["vec"])), r["idx"], r["pl"])))
    failing = evaluate("C19u", {"L1": U_L1, "L2": U_L2}, cases)
    for k in failing["L1"]:
        i, p, n, r, w, rp = raw[k]
        ctx.violation("genotype:unindex", f"{w} gives {r}: not the genotype of ploidy {p} over {n} alleles with index {i}", rp)
    l2 = [{"i": raw[k][0], "p": raw[k][1], "impl": raw[k][3], "how": raw[k][4]} for k in failing["L2"]]
    return raw, failing, l2


def check_unindex(ctx, inputs, label):
    """inputs: list of (index, ploidy, n); a fresh object per input."""
    inputs = [tuple(x) for x in inputs]
    rep = lambda x: {"kind": "U", "i": x[0], "p": x[1], "n": x[2]}
    res = isolated_map(ctx, impl_unindex, inputs, "unindex", rep)
    return _unindex_cases(ctx, inputs, res, label, [f"Genotype([]).__setstate__(({i}, {p}))" for i, p, _ in inputs],
                          [rep(x) for x in inputs])


def check_histories(ctx, hists, label):
    """hists: list of (initial alleles, [(index, ploidy, n, state_as_list)...])."""
    rep = lambda h: {"kind": "H", "al0": list(h[0]), "steps": [list(s) for s in h[1]]}
    res = isolated_map(ctx, impl_history, hists, "history", rep)
    triples, results, what, reps = [], [], [], []
    for h, r in zip(hists, res):
        ctx.tally(f"history.{label}.objects")
        ctx.tally("history.initial." + ("empty" if not h[0] else "nonempty"))
        if is_exc(r):
            ctx.count(("H", tuple(h[0]), tuple(map(tuple, h[1]))), nontrivial=True)
            exc_violation(ctx, "history", f"history {rep(h)}", r, rep(h))
            continue
        if not r["witness_ok"]:
            ctx.violation("genotype:history-aliasing", f"an unrelated Genotype({list(h[0])}) changed during the history {h[1]}", rep(h))
        for k, (st, snap) in enumerate(zip(h[1], r["steps"])):
            ctx.tally("history.state_as." + ("list" if st[3] else "tuple"))
            if not snap.get("state_ok", True) or not snap.get("prev_ok", True):
                ctx.violation("genotype:history-aliasing",
                              f"step {k} of history {rep(h)}: __getstate__ differs from (get_index, get_ploidy) or an earlier "
                              f"snapshot object changed: {snap}", rep(h))
            triples.append((st[0], st[1], st[2]))
            results.append(snap)
            what.append(f"step {k} (__setstate__(({st[0]}, {st[1]}))) of a history on one object starting from Genotype({list(h[0])})")
            reps.append(rep((h[0], h[1][:k + 1])))
    return _unindex_cases(ctx, triples, results, f"history.{label}", what, reps)


def check_pairs(ctx, pairs, label):
    """pairs: (al, bl[, same_object])."""
    pairs = [tuple(x) if len(x) > 2 else (x[0], x[1], False) for x in pairs]
    rep = lambda x: {"kind": "P", "al": list(x[0]), "bl": list(x[1]), "same": bool(x[2])}
    res = isolated_map(ctx, impl_pair, pairs, "pairs", rep)
    cases, raw = [], []
    for (al, bl, same), r in zip(pairs, res):
        ctx.count(("P", tuple(al), tuple(bl), same), nontrivial=sorted(al) != sorted(bl))
        ctx.tally(f"pairs.{label}")
        ia, ib = py_index(al), py_index(bl)                      # oracle used for the tallies only
        rel = ("same_object" if same else "different_ploidy" if len(al) != len(bl) else
               "equal_multiset" if sorted(al) == sorted(bl) else "adjacent_index" if abs(ia - ib) == 1 else "other")
        ctx.tally(f"pairs.relation.{rel}")
        if is_exc(r):
            exc_violation(ctx, "pairs", f"comparing Genotype({list(al)}) and Genotype({list(bl)})", r, rep((al, bl, same)))
            continue
        raw.append((al, bl, same, r))
        cases.append(term((Raw(zl(al)), Raw(zl(bl)), r["lt"], r["gt"], r["eq"], r["ne"], r["ia"], r["ib"])))
    failing = evaluate("C19p", {"L1": P_L1, "L2": P_L2}, cases)
    for k in failing["L1"]:
        al, bl, same, r = raw[k]
        ctx.violation("genotype:order-vs-index",
                      f"Genotype({list(al)}) vs Genotype({list(bl)}): ==, !=, < = {r} disagree with the canonical index / multiset equality",
                      rep((al, bl, same)))
    l2 = [{"al": list(raw[k][0]), "bl": list(raw[k][1]), "impl": raw[k][3]} for k in failing["L2"]]
    return raw, failing, l2


def check_collections(ctx, colls, label):
    """colls: lists of allele lists (one ploidy per collection): sorted / reversed sort / min / max / set / dict."""
    rep = lambda c: {"kind": "S", "als": [list(a) for a in c]}
    res = isolated_map(ctx, impl_collection, colls, "collection", rep)
    cases, raw = [], []
    for c, r in zip(colls, res):
        ctx.count(("S", tuple(map(tuple, c))), nontrivial=len({tuple(sorted(a)) for a in c}) >= 2)
        ctx.tally(f"collection.{label}")
        ctx.tally("collection.elements", len(c))
        ctx.tally("collection.with_duplicates" if len({tuple(sorted(a)) for a in c}) < len(c) else "collection.all_distinct")
        if is_exc(r):
            exc_violation(ctx, "collection", f"sorted/min/max/set/dict over {c}", r, rep(c))
            continue
        if not (r["same_objects"] and r["lookups"] and r["nset"] == r["ndict"] and r["total"] == len(c)
                and sorted(map(sorted, r["out"])) == sorted(map(sorted, c))):
            ctx.violation("genotype:hash-eq", f"set/dict/sorted over {c} lost or duplicated elements: {r}", rep(c))
        raw.append((c, r))
        cases.append(term((Raw("[" + "; ".join(zl(a) for a in r["out"]) + "]") if r["out"] else Raw("(@nil (list Z))"),
                           Raw("[" + "; ".join(zl(a) for a in r["rsorted"]) + "]") if r["rsorted"] else Raw("(@nil (list Z))"),
                           r["nset"], r["imin"], r["imax"])))
    failing = evaluate("C19s", {"L1": S_L1, "L2": S_L2}, cases)
    for k in failing["L1"]:
        c, r = raw[k]
        ctx.violation("genotype:order-vs-index",
                      f"sorted()/min/max/set over the genotypes {c} do not follow the canonical index: {r}", rep(c))
    l2 = [{"als": [list(a) for a in raw[k][0]], "impl": raw[k][1]} for k in failing["L2"]]
    return raw, failing, l2


def check_binom(ctx, nks, label):
    nks = [tuple(x) for x in nks]
    rep = lambda x: {"kind": "B", "n": x[0], "k": x[1]}
    res = isolated_map(ctx, impl_binom, nks, "binom", rep)
    cases, raw = [], []
    for (n, k), r in zip(nks, res):
        ctx.count(("B", n, k), nontrivial=0 < k < n)
        ctx.tally(f"binom.{label}")
        ctx.tally("binom.case." + ("k<0" if k < 0 else "n<0" if n < 0 else "k>n" if k > n else
                                   "k=0_or_n" if k in (0, n) else "k<=n-k" if k <= n - k else "k>n-k"))
        if is_exc(r):
            exc_violation(ctx, "binom", f"binomial_coefficient({n}, {k})", r, rep((n, k)))
            continue
        raw.append((n, k, r))
        cases.append(term((n, k, r)))
    failing = evaluate("C19b", {"L1": B_L1, "L2": B_L2}, cases)
    for i in failing["L1"]:
        n, k, r = raw[i]
        ctx.violation("binom:value", f"binomial_coefficient({n}, {k}) = {r} is not C(n,k)", rep((n, k)))
    l2 = [{"n": raw[i][0], "k": raw[i][1], "impl": raw[i][2]} for i in failing["L2"]]
    return raw, failing, l2


def check_malformed(ctx, als):
    items = [(list(al), 16, "list") for al in als]
    res = isolated_map(ctx, impl_genotype, items, "malformed", lambda x: {"kind": "G", "al": list(x[0]), "n": 16, "container": "list"})
    cases, raw = [], []
    for (al, _, _), r in zip(items, res):
        ctx.count(("M", tuple(al)), nontrivial=False)
        ctx.tally("genotype.malformed")
        ctx.tally("genotype.malformed." + ("ploidy" if len(al) >= 15 else "allele"))
        err = "RuntimeError" if r is None else (r["exc"].split(":")[0] if is_exc(r) else None)
        raw.append((al, err))
        cases.append(term((Raw(zl(al)), err == "RuntimeError")))
    failing = evaluate("C19m", {"L2": M_L2}, cases)
    bad = set(failing["L2"]) | {i for i, (_, err) in enumerate(raw) if err not in (None, "RuntimeError")}
    return [{"al": list(raw[i][0]), "impl_error": raw[i][1]} for i in sorted(bad)]


def impl_pickle(item):
    """item = (alleles, history of states applied before pickling). Returns the first failing route or None."""
    import copy
    import pickle
    from whatshap.core import Genotype
    al, states = item
    g = Genotype(list(al))
    for st in states:
        g.__setstate__(tuple(st))

    def same(h):
        return (bool(h == g) and not bool(h != g) and list(h.as_vector()) == list(g.as_vector())
                and h.get_index() == g.get_index() and h.get_ploidy() == g.get_ploidy() and h is not g)
    routes = [(f"pickle protocol {pr}", (lambda pr=pr: pickle.loads(pickle.dumps(g, protocol=pr))))
              for pr in range(pickle.HIGHEST_PROTOCOL + 1)]
    routes.append(("copy.copy", lambda: copy.copy(g)))
    routes.append(("copy.deepcopy", lambda: copy.deepcopy(g)))
    n = 0
    for name, fn in routes:
        n += 1
        try:
            h = fn()
            if not same(h):
                return n, f"{name} gives {h} (index {h.get_index()}) for the original {g} (index {g.get_index()})"
        except Exception as e:  # noqa: BLE001 - any failure to restore is the finding
            return n, f"{name} raises {type(e).__name__}: {e} (state save/restore through the pickle protocol does not work)"
    for pr in (0, 2, pickle.HIGHEST_PROTOCOL):                      # inside containers, the same object twice (memo)
        n += 1
        try:
            box = pickle.loads(pickle.dumps({"l": [g, g], "d": {g: 1}, "t": (g, Genotype([0]))}, protocol=pr))
            ok = (same(box["l"][0]) and box["l"][0] is box["l"][1] and box["d"].get(g) == 1 and same(box["t"][0])
                  and list(box["t"][1].as_vector()) == [0])
            if not ok:
                return n, f"pickle protocol {pr} of containers holding the genotype gives {box}"
            box2 = copy.deepcopy([g, g])
            if not (same(box2[0]) and box2[0] is box2[1]):
                return n, f"copy.deepcopy([g, g]) gives {box2}"
        except Exception as e:  # noqa: BLE001
            return n, f"pickling containers that hold the genotype (protocol {pr}) raises {type(e).__name__}: {e}"
    return n, None


def check_pickle(ctx, items):
    """the pickle / copy protocols themselves (not expressible in Coq: the failure mode is an exception);
    the restored object must be == the original, with the same vector, index and ploidy."""
    items = [(list(al), [list(s) for s in states]) for al, states in items]
    rep = lambda x: {"kind": "pickle", "al": list(x[0]), "states": x[1]}
    res = isolated_map(ctx, impl_pickle, items, "pickle", rep)
    for x, r in zip(items, res):
        ctx.tally("genotype.pickle.objects")
        ctx.tally("genotype.pickle." + ("after_history" if x[1] else "fresh"))
        if is_exc(r):
            ctx.count(("pickle", repr(x)), nontrivial=True)
            exc_violation(ctx, "pickle", f"pickling Genotype({x[0]}) after states {x[1]}", r, rep(x))
            continue
        n, bad = r
        ctx.count(("pickle", repr(x)), nontrivial=len(set(x[0])) >= 2, k=n)
        ctx.tally("genotype.pickle.routes", n)
        if bad:
            ctx.violation("genotype:pickle-cinit", f"Genotype({x[0]}) after states {x[1]}: {bad}", rep(x))
            return False
    return True


# ------------------------------------------------------------------ edit distance streams
ALPHA = "ACG"
INT_MAX = 2 ** 31 - 1
HUGE_BANDS = [10 ** 6, 2 ** 30, INT_MAX - 200, INT_MAX - 2, INT_MAX - 1, INT_MAX]


def codes(s):
    return [ord(c) for c in s]


ALL_MODES = (0, 1, 2, 3)


def edit_case(item):
    """item = (s, t, bands, modes, kw): every (band, argument-type combination):
    list of (mode, maxdiff or -1 for the default argument, result)."""
    s, t, bands, modes, kw = item
    out = []
    for mode in modes:
        for e in bands:
            out.append((mode, -1 if e is None else e, impl_edit(s, t, e, mode, kw and mode in (1, 2))))
    return out


def relation(s, t):
    if s == t:
        return "equal"
    if not s or not t:
        return "one_empty"
    if t.startswith(s) or s.startswith(t):
        return "prefix_of"
    if t.endswith(s) or s.endswith(t):
        return "suffix_of"
    pre, suf = s[0] == t[0], s[-1] == t[-1]
    return "common_prefix_and_suffix" if pre and suf else "common_prefix" if pre else "common_suffix" if suf else "no_common_end"


def bucket(n):
    return "0" if n == 0 else "1" if n == 1 else "2" if n == 2 else "3-5" if n <= 5 else "6-20" if n <= 20 else "21-80" if n <= 80 else "81+"


def tally_edit(ctx, label, s, t, bands):
    d = py_lev(s, t)                                  # oracle used for the tallies only
    m, n = len(s), len(t)
    ctx.tally(f"edit.relation.{relation(s, t)}")
    ctx.tally(f"edit.len.{bucket(m)}x{bucket(n)}" if label != "exhaustive" else f"edit.len_exh.{m}x{n}")
    ctx.tally("edit.shape." + ("m<n" if m < n else "m=n" if m == n else "m>n"))
    for e in bands:
        if e is None:
            ctx.tally("edit.band.default_argument")
        elif e == -1:
            ctx.tally("edit.band.explicit_-1")
        elif e < -1:
            ctx.tally("edit.band.below_-1")
        else:
            ctx.tally("edit.band_vs_dist." + ("e<d-1" if e < d - 1 else "e=d-1" if e == d - 1 else "e=d" if e == d else
                                              "e=d+1" if e == d + 1 else "e>d+1"))
            ctx.tally("edit.band_vs_lendiff." + ("e<|m-n|" if e < abs(m - n) else "e=|m-n|" if e == abs(m - n) else "e>|m-n|"))
            ctx.tally("edit.band_vs_maxlen." + ("e<max-1" if e < max(m, n) - 1 else "e=max-1" if e == max(m, n) - 1 else
                                                "e=max" if e == max(m, n) else "e>max" if e < 10 ** 5 else "e_huge"))


def check_edit(ctx, triples, label, fast=False, name="C19e", shard=500, modes=ALL_MODES, with_model=True,
               overflow_sig=None):
    """triples: list of (s, t, bands[, kw]); bands contain ints (-1 = explicit no band) or None (default argument).
    Every call is made for each argument-type combination in `modes`; the Coq case carries the set of distinct
    (maxdiff, result) observations (the model and the specification do not depend on the python type)."""
    items = [(tr[0], tr[1], list(tr[2]), tuple(modes), bool(tr[3]) if len(tr) > 3 else False) for tr in triples]
    rep = lambda x: {"kind": "E", "s": x[0], "t": x[1], "bands": [(-1 if b is None else b) for b in x[2]],
                     "modes": list(x[3]), "kw": x[4]}
    res = isolated_map(ctx, edit_case, items, "editdist", rep)
    cases, raw = [], []
    for x, obs in zip(items, res):
        s, t, bands = x[0], x[1], x[2]
        ncalls = len(bands) * len(modes)
        ctx.count(("E", s, t, tuple(-1 if b is None else b for b in bands), tuple(modes)),
                  nontrivial=bool(s) and bool(t) and s != t, k=ncalls)
        ctx.tally(f"edit.{label}.pairs")
        ctx.tally(f"edit.{label}.calls", ncalls)
        for mo in modes:
            ctx.tally(f"edit.types.{MODES[mo]}", len(bands))
        if x[4]:
            ctx.tally("edit.band.by_keyword", len(bands) * len([mo for mo in modes if mo in (1, 2)]))
        tally_edit(ctx, label, s, t, bands)
        if is_exc(obs):
            exc_violation(ctx, "editdist", f"edit_distance({s!r}, {t!r}, maxdiff in {bands}) for argument types {[MODES[mo] for mo in modes]}", obs, rep(x))
            continue
        ers = sorted({(e, r) for _, e, r in obs})
        raw.append((x, obs, ers))
        cases.append(term((Raw(zl(codes(s))), Raw(zl(codes(t))), [(e, r) for e, r in ers])))
        if len(ers) != len({e for e, _ in ers}):
            ctx.tally(f"edit.{label}.type_dependent_results")
    fns = {"L1": EF_L1 if fast else E_L1}
    if with_model:
        fns["L2"] = E_L2
    failing = evaluate(name, fns, cases, shard=shard)
    for i in failing["L1"]:
        x, obs, ers = raw[i]
        s, t = x[0], x[1]
        d = py_lev(s, t)                          # only to name the offending calls in the message
        bad = [(MODES[m], e, r) for m, e, r in obs if not ((r == d) if (e == -1 or d <= e) else r > e)]
        sig = "editdist:not-levenshtein" if (not bad or any(e == -1 for _, e, _ in bad)) else "editdist:band-contract"
        if overflow_sig and bad and all(e >= INT_MAX - len(t) - 1 for _, e, _ in bad):
            sig = overflow_sig
        ctx.violation(sig,
                      f"edit_distance({s!r}, {t!r}, maxdiff): (argument types, maxdiff, result) = {bad[:8] or ers}; "
                      f"the Levenshtein distance is {d}", rep(x))
    l2 = [{"s": raw[i][0][0], "t": raw[i][0][1], "impl": [(MODES[m], e, r) for m, e, r in raw[i][1]][:40]}
          for i in failing.get("L2", [])]
    failing.setdefault("L2", [])
    return raw, failing, l2


def all_strings(maxlen, alpha=ALPHA):
    for L in range(maxlen + 1):
        for tup in itertools.product(alpha, repeat=L):
            yield "".join(tup)


def mutate(rng, s, alpha, k):
    s = list(s)
    for _ in range(k):
        op = rng.randrange(3)
        if op == 0 and s:
            s[rng.randrange(len(s))] = rng.choice(alpha)
        elif op == 1:
            s.insert(rng.randint(0, len(s)), rng.choice(alpha))
        elif s:
            del s[rng.randrange(len(s))]
    return "".join(s)


def gen_random_edit(rng, n, maxlen, alphas=("A", "AC", "ACG", "ACGT", "ACGTN", "acgtnACGTN-*")):
    out = []
    for _ in range(n):
        alpha = rng.choice(alphas)
        L = rng.choice([rng.randint(0, maxlen), rng.randint(0, 6)])
        s = "".join(rng.choice(alpha) for _ in range(L))
        mode = rng.random()
        if mode < 0.5:
            t = mutate(rng, s, alpha, rng.randint(0, 8))
        elif mode < 0.7:
            t = "".join(rng.choice(alpha) for _ in range(rng.randint(0, maxlen)))
        elif mode < 0.8:                          # one string a prefix / suffix / infix of the other
            a, b = sorted((rng.randint(0, L), rng.randint(0, L)))
            t = rng.choice([s[:a], s[a:], s[a:b]])
        else:                                   # long common prefix/suffix around a small difference
            core = mutate(rng, s[L // 3: 2 * L // 3], alpha, rng.randint(0, 3))
            t = s[:L // 3] + core + s[2 * L // 3:]
        if rng.random() < 0.5:
            s, t = t, s
        d = py_lev(s, t)                        # oracle only used to place the bands around the interesting values
        ld, mx = abs(len(s) - len(t)), max(len(s), len(t))
        bands = {-1, 0, 1, 2, 3, max(0, d - 2), max(0, d - 1), d, d + 1, d + 2, ld, max(0, ld - 1), ld + 1,
                 max(0, mx - 1), mx, mx + 1, len(s) + len(t) + 3, rng.randint(0, maxlen), rng.choice([-2, -3, -100, 5000])}
        bl = sorted(bands) + [None]
        out.append((s, t, bl, rng.random() < 0.5))
    return out


NONASCII = [("é", "è"), ("é", "a"), ("aé", "ab"), ("aé", "aè"), ("üü", "üö")]   # fixed probe set: str with a non-ASCII character


def check_nonascii(ctx):
    """str arguments with non-ASCII characters: distance over characters (code points)."""
    items = [(s, t, [None, 1], (0,), False) for s, t in NONASCII]
    rep = lambda x: {"kind": "nonascii", "s": x[0], "t": x[1]}
    res = isolated_map(ctx, edit_case, items, "editdist", rep)
    cases, raw = [], []
    for x, obs in zip(items, res):
        ctx.count(("E8", x[0], x[1]), nontrivial=True, k=2)
        ctx.tally("edit.nonascii.pairs")
        if is_exc(obs):
            exc_violation(ctx, "editdist", f"edit_distance({x[0]!r}, {x[1]!r})", obs, rep(x))
            continue
        ers = sorted({(e, r) for _, e, r in obs})
        raw.append((x[0], x[1], ers))
        cases.append(term((Raw(zl(codes(x[0]))), Raw(zl(codes(x[1]))), [(e, r) for e, r in ers])))
    failing = evaluate("C19n", {"L1": E_L1}, cases)
    for i in failing["L1"]:
        s, t, ers = raw[i]
        ctx.violation("editdist:non-ascii-str",
                      f"edit_distance({s!r}, {t!r}) -> {ers} but the Levenshtein distance of these strings is {py_lev(s, t)} "
                      "(len() counts characters, the loops run over UTF-8 bytes)",
                      {"kind": "nonascii", "s": s, "t": t})
        break                                    # one report per defect class
    return failing


# ------------------------------------------------------------------ search after an L2-only failure
def search_genotype(ctx):
    rng = ctx.rng
    cand_g, cand_u = [], []
    for _ in range(20000):
        p = rng.randint(0, 14)
        n = rng.randint(1, 16)
        al = [rng.randrange(n) for _ in range(p)]
        r = _safe(impl_genotype, (al, n, "list"))
        ctx.count(("G", tuple(al)), nontrivial=len(set(al)) >= 2)
        if r is None or is_exc(r) or r["vec"] != sorted(al, reverse=True) or r["idx"] != py_index(al) or r["rvec"] != r["vec"] or not r["req"]:
            cand_g.append((al, n))
        if p:
            i = rng.randrange(py_binom(n + p - 1, p))
            u = _safe(impl_unindex, (i, p, n))
            if is_exc(u) or py_index(u["vec"]) != i or u["idx"] != i or len(u["vec"]) != p or (u["vec"] and max(u["vec"]) >= n):
                cand_u.append((i, p, n))
        if len(cand_g) + len(cand_u) >= 3:
            break
    if cand_g:
        check_genotypes(ctx, cand_g, "search")
    if cand_u:
        check_unindex(ctx, cand_u, "search")


def search_edit(ctx):
    rng = ctx.rng
    cand = []
    for s, t, bands, kw in gen_random_edit(rng, 20000, 24):
        d = py_lev(s, t)
        obs = _safe(edit_case, (s, t, bands, ALL_MODES, kw))
        ctx.count(("Esearch", s, t), nontrivial=bool(s) and bool(t) and s != t, k=len(bands) * 4)
        if is_exc(obs) or any(not ((r == d) if (e == -1 or d <= e) else r > e) for _, e, r in obs):
            cand.append((s, t, bands, kw))
        if len(cand) >= 3:
            break
    if cand:
        check_edit(ctx, cand, "search", fast=True)


# ------------------------------------------------------------------ driver
def gen_histories(rng, count, steps, big_share):
    hs = []
    for _ in range(count):
        al0 = [] if rng.random() < 0.4 else [rng.randrange(16) for _ in range(rng.randint(1, 14))]
        st = []
        for _ in range(rng.randint(2, steps)):
            p = rng.randint(7, 14) if rng.random() < big_share else rng.randint(0, 5)
            n = rng.randint(1, 16) if p > 5 else rng.randint(1, 7)
            total = py_binom(n + p - 1, p)
            i = rng.choice([0, total - 1, rng.randrange(total), rng.randrange(total)])
            st.append((i, p, n, rng.random() < 0.5))
            if rng.random() < 0.25:                       # the same state twice in a row
                st.append((i, p, n, rng.random() < 0.5))
        hs.append((al0, st))
    return hs


def run(ctx):
    import time
    rng = ctx.rng
    from whatshap.core import get_max_genotype_ploidy, get_max_genotype_alleles
    lim = (int(get_max_genotype_ploidy()), int(get_max_genotype_alleles()))
    ctx.extra["reported_limits"] = {"get_max_genotype_ploidy": lim[0], "get_max_genotype_alleles": lim[1],
                                    "note": "the constructor accepts ploidy <= 14 only (size >= MAX_PLOIDY is rejected)"}

    # ---- genotypes: exhaustive ploidy <= 6 x alleles <= 6
    PMAX, NMAX = 6, 6
    g_inputs = []
    for p in range(PMAX + 1):
        for ms in multisets(p, NMAX):
            n_eff = (max(ms) + 1) if ms else 1          # the tightest allele count: implies the bound for every larger n
            g_inputs.append((list(ms), n_eff, rng.choice(CONTAINERS)))
            if len(set(ms)) >= 2:
                sh = list(ms)
                rng.shuffle(sh)
                g_inputs.append((sh, NMAX, rng.choice(CONTAINERS)))
                g_inputs.append((list(reversed(ms)), n_eff, "list"))
    corpus = [([2, 0, 1], 3), ([], 1), ([15] * 14, 16), ([0] * 14, 1), ([15] + [0] * 13, 16), (list(range(14)), 14),
              (list(range(15, 1, -1)), 16), ([7] * 14, 8), ([15], 16), ([14, 15] * 7, 16), ([0], 1), ([0, 15], 16)]
    corpus += [([], 1, k) for k in CONTAINERS] + [([15] * 14, 16, k) for k in CONTAINERS]
    n_samp = ctx.n(600, 12000)
    samp = []
    for _ in range(n_samp):
        p = rng.choice([rng.randint(0, 14), rng.randint(7, 14), 14])
        n = rng.choice([rng.randint(1, 16), 16])
        al = [rng.randrange(n) for _ in range(p)]
        o = rng.random()
        al = sorted(al) if o < 0.2 else sorted(al, reverse=True) if o < 0.4 else al
        samp.append((al, n, rng.choice(CONTAINERS)))
    t0 = time.time()
    raw, failing, l2g = check_genotypes(ctx, corpus + g_inputs + samp, "all")
    ctx.log(f"genotypes: {len(raw)} cases, {time.time()-t0:.0f}s")
    ctx.extra["genotypes_exhaustive"] = {"ploidy<=": PMAX, "alleles<=": NMAX,
                                         "multisets": sum(1 for p in range(PMAX + 1) for _ in multisets(p, NMAX))}
    for al, n, kind, r in raw[:2]:
        ctx.sample({"Genotype": al, "impl": r})

    # ---- index -> genotype on fresh objects: exhaustive small, sampled, and around every boundary C(p+a-1, p)
    u_inputs = []
    for p in range(0, PMAX + 1):
        for n in range(1, NMAX + 1):
            total = py_binom(n + p - 1, p)
            lo = py_binom(n - 1 + p - 1, p) if n > 1 and p > 0 else 0      # indices new for this n (smaller ones: smaller n)
            for i in range(lo, total):
                u_inputs.append((i, p, n))
    for _ in range(ctx.n(300, 6000)):
        p = rng.choice([rng.randint(1, 14), 14, 13])
        n = rng.choice([rng.randint(1, 16), 16])
        total = py_binom(n + p - 1, p)
        i = rng.choice([rng.randrange(total), total - 1, rng.randrange(total)])
        u_inputs.append((i, p, n))
    u_inputs += [(77558759, 14, 16), (0, 14, 16), (77558758, 14, 16), (1, 14, 2), (15, 1, 16)]
    bnd = []
    for p in range(1, 15):
        for a in range(1, 16):                       # f = index of the first genotype of ploidy p that uses allele a
            f = py_binom(p + a - 1, p)
            bnd += [(f - 1, p, a), (f, p, a + 1), (f + 1, p, a + 1 if p > 1 else a + 2)]
    bnd = [x for x in bnd if x[2] <= 16 and x[0] < py_binom(x[2] + x[1] - 1, x[1])]
    if ctx.quick:
        keep = [x for x in bnd if x[1] in (1, 2, 13, 14)]
        rest = [x for x in bnd if x[1] not in (1, 2, 13, 14)]
        bnd = keep + rng.sample(rest, 90)
    t0 = time.time()
    rawu, failu, l2u = check_unindex(ctx, u_inputs, "all")
    rawb2, failb2, l2b2 = check_unindex(ctx, bnd, "boundary")
    ctx.log(f"unindex: {len(rawu)} + {len(rawb2)} boundary cases, {time.time()-t0:.0f}s")
    ctx.sample({"__setstate__": list(rawu[-1][:2]), "impl": rawu[-1][3]})

    # ---- histories: one object is reused for many __setstate__ calls
    t0 = time.time()
    hists = [([], [(5, 2, 3, False), (0, 0, 1, False), (5, 3, 3, True), (5, 3, 3, False), (77558759, 14, 16, False), (1, 1, 2, True)]),
             ([3, 1, 2], [(0, 3, 1, False), (9, 2, 4, True)])]
    hists += gen_histories(rng, ctx.n(50, 600), 14, 0.15)
    rawh, failh, l2h = check_histories(ctx, hists, "all")
    ctx.log(f"histories: {len(hists)} objects, {len(rawh)} steps, {time.time()-t0:.0f}s")
    ctx.sample({"history_on_one_object": hists[0], "last_snapshot": rawh[5][3] if len(rawh) > 5 else None})

    # ---- ordering / equality: all ordered pairs of the small genotypes, incl. different ploidies
    pp, pn = ctx.n((3, 4), (4, 4))
    small = [list(ms) for p in range(pp + 1) for ms in multisets(p, pn)]
    pairs = [(a, b, False) for a in small for b in small]
    pairs += [(a, a, True) for a in small[:: 2]]                    # the very same object on both sides
    big = [list(x[0]) for x in samp[: ctx.n(150, 2000)]]
    for a in big:
        b = list(a)
        if b and rng.random() < 0.7:
            b[rng.randrange(len(b))] = rng.randrange(16)
        rng.shuffle(b)
        pairs.append((a, b, False))
        pairs.append((b, a, False))
    for _ in range(ctx.n(120, 1500)):                               # neighbours in the index order, up to the limits
        p = rng.randint(1, 14)
        n = rng.randint(2, 16)
        i = rng.randrange(py_binom(n + p - 1, p) - 1)
        u = _safe(impl_unindex, (i, p, n))
        v = _safe(impl_unindex, (i + 1, p, n))
        if not is_exc(u) and not is_exc(v):
            pairs.append((u["vec"], v["vec"], False))
            pairs.append((v["vec"], u["vec"], False))
    t0 = time.time()
    rawp, failp, l2p = check_pairs(ctx, pairs, "all")
    ctx.log(f"pairs: {len(rawp)} cases, {time.time()-t0:.0f}s")
    ctx.extra["pairs_exhaustive"] = {"ploidy<=": pp, "alleles<=": pn, "genotypes": len(small), "ordered_pairs": len(small) ** 2}

    # ---- sorted / min / max / set / dict over collections (one ploidy each), shuffled, with duplicates
    colls = []
    for p in range(0, 5):
        for n in range(1, 5):
            ms = [list(x) for x in multisets(p, n)]
            c = ms + [list(reversed(x)) for x in rng.sample(ms, min(3, len(ms)))]
            rng.shuffle(c)
            colls.append(c)
    for _ in range(ctx.n(60, 600)):
        p = rng.randint(1, 14)
        n = rng.randint(1, 16)
        c = [[rng.randrange(n) for _ in range(p)] for _ in range(rng.randint(1, 12))]
        c += [list(x) for x in rng.sample(c, rng.randint(0, min(3, len(c))))]
        rng.shuffle(c)
        colls.append(c)
    colls += [[], [[]], [[], []], [[1, 0]], [[0, 1], [1, 0]]]
    t0 = time.time()
    raws, fails, l2s = check_collections(ctx, colls, "all")
    ctx.log(f"collections: {len(raws)} cases, {time.time()-t0:.0f}s")
    ctx.sample({"sorted/min/max/set over": colls[5], "impl": raws[5][1]})

    # ---- binomial coefficient within the domain used by the limits (n <= 29), plus the guards
    nks = [(n, k) for n in range(-2, 30) for k in range(-2, n + 3)] + [(-5, -7), (-2147483648, 3), (3, -2147483648), (29, 4000), (0, 0), (0, 1), (1, 0)]
    rawb, failb, l2b = check_binom(ctx, nks, "n<=29")
    over = [(n, k) for n in (30, 31, 33, 34, 40) for k in (n // 2, n // 2 - 1, 3)]
    ctx.extra["binom_beyond_limits_informational"] = [
        {"n": n, "k": k, "impl": _safe(impl_binom, (n, k)), "exact": py_binom(n, k)} for n, k in over]

    # ---- malformed stream (error class only)
    mal = [[0] * 15, [0] * 16, [15] * 15, [16], [0, 16], [17, 3], [255], [1, 2, 3, 100], [0] * 14 + [16], [16] * 15, [4294967295],
           [0] * 40, [16] * 14, [15] * 13 + [16]]
    l2m = check_malformed(ctx, mal)

    l2_all = l2g + l2u + l2b2 + l2h + l2p + l2s + l2b + l2m
    if l2_all:
        ctx.disagreements_checked += len(l2_all)
        ctx.l2_disagreement("GenotypeIndex model = whatshap.core.Genotype / binomial_coefficient (L2)", l2_all)
        if not (failing["L1"] or failu["L1"] or failb2["L1"] or failh["L1"] or failp["L1"] or fails["L1"] or failb["L1"]):
            search_genotype(ctx)

    # ---- the pickle / copy protocols (fresh objects and objects with a history; inside containers)
    check_pickle(ctx, [([0, 1], []), ([2, 0, 1], []), ([], []), ([15] * 14, []), ([3, 3, 0, 7, 15], []),
                       ([], [(5, 3)]), ([1, 2], [(0, 0)]), ([0], [(77558759, 14), (2, 2)]), ([9, 9], [(7, 4), (7, 4)])])

    # ---- edit distance: exhaustive small pairs x every band x every argument-type combination
    L = ctx.n(4, 5)
    strs = list(all_strings(L))
    bands = [None, -1, 0, 1, 2, 3, 4, 5, 6]
    triples = [(s, t, bands + [-2, -5] if (i + j) % 5 == 0 else bands, (i + 2 * j) % 3 == 0)
               for i, s in enumerate(strs) for j, t in enumerate(strs)]
    t0 = time.time()
    rawe, faile, l2e = check_edit(ctx, triples, "exhaustive", shard=500)
    ctx.log(f"edit exhaustive: {len(rawe)} pairs, {time.time()-t0:.0f}s")
    ctx.extra["edit_exhaustive"] = {"alphabet": ALPHA, "maxlen": L, "strings": len(strs), "ordered_pairs": len(triples),
                                    "bands": "-1..6 (+ default argument; a fifth of the pairs also -2, -5)",
                                    "argument_types": list(MODES)}
    ctx.exhaustive = True
    ctx.sample({"edit_distance": [rawe[-2][0][0], rawe[-2][0][1]], "(maxdiff, result), same for all 4 argument-type combinations": rawe[-2][2]})
    corpus_e = [("ABCDEF", "ABXDEF", [None, 0, 1, 2]), ("", "", [None, 0]), ("", "ACGT", [None, 0, 3, 4, 5]),
                ("GATTACA", "GCATGCU", [None, 0, 1, 2, 3, 4, 5]), ("kitten", "sitting", [None, 1, 2, 3, 4]),
                ("A" * 40, "A" * 20 + "C" + "A" * 19, [None, 0, 1]), ("ACGT" * 10, "TGCA" * 10, [None, 5, 10, 20, 40]),
                ("ACG", "CGA", [None, 1, 2, 3, 4]), ("A" * 30, "A" * 33, [None, 2, 3, 4]), ("AC" * 15, "CA" * 15, [None, 1, 2, 3, 29, 30, 31])]
    rnd = gen_random_edit(rng, ctx.n(500, 3000), ctx.n(60, 80))
    t0 = time.time()
    rawr, failr, l2r = check_edit(ctx, corpus_e + rnd, "random", fast=True, name="C19r", shard=200)
    ctx.log(f"edit random: {len(rawr)} pairs, {time.time()-t0:.0f}s")
    ctx.sample({"edit_distance": [rawr[-1][0][0], rawr[-1][0][1]], "(maxdiff, result), same for all 4 argument-type combinations": rawr[-1][2]})

    # ---- bytes with the values 0x00, 0x41, 0x80, 0xff (bytes/bytes only: such str arguments are the non-ASCII stream)
    balpha = "\x00A\x80\xff"
    bstrs = list(all_strings(3, balpha))
    btr = [(s, t, [None, 0, 1, 2, 3]) for s in bstrs for t in bstrs if (hash((s, t)) % 4 == 0 or len(s) + len(t) <= 3)]
    btr += [(s, t, bl, kw) for s, t, bl, kw in gen_random_edit(rng, ctx.n(60, 600), 30, alphas=(balpha, "\x00\xff"))]
    t0 = time.time()
    rawy, faily, l2y = check_edit(ctx, btr, "bytevalues", fast=True, name="C19y", shard=300, modes=(1,))
    ctx.log(f"edit byte values: {len(rawy)} pairs, {time.time()-t0:.0f}s")

    # ---- a few long strings
    longs = []
    for _ in range(ctx.n(6, 40)):
        Ls = rng.randint(120, 220)
        s = "".join(rng.choice("ACGT") for _ in range(Ls))
        t = mutate(rng, s, "ACGT", rng.randint(0, 12)) if rng.random() < 0.8 else "".join(rng.choice("ACGT") for _ in range(rng.randint(100, 220)))
        d = py_lev(s, t)
        longs.append((s, t, [None, max(0, d - 1), d, d + 1, 0, 1000], False))
    t0 = time.time()
    rawl, faill, l2l = check_edit(ctx, longs, "long", fast=True, name="C19l", shard=1, modes=(0, 2))
    ctx.log(f"edit long: {len(rawl)} pairs, {time.time()-t0:.0f}s")

    # ---- band widths up to INT_MAX (the guard `e >= max(m, n)` of the code and of the model)
    hb = [("ACG", "CGA"), ("ABC", "BD"), ("", ""), ("A", ""), ("ACGTACGT", "TGCATGCA"), ("A" * 20, "C" * 17)]
    hb += [(s, t) for s, t, _, _ in gen_random_edit(rng, ctx.n(40, 400), 20)]
    t0 = time.time()
    rawh2, failh2, l2h2 = check_edit(ctx, [(s, t, HUGE_BANDS) for s, t in hb], "hugeband", fast=True, name="C19h", shard=100,
                                    overflow_sig="editdist:band-int-overflow")
    ctx.log(f"edit huge bands: {len(rawh2)} pairs, {time.time()-t0:.0f}s")

    l2_all = l2e + l2r + l2y + l2l + l2h2
    if l2_all:
        ctx.disagreements_checked += len(l2_all)
        ctx.l2_disagreement("EditDist.edit_distance = whatshap.align.edit_distance (L2)", l2_all)
        if not (faile["L1"] or failr["L1"] or faily["L1"] or faill["L1"] or failh2["L1"]):
            search_edit(ctx)

    # ---- non-ASCII str arguments
    check_nonascii(ctx)


def replay(ctx, data):
    k = data.get("kind")
    if k == "G":
        check_genotypes(ctx, [(data["al"], data["n"], data.get("container", "list"))], "replay")
    elif k == "U":
        check_unindex(ctx, [(data["i"], data["p"], data["n"])], "replay")
    elif k == "H":
        check_histories(ctx, [(data["al0"], [tuple(s) for s in data["steps"]])], "replay")
    elif k == "P":
        check_pairs(ctx, [(data["al"], data["bl"], bool(data.get("same")))], "replay")
    elif k == "S":
        check_collections(ctx, [data["als"]], "replay")
    elif k == "B":
        check_binom(ctx, [(data["n"], data["k"])], "replay")
    elif k == "pickle":
        check_pickle(ctx, [(data["al"], data.get("states", []))])
    elif k == "E":
        bands = [None if b is None else int(b) for b in data["bands"]]
        big = any(b is not None and b > 10 ** 5 for b in bands)
        check_edit(ctx, [(data["s"], data["t"], bands, bool(data.get("kw")))], "replay",
                   fast=len(data["s"]) + len(data["t"]) > 12, modes=tuple(data.get("modes", ALL_MODES)),
                   overflow_sig="editdist:band-int-overflow" if big else None)
    elif k == "nonascii":
        check_nonascii(ctx)
    else:
        run(ctx)
