"""C16 — results depend on the input only: not on hash seed, thread count or repetition.

The property quantifies over things a Gallina model cannot exhibit (process scheduling, BGZF
threads, CPython set/dict iteration order, memory addresses).  The split is therefore:

* proved (coq/props/C16.v): the ordering mechanisms the code relies on remove the modelled sources
  of order dependence (read comparator is a strict total order for every hash function, so the
  sorted ReadSet is a function of the read set; union-find representatives do not depend on the merge
  order; re-sorting block results by id equals the sequential list; per-sample record updates
  commute; sorted(d.items()) does not depend on insertion order);
* observed (this module, the main runtime evidence): every subcommand that writes a VCF/BAM/TSV is run
  on generated inputs under several configurations (PYTHONHASHSEED in {0,1,2,3,random}, polyphase
  --threads 1..4, haplotag --output-threads 1..4, repeated executions) and the outputs are compared
  record for record modulo the recorded command line.  The comparison itself (L1) is evaluated in
  Coq (`all_agree` on per-record digests); any difference is a violation with the two
  configurations as replay.
* L2 ties the models to the code: real ReadSet.sort vs the comparator model (hash values supplied
  as data), real setup_families vs the union-find + sorted-items model, real PhasedVcfWriter under
  permuted sample orders.
"""
import itertools
import json
import os
import random
import shutil
from concurrent.futures import ThreadPoolExecutor

from .. import c16_jobs as J
from .. import util
from ..coqeval import term, Raw, Nat, NN, eval_checks

RULE = ("L1 (differential CLI runs): regenerable scenarios (kind, seed) -> input files -> jobs. 'diploid': trio + "
        "unrelated samples with random names, 2-3 chromosomes, SNV/indel/MNP variants, reads with BX barcodes shared "
        "across samples, phased/unphased/noisy VCFs, PED, tagged BAM + haplotag list; jobs phase (plain, --ped, "
        "--ped --use-ped-samples --distrust-genotypes with changed-genotype and recombination lists), genotype (plain, "
        "--ped), haplotag (linked and --ignore-linked-read, --output-threads 1..4), haplotagphase, stats (--tsv, "
        "--block-list, --gtf), compare (--tsv-pairwise/--tsv-multiway/--longest-block-tsv/--switch-error-bed, with and "
        "without --ignore-sample-name), split, unphase; each job family also gets per-scenario options that move a divisor, "
        "threshold or cutoff (--internal-downsampling, --max-coverage, --gt-qual-threshold, --recombrate, --default-gq, "
        "--linked-read-distance-cutoff, --gap-threshold, --cut-poly, -B/--min-overlap, --only-snvs, --only-largest-block); "
        "every second diploid scenario of the thorough tier has deep noisy reads. 'polyploid': tri/tetraploid samples, several read islands, "
        "polyphase --threads 1..4 and 8 (plain, -B/--min-overlap, --use-prephasing --include-haploid-sets --sample), haplotag "
        "--ploidy, compare --ploidy, stats on the polyploid truth phasing. 'polyploid-ties': polyphase inputs built for exact ties (ploidy 3/4/5, 1-3 samples, 3-6 blocks of different sizes with the "
        "large block first, every read spanning the same number of variants, error-free, equal reads per haplotype, optionally "
        "a duplicated haplotype and identical read layouts per haplotype) compared across --threads 1,2,3,4,8, hash seeds and "
        "an exact repetition, with and without --reference. 'polyploid-prephasing': polyphase --use-prephasing on 2-3 samples of which some are pre-phased and some unphased, "
        "two read groups sharing one SNV (ambiguous joint), 1-2 chromosomes, sample names from a pool; besides the usual "
        "configurations the hash seeds are chosen so that >= 2 (up to 3) different iteration orders of the set of sample names "
        "occur (computed with the same interpreter). 'input-forms': 4-8 short chromosomes, every VCF-reading subcommand (stats, compare, phase, genotype, polyphase, unphase, "
        "haplotag, haplotagphase) on plain / bgzip+tbi / bgzip+csi VCFs, BAM and CRAM alignments (and CRAM output), VCF on "
        "stdin, vcf.gz outputs, with multi-name --chromosome / --regions selections sorted, reversed, shuffled and with a "
        "repeated name. 'misc': find_snv_candidates (3 option sets), hapcut2vcf, "
        "polyphasegenetic (tetraploid cross, 3 option sets). The diploid scenario has 1-3 read groups per sample (shuffled "
        "header), unmapped / secondary / duplicate / supplementary alignments, optionally a second family, the alignments also "
        "split over two BAM files, and option-walking jobs (sample and chromosome subsets in any order, --ignore-read-groups, "
        "algorithms, --tag, --merge-reads, --genmap, compressed output, a phased VCF as input, --regions, --prioroutput, ...). "
        "A job that fails identically (exit status, exception, innermost whatshap function) in every repetition and "
        "configuration is tallied (jobs_failed_identically, listed in extra); runs that differ in exit status, exception or "
        "output are a violation. Targeted inputs for the order dependences suspected from reading (F7): "
        "'shared-barcode' (two samples sharing a BX barcode), 'linked-stress' (read clouds whose phase set is a tie), "
        "'undeclared-info' (INFO keys missing from the VCF header), 'ped-coverage' (trio and quartet with ~110 noisy reads per "
        "sample with mixed base qualities; genotype --ped --max-coverage and phase --ped --internal-downsampling swept over "
        "budgets that are and are not divisible by the family size: 4,5,7,8,16,17 / 5,7,9), 'split-ties' (4-column haplotag lists over 2-4 chromosomes, each with 2-3 phase sets tied for the largest "
        "number of reads plus smaller ones, untagged and unlisted reads; split --only-largest-block alone / with "
        "--discard-unknown-reads / --add-untagged / on FASTQ), 'block-ties' (several equally large phase sets per "
        "chromosome for stats and compare --longest-block-tsv; reads spanning a phase-set boundary with equal scores on "
        "both sides, alone and in BX clouds, for haplotag), 'ped-changes' (trio with wrong genotypes in all members, "
        "--distrust-genotypes with and without --use-ped-samples). Each job runs under >= 5 configurations "
        "(hash seeds 0,1,2,3,random; thread counts 1..4; one exact repetition of the baseline); every output file is "
        "canonicalised (command-line header removed) and all runs must give the same record list. One case = one "
        "(scenario, job, output file); non-trivial = all runs exited 0 and the output has data records; distinct = "
        "distinct (kind, seed, job, output). L2: ReadSet.sort on random read sets (position ties, reads without "
        "variants, names shared between sources, negative source ids, unsorted variants) in 3 insertion orders each; "
        "setup_families on random pedigrees with samples and PED lines in 3 orders each; PhasedVcfWriter.write with "
        "the sample dict in all insertion orders.")
TRUSTED = [
    "NOT proved, only observed by the differential runs: that every order-dependent step of every subcommand goes "
    "through one of the modelled mechanisms; process scheduling of the polyphase worker pool; htslib BGZF compression "
    "threads; CPython set/dict iteration order and object addresses. The theorems only show that the modelled "
    "mechanisms (comparator sort, union-find, re-sort by block id, disjoint per-sample updates, sorted items) are "
    "insensitive to arrival order",
    "std::hash<std::string> / std::hash<int> are not modelled: the comparator theorems hold for every hash function "
    "(Section variable); for L2 the hash values are supplied as data, computed by a python re-implementation of "
    "libstdc++'s 64-bit _Hash_bytes and accepted only if they explain the observed order of the real ReadSet.sort "
    "(otherwise a rank table consistent with all observed tie orders is derived; if none exists that is an L2 failure)",
    "std::sort is modelled as 'returns some permutation sorted w.r.t. the comparator' (C16_sorted_output_unique shows "
    "this determines the result); Python's sorted()/list.sort as a stable sort on the key; sample names are mapped to "
    "their rank in string order for the union-find model (order embedding)",
    "outputs are compared through 63-bit blake2b digests of canonical records (VCF/TSV lines without the "
    "##commandline header; BAM header without the CL field of @PG lines + SAM text of every record, via pysam)",
]
ASSUMPTIONS = [
    "reads of one ReadSet have distinct (name, source_id) (ReadSet::add throws otherwise); block ids of one polyphase "
    "instance are distinct (enumerate); dict keys are distinct; one writer update per sample and record",
    "'same files and options': the input files, the options and the environment are identical across the runs of a "
    "job except PYTHONHASHSEED, --threads/--output-threads and the output directory name (which only appears in the "
    "recorded command line)",
]

HEADER = """From Coq Require Import ZArith NArith List Bool Arith.
From WH.Model Require Import UnionFind Determinism.
Import ListNotations.
Open Scope Z_scope.
"""

MAX_PAR = 12
SLOW = []


# ============================================================================ differential CLI runs
_ORDER_SEEDS = {}


def seeds_for_orders(names, want=3, tries=60):
    """hash seeds under which a frozenset of `names` (built from the list in this order, as whatshap does from the
    VCF sample columns) iterates in DIFFERENT orders; one seed per distinct order, as many orders as found"""
    import subprocess
    key = tuple(names)
    if key not in _ORDER_SEEDS:
        found = {}
        for seed in range(tries):
            env = dict(os.environ, PYTHONHASHSEED=str(seed))
            r = subprocess.run([util.PY, "-c", "print(','.join(frozenset(%r)))" % (list(names),)], env=env,
                               stdout=subprocess.PIPE, text=True)
            found.setdefault(r.stdout.strip(), str(seed))
            if len(found) >= want:
                break
        _ORDER_SEEDS[key] = found
    return _ORDER_SEEDS[key]


def job_configs(job, n_extra=0, short=False):
    """configurations for one job: baseline first, one exact repetition of the baseline last"""
    seeds = ["0", "1", "2", "random", "3"]
    if short:       # option-walking jobs in the quick tier: 0, 1, random + repetition
        seeds = ["0", "1", "random", "2", "3"]
    cfgs = []
    if "threads" in job.dims:
        combos = [("0", 1), ("0", 2), ("1", 3), ("random", 4), ("3", 1), ("2", 8)]
        cfgs = [{"hashseed": s, "threads": t} for s, t in combos]
    elif "output_threads" in job.dims:
        cfgs = [{"hashseed": s, "output_threads": t} for s, t in zip(seeds[:3 if short else 4], (1, 2, 4, 3))]
    else:
        cfgs = [{"hashseed": s} for s in seeds[:3 if short else 4]]
    for k in range(n_extra):
        c = dict(cfgs[(k + 1) % len(cfgs)])
        c["hashseed"] = seeds[(k + 4) % len(seeds)]
        cfgs.append(c)
    if job.feat.get("order_names"):
        # make sure that several iteration orders of the set of sample names really occur among the runs
        for order, seed in seeds_for_orders(job.feat["order_names"]).items():
            if seed not in [c["hashseed"] for c in cfgs if c.get("threads", 1) == 1]:
                c = dict(cfgs[0])
                c["hashseed"] = seed
                cfgs.append(c)
    cfgs.append(dict(cfgs[0]))          # exact repetition
    for _ in range(job.feat.get("repeats", 0)):
        cfgs.append(dict(cfgs[0]))      # rare run-to-run differences need many identical runs
    if job.feat.get("ps_tie"):
        cfgs.append(dict(cfgs[0]))      # address-dependent orders only show between identical runs
    return cfgs


def run_cli_stdin(ctx, args, cwd, hashseed, stdin_path, timeout=900):
    """util.run_cli with a file on standard input (same environment)"""
    import subprocess
    env = dict(os.environ)
    env["PYTHONPATH"] = ctx.impl
    env["PYTHONHASHSEED"] = str(hashseed)
    env["PYTHONDONTWRITEBYTECODE"] = "1"
    env.pop("WHATSHAP_VERIF_TRACE", None)
    with open(stdin_path, "rb") as fh:
        r = subprocess.run([util.PY, "-m", "whatshap"] + [str(a) for a in args], cwd=cwd, env=env, stdin=fh,
                           stdout=subprocess.PIPE, stderr=subprocess.PIPE, timeout=timeout)
    return r.returncode, r.stdout.decode("utf-8", "replace"), r.stderr.decode("utf-8", "replace")


def run_one(ctx, job, cfg, outdir):
    """returns (rc, {label: canonical record list or None})"""
    import time
    os.makedirs(outdir, exist_ok=True)
    t0 = time.time()
    if job.stdin:
        rc, so, se = run_cli_stdin(ctx, job.argv(outdir, cfg), outdir, cfg["hashseed"], job.stdin)
    else:
        rc, so, se = util.run_cli(ctx, job.argv(outdir, cfg), cwd=outdir, hashseed=cfg["hashseed"], timeout=900)
    SLOW.append((round(time.time() - t0, 1), job.name, str(cfg)))
    outs = {}
    for lab, (rel, kind) in job.outputs.items():
        p = os.path.join(outdir, rel)
        if rel == "stdout":
            with open(p, "w") as f:
                f.write(so)
        try:
            outs[lab] = J.CANON[kind](p)
        except Exception as e:          # missing / unreadable output: part of the observable result
            outs[lab] = [f"<unreadable output: {type(e).__name__}>"]
    shutil.rmtree(outdir, ignore_errors=True)
    return rc, outs, se[-2500:], (crash_class(rc, se) if rc else None)


def rkey(r, label):
    """what must be identical between two runs of a job: exit status, kind of failure, the output records"""
    return (r[0], r[3], r[1][label])


def crash_class(rc, stderr):
    """None for a clean rejection (whatshap's own error message / argparse usage error), else the name of the
    uncaught exception or the signal"""
    if rc < 0:
        return f"signal{-rc}"
    if "Traceback (most recent call last)" in stderr:
        import re
        last = [l for l in stderr.strip().split("\n") if l and not l.startswith(" ")]
        name = last[-1].split(":")[0].strip() if last else "exception"
        name = name.split(".")[-1][:40] or "exception"
        frames = re.findall(r'File "[^"]*whatshap/([^"]+\.py)", line \d+, in (\w+)', stderr)
        where = f"@{frames[-1][1]}" if frames else ""      # innermost python frame inside whatshap
        return name + where
    if rc in (1, 2):
        return None
    return f"exit{rc}"


def tally_job(ctx, label, job, cfgs):
    """input-distribution counters for the coverage audit: options, multiplicities, configurations"""
    argv = job.argv("OUT", cfgs[0])
    for a in argv[1:]:
        if a.startswith("-") and not a[1:2].isdigit():
            ctx.tally(f"{label}.option.{job.sub}.{a}")
    for k in ("form", "nchrom_selected", "nregions"):
        if k in job.feat:
            ctx.tally(f"{label}.{k}.{job.sub}.{job.feat[k]}")
    if job.feat.get("order_names"):
        orders = seeds_for_orders(job.feat["order_names"])
        used = {c["hashseed"] for c in cfgs}
        ctx.tally(f"{label}.sample_set_orders_exercised={sum(1 for sd in orders.values() if sd in used)}")
    for k in ("prephased_samples", "unphased_samples"):
        if k in job.feat:
            ctx.tally(f"{label}.prephasing.{k}={job.feat[k]}")
    for k in ("blocks", "block_sizes", "duplicated_haplotype"):
        if k in job.feat:
            ctx.tally(f"{label}.ties.{k}={job.feat[k]}")
    for k in ("nsamples", "nchrom", "families", "singletons", "rg_per_sample_max", "input_files", "out_ext", "ploidy",
              "islands", "family", "max_coverage"):
        if k in job.feat:
            ctx.tally(f"{label}.feat.{k}={job.feat[k]}")
    for k in ("deep", "bx", "ped", "use_ped_samples", "ignore_sample_name", "ps_tie", "shared_barcode", "tied_phase_sets",
              "equal_blocks", "undeclared_info", "phased_vcf_input", "fastq", "special_alignments", "paired"):
        if job.feat.get(k):
            ctx.tally(f"{label}.feat.{k}")
    nin = sum(1 for a in argv if a.endswith(".bam") and not a.startswith("OUT"))
    ctx.tally(f"{label}.feat.bam_inputs={nin}")
    for c in cfgs:
        ctx.tally(f"{label}.cfg.hashseed={c['hashseed']}")
        for dname in job.dims:
            ctx.tally(f"{label}.cfg.{dname}={c.get(dname, 1)}")
    ctx.tally(f"{label}.cfg.exact_repetitions", sum(1 for c in cfgs[1:] if same_cfg(c, cfgs[0])))


def same_cfg(a, b):
    return all(a.get(k) == b.get(k) for k in ("hashseed", "threads", "output_threads")) and a["hashseed"] != "random"


def attribute(ctx, job, cfgs, results, label, work):
    """Which configuration dimension separates a differing run from the baseline? Uses the runs at hand
    and, if seed and thread count changed together, two extra runs."""
    base_cfg, base = cfgs[0], rkey(results[0], label)
    differing = [i for i in range(1, len(cfgs)) if rkey(results[i], label) != base]
    for i in differing:
        if same_cfg(cfgs[i], base_cfg):
            return "repeat", i
    # rerun the baseline twice more: an unstable baseline is a repetition failure whatever else differs
    for k in range(2):
        if rkey(run_one(ctx, job, base_cfg, os.path.join(work, f"attr-base{k}")), label) != base:
            return "repeat", differing[0]
    i = differing[0]
    tdim = [d for d in job.dims if cfgs[i].get(d) != base_cfg.get(d)]
    if not tdim:
        return "hashseed", i
    if cfgs[i]["hashseed"] == base_cfg["hashseed"]:
        return tdim[0].replace("_", "-"), i
    only_seed = dict(base_cfg, hashseed=cfgs[i]["hashseed"])
    if rkey(run_one(ctx, job, only_seed, os.path.join(work, "attr-seed")), label) != base:
        return "hashseed", i
    only_thr = dict(cfgs[i], hashseed=base_cfg["hashseed"])
    if rkey(run_one(ctx, job, only_thr, os.path.join(work, "attr-thr")), label) != base:
        return tdim[0].replace("_", "-"), i
    return "hashseed+" + tdim[0].replace("_", "-"), i


def signature(job, label, kind, diff, dim, a, b):
    """one name per defect class; anything not diagnosed gets the systematic name
    <subcommand>:<output>:<how it differs>:<which configuration dimension>"""
    f = job.feat
    if job.sub == "haplotag" and diff == "record-content" and f.get("bx"):
        if dim == "hashseed" and f.get("nsamples", 1) > 1:
            return "haplotag:sample-set-order"
        if dim == "repeat":
            return "haplotag:linked-read-set-order"
    if job.sub == "phase" and dim == "repeat" and "--algorithm hapchat" in f.get("options", ""):
        return "phase:hapchat-run-to-run"
    if diff == "header-order" and dim == "hashseed" and kind == "text":
        changed = [x for x, y in zip(a, b) if x != y and J.is_header(kind, x)]
        if changed and all(x.startswith("##INFO=") for x in changed):
            return "vcf:missing-info-header-set-order"
    if job.sub == "compare" and label == "tsv-multiway" and dim == "hashseed" and f.get("ignore_sample_name") \
            and diff == "record-content":
        return "compare:multiway-sample-name-set-order"
    if job.sub == "phase" and label == "changed-genotype-list" and diff == "record-order" and dim == "hashseed" \
            and f.get("use_ped_samples"):
        return "phase:use-ped-samples-set-order"
    if job.sub in ("split", "stats"):
        label = "outputs"       # h1/h2/untagged/histogram resp. tsv/block-list/gtf are facets of one result
    return f"{job.sub}:{label}:{diff}:{dim}"


def scenario_plan(ctx, rng):
    """[(kind, seed, params)] for this tier"""
    plan = []
    nd = ctx.n(1, 6)
    for k in range(nd):
        ex = 4 if k == 0 else rng.choice([0, 1, 2, 3, 4])     # >= 3: second family; 4: plus an unrelated singleton
        plan.append(("diploid", rng.randrange(10 ** 9), {"extra_samples": ex, "second_trio": ex >= 3,
                                                          "nchrom": rng.choice([2, 2, 3]), "deep": k % 2 == 1}))
    # polyphase built for exact ties in the threading DP: duplicated haplotypes, equal coverage, a large block first
    tie_fixed = [{"ploidy": 5, "nsamples": 2, "blocks": [30, 10, 12, 8, 10], "reads_per_hap": [40, 16, 20, 12, 16],
                  "duplicate": True, "shared_starts": True},
                 {"ploidy": 4, "nsamples": 2, "blocks": [30, 10, 12, 8, 10], "reads_per_hap": [40, 16, 20, 12, 16],
                  "duplicate": True, "shared_starts": False}]
    for k in range(ctx.n(2, 8)):
        if k < 2:
            prm = dict(tie_fixed[k])
        else:
            nb = rng.randint(3, 6)
            sizes = [rng.randint(24, 36)] + [rng.randint(6, 14) for _ in range(nb - 1)]
            prm = {"ploidy": rng.choice([3, 4, 5]), "nsamples": rng.choice([1, 2, 3]), "blocks": sizes,
                   "reads_per_hap": [max(8, 4 * n // 3) for n in sizes], "duplicate": rng.random() < 0.6,
                   "shared_starts": rng.random() < 0.5, "readlen": rng.choice([3, 4, 4, 5]), "b_sweep": rng.random() < 0.5}
        plan.append(("polyploid-ties", rng.randrange(10 ** 9), prm))
    # polyphase --use-prephasing with pre-phased AND unphased samples in one run, ambiguous joints
    for k in range(ctx.n(2, 6)):
        ns = 2 if k == 0 else rng.choice([2, 3, 3])
        pre = [1] if k == 0 else sorted(rng.sample(range(ns), rng.randint(1, ns - 1)))
        plan.append(("polyploid-prephasing", rng.randrange(10 ** 9),
                     {"ploidy": 4 if k < 2 else rng.choice([3, 4]), "nsamples": ns, "prephased_idx": pre,
                      "nchrom": 1 if k == 0 else rng.choice([1, 2]), "nvars": 10 if k == 0 else rng.choice([8, 10, 12])}))
    for k in range(ctx.n(1, 3)):
        plan.append(("input-forms", rng.randrange(10 ** 9), {"nchrom": 6 if k == 0 else rng.choice([4, 6, 8])}))
    for k in range(ctx.n(1, 4)):
        plan.append(("misc", rng.randrange(10 ** 9), {"pg_vars": rng.choice([18, 24, 30]), "pg_progeny": rng.choice([8, 12, 16])}))
    for k in range(ctx.n(1, 6)):
        plan.append(("polyploid", rng.randrange(10 ** 9), {"ploidy": rng.choice([3, 3, 4]) if k else 3,
                                                            "nsamples": rng.choice([1, 2]) if k else 2,
                                                            "nvars": rng.randint(9, 13), "b0": k % 2 == 0}))
    for k in range(ctx.n(1, 4)):
        plan.append(("shared-barcode", rng.randrange(10 ** 9), {"nsamples": 2 if k == 0 else rng.choice([2, 3, 4])}))
    for k in range(ctx.n(1, 3)):
        plan.append(("linked-stress", rng.randrange(10 ** 9), {"groups": 300, "group_size": 4}))
    # deep noisy pedigree data x coverage budgets that are / are not divisible by the family size
    plan.append(("ped-coverage", rng.randrange(10 ** 9), {"children": 1, "coverages": [4, 5, 7, 8, 16, 17],
                                                          "phase_coverages": [5, 7]}))
    plan.append(("ped-coverage", rng.randrange(10 ** 9), {"children": 2, "coverages": [5, 7, 9], "phase_coverages": [7]}))
    for k in range(ctx.n(0, 3)):
        ch = rng.choice([1, 1, 2])
        plan.append(("ped-coverage", rng.randrange(10 ** 9),
                     {"children": ch, "reads": rng.choice([60, 110, 160]), "error_rate": rng.choice([0.01, 0.03, 0.06]),
                      "coverages": [4, 5, 7, 8, 16, 17] if ch == 1 else [5, 6, 7, 9, 10, 11],
                      "phase_coverages": [4, 5, 7, 8] if ch == 1 else [5, 7, 9]}))
    # tie-rich inputs: a set/dict order could break a tie between equally large phase sets / equally long blocks
    for k in range(ctx.n(1, 6)):
        plan.append(("split-ties", rng.randrange(10 ** 9), {"nchrom": 3 if k == 0 else rng.choice([2, 3, 4])}))
    for k in range(ctx.n(1, 4)):
        plan.append(("block-ties", rng.randrange(10 ** 9), {"nsamples": 2, "nchrom": 2, "block": 4 if k == 0 else rng.choice([3, 4, 5]),
                                                            "nblocks": 3 if k == 0 else rng.choice([2, 3, 4])}))
    for k in range(ctx.n(1, 3)):
        plan.append(("ped-changes", rng.randrange(10 ** 9), {}))
    for k in range(ctx.n(1, 3)):
        plan.append(("undeclared-info", rng.randrange(10 ** 9),
                     {"info": ["AC=1;AN=2;SVTYPE=X;SVLEN=1", "AC=1;AN=2", "SVLEN=1;AN=2;END=9999"][k % 3]}))
    return plan


def differential(ctx, plan, only_job=None, cfg_override=None, label="run"):
    work = util.workdir(ctx)
    tasks = []      # (scenario index, job, cfg index, cfg)
    scns = []
    for si, (kind, seed, params) in enumerate(plan):
        d = os.path.join(work, f"s{si}-{kind}")
        jobs = J.build(kind, seed, params, d)
        if only_job:
            jobs = [j for j in jobs if j.name == only_job]
        entry = []
        for job in jobs:
            cfgs = cfg_override or job_configs(job, n_extra=1 if (job.feat.get("deep") or not ctx.quick) else 0,
                                               short=ctx.quick and bool(job.feat.get("walk")))
            entry.append((job, cfgs))
            for ci, cfg in enumerate(cfgs):
                tasks.append((si, job, ci, cfg, os.path.join(d, "out", job.name, f"c{ci}")))
        scns.append((kind, seed, params, d, entry))
        ctx.tally(f"{label}.scenarios.{kind}")
    # slow jobs first
    tasks.sort(key=lambda t: 0 if t[1].feat.get("max_coverage", 0) >= 16 else 1 if t[1].sub.startswith("polyphase") else 2)
    import time
    t0 = time.time()
    with ThreadPoolExecutor(max_workers=MAX_PAR) as ex:
        outs = list(ex.map(lambda t: run_one(ctx, t[1], t[3], t[4]), tasks))
    ctx.extra[f"{label}_cli_seconds"] = round(time.time() - t0, 1)
    ctx.extra[f"{label}_slowest_runs"] = sorted(SLOW, reverse=True)[:6]
    res = {(t[0], t[1].name, t[2]): o for t, o in zip(tasks, outs)}
    ctx.tally(f"{label}.cli_runs", len(tasks))
    ctx.log(f"{label}: {len(tasks)} CLI runs of {sum(len(e[4]) for e in scns)} jobs in {len(scns)} scenarios done")

    cases, meta = [], []
    for si, (kind, seed, params, d, entry) in enumerate(scns):
        for job, cfgs in entry:
            results = [res[(si, job.name, ci)] for ci in range(len(cfgs))]
            rcs = [r[0] for r in results]
            ctx.tally(f"{label}.runs.{job.sub}", len(cfgs))
            tally_job(ctx, label, job, cfgs)
            if any(rcs):
                # C16 crash policy: a job that fails in the SAME way (exit status, exception, innermost whatshap
                # function) in every repetition and configuration does not contradict "two runs give identical
                # results" -> tallied; any difference between the runs is caught by the comparison below.
                ctx.tally(f"{label}.jobs_with_nonzero_exit")
                kinds = {(r[0], r[3]) for r in results}
                ci = [i for i, r in enumerate(rcs) if r][0]
                if len(kinds) == 1 and results[ci][3] is None:
                    ctx.tally(f"{label}.jobs_rejected.{job.sub}")
                    ctx.log(f"note: {kind}/{seed}/{job.name} rejected, exit codes {rcs}: {results[ci][2][-200:]!r}")
                elif len(kinds) == 1:
                    key = f"{job.sub}:{results[ci][3]}"
                    ctx.tally(f"{label}.jobs_failed_identically.{key}")
                    lst = ctx.extra.setdefault("jobs_failed_identically", [])
                    if key not in [x["failure"] for x in lst]:
                        lst.append({"failure": key, "example": f"whatshap {' '.join(job.argv('OUT', cfgs[ci]))}",
                                    "scenario": [kind, seed, params], "stderr_tail": results[ci][2][-300:]})
            for lab, (rel, okind) in job.outputs.items():
                runs = [[r[0], J.digest(r[3] or "ok")] + [J.digest(x) for x in r[1][lab]] for r in results]
                cases.append(term(runs))
                data_records = [x for x in results[0][1][lab] if not J.is_header(okind, x)]
                nontrivial = not any(rcs) and len(data_records) > 0
                ctx.count((kind, seed, job.name, lab), nontrivial=nontrivial)
                ctx.tally(f"{label}.cases.{job.sub}.{lab}")
                ctx.tally(f"{label}.records", len(results[0][1][lab]))
                meta.append((si, job, cfgs, results, lab, okind))
                if nontrivial:
                    ctx.sample({"scenario": [kind, seed, params], "job": job.name, "output": lab,
                                "configs": cfgs, "records": len(results[0][1][lab])}, limit=4)
    failing, errors = eval_checks("C16diff", HEADER, {"L1": "all_agree"}, cases, shard=40)
    if errors:
        raise RuntimeError("coq evaluation failed: " + errors[0][1])
    bad = set(failing["L1"])
    attr_cache = {}
    for idx, (si, job, cfgs, results, lab, okind) in enumerate(meta):
        pydiff = any(rkey(r, lab) != rkey(results[0], lab) for r in results[1:])
        if pydiff != (idx in bad):
            raise RuntimeError(f"harness bug: python and Coq disagree on whether the runs of {job.name}/{lab} agree")
        if idx not in bad:
            continue
        kind, seed, params, d, _ = scns[si]
        cached = attr_cache.get((si, job.name))
        if cached and rkey(results[cached[1]], lab) != rkey(results[0], lab):
            dim, i = cached        # same differing run as for another output of this job
        else:
            dim, i = attribute(ctx, job, cfgs, results, lab, os.path.join(d, "out", job.name, "attr-" + lab))
            attr_cache[(si, job.name)] = (dim, i)
        a, b = results[0][1][lab], results[i][1][lab]
        if results[0][0] != results[i][0]:
            diff = "exit-status"
        elif results[0][3] != results[i][3]:
            diff = "exception"
        else:
            diff = J.classify_diff(okind, a, b)
        sig = signature(job, lab, okind, diff, dim, a, b)
        fd = J.first_diff(a, b)
        what = (f"{job.sub} ({job.name}) output '{lab}' differs between two runs on the same files and options: "
                f"config {cfgs[0]} vs {cfgs[i]} [{diff}, dimension {dim}]; first differing record #{fd[0] if fd else '?'}: "
                f"{fd[1] if fd else ''!r} vs {fd[2] if fd else ''!r}; scenario {kind} seed {seed} params {params}; "
                f"argv: whatshap {' '.join(job.argv('OUT', cfgs[i]))}")
        ctx.violation(sig, what, {"kind": "cli", "scenario": [kind, seed, params], "job": job.name, "output": lab,
                                  "configs": [cfgs[0], cfgs[i]]})
    return meta


# ============================================================================ L2: ReadSet.sort
def gen_read_set(rng):
    n = rng.choice([0, 1, 2, 3, 5, 8, 12])
    pool = [rng.choice(["r", "read", "x/1", "ab", "S1_chrA_r", "é", ""]) + str(rng.randint(0, 5)) for _ in range(max(1, n))]
    seen, reads = set(), []
    for k in range(n):
        nm = rng.choice(pool)
        src = rng.choice([0, 0, 0, 1, 2, -1, 7])
        if (nm, src) in seen:
            continue
        seen.add((nm, src))
        nv = rng.choice([0, 1, 2, 3])
        pos = rng.sample(range(0, 5), nv)
        if rng.random() < 0.8:
            pos.sort()
        reads.append((nm, src, [p * 10 for p in pos], k))
    return reads


def real_sort(reads):
    """insert in the given order, ReadSet.sort(), return the reads as the comparator sees them"""
    from whatshap.core import Read, ReadSet
    rs = ReadSet()
    for nm, src, pos, payload in reads:
        r = Read(nm, 60, src, payload)
        for p in pos:
            r.add_variant(p, 0, 30)
        rs.add(r)
    rs.sort()
    out = []
    for r in rs:
        vs = [v.position for v in r]
        out.append((r.name, r.source_id, len(vs), vs[0] if vs else 0, r.sample_id))
    return out


def real_sort_safe(reads):
    """an exception of the implementation is an output (it then disagrees with the model), not a harness error"""
    try:
        return real_sort(reads)
    except Exception as e:
        return [(f"<{type(e).__name__}>", 0, 0, 0, 0)]


def view(reads):
    return [(nm, src, len(pos), pos[0] if pos else 0, payload) for nm, src, pos, payload in reads]


def read_term(r):
    nm, src, nv, first, payload = r
    return Raw(f"(mkRead {term([NN(b) for b in nm.encode()])} {term(src)} {nv}%N {term(first)} {term(payload)})")


def tie_groups(out):
    """maximal runs of reads that the comparator can only separate by hash/name/source"""
    groups, cur, key = [], [], None
    for r in out:
        k = ("z",) if r[2] == 0 else ("p", r[3])
        if k != key and cur:
            groups.append(cur)
            cur = []
        key = k
        cur.append(r)
    if cur:
        groups.append(cur)
    return [g for g in groups if len(g) > 1]


def derive_rank_table(observed):
    """a 'hash' assignment consistent with every observed tie order (None if the orders are cyclic)"""
    succ, nodes = {}, set()
    for out in observed:
        for g in tie_groups(out):
            for a, b in zip(g, g[1:]):
                succ.setdefault((a[0], a[1]), set()).add((b[0], b[1]))
                nodes.update([(a[0], a[1]), (b[0], b[1])])
    indeg = {n: 0 for n in nodes}
    for a, bs in succ.items():
        for b in bs:
            indeg[b] += 1
    order, ready = [], sorted(n for n in nodes if indeg[n] == 0)
    while ready:
        n = ready.pop()
        order.append(n)
        for b in sorted(succ.get(n, ())):
            indeg[b] -= 1
            if indeg[b] == 0:
                ready.append(b)
    if len(order) != len(nodes):
        return None
    return {n: i + 1 for i, n in enumerate(order)}


def check_sort(ctx, sets, label="sort"):
    rng = ctx.rng
    raw = []
    for reads in sets:
        orders = [list(reads)]
        for _ in range(2):
            p = list(reads)
            rng.shuffle(p)
            orders.append(p)
        orders.append(list(reversed(reads)))
        outs = [real_sort_safe(o) for o in orders]
        raw.append((orders, outs))
    # hash values as data: the murmur re-implementation if it explains every observed order, else derived ranks
    def py_lt(tbl, a, b):
        if a[2] > 0 or b[2] > 0:
            if a[2] == 0:
                return True
            if b[2] == 0:
                return False
            if a[3] != b[3]:
                return a[3] < b[3]
        ha, hb = tbl.get((a[0], a[1]), 0), tbl.get((b[0], b[1]), 0)
        if ha != hb:
            return ha < hb
        if a[0].encode() != b[0].encode():
            return a[0].encode() < b[0].encode()
        return a[1] < b[1]
    murmur = {}
    for orders, outs in raw:
        for r in outs[0]:
            murmur[(r[0], r[1])] = J.name_source_hash(r[0], r[1])
    explains = all(py_lt(murmur, a, b) for _, outs in raw for out in outs for a, b in zip(out, out[1:]))
    mode = "libstdc++-murmur"
    table = murmur
    if not explains:
        ranks = derive_rank_table([out for _, outs in raw for out in outs])
        mode = "derived-ranks" if ranks is not None else "libstdc++-murmur(unexplained, no consistent ranks)"
        if ranks is not None:
            table = ranks
    ctx.extra["sort_hash_mode"] = mode
    if mode != "libstdc++-murmur":
        ctx.log(f"note: hash values for the comparator model: {mode}")
    cases, agree_cases, idx = [], [], []
    for k, (orders, outs) in enumerate(raw):
        keys = sorted({(r[0], r[1]) for r in outs[0]})
        tbl = [([NN(b) for b in nm.encode()], src, NN(table.get((nm, src), 0))) for nm, src in keys]
        for o, out in zip(orders, outs):
            cases.append("((" + term(tbl) + ", " + term([read_term(r) for r in view(o)]) + ", "
                         + term([read_term(r) for r in out]) + ") : sort_case)")
            idx.append(k)
        agree_cases.append("(" + term([[read_term(r) for r in out] for out in outs]) + " : list (list read))")
        nt = len(tie_groups(outs[0])) > 0
        ctx.count(("sort", tuple(view(orders[0]))), nontrivial=nt)
        ctx.tally(f"{label}.read_sets")
        ctx.tally(f"{label}.with_position_ties", int(nt))
        ctx.tally(f"{label}.reads", len(orders[0]))
    f1, e1 = eval_checks("C16sort", HEADER, {"L2": "l2_sort", "sorted": "l1_sorted"}, cases, shard=300)
    f2, e2 = eval_checks("C16sortp", HEADER, {"perm": "reads_all_agree"}, agree_cases, shard=300)
    if e1 or e2:
        raise RuntimeError("coq evaluation failed: " + (e1 + e2)[0][1])
    bad = sorted({idx[i] for i in f1["L2"] + f1["sorted"]} | set(f2["perm"]))
    return raw, bad


# ============================================================================ L2: setup_families
def gen_pedigree(rng):
    n = rng.randint(1, 8)
    used = set()
    names = [J._rand_name(rng, used) for _ in range(n)]
    trios = []
    children = set()
    for _ in range(rng.randint(0, 4)):
        if n < 3:
            break
        ch, fa, mo = rng.sample(names, 3)
        if ch in children:
            continue
        children.add(ch)
        trios.append((ch, fa, mo))
    # lines that setup_pedigree skips: unknown parent, individual not among the samples
    extra = []
    if rng.random() < 0.3 and names:
        extra.append((rng.choice(names) + "_x", "0", "0"))
    if rng.random() < 0.3 and n >= 2:
        c2 = rng.choice([x for x in names if x not in children] or names)
        if c2 not in children:
            extra.append((c2, rng.choice(names), "0"))
            children.add(c2)
    return names, trios, extra


def real_families(samples, lines, work, k):
    from whatshap.cli.phase import setup_families
    ped = os.path.join(work, f"fam{k}.ped")
    with open(ped, "w") as f:
        for ch, fa, mo in lines:
            f.write(f"F\t{ch}\t{fa}\t{mo}\t0\t1\n")
    families, family_trios = setup_families(list(samples), ped if lines else None, 15)
    return [(rep, list(members)) for rep, members in sorted(families.items())]


def check_families(ctx, peds, label="families"):
    rng = ctx.rng
    work = util.workdir(ctx)
    cases, agree, raw = [], [], []
    k = 0
    for names, trios, extra in peds:
        rank = {nm: i for i, nm in enumerate(sorted(names))}
        observed = []
        for rep in range(3):
            samples = list(names)
            lines = list(trios) + list(extra)
            if rep:
                rng.shuffle(samples)
                rng.shuffle(lines)
            try:
                obs = real_families(samples, lines, work, k)
            except Exception as e:      # recorded as an output that cannot match the model
                ctx.tally(f"{label}.exceptions.{type(e).__name__}")
                obs = [(samples[0], [])] if samples else [("?", [])]
                rank.setdefault("?", 4999)
            k += 1
            # merges exactly as setup_families issues them: (father, child), (mother, child) per usable trio
            merges = []
            for ch, fa, mo in lines:
                if fa == "0" or mo == "0" or not all(x in rank for x in (ch, fa, mo)):
                    continue
                merges += [(rank[fa], rank[ch]), (rank[mo], rank[ch])]
            obs_r = [(Nat(rank[r]), [Nat(rank[m]) for m in ms]) for r, ms in obs]
            cases.append("((" + term([Nat(rank[s]) for s in samples]) + ", "
                         + term([(Nat(a), Nat(b)) for a, b in merges]) + ", " + term(obs_r) + ") : fam_case)")
            observed.append(obs_r)
        agree.append("(" + term(observed) + " : list (list (nat * list nat)))")
        raw.append((names, trios, extra))
        ctx.count(("fam", tuple(names), tuple(trios)), nontrivial=len(trios) > 0)
        ctx.tally(f"{label}.pedigrees")
        ctx.tally(f"{label}.trios", len(trios))
    f1, e1 = eval_checks("C16fam", HEADER, {"L2": "l2_families"}, cases, shard=300)
    f2, e2 = eval_checks("C16famp", HEADER, {"perm": "fams_all_agree"}, agree, shard=300)
    if e1 or e2:
        raise RuntimeError("coq evaluation failed: " + (e1 + e2)[0][1])
    bad = sorted({i // 3 for i in f1["L2"]} | set(f2["perm"]))
    return raw, bad


# ============================================================================ L2: writer commutes
def check_writer(ctx, n, label="writer"):
    """PhasedVcfWriter.write with the sample -> superreads dict in every insertion order"""
    from whatshap.core import Read, ReadSet
    from whatshap.vcf import PhasedVcfWriter
    from .. import synth
    rng = ctx.rng
    work = util.workdir(ctx)
    cases, raw = [], []
    for it in range(n):
        ns = rng.choice([2, 3, 3])
        sc = synth.make_scenario(rng, nchrom=1, nsamples=ns, nvars=rng.randint(3, 6), kinds=("snv",), het_fraction=0.7)
        c = sc.chroms[0]
        vcf = synth.write_vcf(sc, os.path.join(work, f"w{it}.vcf"))
        spec = {}
        for s in sc.samples:
            idx = [i for i in range(len(sc.variants[c])) if rng.random() < 0.8]
            comp = {}
            first = None
            for i in idx:
                if first is None or rng.random() < 0.2:
                    first = sc.variants[c][i].pos
                comp[sc.variants[c][i].pos] = first
            spec[s] = (idx, comp)
        runs, orders = [], list(itertools.permutations(sc.samples))
        for oi, order in enumerate(orders):
            superreads, components = {}, {}
            for s in order:
                idx, comp = spec[s]
                rs = ReadSet()
                for h in (0, 1):
                    r = Read(f"superread_{h}", 0, 0, 0)
                    for i in idx:
                        a = sc.haps[s][c][i][h]
                        r.add_variant(sc.variants[c][i].pos, a, 30)
                    rs.add(r)
                superreads[s] = rs
                components[s] = dict(comp)
            out = os.path.join(work, f"w{it}-{oi}.vcf")
            try:
                with open(out, "w") as fh:
                    with PhasedVcfWriter(command_line=None, in_path=vcf, out_file=fh) as w:
                        w.write(c, superreads, components)
                runs.append([0] + [J.digest(x) for x in J.canon_text(out)])
            except Exception as e:      # an exception is an output: it disagrees with every successful order
                ctx.tally(f"{label}.exceptions.{type(e).__name__}")
                runs.append([1, J.digest(type(e).__name__ + str(oi))])
        cases.append(term(runs))
        raw.append((sc.samples, len(orders)))
        ctx.count(("writer", it, tuple(sorted((s, tuple(v[0])) for s, v in spec.items()))), nontrivial=True)
        ctx.tally(f"{label}.records_x_orders", len(orders))
    failing, errors = eval_checks("C16wr", HEADER, {"L2": "all_agree"}, cases, shard=100)
    if errors:
        raise RuntimeError("coq evaluation failed: " + errors[0][1])
    return raw, failing["L2"]


# ============================================================================ driver
def run(ctx):
    plan = scenario_plan(ctx, random.Random(ctx.rng.randrange(2 ** 62)))
    # --- L2 first (fast, in-process)
    sets = [
        [("a", 0, [100, 200], 1), ("b", 0, [100], 2), ("c", 0, [100, 150, 300], 3), ("a", 1, [], 4), ("e", 0, [50], 5),
         ("e", -1, [50], 6), ("", 0, [], 7)],
        [],
    ] + [gen_read_set(ctx.rng) for _ in range(ctx.n(400, 8000))]
    raw, bad = check_sort(ctx, sets)
    ctx.log(f"L2 ReadSet.sort: {len(sets)} read sets x 4 insertion orders, {len(bad)} disagreeing")
    for orders, outs in raw[:2]:
        ctx.sample({"reads_inserted": view(orders[0]), "ReadSet.sort": outs[0]})
    if bad:
        ctx.disagreements_checked += len(bad)
        ctx.l2_disagreement("sort_reads (comparator model, hash values as data) = ReadSet.sort (L2)",
                            [{"inserted": view(raw[i][0][0]), "real": raw[i][1]} for i in bad])
        # search for a property-level consequence: the same read set sorted differently in two insertion orders
        for i in bad:
            orders, outs = raw[i]
            if any(o != outs[0] for o in outs[1:]):
                ctx.violation("readset-sort:insertion-order", f"ReadSet.sort gives different orders for the same read set "
                              f"inserted in different orders: {view(orders[0])} -> {outs}",
                              {"kind": "sort", "reads": [list(r) for r in orders[0]]})
                break

    peds = [(["kid", "dad", "mum", "other"], [("kid", "dad", "mum")], [])] + \
           [gen_pedigree(ctx.rng) for _ in range(ctx.n(150, 3000))]
    fraw, fbad = check_families(ctx, peds)
    ctx.log(f"L2 setup_families: {len(peds)} pedigrees x 3 orders, {len(fbad)} disagreeing")
    if fbad:
        ctx.disagreements_checked += len(fbad)
        ctx.l2_disagreement("families_sorted (union-find + sorted items) = sorted(setup_families(..)[0].items()) (L2)",
                            [{"samples": fraw[i][0], "trios": fraw[i][1], "skipped_lines": fraw[i][2]} for i in fbad])

    wraw, wbad = check_writer(ctx, ctx.n(6, 60))
    ctx.log(f"L2 writer: {len(wraw)} records, {len(wbad)} disagreeing")
    if wbad:
        ctx.disagreements_checked += len(wbad)
        ctx.l2_disagreement("per-sample updates of PhasedVcfWriter.write commute (L2)",
                            [{"samples": wraw[i][0], "orders": wraw[i][1]} for i in wbad])

    # --- L1: differential runs of the real CLI
    ctx.log("scenarios: " + json.dumps(plan))
    differential(ctx, plan)
    report_masked_l2(ctx)


def report_masked_l2(ctx):
    """The framework reports an L2-only breakage itself, but only when no violation with a failing input
    exists; the genuine order-dependence findings of this property would mask it, so say it here."""
    explained = any(v["signature"].startswith("readset-sort:") for v in ctx.violations)
    if ctx.l2 and not explained and any(v["found_input"] for v in ctx.violations):
        names = ", ".join(d["name"] for d in ctx.l2)
        ctx.violation("correspondence:" + names,
                      f"model correspondence no longer checks ({names}): the C16 theorems do not speak about this code; "
                      "the search found no input on which the property text itself fails through this mechanism",
                      {"kind": "l2", "broken_correspondence": [d["name"] for d in ctx.l2],
                       "disagreeing_cases": [dict(name=d["name"], n=d["n"], cases=d["cases"][:5]) for d in ctx.l2]},
                      found_input=False)


def replay(ctx, data):
    if data.get("kind") == "cli":
        kind, seed, params = data["scenario"]
        cfgs = [dict(c) for c in data["configs"]]
        # address-dependent differences only show with some probability: repeat the pair a few times
        cfgs = cfgs + [dict(c) for c in cfgs] + [dict(cfgs[0])]
        differential(ctx, [(kind, seed, params)], only_job=data["job"], cfg_override=cfgs, label="replay")
    elif data.get("kind") == "sort":
        reads = [(r[0], r[1], list(r[2]), r[3]) for r in data["reads"]]
        raw, bad = check_sort(ctx, [reads], label="replay")
        if bad:
            ctx.l2_disagreement("sort_reads = ReadSet.sort (L2)", [{"inserted": view(raw[0][0][0]), "real": raw[0][1]}])
            if any(o != raw[0][1][0] for o in raw[0][1][1:]):
                ctx.violation("readset-sort:insertion-order", f"ReadSet.sort depends on the insertion order: {raw[0][1]}",
                              data)
    elif data.get("kind") == "l2":
        run(ctx)
    else:
        run(ctx)
