"""C10 — haplotag conserves every alignment and tags it with the best-agreeing haplotype."""
import json
import os
import shutil
from concurrent.futures import ThreadPoolExecutor

from ..coqeval import term, Raw, Nat, opt, eval_shards, parse_eval_results, parse_nat_list
from .. import util
from .. import haplotag_gen as G

RULE = ("CLI stream: synthetic phased VCF (1-3 samples, ploidy 2-4, 1-3 phase sets per sample and chromosome, contiguous or "
        "interleaved, unphased / homozygous / PS-less calls) + indexed BAM (1-3 chromosomes, several read groups per sample, "
        "paired, secondary, supplementary, duplicate, low-MAPQ, placed-unmapped (also unmapped mates; contigs that hold only such "
        "records, last or in the middle of the header; contigs without any record) and unplaced-unmapped records, BX barcodes, "
        "stale HP/PS/PC tags, chimeric reads and varying base qualities so that scores tie or disagree); option combinations "
        "of --regions (none / whole chromosomes / single / open-ended / sorted-far / sorted-near / overlapping / unsorted / "
        "chromosome order), --tag-supplementary, --ignore-read-groups, --sample, --ignore-linked-read, "
        "--linked-read-distance-cutoff, --no-reference|--reference, --output-threads, --output-haplotag-list, --ploidy; every "
        "case is run twice (original VCF, VCF with the haplotypes of one phase set permuted). Unit stream: direct calls of "
        "prepare_haplotag_information + attempt_add_phase_information on exhaustive / random small score tables. A case is "
        "non-trivial if at least one alignment is tagged and at least one is untagged (CLI) / a decision is taken on a table "
        "with >= 2 covered variants (unit); distinct = distinct (files, options).")
TRUSTED = [
    "modelled, not verified: pysam/htslib (BAM/VCF parsing and writing, BGZF threads) and the semantics of AlignmentFile.fetch "
    "(a region yields, in file order, the alignments with reference_start < region end and bam_endpos > region start; "
    "contig='*' yields the unplaced unmapped records)",
    "supplied as data by the harness, not modelled: the variant table (VcfReader(phases=True)) and the read sets with the "
    "alleles/qualities detected by the real ReadSetReader (whatshap/variants.py), obtained by calling the same functions "
    "run_haplotag calls",
    "the end-to-end oracle EXPECT takes the generated truth (which haplotype a read copies) as given and observes allele "
    "detection together with the decision; it is only applied where the outcome cannot depend on detection details",
    "canonicalisation of BAM records into integers (all fields; all tags other than HP/PS/PC with their value types, array "
    "subtypes and raw order) by the harness",
    "the order in which the real code processes the samples is recorded by the driver (wrapper around PhasedInputReader.read) "
    "and handed to the model as data",
]
ASSUMPTIONS = [
    "the BAM is coordinate sorted and indexed (required by the tool), --linked-read-distance-cutoff >= 0",
    "read names and barcodes are identified together with the sample under which the tool files a decision (SM of the record's "
    "read group; none with --ignore-read-groups): the model's name / barcode ids are interned (sample key, text) pairs",
    "the order-independent rule for linked reads (linked_tag_ok) is claimed where it is well defined: read names of a read set "
    "distinct and 'within the cut-off' transitive among the reads of the barcode",
    "stream conservation is claimed for every run of the repaired region rule (run_fixed, what /repo implements after the "
    "fix); for the old rule (run_current, kept for the _refuted theorems) with --regions only when regions are sorted, pairwise "
    "disjoint and no alignment overlaps two regions",
    "swap symmetry theorem: the permuted phase set id occurs in one sample only, or the permutation is applied to that id in "
    "all samples",
]

HEADER = """From Coq Require Import ZArith List Bool Arith.
From WH.Model Require Import Haplotag.
Import ListNotations.
Open Scope Z_scope.
Record ccase := mkCase {
  k_cfg : config; k_chroms : list chrom; k_user : option (list (Z * region)); k_tail : list aln;
  k_ok : bool;                                   (* the real run exited with status 0 *)
  k_outs : list (Z * aln);                       (* written records: (chromosome index | -1, record with its HP/PS/PC) *)
  k_list : option (list (Z * option Z * option Z * Z));
  k_swap : option (list nat * Z * Z * list (option Z) * list (Z * tags3));
  k_exp : list (list (list vrow));               (* per chromosome, per processed sample: the table column as generated *)
  k_truth : list (Z * Z * Z) }.                  (* (record id, HP, PS) that error-free copies of one haplotype must receive *)
Definition out_pairs (c : ccase) := map (fun o => (a_id (snd o), a_old (snd o))) (k_outs c).
Definition outs_on (c : ccase) (k : Z) := map snd (filter (fun o => fst o =? k) (k_outs c)).
Definition L1cons (c : ccase) := k_ok c && conserved_spec (k_chroms c) (k_user c) (k_tail c) (out_pairs c).
Definition L1tag (c : ccase) :=
  forallb (fun kc => let os := outs_on c (Z.of_nat (fst kc)) in
                     tags_ok_chrom (k_cfg c) (snd kc) os (map (fun o => (a_id o, a_old o)) os))
          (combine (seq 0 (length (k_chroms c))) (k_chroms c)).
Definition L1link (c : ccase) :=
  forallb (fun kc => let os := outs_on c (Z.of_nat (fst kc)) in
                     linked_tags_ok_chrom (k_cfg c) (snd kc) os (map (fun o => (a_id o, a_old o)) os))
          (combine (seq 0 (length (k_chroms c))) (k_chroms c)).
Definition NOLINKAPPL (c : ccase) :=
  negb (existsb (fun kc => let os := outs_on c (Z.of_nat (fst kc)) in
                     linked_rule_applied (k_cfg c) (snd kc) os (map (fun o => (a_id o, a_old o)) os))
          (combine (seq 0 (length (k_chroms c))) (k_chroms c))).
Definition TABLE (c : ccase) :=
  negb (k_ok c) ||
  forallb (fun x => let '(k, (ch, ex)) := x in
             let regs := match k_user c with None => None | Some l => Some (regs_of (Z.of_nat k) l) end in
             Nat.eqb (length (c_samples ch)) (length ex) &&
             forallb (fun se => table_ok regs (fst (fst se)) (snd se)) (combine (c_samples ch) ex))
          (combine (seq 0 (length (k_chroms c))) (combine (k_chroms c) (k_exp c))).
(* end-to-end: a record that is an error-free copy of one haplotype of its sample, covers phased heterozygous
   variants of a single phase set that tell this haplotype from all others, is unpaired, usable and not barcoded,
   must come out with exactly that haplotype and phase set (the read detection is part of what is observed here) *)
Definition EXPECT (c : ccase) :=
  negb (k_ok c) ||
  forallb (fun e => let '(id, hp, ps) := e in
             forallb (fun o => negb (a_id (snd o) =? id)
                               || (oz_eqb (fst (fst (a_old (snd o)))) (Some hp) && oz_eqb (snd (fst (a_old (snd o)))) (Some ps)))
                     (k_outs c)) (k_truth c).
Definition L1swap (c : ccase) :=
  match k_swap c with
  | None => true
  | Some (p, bs, k, smp, out') => swap_ok p bs k smp (out_pairs c) out'
  end.
Definition m_cur (c : ccase) := oout_eqb (run_current (k_cfg c) (k_chroms c) (k_user c) (k_tail c)) (out_pairs c).
Definition m_fix (c : ccase) := oout_eqb (run_fixed (k_cfg c) (k_chroms c) (k_user c) (k_tail c)) (out_pairs c).
Definition NOTAMB (c : ccase) := negb (ambiguous (k_cfg c) (k_chroms c)).
(* /repo carries the repaired region rule and iterates the read group as a list (read first, then the
   others in read-set order, as the model does): L2 demands run_fixed exactly.  run_current is kept for
   the _refuted witnesses; OLDRULE only tallies runs that still match the old rule and not the new one. *)
Definition L2 (c : ccase) := negb (k_ok c) || m_fix c.
Definition OLDRULE (c : ccase) := negb (k_ok c) || m_fix c || negb (m_cur c).
Definition line_eqb (x y : Z * option Z * option Z * Z) :=
  (fst (fst (fst x)) =? fst (fst (fst y))) && oz_eqb (snd (fst (fst x))) (snd (fst (fst y)))
  && oz_eqb (snd (fst x)) (snd (fst y)) && (snd x =? snd y).
Definition lines_eqb := list_eqb line_eqb.
Definition L2list (c : ccase) :=
  match k_list c with
  | None => true
  | Some l => negb (k_ok c) || lines_eqb l (list_fixed (k_cfg c) (k_chroms c) (k_user c))
  end.
(* the list agrees with the written BAM records *)
Definition L1list (c : ccase) :=
  match k_list c with
  | None => true
  | Some l =>
      let placed := filter (fun o => 0 <=? fst o) (k_outs c) in
      let chs := flat_map (fun o => if a_secondary (snd o) || a_suppl (snd o) then [] else [fst o]) placed in
      lines_eqb l (map (fun x => (fst x, snd x)) (combine (list_of_records (map snd placed)) chs))
  end.
(* unit stream: (cfg, samples, alignments, implementation's tags) *)
Definition U_L2 (u : config * list sample_in * list aln * list tags3) :=
  let '(cfg, samples, alns, tags) := u in
  list_eqb tags_eqb (map (tag_aln cfg (prepare cfg samples)) alns) tags.
Definition U_L1 (u : config * list sample_in * list aln * list tags3) :=
  let '(cfg, samples, alns, tags) := u in
  tags_ok_chrom cfg (mkChrom samples alns) alns (map (fun t => (0, t)) tags)
  && linked_tags_ok_chrom cfg (mkChrom samples alns) alns (map (fun t => (0, t)) tags).
Definition U_NOLINKAPPL (u : config * list sample_in * list aln * list tags3) :=
  let '(cfg, samples, alns, tags) := u in
  negb (linked_rule_applied cfg (mkChrom samples alns) alns (map (fun t => (0, t)) tags)).
"""


# ====================================================================================== evaluation in Coq
def coq_error_summary(rc, out, ncases):
    """the beginning of coqc's message (location + error text), never the middle of a printed term"""
    if not out.strip():
        return f"coqc exited with status {rc} without output on a shard of {ncases} cases (killed / out of memory / timeout?)"
    lines = out.splitlines()
    start = next((i for i, ln in enumerate(lines) if ln.startswith("Error") or "Error:" in ln), None)
    if start is None:
        start = next((i for i, ln in enumerate(lines) if ln.startswith("File ")), 0)
    elif start > 0 and lines[start - 1].startswith("File "):
        start -= 1
    head = [ln[:240] + (" ..." if len(ln) > 240 else "") for ln in lines[start:start + 14]]
    return f"coqc exited with status {rc} on a shard of {ncases} cases:\n" + "\n".join(head)


def eval_checks(name, header, check_fns, cases, shard=300, timeout=900):
    """like coqeval.eval_checks, but errors keep the head of coqc's message"""
    shards, offsets, sizes = [], [], []
    labels = list(check_fns)
    for off in range(0, len(cases), shard):
        chunk = cases[off:off + shard]
        body = "Definition cases := [\n" + ";\n".join(chunk) + "\n].\n"
        for lab in labels:
            body += (f"Eval vm_compute in (map fst (filter (fun p => negb (snd p)) "
                     f"(combine (seq 0 (length cases)) (map ({check_fns[lab]}) cases)))).\n")
        shards.append(body)
        offsets.append(off)
        sizes.append(len(chunk))
    outs = eval_shards(name, header, shards, timeout=timeout)
    failing = {lab: [] for lab in labels}
    errors = []
    for off, n, (rc, out, _) in zip(offsets, sizes, outs):
        if rc != 0:
            errors.append((off, coq_error_summary(rc, out, n)))
            continue
        terms = parse_eval_results(out)
        if len(terms) != len(labels):
            errors.append((off, f"unexpected Eval output ({len(terms)} results for {len(labels)} checks), beginning:\n" + out[:1200]))
            continue
        for lab, t in zip(labels, terms):
            failing[lab] += [off + i for i in parse_nat_list(t)]
    return failing, errors


# ====================================================================================== BAM canonicalisation
class Intern:
    def __init__(self):
        self.d = {}

    def __call__(self, key):
        if key not in self.d:
            self.d[key] = len(self.d) + 1
        return self.d[key]


def endpos(a):
    if a.is_unmapped or not a.cigartuples:
        return a.reference_start + 1
    rl = sum(n for op, n in a.cigartuples if op in (0, 2, 3, 7, 8))
    return a.reference_start + (rl if rl > 0 else 1)


def tagval(tags, t):
    for k, v, _ in tags:
        if k == t:
            return v if isinstance(v, int) else -999
    return None


def parse_bam(path, names, bxs, contents, rg_sample, ignore_rg=False):
    """names / barcodes are interned together with the sample key under which the tool files a decision:
    (SM of the record's read group | None, name); with --ignore-read-groups the key is None for everything."""
    import pysam
    recs = []
    with pysam.AlignmentFile(path, check_sq=False) as f:
        for a in f:
            tags = a.get_tags(with_value_type=True)
            # all other tags: type-exact (value type, array subtype through repr) and in their raw order
            other = tuple((k, t, repr(v)) for k, v, t in tags if k not in ("HP", "PS", "PC"))
            quals = tuple(a.query_qualities) if a.query_qualities is not None else None
            key = (a.query_name, a.flag, a.reference_id, a.reference_start, a.mapping_quality, a.cigarstring,
                   a.next_reference_id, a.next_reference_start, a.template_length, a.query_sequence, quals, other)
            bx = None
            rg = None
            for k, v, _ in tags:
                if k == "RG":
                    rg = v
            skey = None if ignore_rg else rg_sample.get(rg)
            for k, v, _ in tags:
                if k == "BX" and v != "":
                    bx = bxs(("bx", skey, v))
            recs.append(dict(tid=a.reference_id, id=contents(key), name=names((skey, a.query_name)), start=a.reference_start,
                             end=endpos(a), unmapped=a.is_unmapped, secondary=a.is_secondary, suppl=a.is_supplementary, bx=bx,
                             tags=(tagval(tags, "HP"), tagval(tags, "PS"), tagval(tags, "PC")),
                             sample=rg_sample.get(rg), qname=a.query_name, flag=a.flag, rg=rg, other=other, core=key[:11]))
    return recs


def aln_term(r):
    hp, ps, pc = r["tags"]
    return Raw(f"(mkAln {term(r['id'])} {term(r['name'])} {term(r['start'])} {term(r['end'])} {term(bool(r['unmapped']))} "
               f"{term(bool(r['secondary']))} {term(bool(r['suppl']))} {term(opt(r['bx']))} "
               f"({term(opt(hp))}, {term(opt(ps))}, {term(opt(pc))}))")


def tags_term(t):
    return Raw(f"({term(opt(t[0]))}, {term(opt(t[1]))}, {term(opt(t[2]))})")


def read_term(r, names, bxs, skey=None):
    name, start, bx, vs = r
    return Raw(f"(mkRead {term(names((skey, name)))} {term(start)} {term(opt(bxs(('bx', skey, bx)) if bx else None))} "
               f"{term([(p, a, q) for p, a, q in vs])})")


def rows_term(rows):
    return term([(p, bool(h), opt(None if ph is None else (ph[0], list(ph[1])))) for p, h, ph in rows])


def cfg_term(o):
    cutoff = 50000 if o.get("cutoff") is None else o["cutoff"]
    return Raw(f"(mkCfg {o['ploidy']}%nat {term(not o['ignore_linked_read'])} {term(cutoff)} {term(bool(o['tag_supplementary']))})")


# ====================================================================================== running one CLI case
DRV = "from harness.haplotag_drv import main; main()"


def run_case(ctx, case, keep=False):
    wd = util.workdir(ctx, "C10")
    try:
        files = G.materialize(case, wd)
        o = case["opts"]
        out_bam, out_list = os.path.join(wd, "out.bam"), G.list_path(case, wd)
        rc, _, err = util.run_cli(ctx, G.cli_args(case, files, "vcf", out_bam, out_list), cwd=wd)
        res = {"rc": rc, "stderr": err.strip().splitlines()[-1][:300] if rc != 0 and err.strip() else ""}
        req = {"vcf": files["vcf"], "bam": files["bam"], "ref": None if o["no_reference"] else files["ref"], "opts": o}
        rc2, so, se = util.run_py(ctx, DRV, cwd=wd, stdin=json.dumps(req))
        try:
            ext = json.loads(so)
        except Exception:
            ext = {"error": "driver crashed: " + se[-400:]}
        res["ext"] = ext
        names, bxs, contents = Intern(), Intern(), Intern()
        rg_sample = {r["ID"]: r.get("SM") for r in case["rgs"]}
        irg = o["ignore_read_groups"]
        res["inp"] = parse_bam(files["bam"], names, bxs, contents, rg_sample, irg)
        res["out"] = parse_bam(out_bam, names, bxs, contents, rg_sample, irg) if rc == 0 and os.path.exists(out_bam) else []
        res["list"] = None
        if rc == 0 and o["haplotag_list"] and os.path.exists(out_list):
            lines = []
            import gzip
            for ln in (gzip.open(out_list, "rt") if out_list.endswith(".gz") else open(out_list)):
                if ln.startswith("#"):
                    continue
                n, h, ps, ch = ln.rstrip("\n").split("\t")
                # the list has bare names: line i belongs to the i-th written primary record of the chromosome loop
                prim = res.setdefault("_prim", [x for x in res["out"] if x["tid"] >= 0 and not x["secondary"] and not x["suppl"]])
                k = len(lines)
                nid = prim[k]["name"] if k < len(prim) and prim[k]["qname"] == n else names(("?list", k, n))
                lines.append((nid, None if h == "none" else int(h[1:]), None if ps == "none" else int(ps),
                              case["chroms"].index(ch) if ch in case["chroms"] else -5))
            res["list"] = lines
        res["swapped"] = None
        if case.get("swap") and rc == 0:
            out2 = os.path.join(wd, "out_swapped.bam")
            rc3, _, err3 = util.run_cli(ctx, G.cli_args(case, files, "vcf_swapped", out2, None), cwd=wd)
            res["swapped"] = parse_bam(out2, names, bxs, contents, rg_sample, irg) if rc3 == 0 else []
        res["interns"] = (names, bxs)
        return res
    finally:
        if not keep:
            shutil.rmtree(wd, ignore_errors=True)


def parsed_regions(case, res):
    """[(chrom index, start, end|None)] in the order given, from the real Region.parse (driver) or re-derived."""
    ext = res["ext"]
    if case["opts"]["regions"] is None:
        return None
    raw = ext.get("raw_regions")
    if raw is None:
        raw = []
        for spec in case["opts"]["regions"]:
            c, _, rest = spec.partition(":")
            if not rest:
                raw.append([c, 0, None])
            else:
                s, _, e = rest.partition("-")
                raw.append([c, int(s) - 1, int(e) if e else None])
    return [(case["chroms"].index(c), s, e) for c, s, e in raw]


def region_class(case, res):
    regs = parsed_regions(case, res)
    if regs is None:
        return "no-regions"
    inf = 10 ** 12
    per = {}
    for k, s, e in regs:
        per.setdefault(k, []).append((s, inf if e is None else e))
    for rs in per.values():
        for i in range(len(rs)):
            for j in range(i + 1, len(rs)):
                if rs[i][0] < rs[j][1] and rs[j][0] < rs[i][1]:
                    return "overlapping-regions"
    order = []
    for k, _, _ in regs:
        if k not in order:
            order.append(k)
    if order != sorted(order) or any([x[0] for x in rs] != sorted(x[0] for x in rs) for rs in per.values()):
        return "unsorted-regions"
    for r in res["inp"]:
        if r["tid"] in per and sum(1 for s, e in per[r["tid"]] if r["start"] < e and r["end"] > s) >= 2:
            return "alignment-spanning-regions"
    return "disjoint-regions"


CONS_SIG = {"overlapping-regions": "haplotag:overlapping-regions-duplicate",
            "unsorted-regions": "haplotag:unsorted-regions",
            "alignment-spanning-regions": "haplotag:alignment-spanning-regions-duplicate",
            "disjoint-regions": "haplotag:conservation-disjoint-regions",
            "no-regions": "haplotag:conservation-no-regions"}


def case_term(case, res):
    o = case["opts"]
    names, bxs = res["interns"]
    ext = res["ext"]
    chroms = case["chroms"]
    order = ext.get("samples_order") or []
    cts = []
    exps = []
    for ci, c in enumerate(chroms):
        e = (ext.get("chroms") or {}).get(c)
        samples = []
        exps.append([Raw(rows_term(G.expected_rows(case, c, s))) for s in order] if e else [])
        if e:
            for s in order:
                samples.append(Raw("(" + rows_term(e["rows"][s]) + ", " + term([read_term(r, names, bxs, None if o["ignore_read_groups"] else s) for r in e["reads"][s]]) + ")"))
        alns = [aln_term(r) for r in res["inp"] if r["tid"] == ci]
        cts.append(Raw(f"(mkChrom {term(samples)} {term(alns)})"))
    regs = parsed_regions(case, res)
    user = None if regs is None else [(k, (s, opt(e))) for k, s, e in regs]
    tail = [aln_term(r) for r in res["inp"] if r["tid"] < 0]
    outs = [(r["tid"], aln_term(r)) for r in res["out"]]
    lst = None if res["list"] is None else [(n, opt(h), opt(ps), ch) for n, h, ps, ch in res["list"]]
    sw = None
    swp = case.get("swap")
    if swp and res["swapped"] is not None and res["rc"] == 0:
        single = o["ignore_read_groups"]
        if not (single and len(order) != 1):
            k = order.index(swp["sample"]) if swp["sample"] in order else -1
            smp = []
            for r in res["out"]:
                if r["tid"] < 0:
                    smp.append(None)        # unplaced unmapped tail: copied with whatever tags it had
                elif single:
                    smp.append(opt(0))
                else:
                    smp.append(opt(order.index(r["sample"]) if r["sample"] in order else None))
            out2 = [(r["id"], tags_term(r["tags"])) for r in res["swapped"]]
            sw = ([Nat(j) for j in swp["perm"]], swp["ps"], k, smp, out2)
    return (f"(mkCase {cfg_term(o)} {term(cts)} {term(opt(user))} {term(tail)} {term(res['rc'] == 0)} {term(outs)} "
            f"{term(opt(lst))} {term(opt(sw))} {term(exps)} {term(expected_tags(case, res))})")


def expected_tags(case, res):
    """[(record id, HP, PS)] for the records whose tag is certain from the generated truth (see EXPECT in HEADER).
    Conservative: every condition that could make allele detection or the decision depend on details is excluded."""
    o = case["opts"]
    ext = res["ext"]
    order = ext.get("samples_order") or []
    chs = ext.get("chroms") or {}
    if res["rc"] != 0 or not order:
        return []
    names_by_sample = {}
    for a in case["alns"]:
        names_by_sample.setdefault(a["name"], set()).add(a["sample"])
    # the input record of a generated alignment: name, position, flag AND read group (names may be shared between samples);
    # ambiguous keys (identical twins) get no expectation
    by_key, twins = {}, set()
    for r in res["inp"]:
        k = (r["qname"], r["start"], r["tid"], r["flag"], r["rg"])
        if k in by_key:
            twins.add(k)
        by_key[k] = r
    regs = parsed_regions(case, res)
    out = []
    res["_expect_bridge"] = 0
    for a in case["alns"]:
        h = a.get("truth")
        if h is None or (a["flag"] & ~0x400) != 0 or a["mapq"] < 20 or any(t[0] == "BX" for t in a["tags"]):
            continue
        smp = a["sample"]
        if o["ignore_read_groups"]:
            if len(order) != 1 or smp != order[0] or len(names_by_sample[a["name"]]) > 1:
                continue
        elif smp not in order:
            continue
        e = chs.get(a["chrom"])
        if not e or smp not in e["rows"]:
            continue
        st = a["start"]
        en = st + sum(n for op, n in a["cigar"] if op in "MDN=X")
        tid = case["chroms"].index(a["chrom"])
        if regs is not None and not any(k == tid and st < (10 ** 12 if e_ is None else e_) and en > s_ for k, s_, e_ in regs):
            continue                                  # not written at all
        near = [v for v in case["variants"][a["chrom"]] if st - 6 <= v[0] < en + 6]
        if any(len(v[1]) != 1 or len(v[2]) != 1 for v in near):
            continue                                  # only SNVs in reach of the read
        blocks, p = [], st
        for op, n in a["cigar"]:
            if op in "M=X":
                blocks.append((p, p + n))
                p += n
            elif op in "DN":
                p += n
        table = {pos: ph for pos, _, ph in e["rows"][smp] if ph is not None}
        maybe = [pos for pos in table if st <= pos < en]
        sure = [pos for pos in maybe if any(b0 + 12 <= pos < b1 - 12 for b0, b1 in blocks)]
        if not sure or len({table[pos][0] for pos in maybe}) != 1:
            continue
        ps = table[sure[0]][0]
        pl = case["ploidy"]
        if any(table[pos][1][h] != case["calls"][smp][a["chrom"]][[v[0] for v in case["variants"][a["chrom"]]].index(pos)]["gt"][h]
               for pos in maybe):
            continue                                  # (swapped tables are not used here) sanity: truth equals the table
        if not all(any(table[pos][1][h2] != table[pos][1][h] for pos in sure) for h2 in range(pl) if h2 != h):
            continue
        k = (a["name"], st, tid, a["flag"], a.get("rg"))
        r = by_key.get(k)
        if r is None or k in twins:
            continue
        out.append((r["id"], h + 1, ps))
        if regs is not None and sum(1 for k, s_, e_ in regs if k == tid) >= 2 and any(k == tid and e_ is not None and abs(e_ - st) <= 1 for k, s_, e_ in regs):
            res["_expect_bridge"] += 1
    res["_expect_n"] = len(out)
    return out


def nontrivial(res):
    t = [r for r in res["out"] if r["tags"][0] is not None]
    return bool(t) and len(t) < len(res["out"])


CHECKS = {"L1cons": "L1cons", "L1tag": "L1tag", "L1link": "L1link", "TABLE": "TABLE", "EXPECT": "EXPECT", "L1swap": "L1swap", "L1list": "L1list",
          "L2": "L2", "L2list": "L2list", "NOTAMB": "NOTAMB", "OLDRULE": "OLDRULE", "NOLINKAPPL": "NOLINKAPPL"}
INFO_LABELS = {"NOTAMB", "OLDRULE", "NOLINKAPPL"}


def check_cases(ctx, cases, label, report=True):
    """run + evaluate; returns list of dicts (case, res, fails=set(labels))."""
    with ThreadPoolExecutor(max_workers=12) as ex:
        results = list(ex.map(lambda c: run_case(ctx, c), cases))
    # malformed stream: inputs the tool rejects by design (no sample shared by VCF and BAM) are compared
    # on the error class only (CLI and the driver calling compute_shared_samples must both reject)
    kept_c, kept_r = [], []
    for c, r in zip(cases, results):
        if r["rc"] != 0 and "No common samples" in r["stderr"]:
            if report:
                ctx.tally("cli.rejected.no_common_samples")
                ctx.count(("cli-rejected", json.dumps(c["opts"], sort_keys=True)), nontrivial=False)
                if "No common samples" not in (r["ext"].get("error") or ""):
                    ctx.violation("haplotag:error-class", "CLI rejects the input (no common samples) but compute_shared_samples "
                                  "accepts it: " + describe(c, r), {"kind": "cli", "case": c})
            continue
        kept_c.append(c)
        kept_r.append(r)
    cases, results = kept_c, kept_r
    if not cases:
        return []
    terms = [case_term(c, r) for c, r in zip(cases, results)]
    shard = min(40, max(1, -(-len(terms) // 16)))
    failing, errors = eval_checks("C10cli", HEADER, CHECKS, terms, shard=shard)
    if errors:
        raise RuntimeError(f"coq evaluation failed in {len(errors)} shard(s); first (cases from index {errors[0][0]}): " + errors[0][1])
    out = []
    for i, (c, r) in enumerate(zip(cases, results)):
        fails = {lab for lab in CHECKS if i in failing[lab]}
        out.append(dict(case=c, res=r, fails=fails))
        if not report:
            continue
        rcls = region_class(c, r)
        ctx.count(("cli", json.dumps(c, sort_keys=True)), nontrivial=nontrivial(r))
        ctx.tally(f"cli.{label}.runs")
        ctx.tally("cli.regions." + rcls)
        ctx.tally("cli.ploidy.%d" % c["ploidy"])
        ctx.tally("cli.alignments", len(r["inp"]))
        ctx.tally("cli.placed_unmapped_records", sum(1 for x in r["inp"] if x["unmapped"] and x["tid"] >= 0))
        if "chrU" in c["chroms"]:
            ctx.tally("cli.contig_with_only_unmapped_records." + ("last" if c["chroms"][-1] == "chrU" else "middle"))
        if any(not any(x["tid"] == i for x in r["inp"]) for i in range(len(c["chroms"]) - 1)):
            ctx.tally("cli.empty_contig_before_last")
        ctx.tally("cli.tagged_records", sum(1 for x in r["out"] if x["tags"][0] is not None))
        ctx.tally("cli.reads_with_alleles", sum(len(v) for e in (r["ext"].get("chroms") or {}).values() for v in e["reads"].values()))
        for k in ("tag_supplementary", "ignore_read_groups", "ignore_linked_read", "no_reference", "haplotag_list"):
            if c["opts"][k]:
                ctx.tally("cli.opt." + k)
        if c["opts"]["samples"]:
            ctx.tally("cli.opt.sample")
        if c["opts"]["output_threads"] != 1:
            ctx.tally("cli.opt.output_threads")
        if c.get("swap") and r["swapped"] is not None:
            ctx.tally("cli.swap_runs")
        if r["rc"] != 0:
            ctx.tally("cli.error_exit")
        if "NOTAMB" in fails:
            ctx.tally("cli.group_with_tied_phase_sets")
        ctx.tally("cli.truth.records_with_certain_expected_tag", r.get("_expect_n", 0))
        if r.get("_expect_bridge"):
            ctx.tally("cli.truth.expected_tag_on_record_starting_within_1_of_an_earlier_region_end", r["_expect_bridge"])
        if c.get("bridge"):
            ctx.tally("cli.bridge." + c["bridge"])
        if "NOLINKAPPL" in fails:
            ctx.tally("cli.bx.runs_where_cloud_rule_applied_to_split_barcode")
        feature_tallies(ctx, c, r)
        if "OLDRULE" in fails:
            ctx.tally("cli.matches_old_region_rule_only")
    return out


def feature_tallies(ctx, c, r):
    """input-distribution counters for the coverage audit (per run: 1 if the feature occurs, unless stated)"""
    t = ctx.tally
    o = c["opts"]
    t("cli.cutoff." + str(o["cutoff"]))
    if shared_between_samples(r):
        t("cli.samples.read_name_in_two_samples" + (".ignore_read_groups" if o["ignore_read_groups"] else ""))
    if c.get("shared_bx") and c.get("bx"):
        t("cli.samples.barcodes_shared_by_samples")
    if c.get("bx_traps") and not o["ignore_linked_read"]:
        t("cli.bx.runs_with_constructed_far-before-near_barcode")
    t("cli.region_kind." + c.get("region_kind", "?"))
    t("cli.vcf.phase_tag." + c.get("phase_tag", "PS"))
    if o.get("list_gz") and o["haplotag_list"]:
        t("cli.opt.list_gz")
    if c["samples"] != sorted(c["samples"]):
        t("cli.samples.vcf_order_not_sorted")
    if o["samples"] and len(o["samples"]) > 1 and o["samples"] != sorted(o["samples"]):
        t("cli.samples.--sample_order_not_sorted")
    sms = [g.get("SM") for g in c["rgs"]]
    if any(sms[i] != sms[i + 1] and sms[i] in sms[i + 2:] for i in range(len(sms) - 1)):
        t("cli.rg.sample_with_non_adjacent_read_groups")
    if sms:
        t("cli.rg.max_groups_per_sample.%d" % max(sms.count(x) for x in set(sms)))
    if None in sms:
        t("cli.rg.group_without_SM")
    if not sms:
        t("cli.rg.no_RG_header")
    ex = [e for v in c.get("extra_records", {}).values() for e in v]
    ext_ch = r["ext"].get("chroms") or {}
    covered = {(ch, v[0]) for ch, e in ext_ch.items() for rs in e["reads"].values() for rd in rs for v in rd[3]}
    for ch, v in c.get("extra_records", {}).items():
        for e in v:
            t("cli.vcf.extra_record." + ("multiALT_" if len(e["alts"]) > 1 else "duplicate_pos_") + e["where"], 1)
            if e["where"] == "before" and (ch, e["pos"]) in covered:
                t("cli.vcf.multiALT_twin_of_phased_het_covered_by_a_detected_read", 1)
    if c.get("vcf_extra_contig"):
        t("cli.vcf.contig_unknown_to_bam." + c["vcf_extra_contig"])
    for a in c["alns"]:
        ops = {x[0] for x in a["cigar"]}
        f = a["flag"]
        for name, cond in (("reference_skip_N", "N" in ops), ("soft_clip", "S" in ops), ("hard_clip", "H" in ops),
                           ("indel_in_cigar", bool(ops & {"I", "D"})), ("secondary", f & 0x100), ("supplementary", f & 0x800),
                           ("duplicate", f & 0x400), ("placed_unmapped", f & 0x4),
                           ("paired_same_strand", (f & 0x1) and not (f & 0x4) and not (f & 0x30)),
                           ("paired_opposite_strand", (f & 0x1) and not (f & 0x4) and (f & 0x30)),
                           ("mapq_19", a["mapq"] == 19), ("mapq_20", a["mapq"] == 20), ("mapq_below_19", 0 < a["mapq"] < 19),
                           ("stale_HP_PS_PC", any(x[0] in ("HP", "PS", "PC") for x in a["tags"])),
                           ("typed_tags_with_stale_HP_PS_PC", any(len(x) == 3 for x in a["tags"])
                            and any(x[0] in ("HP", "PS", "PC") for x in a["tags"])),
                           ("typed_tags_without_stale", any(len(x) == 3 for x in a["tags"])
                            and not any(x[0] in ("HP", "PS", "PC") for x in a["tags"])),
                           ("BX", any(x[0] == "BX" for x in a["tags"]))):
            if cond:
                t("cli.records." + name)
    for a in c["alns"] + c["tail"]:
        for x in a["tags"]:
            if len(x) == 3:
                t("cli.tag_type." + x[2])
    stale_names = {(a["name"], a["start"]) for a in c["alns"] if any(len(x) == 3 for x in a["tags"])
                   and any(x[0] in ("HP", "PS", "PC") for x in a["tags"])}
    t("cli.records.stale_and_typed_tags_and_written_untagged",
      sum(1 for x in r["out"] if x["tid"] >= 0 and x["tags"][0] is None and (x["qname"], x["start"]) in stale_names))
    # decisions, recomputed by a python oracle from the driver's data (tally only)
    d = 50000 if o["cutoff"] is None else o["cutoff"]
    for ch, e in ext_ch.items():
        for smp, reads in e["reads"].items():
            info = {p: ph for p, _, ph in e["rows"][smp] if ph is not None}
            t("cli.read_sets.size_0" if not reads else "cli.read_sets.size_1" if len(reads) == 1 else "cli.read_sets.size_2+")
            for rd in reads:
                tab = {}
                for p, al, q in rd[3]:
                    if p in info:
                        ps, ph = info[p]
                        if al in ph:
                            v = tab.setdefault(ps, [0] * len(ph))
                            for i, x in enumerate(ph):
                                if x == al:
                                    v[i] += q
                if len(tab) >= 2:
                    t("cli.reads.covering_2+_phase_sets")
                    mx = sorted((max(v) for v in tab.values()), reverse=True)
                    if mx[0] == mx[1]:
                        t("cli.reads.phase_sets_with_equal_maximum")
                if tab:
                    best = max(tab.values(), key=max)
                    sv = sorted(best, reverse=True)
                    t("cli.reads.tie_at_top" if sv[0] == sv[1] else "cli.reads.strict_best")
                    if sv[0] != sv[1] and len(sv) > 2 and sv[1] == sv[2]:
                        t("cli.reads.tie_for_second_place(ploidy>2)")
                    if 0 in [q for _, _, q in rd[3]]:
                        t("cli.reads.with_quality_0_allele")
            if not o["ignore_linked_read"]:
                by = {}
                for rd in reads:
                    if rd[2]:
                        by.setdefault(rd[2], []).append(rd)
                for b, lst in by.items():
                    t("cli.bx.barcode_groups.size_1" if len(lst) == 1 else "cli.bx.barcode_groups.size_2+")
                    a0 = lst[0][1]
                    far_seen = False
                    for rd in lst[1:]:
                        if abs(rd[1] - a0) > d:
                            far_seen = True
                        elif far_seen:
                            t("cli.bx.far_read_listed_before_near_read")
                            break
                    if any(abs(x[1] - a0) > d for x in lst[1:]) and any(abs(x[1] - a0) <= d for x in lst[1:]):
                        t("cli.bx.barcode_with_near_and_far_reads")


def shared_between_samples(r):
    """does a read name or barcode occur in the read groups of two different samples of the input BAM?"""
    seen = {}
    for x in r["inp"]:
        if x["tid"] >= 0:
            seen.setdefault(x["qname"], set()).add(x["sample"])
    return any(len(v) > 1 for v in seen.values())


def first_difference(r):
    """human-readable reason for a conservation failure when a written record has no identical input record"""
    known = {x["id"] for x in r["inp"]}
    for o in r["out"]:
        if o["id"] in known:
            continue
        twin = [x for x in r["inp"] if x["core"] == o["core"]]
        if twin:
            a, b = twin[0]["other"], o["other"]
            if sorted(a) == sorted(b):
                return f" [record {o['qname']}@{o['start']}: order of the other tags changed: {[t[0] for t in a]} -> {[t[0] for t in b]}]"
            return (f" [record {o['qname']}@{o['start']}: tags other than HP/PS/PC differ (tag, type, value): "
                    f"input-only {sorted(set(a) - set(b))[:4]} output-only {sorted(set(b) - set(a))[:4]}]")
        return f" [record {o['qname']}@{o['start']} flag {o['flag']}: a field other than the tags differs from every input record]"
    return ""


def describe(c, r):
    o = c["opts"]
    return (f"regions={o['regions']} ploidy={c['ploidy']} samples={o['samples']} opts="
            f"{[k for k in ('tag_supplementary', 'ignore_read_groups', 'ignore_linked_read', 'no_reference') if o[k]]} "
            f"cutoff={o['cutoff']} input_alignments={len(r['inp'])} output_records={len(r['out'])} rc={r['rc']} {r['stderr']}")


def cons_fails_py(ctx, case):
    """python oracle (search/shrinking only): does the real run violate stream conservation on this case?"""
    r = run_case(ctx, case)
    regs = parsed_regions(case, r)
    if regs is None:
        exp = [x["id"] for x in r["inp"]]
    else:
        inf = 10 ** 12
        exp = [x["id"] for x in r["inp"] if x["tid"] >= 0 and
               any(k == x["tid"] and x["start"] < (inf if e is None else e) and x["end"] > s for k, s, e in regs)]
    return r["rc"] != 0 or [x["id"] for x in r["out"]] != exp, r


def minimize(ctx, case, cls, budget=45):
    """shrink regions, then alignments, keeping the same input class and a conservation failure."""
    runs = [0]

    def bad(c):
        if runs[0] >= budget:
            return False
        runs[0] += 1
        try:
            f, r = cons_fails_py(ctx, c)
        except Exception:
            return False
        return f and region_class(c, r) == cls
    cur = json.loads(json.dumps(case))
    cur["swap"] = None
    cur["opts"]["haplotag_list"] = False
    if not bad(cur):
        return case
    if cur["opts"]["regions"]:
        regs = util.shrink_list(cur["opts"]["regions"], lambda rs: bool(rs) and bad(dict(cur, opts=dict(cur["opts"], regions=rs))))
        cur["opts"]["regions"] = regs
    cur["tail"] = [] if bad(dict(cur, tail=[])) else cur["tail"]
    cur["alns"] = util.shrink_list(cur["alns"], lambda al: bool(al) and bad(dict(cur, alns=al)))
    return cur


def report_cli(ctx, evaluated, shrink=True):
    seen = set()
    l2 = []
    for e in evaluated:
        c, r, fails = e["case"], e["res"], e["fails"]
        if "L1cons" in fails:
            cls = region_class(c, r)
            sig = CONS_SIG[cls]
            rep = c
            if shrink and sig not in seen:
                small = minimize(ctx, c, cls)
                if small is not c:
                    ev = check_cases(ctx, [small], "shrunk", report=False)[0]
                    if "L1cons" in ev["fails"] and region_class(small, ev["res"]) == cls:
                        rep, r = small, ev["res"]
            seen.add(sig)
            ctx.violation(sig, f"output stream is not the input stream restricted to the regions ({cls}): " + describe(rep, r)
                          + first_difference(r),
                          {"kind": "cli", "case": rep})
        if "L1tag" in fails:
            shared = shared_between_samples(r)
            ctx.violation("haplotag:read-name-shared-by-two-samples-mistagged" if shared else "haplotag:tag-rule",
                          ("an alignment of one sample carries tags that are not the decision for that sample's read of this name "
                           "(read names / barcodes occur in several samples of the BAM): " if shared else
                           "a written alignment's HP/PS/PC contradict the best-haplotype rule: ") + describe(c, r),
                          {"kind": "cli", "case": c})
        if "L1link" in fails:
            ctx.violation("haplotag:tag-rule-linked", "an alignment tagged through its own read does not carry the best haplotype of "
                          "its (order-independent) read cloud: " + describe(c, r), {"kind": "cli", "case": c})
        if "EXPECT" in fails:
            ctx.violation("haplotag:decidable-read-not-tagged-with-its-haplotype", "a usable, unpaired, non-barcoded record that is an "
                          "error-free copy of one haplotype and covers phased heterozygous variants telling it from the others is "
                          "not written with that haplotype and phase set: " + describe(c, r), {"kind": "cli", "case": c})
        if "TABLE" in fails:
            ctx.violation("haplotag:phased-variant-table", "the variant table used for tagging is not the table of the VCF's biallelic "
                          "records (a phased heterozygous variant is lost or altered): " + describe(c, r), {"kind": "cli", "case": c})
        if "L1swap" in fails:
            ctx.violation("haplotag:swap-symmetry", f"permuting the haplotypes of phase set {c['swap']} does not permute HP for exactly "
                          "the reads of that set: " + describe(c, r), {"kind": "cli", "case": c})
        if "L1list" in fails:
            ctx.violation("haplotag:list-phaseset-of-untagged-read", "the haplotag list disagrees with the HP/PS tags written to the "
                          "BAM (an untagged read is listed with a phase set): " + describe(c, r), {"kind": "cli", "case": c})
        if "L2" in fails or "L2list" in fails:
            l2.append({"case": c, "failed": sorted(fails & {"L2", "L2list"}), "what": describe(c, r)})
    return l2


# ====================================================================================== unit stream
def unit_impl(samples_rows, samples_reads, cfg, alns):
    """Direct call of the real prepare_haplotag_information / attempt_add_phase_information.
    samples_rows: [[(pos, hom, None|(block, [alleles]))]] per sample; samples_reads: [[(name, start, bx|None, [(pos, al, q)])]];
    alns: [(name, start, bx|None, sample index|None)]. Returns the tags per alignment."""
    import inspect
    import pysam
    from whatshap.cli import haplotag as H
    from whatshap.core import Read, ReadSet, Genotype
    from whatshap.vcf import VariantTable, VariantCallPhase, BiallelicVcfVariant
    snames = [f"s{i}" for i in range(len(samples_rows))]
    table = VariantTable("chrU", snames)
    positions = sorted({p for rows in samples_rows for p, _, _ in rows})
    for p in positions:
        gts, phs = [], []
        for rows in samples_rows:
            row = [r for r in rows if r[0] == p]
            if row:
                _, hom, ph = row[0]
                gts.append(Genotype([0] * cfg["ploidy"]) if hom else Genotype([0] * (cfg["ploidy"] - 1) + [1]))
                phs.append(None if ph is None else VariantCallPhase(block_id=ph[0], phase=tuple(ph[1]), quality=None))
            else:
                gts.append(Genotype([0] * cfg["ploidy"]))
                phs.append(None)
        table.add_variant(BiallelicVcfVariant(p, "A", "C"), gts, phs, [None] * len(snames), [None] * len(snames))

    class FakeReader:
        def read(self, chromosome, variants, sample, regions=None):
            rs = ReadSet()
            for name, start, bx, vs in samples_reads[snames.index(sample)]:
                r = Read(name, 60, 0, snames.index(sample), start, bx or "")
                for p, a, q in vs:
                    r.add_variant(p, a, q)
                rs.add(r)
            return rs, None
    bx2h, r2h, _ = H.prepare_haplotag_information(table, snames, FakeReader(), [(0, None)], not cfg["linked"], cfg["cutoff"],
                                                  cfg["ploidy"])
    out = []
    per_sample = "sample" in inspect.signature(H.attempt_add_phase_information).parameters
    for name, start, bx, smp in alns:
        a = pysam.AlignedSegment()
        a.query_name = name
        a.reference_start = start
        a.set_tags([("HP", 7), ("PS", 7), ("PC", 7)] + ([("BX", bx)] if bx else []))
        extra = (None if smp is None else snames[smp],) if per_sample else ()
        tagged, _, _ = H.attempt_add_phase_information(a, r2h, bx2h, cfg["cutoff"], not cfg["linked"], *extra)
        if not tagged:
            for t in ("HP", "PS", "PC"):
                a.set_tag(t, value=None)
        d = dict(a.get_tags())
        out.append((d.get("HP"), d.get("PS"), d.get("PC")))
    return out


def unit_term(samples_rows, samples_reads, cfg, alns, tags):
    names, bxs = Intern(), Intern()
    st = [Raw("(" + rows_term([(p, h, ph) for p, h, ph in rows]) + ", " + term([read_term(r, names, bxs, i) for r in reads]) + ")")
          for i, (rows, reads) in enumerate(zip(samples_rows, samples_reads))]
    al = [Raw(f"(mkAln 0 {term(names((k, n)))} {term(s)} {term(s + 1)} false false false "
              f"{term(opt(bxs(('bx', k, b)) if b else None))} (None, None, None))") for n, s, b, k in alns]
    cfgt = Raw(f"(mkCfg {cfg['ploidy']}%nat {term(cfg['linked'])} {term(cfg['cutoff'])} false)")
    return f"({cfgt}, {term(st)}, {term(al)}, {term([tags_term(t) for t in tags])})"


def gen_unit_exhaustive(level):
    """one sample, ploidy 2, two variants in one or two phase sets, one or two reads over (allele, quality) grids."""
    import itertools
    quals = [0, 1, 2] if level < 2 else [0, 1, 2, 3]
    cells = [None] + [(a, q) for a in (0, 1) for q in quals]
    for blocks in ((5, 5), (5, 9)):
        for ph in itertools.product(((0, 1), (1, 0)), repeat=2):
            rows = [(10, False, (blocks[0], list(ph[0]))), (20, False, (blocks[1], list(ph[1])))]
            for c1, c2 in itertools.product(cells, repeat=2):
                vs = [(p, c[0], c[1]) for p, c in ((10, c1), (20, c2)) if c is not None]
                if not vs:
                    continue
                cfg = dict(ploidy=2, linked=True, cutoff=100)
                yield [rows], [[("r1", 0, None, vs)]], cfg, [("r1", 0, None, 0), ("other", 0, None, 0)]
    # two linked reads with one variant each
    for ph in itertools.product(((0, 1), (1, 0)), repeat=2):
        rows = [(10, False, (5, list(ph[0]))), (20, False, (5, list(ph[1])))]
        for (a1, q1), (a2, q2) in itertools.product([(a, q) for a in (0, 1) for q in (1, 2)], repeat=2):
            for dist in (50, 150):
                for linked in (True, False):
                    cfg = dict(ploidy=2, linked=linked, cutoff=100)
                    reads = [("r1", 0, "B", [(10, a1, q1)]), ("r2", dist, "B", [(20, a2, q2)])]
                    yield [rows], [reads], cfg, [("r1", 0, "B", 0), ("r2", dist, "B", 0), ("r3", 60, "B", 0), ("r4", 400, "B", 0),
                                                 ("r5", 0, None, 0)]


def gen_unit_random(rng, n):
    for _ in range(n):
        pl = rng.choice([2, 2, 3, 4])
        ns = rng.choice([1, 1, 2])
        nv = rng.randint(1, 6)
        positions = sorted(rng.sample(range(1, 60), nv))
        cfg = dict(ploidy=pl, linked=rng.random() < 0.7, cutoff=rng.choice([0, 10, 30, 1000]))
        srows, sreads, alns = [], [], []
        for s in range(ns):
            nb = rng.randint(1, 3)
            rows = []
            for p in positions:
                x = rng.random()
                if x < 0.8:
                    ph = [rng.randint(0, 1) for _ in range(pl)]
                    rows.append((p, len(set(ph)) == 1, (rng.randrange(nb) * 100 + 7, ph)))
                elif x < 0.9:
                    rows.append((p, rng.random() < 0.5, None))
            phased = [r for r in rows if r[2] is not None]
            reads = []
            for k in range(rng.randint(1, 5)):
                name = f"s{s}r{k}"
                bx = f"bx{s}_{rng.randrange(2)}" if rng.random() < 0.5 else None
                start = rng.randint(0, 60)
                vs = [(r[0], rng.randint(0, 1), rng.choice([0, 1, 1, 2, 3, 10, 30])) for r in phased if rng.random() < 0.6]
                if vs:
                    reads.append((name, start, bx, vs))
                alns.append((name, start, bx, s))
                if rng.random() < 0.2:
                    alns.append((name, start + rng.randint(0, 40), bx, s))
            for k in range(rng.randint(0, 3)):
                alns.append((f"s{s}x{k}", rng.randint(0, 80), f"bx{s}_{rng.randrange(2)}" if rng.random() < 0.7 else None, s))
            reads.sort(key=lambda r: (r[3][0][0], r[0]))
            srows.append(rows)
            sreads.append(reads)
        yield srows, sreads, cfg, alns


def gen_unit_clustered(rng, n):
    """barcodes whose reads lie in clusters (diameter <= cut-off) far apart; the read-set order (by first covered variant)
    is unrelated to the start positions, so far reads are listed between the reads of a cloud"""
    for _ in range(n):
        pl = rng.choice([2, 2, 3])
        c = rng.choice([0, 5, 10, 30])
        cfg = dict(ploidy=pl, linked=True, cutoff=c)
        positions = list(range(10, 10 + 10 * rng.randint(3, 8), 10))
        nb = rng.randint(1, 2)
        rows = []
        for p in positions:
            ph = [rng.randint(0, 1) for _ in range(pl)]
            rows.append((p, len(set(ph)) == 1, (rng.randrange(nb) * 100 + 7, ph)))
        reads, alns = [], []
        k = 0
        for b in range(rng.randint(1, 2)):
            for center in rng.sample([0, 1000, 2000, 5000], rng.randint(2, 3)):
                for _ in range(rng.randint(1, 3)):
                    start = center + rng.randint(0, c)
                    vs = sorted(rng.sample(positions, rng.randint(1, min(3, len(positions)))))
                    name = f"r{k}"
                    k += 1
                    reads.append((name, start, f"bx{b}", [(p, rng.randint(0, 1), rng.choice([1, 2, 3, 10, 30])) for p in vs]))
                    alns.append((name, start, f"bx{b}", 0))
        for j in range(rng.randint(0, 2)):
            alns.append((f"x{j}", rng.choice([0, 1000, 2000, 5000]) + rng.randint(0, 2 * c + 1), f"bx{rng.randrange(2)}", 0))
        reads.sort(key=lambda r: (r[3][0][0], r[0]))
        yield [rows], [reads], cfg, alns


def gen_unit_shared(rng, n):
    """two or three samples in one BAM whose reads share names and barcodes; the samples' phasings differ, so the decision
    for (sample A, name) differs from the one for (sample B, name); alignments of every sample, of an unknown sample
    (no read group / read group without SM: index None) and alignments without a detected read"""
    for _ in range(n):
        pl = rng.choice([2, 2, 3])
        ns = rng.choice([2, 2, 3])
        cfg = dict(ploidy=pl, linked=rng.random() < 0.6, cutoff=rng.choice([0, 20, 1000]))
        positions = list(range(10, 10 + 10 * rng.randint(1, 5), 10))
        nreads = rng.randint(1, 4)
        shared = []
        for k in range(nreads):
            vs = sorted(rng.sample(positions, rng.randint(1, len(positions))))
            shared.append((f"r{k}", rng.randint(0, 50), f"bx{rng.randrange(2)}" if rng.random() < 0.6 else None,
                           [(p, rng.randint(0, 1), rng.choice([1, 2, 10, 30])) for p in vs]))
        srows, sreads, alns = [], [], []
        for smp in range(ns):
            rows = []
            for p in positions:
                ph = [rng.randint(0, 1) for _ in range(pl)]
                if rng.random() < 0.9:
                    rows.append((p, len(set(ph)) == 1, (rng.choice([7, 7, 107]), ph)))
            have = {r[0] for r in rows}
            reads = []
            for name, start, bx, vs in shared:
                if rng.random() < 0.85:            # same name (and barcode) in this sample, possibly other alleles
                    vs2 = [(p, (a if rng.random() < 0.7 else 1 - a), q) for p, a, q in vs if p in have]
                    if vs2:
                        reads.append((name, start + rng.choice([0, 0, 5]), bx, vs2))
                alns.append((name, start, bx, smp))
            reads.sort(key=lambda r: (r[3][0][0], r[0]))
            srows.append(rows)
            sreads.append(reads)
        for name, start, bx, vs in shared:
            if rng.random() < 0.5:
                alns.append((name, start, bx, None))
        yield srows, sreads, cfg, alns


def check_units(ctx, units, label):
    terms, raw = [], []
    for srows, sreads, cfg, alns in units:
        try:
            tags = unit_impl(srows, sreads, cfg, alns)
        except Exception as e:      # an exception of the implementation on a well-formed table is an output, not a harness error
            ctx.violation("haplotag:crash-unit", f"prepare_haplotag_information/attempt_add_phase_information raised "
                          f"{type(e).__name__}: {e} on rows={srows} reads={sreads} cfg={cfg} alns={alns}",
                          {"kind": "unit", "unit": [srows, sreads, cfg, alns]})
            ctx.tally("unit.exception")
            continue
        raw.append((srows, sreads, cfg, alns, tags))
        terms.append(unit_term(srows, sreads, cfg, alns, tags))
        nvars = max((len(r[3]) for reads in sreads for r in reads), default=0)
        ctx.count(("unit", repr((srows, sreads, cfg, alns))), nontrivial=any(t[0] is not None for t in tags) and nvars >= 2)
        ctx.tally(f"unit.{label}")
        ctx.tally("unit.tagged", sum(1 for t in tags if t[0] is not None))
        ctx.tally("unit.untagged", sum(1 for t in tags if t[0] is None))
        nm = [{r[0] for r in reads} for reads in sreads]
        if any(nm[a] & nm[b] for a in range(len(nm)) for b in range(a)):
            ctx.tally("unit.read_name_in_two_samples")
        if any(a[3] is None for a in alns):
            ctx.tally("unit.alignment_of_unknown_sample")
    shard = min(400, max(50, -(-len(terms) // 16)))
    failing, errors = eval_checks("C10unit", HEADER, {"L1": "U_L1", "L2": "U_L2", "NOLINKAPPL": "U_NOLINKAPPL"}, terms, shard=shard)
    if errors:
        raise RuntimeError(f"coq evaluation failed in {len(errors)} shard(s); first (cases from index {errors[0][0]}): " + errors[0][1])
    ctx.tally("unit.cloud_rule_applied_to_split_barcode", len(failing["NOLINKAPPL"]))
    for i in failing["L1"]:
        srows, sreads, cfg, alns, tags = raw[i]
        names_of = [{r[0] for r in reads} for reads in sreads]
        shared = any(names_of[a] & names_of[b] for a in range(len(names_of)) for b in range(a))
        ctx.violation("haplotag:read-name-shared-by-two-samples-mistagged" if shared else "haplotag:tag-rule",
                      f"prepare_haplotag_information/attempt_add_phase_information contradict the best-haplotype "
                      f"rule: rows={srows} reads={sreads} cfg={cfg} alns={alns} -> tags={tags}",
                      {"kind": "unit", "unit": [srows, sreads, cfg, alns]})
    return [dict(rows=raw[i][0], reads=raw[i][1], cfg=raw[i][2], alns=raw[i][3], impl_tags=raw[i][4]) for i in failing["L2"]]


# ====================================================================================== fixed corpus
def region_grid_cases(rng, full):
    """one small fixed scenario, all ordered pairs of regions over a grid of cut points (exhaustive in the thorough tier)."""
    import random
    base = G.gen_case(random.Random(20240), region_kind="none")
    while len(base["chroms"]) != 1 or len(base["alns"]) < 8 or len(base["alns"]) > 30:
        base = G.gen_case(random.Random(rng.randrange(10 ** 9)), region_kind="none")
    c = base["chroms"][0]
    L = len(base["ref"][c])
    cuts = [1, L // 5, 2 * L // 5, 3 * L // 5, 4 * L // 5, L - 1]
    ivs = [(a, b) for i, a in enumerate(cuts) for b in cuts[i + 1:]]
    pairs = [(x, y) for x in ivs for y in ivs]
    if not full:
        pairs = rng.sample(pairs, 14)
    out = []
    for x, y in pairs:
        cc = json.loads(json.dumps(base))
        cc["opts"]["regions"] = [f"{c}:{x[0]}-{x[1]}", f"{c}:{y[0]}-{y[1]}"]
        cc["opts"]["haplotag_list"] = True
        cc["region_kind"] = "grid"
        out.append(cc)
    return out


def run(ctx):
    rng = ctx.rng
    # ---- unit stream (decision rule), exhaustive small tables + random
    units = (list(gen_unit_exhaustive(1 if ctx.quick else 2)) + list(gen_unit_random(rng, ctx.n(1500, 30000)))
             + list(gen_unit_clustered(rng, ctx.n(600, 10000))) + list(gen_unit_shared(rng, ctx.n(600, 10000))))
    ul2 = check_units(ctx, units, "all")
    ctx.extra["unit_exhaustive_tables"] = sum(1 for _ in gen_unit_exhaustive(1 if ctx.quick else 2))
    ctx.exhaustive = True
    # ---- CLI stream
    cases = []
    for kind in ("overlapping", "unsorted", "sorted-near", "sorted-far", "chrom-order", "chrom", "open", "single", "edge"):
        cases += [G.gen_case(rng, region_kind=kind) for _ in range(ctx.n(3, 25))]
    cases += [G.gen_case(rng, region_kind="bridge") for _ in range(ctx.n(16, 150))]
    cases += [G.gen_case(rng, region_kind="none") for _ in range(ctx.n(40, 250))]
    # read names and barcodes shared between the samples of one BAM
    cases += [G.gen_case(rng, shared=True, region_kind=rng.choice(["none", "none", "chrom", "single"])) for _ in range(ctx.n(10, 80))]
    # contigs holding only placed-but-unmapped records (last / in the middle of the header), empty contigs
    for sp in ("unmapped-only-last", "unmapped-only-middle"):
        for kind in ("none", "special", "chrom"):
            cases += [G.gen_case(rng, region_kind=kind, special=sp) for _ in range(ctx.n(3, 20))]
    cases += [G.gen_case(rng, big=not ctx.quick) for _ in range(ctx.n(40, 300))]
    cases += region_grid_cases(rng, full=not ctx.quick)
    ev = check_cases(ctx, cases, "generated")
    for e in ev[:1] + ev[-2:]:
        ctx.sample({"opts": e["case"]["opts"], "ploidy": e["case"]["ploidy"], "input_alignments": len(e["res"]["inp"]),
                    "output_records": len(e["res"]["out"]), "tagged": sum(1 for x in e["res"]["out"] if x["tags"][0] is not None),
                    "failed_checks": sorted(e["fails"] - INFO_LABELS)})
    l2 = report_cli(ctx, ev)
    if ul2 or l2:
        ctx.disagreements_checked += len(ul2) + len(l2)
        if ul2:
            ctx.l2_disagreement("Haplotag.prepare/tag_aln = prepare_haplotag_information/attempt_add_phase_information (L2)", ul2)
        if l2:
            ctx.l2_disagreement("Haplotag.run_fixed/list_fixed = output BAM / haplotag list (L2)",
                                [{"what": x["what"], "failed": x["failed"], "opts": x["case"]["opts"]} for x in l2])
        if not any(v["found_input"] for v in ctx.violations):
            # wider seeded search for an input that violates the property text (L1 evaluated in Coq)
            more = [G.gen_case(rng) for _ in range(ctx.n(60, 400))]
            report_cli(ctx, check_cases(ctx, more, "search"))
            check_units(ctx, list(gen_unit_random(rng, ctx.n(3000, 30000))), "search")


def replay(ctx, data):
    if data.get("kind") == "cli":
        ev = check_cases(ctx, [data["case"]], "replay")
        l2 = report_cli(ctx, ev, shrink=False)
        if l2:
            ctx.l2_disagreement("Haplotag.run_fixed/list_fixed = output BAM / haplotag list (L2)", [x["what"] for x in l2])
    elif data.get("kind") == "unit":
        srows, sreads, cfg, alns = data["unit"]
        srows = [[(p, h, None if ph is None else (ph[0], ph[1])) for p, h, ph in rows] for rows in srows]
        sreads = [[(n, s, b, [tuple(v) for v in vs]) for n, s, b, vs in reads] for reads in sreads]
        ul2 = check_units(ctx, [(srows, sreads, cfg, [tuple(a) if len(a) == 4 else tuple(a) + (0,) for a in alns])], "replay")
        if ul2:
            ctx.l2_disagreement("Haplotag.prepare/tag_aln (L2)", ul2)
    else:
        run(ctx)
