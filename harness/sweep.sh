#!/bin/bash
# usage: harness/sweep.sh <quick|thorough> [seed] [jobs]  -- runs every claimed check once, prints one line per check
tier=${1:-quick}; seed=${2:-1}; jobs=${3:-5}
cd "$(dirname "$0")/.."
mkdir -p sweep_logs
ids=$(python3 -c "import json; print(' '.join(c['property_id'] if 'property_id' in c else c['id'] for c in json.load(open('MANIFEST.json'))['checks']))" 2>/dev/null || echo C01 C02 C03 C04 C05 C06 C07 C08 C09 C10 C11 C12 C13 C14 C15 C16 C17 C18 C19 C20)
echo "$ids" | tr ' ' '\n' | xargs -P "$jobs" -I{} bash -c "t0=\$(date +%s); VERIF_SEED=$seed ./check {} --tier $tier > sweep_logs/{}.$tier.$seed.log 2>&1; rc=\$?; echo \"{} tier=$tier seed=$seed rc=\$rc \$(( \$(date +%s) - t0 ))s \$(grep -c '^VIOLATION' sweep_logs/{}.$tier.$seed.log) violation lines\""
