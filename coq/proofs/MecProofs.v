(* C02: with error-free reads the zero-cost bipartition is optimal, and every zero-cost solution
   equals the truth up to exchanging the two haplotypes of a read-connected component. *)
From Coq Require Import ZArith List Bool Arith Lia Relations.
From WH.Model Require Import UnionFind UFSpec Mec.
Import ListNotations.

Lemma read_cost_error_free truth side r :
  read_error_free truth side r = true -> read_cost truth side r = 0.
Proof.
  induction r as [|[[c a] w] r IH]; cbn [read_error_free read_cost forallb fold_right]; intro H; [reflexivity|].
  apply andb_true_iff in H as [Ha Hr].
  rewrite Ha. cbn. apply IH. exact Hr.
Qed.

Lemma error_free_zero_cost truth origin reads :
  error_free truth origin reads = true -> cost truth origin reads = 0.
Proof.
  revert origin; induction reads as [|r reads IH]; intros [|o origin] H; cbn [error_free cost] in *;
    try reflexivity; try discriminate.
  apply andb_true_iff in H as [Hr Hs].
  rewrite (read_cost_error_free _ _ _ Hr), (IH _ Hs). reflexivity.
Qed.

(* every read has its side in beta and its origin, with zero read cost *)
Lemma per_read truth origin h beta reads :
  error_free truth origin reads = true -> length beta = length reads -> cost h beta reads = 0 ->
  forall r, In r reads -> exists b o, read_cost h b r = 0 /\ read_error_free truth o r = true.
Proof.
  revert origin beta; induction reads as [|r0 reads IH]; intros origin beta He Hl Hc r Hin; [destruct Hin|].
  destruct origin as [|o origin]; [discriminate|]. destruct beta as [|b beta]; [discriminate|].
  cbn [error_free cost length] in *. apply andb_true_iff in He as [He0 He].
  destruct Hin as [<-|Hin].
  - exists b, o. split; [lia|exact He0].
  - apply (IH origin beta He); [lia|lia|exact Hin].
Qed.

Lemma zero_read_cost_entry h b r c a w :
  read_cost h b r = 0 -> In (c, a, w) r -> 0 < w -> a = hap_allele h b c.
Proof.
  induction r as [|[[c1 a1] w1] r IH]; cbn [read_cost fold_right]; intros Hz Hin Hw; [destruct Hin|].
  destruct Hin as [E|Hin].
  - injection E as -> -> ->. destruct (Bool.eqb a (hap_allele h b c)) eqn:Eq.
    + apply eqb_prop. exact Eq.
    + lia.
  - apply IH; [|exact Hin|exact Hw]. change (read_cost h b r) with (fold_right (fun (e : entry) acc =>
      let '(c, a, w) := e in (if Bool.eqb a (hap_allele h b c) then 0 else w) + acc) 0 r). lia.
Qed.

Lemma error_free_entry truth o r c a w :
  read_error_free truth o r = true -> In (c, a, w) r -> a = hap_allele truth o c.
Proof.
  unfold read_error_free. rewrite forallb_forall. intros H Hin.
  specialize (H _ Hin). cbn in H. apply eqb_prop. exact H.
Qed.

Section Orientation.
Variables (reads : list read) (truth h : haps) (origin beta : list bool).
Hypothesis Hpos : forall r, In r reads -> positive r.
Hypothesis Hef : error_free truth origin reads = true.
Hypothesis Hlen : length beta = length reads.
Hypothesis Hzero : cost h beta reads = 0.
Hypothesis Hhet : forall c, (exists r, In r reads /\ covers r c) -> het truth c /\ het h c.

Lemma side_agree r c : In r reads -> covers r c ->
  exists b o, hap_allele h b c = hap_allele truth o c /\
              forall c', covers r c' -> hap_allele h b c' = hap_allele truth o c'.
Proof.
  intros Hin [a [w Hc]].
  destruct (per_read truth origin h beta reads Hef Hlen Hzero r Hin) as [b [o [Hz He]]].
  exists b, o.
  assert (K : forall c', covers r c' -> hap_allele h b c' = hap_allele truth o c').
  { intros c' [a' [w' Hc']].
    rewrite <- (zero_read_cost_entry h b r c' a' w' Hz Hc' (Hpos r Hin _ _ _ Hc')).
    apply (error_free_entry truth o r c' a' w' He Hc'). }
  split; [apply K; exists a, w; exact Hc|exact K].
Qed.

(* at a covered column, one side agreeing fixes the whole pair (both are heterozygous) *)
Lemma pair_from_side c b o : het truth c -> het h c ->
  hap_allele h b c = hap_allele truth o c ->
  if Bool.eqb b o then same_at h truth c else swapped_at h truth c.
Proof.
  unfold het, hap_allele, same_at, swapped_at. destruct (h c) as [x y], (truth c) as [u v]; cbn.
  destruct b, o, x, y, u, v; cbn; intros H1 H2 H3; try congruence; try reflexivity.
Qed.

Lemma same_not_swapped c : het truth c -> same_at h truth c -> swapped_at h truth c -> False.
Proof.
  unfold het, same_at, swapped_at. destruct (h c) as [x y], (truth c) as [u v]; cbn.
  intros H E1 E2. rewrite E1 in E2. injection E2 as -> ?. congruence.
Qed.

Lemma linked_same c c' : linked reads c c' -> (same_at h truth c <-> same_at h truth c').
Proof.
  intros [r [Hin [Hc Hc']]].
  destruct (side_agree r c Hin Hc) as [b [o [_ K]]].
  destruct (Hhet c (ex_intro _ r (conj Hin Hc))) as [Ht Hh].
  destruct (Hhet c' (ex_intro _ r (conj Hin Hc'))) as [Ht' Hh'].
  pose proof (pair_from_side c b o Ht Hh (K c Hc)) as P.
  pose proof (pair_from_side c' b o Ht' Hh' (K c' Hc')) as P'.
  destruct (Bool.eqb b o).
  - tauto.
  - split; intro S; exfalso.
    + exact (same_not_swapped c Ht S P).
    + exact (same_not_swapped c' Ht' S P').
Qed.

Lemma connected_same c c' : connected reads c c' -> (same_at h truth c <-> same_at h truth c').
Proof.
  induction 1 as [x y L| x | x y _ IH | x y z _ IH1 _ IH2].
  - apply linked_same; exact L.
  - tauto.
  - tauto.
  - tauto.
Qed.

Lemma covered_same_or_swapped c : (exists r, In r reads /\ covers r c) ->
  same_at h truth c \/ swapped_at h truth c.
Proof.
  intros [r [Hin Hc]].
  destruct (side_agree r c Hin Hc) as [b [o [E _]]].
  destruct (Hhet c (ex_intro _ r (conj Hin Hc))) as [Ht Hh].
  pose proof (pair_from_side c b o Ht Hh E) as P.
  destruct (Bool.eqb b o); [left|right]; exact P.
Qed.

Theorem zero_cost_truth_up_to_component_flip c c' :
  (exists r, In r reads /\ covers r c) -> (exists r, In r reads /\ covers r c') ->
  connected reads c c' ->
  (same_at h truth c /\ same_at h truth c') \/ (swapped_at h truth c /\ swapped_at h truth c').
Proof.
  intros Hc Hc' Hconn.
  pose proof (connected_same c c' Hconn) as Iff.
  destruct (covered_same_or_swapped c Hc) as [S|S], (covered_same_or_swapped c' Hc') as [S'|S'].
  - left; tauto.
  - exfalso. destruct (Hhet c' Hc') as [Ht' _]. apply (same_not_swapped c' Ht'); tauto.
  - exfalso. destruct (Hhet c Hc) as [Ht _]. apply (same_not_swapped c Ht); tauto.
  - right; tauto.
Qed.
End Orientation.

(* an optimal solution of an error-free instance has cost zero, hence is the truth up to flips *)
Theorem optimal_is_truth_up_to_component_flip
  (reads : list read) (truth h : haps) (origin beta : list bool) :
  (forall r, In r reads -> positive r) ->
  error_free truth origin reads = true ->
  length beta = length reads ->
  cost h beta reads <= cost truth origin reads ->            (* (beta, h) is at least as good as the truth *)
  (forall c, (exists r, In r reads /\ covers r c) -> het truth c /\ het h c) ->
  cost h beta reads = 0 /\
  forall c c', (exists r, In r reads /\ covers r c) -> (exists r, In r reads /\ covers r c') ->
    connected reads c c' ->
    (same_at h truth c /\ same_at h truth c') \/ (swapped_at h truth c /\ swapped_at h truth c').
Proof.
  intros Hpos Hef Hlen Hopt Hhet.
  pose proof (error_free_zero_cost truth origin reads Hef) as Z.
  assert (Hz : cost h beta reads = 0) by lia.
  split; [exact Hz|].
  intros c c'. apply (zero_cost_truth_up_to_component_flip reads truth h origin beta Hpos Hef Hlen Hz Hhet).
Qed.

(* the evaluator used on the output VCF means what it says *)
Lemma sets_match_truth_sound calls : sets_match_truth calls = true ->
  forall c c', In c calls -> In c' calls -> fst (fst c) = fst (fst c') ->
    (snd (fst c) = snd c /\ snd (fst c') = snd c') \/
    (snd (fst c) = swap (snd c) /\ snd (fst c') = swap (snd c')).
Proof.
  unfold sets_match_truth. intro H. apply andb_true_iff in H as [H1 H2].
  rewrite forallb_forall in H1, H2.
  intros c c' Hc Hc' Eps.
  pose proof (H1 c Hc) as O. pose proof (H1 c' Hc') as O'.
  specialize (H2 c Hc). rewrite forallb_forall in H2. specialize (H2 c' Hc').
  rewrite Eps, Z.eqb_refl in H2. cbn [negb orb] in H2.
  assert (PE : forall x y, pair_eqb x y = true -> x = y).
  { intros [x1 x2] [y1 y2]. unfold pair_eqb. cbn. intro E. apply andb_true_iff in E as [E1 E2].
    apply eqb_prop in E1, E2. congruence. }
  destruct c as [[ps g] t], c' as [[ps' g'] t']. cbn [fst snd] in *.
  unfold call_orient in *.
  destruct (pair_eqb g t) eqn:E1; [|destruct (pair_eqb g (swap t)) eqn:E2; [|discriminate]];
  (destruct (pair_eqb g' t') eqn:E3; [|destruct (pair_eqb g' (swap t')) eqn:E4; [|discriminate]]);
  cbn in H2; try discriminate.
  - left. split; apply PE; assumption.
  - right. split; apply PE; assumption.
Qed.
