(* Proofs about coq/model/GenotypeIndex.v, part 2: the combinatorial number system in unbounded
   arithmetic.  f p a = C(p+a-1, p) is the number of genotypes of ploidy p over alleles 0..a-1, i.e.
   the index of the first genotype of ploidy p that uses allele a.
   - idx_desc bounds: f p a <= idx (a :: r) < f p (a+1)      (hence injective, hence no gaps)
   - the for-loop `scan` finds the greedy allele
   - unindex_loop inverts idx_desc in both directions, for all ploidies and allele counts. *)
From Coq Require Import ZArith List Bool Lia.
From WH.Model Require Import GenotypeIndex.
From WH.Proofs Require Import GenotypeIndexProofs.
Import ListNotations.
Open Scope Z_scope.

Definition f (p a : Z) : Z := chooseZ (p + a - 1) p.

Lemma f_nonneg p a : 0 <= f p a.
Proof. apply chooseZ_nonneg. Qed.

Lemma f_0_l a : 1 <= a -> f 0 a = 1.
Proof. intro H. unfold f. apply chooseZ_0_r. lia. Qed.

Lemma f_p_0 p : 1 <= p -> f p 0 = 0.
Proof. intro H. unfold f. apply chooseZ_gt. lia. Qed.

Lemma f_step p a : 1 <= p -> 0 <= a -> f p (a + 1) = f p a + f (p - 1) (a + 1).
Proof.
intros Hp Ha. unfold f.
replace (p + (a + 1) - 1) with ((p + a - 1) + 1) by lia.
replace p with ((p - 1) + 1) at 2 by lia.
rewrite chooseZ_pascal by lia.
replace (p - 1 + 1) with p by lia. replace (p - 1 + (a + 1) - 1) with (p + a - 1) by lia. lia.
Qed.

Lemma f_pos p a : 0 <= p -> 1 <= a -> 1 <= f p a.
Proof. intros Hp Ha. unfold f. apply chooseZ_pos. lia. Qed.

Lemma f_strict p a : 1 <= p -> 0 <= a -> f p a < f p (a + 1).
Proof. intros Hp Ha. rewrite f_step by lia. pose proof (f_pos (p - 1) (a + 1)). lia. Qed.

Lemma f_succ_le p a : 0 <= p -> 0 <= a -> f p a <= f p (a + 1).
Proof.
intros Hp Ha. destruct (Z.eq_dec p 0) as [->|Hne].
- rewrite (f_0_l (a + 1)) by lia. destruct (Z.eq_dec a 0) as [->|Hn].
  + unfold f. simpl. vm_compute. discriminate.
  + rewrite f_0_l by lia. lia.
- pose proof (f_strict p a). lia.
Qed.

Lemma f_mono_nat p a : 0 <= p -> 0 <= a -> forall k : nat, f p a <= f p (a + Z.of_nat k).
Proof.
intros Hp Ha. induction k as [|k IH].
- replace (a + Z.of_nat 0) with a by lia. lia.
- replace (a + Z.of_nat (S k)) with ((a + Z.of_nat k) + 1) by lia.
  pose proof (f_succ_le p (a + Z.of_nat k)). lia.
Qed.

Lemma f_mono p a b : 0 <= p -> 0 <= a <= b -> f p a <= f p b.
Proof.
intros Hp H. replace b with (a + Z.of_nat (Z.to_nat (b - a))) by lia. apply f_mono_nat; lia.
Qed.

Lemma f_lt_inv p a b : 0 <= p -> 0 <= a -> 0 <= b -> f p a < f p b -> a < b.
Proof.
intros Hp Ha Hb H. destruct (Z.lt_ge_cases a b) as [|Hge]; [assumption|].
pose proof (f_mono p b a). lia.
Qed.

Lemma f_ge_nat p : 1 <= p -> forall k : nat, Z.of_nat k <= f p (Z.of_nat k).
Proof.
intro Hp. induction k as [|k IH].
- simpl. apply f_nonneg.
- replace (Z.of_nat (S k)) with (Z.of_nat k + 1) by lia.
  pose proof (f_strict p (Z.of_nat k)). lia.
Qed.

Lemma f_ge p a : 1 <= p -> 0 <= a -> a <= f p a.
Proof. intros Hp Ha. pose proof (f_ge_nat p Hp (Z.to_nat a)). rewrite Z2Nat.id in *; lia. Qed.

Lemma f_1_l a : 0 <= a -> f 1 a = a.
Proof. intro H. unfold f. replace (1 + a - 1) with a by lia. apply chooseZ_1_r. exact H. Qed.

(* the term used by get_index, C(k+a-1, a-1), is the same number *)
Lemma term_get_index k a : 1 <= k -> 0 <= a -> chooseZ (k + a - 1) (a - 1) = f k a.
Proof.
intros Hk Ha. unfold f. destruct (Z.eq_dec a 0) as [->|Hne].
- rewrite chooseZ_neg_k by lia. rewrite chooseZ_gt by lia. reflexivity.
- rewrite (chooseZ_sym (k + a - 1) (a - 1)) by lia. f_equal. lia.
Qed.

(* the greedy digit exists *)
Lemma greedy_exists p left : 1 <= p -> 0 <= left ->
  exists a, 0 <= a /\ f p a <= left < f p (a + 1).
Proof.
intros Hp Hl.
assert (H : forall n : nat, left < f p (Z.of_nat n) -> exists a, 0 <= a /\ f p a <= left < f p (a + 1)).
{ induction n as [|n IH]; intro Hn.
  - simpl in Hn. rewrite f_p_0 in Hn by lia. lia.
  - destruct (Z.le_gt_cases (f p (Z.of_nat n)) left) as [Hle|Hgt].
    + exists (Z.of_nat n). replace (Z.of_nat n + 1) with (Z.of_nat (S n)) by lia. lia.
    + apply IH. exact Hgt. }
apply (H (Z.to_nat (left + 1))). rewrite Z2Nat.id by lia.
pose proof (f_ge p (left + 1)). lia.
Qed.

(* ---- genotypes in descending order with all alleles in [0, a] *)
Fixpoint okd (a : Z) (d : list Z) : Prop :=
  match d with
  | [] => True
  | b :: r => 0 <= b <= a /\ okd b r
  end.

Lemma okd_weaken a a' d : okd a d -> a <= a' -> okd a' d.
Proof. destruct d as [|b r]; simpl; [auto|]. intros [H1 H2] H. split; [lia|exact H2]. Qed.

Lemma idx_desc_cons b r :
  idx_desc (b :: r) = f (Z.of_nat (S (length r))) b + idx_desc r.
Proof. reflexivity. Qed.

Lemma idx_desc_nonneg d : 0 <= idx_desc d.
Proof.
induction d as [|b r IH]; [simpl; lia|]. rewrite idx_desc_cons.
pose proof (f_nonneg (Z.of_nat (S (length r))) b). lia.
Qed.

Lemma idx_desc_bound d : forall a, 0 <= a -> okd a d -> idx_desc d < f (Z.of_nat (length d)) (a + 1).
Proof.
induction d as [|b r IH]; intros a Ha Hok.
- simpl. rewrite f_0_l by lia. lia.
- destruct Hok as [Hb Hr]. rewrite idx_desc_cons.
  specialize (IH b ltac:(lia) Hr).
  set (p := Z.of_nat (S (length r))) in *.
  replace (Z.of_nat (length r)) with (p - 1) in IH by lia.
  replace (Z.of_nat (length (b :: r))) with p by reflexivity.
  pose proof (f_step p b ltac:(lia) ltac:(lia)).
  pose proof (f_mono p (b + 1) (a + 1) ltac:(lia) ltac:(lia)). lia.
Qed.

Lemma idx_desc_greedy b r : okd b r -> 0 <= b ->
  let p := Z.of_nat (S (length r)) in
  f p b <= idx_desc (b :: r) < f p (b + 1).
Proof.
intros Hr Hb p. rewrite idx_desc_cons. fold p.
pose proof (idx_desc_nonneg r). pose proof (idx_desc_bound r b Hb Hr) as Hbd.
replace (Z.of_nat (length r)) with (p - 1) in Hbd by lia.
rewrite (f_step p b) by lia. lia.
Qed.

Theorem idx_desc_injective d1 : forall d2 a1 a2,
  okd a1 d1 -> okd a2 d2 -> length d1 = length d2 -> idx_desc d1 = idx_desc d2 -> d1 = d2.
Proof.
induction d1 as [|b1 r1 IH]; intros [|b2 r2] a1 a2 H1 H2 Hlen E; try discriminate; [reflexivity|].
destruct H1 as [Hb1 Hr1]. destruct H2 as [Hb2 Hr2]. simpl in Hlen. injection Hlen as Hlen.
pose proof (idx_desc_greedy b1 r1 Hr1 ltac:(lia)) as G1.
pose proof (idx_desc_greedy b2 r2 Hr2 ltac:(lia)) as G2. cbv zeta in G1, G2.
rewrite <- Hlen in G2. rewrite <- E in G2.
set (p := Z.of_nat (S (length r1))) in *.
assert (b1 = b2).
{ pose proof (f_lt_inv p b1 (b2 + 1) ltac:(lia) ltac:(lia) ltac:(lia) ltac:(lia)).
  pose proof (f_lt_inv p b2 (b1 + 1) ltac:(lia) ltac:(lia) ltac:(lia) ltac:(lia)). lia. }
subst b2. f_equal. apply (IH r2 b1 b1 Hr1 Hr2 Hlen).
rewrite !idx_desc_cons in E. rewrite <- Hlen in E. lia.
Qed.

(* ---- the inner for-loop *)
Lemma binomI_f p a : binom ideal (p + a - 1) p = f p a.
Proof. apply binom_ideal_correct. Qed.

Lemma scan_ideal p left max_a astar :
  1 <= p -> 0 <= astar <= max_a -> f p astar <= left < f p (astar + 1) ->
  forall (k : nat) fuel a, astar + 1 - a = Z.of_nat k -> 0 <= a ->
    (a = 0 \/ f p (a - 1) < left) -> a <= max_a -> (k < fuel)%nat ->
    scan ideal ideal fuel p left max_a a = Some (astar, left - f p astar).
Proof.
intros Hp Has Hgr.
induction k as [|k IH]; intros fuel a Hk Ha Hprev Hmax Hfuel.
- (* a = astar + 1 *)
  assert (a = astar + 1) by lia. subst a.
  destruct fuel as [|fu]; [lia|]. cbn [scan]. rewrite ?ideal_id; rewrite ?binomI_f.
  destruct (Z.leb_spec (astar + 1) max_a) as [Hle|Hgt]; [|lia].
  destruct (Z.geb_spec (f p (astar + 1)) left) as [_|]; [|lia]. cbn [orb].
  destruct (Z.gtb_spec (f p (astar + 1)) left) as [_|]; [|lia].
  rewrite ?ideal_id. replace (astar + 1 - 1) with astar by lia. rewrite ?binomI_f. reflexivity.
- destruct fuel as [|fu]; [lia|]. cbn [scan]. rewrite ?ideal_id; rewrite ?binomI_f.
  assert (Hale : a <= astar) by lia.
  destruct (Z.leb_spec a max_a) as [_|]; [|lia].
  pose proof (f_mono p a astar ltac:(lia) ltac:(lia)) as Hm.
  destruct (Z.geb_spec (f p a) left) as [Hge|Hlt].
  + (* f p a >= left: then a = astar and f p a = left *)
    cbn [orb].
    assert (a = astar).
    { destruct (Z.eq_dec a astar); [assumption|].
      pose proof (f_strict p a ltac:(lia) ltac:(lia)).
      pose proof (f_mono p (a + 1) astar ltac:(lia) ltac:(lia)). lia. }
    subst a. destruct (Z.gtb_spec (f p astar) left); [lia|].
    rewrite ?ideal_id; rewrite ?binomI_f. reflexivity.
  + destruct (Z.eqb_spec a max_a) as [Heq|Hneq].
    * cbn [orb]. destruct (Z.gtb_spec (f p a) left); [lia|].
      assert (Hx : a = astar) by lia. rewrite Hx.
      rewrite ?ideal_id; rewrite ?binomI_f. reflexivity.
    * cbn [orb]. apply IH; try lia.
      right. replace (a + 1 - 1) with a by lia. lia.
Qed.

(* ---- the while-loop: index -> alleles inverts idx_desc (direction 1: start from a genotype) *)
Lemma unindex_of_index fuel : forall d a max_a acc,
  okd a d -> 0 <= a <= max_a -> a + 1 < Z.of_nat fuel ->
  unindex_loop ideal ideal (length d) fuel (idx_desc d) max_a acc = Some (rev d ++ acc).
Proof.
induction d as [|b r IH]; intros a max_a acc Hok Ha Hfuel.
- reflexivity.
- destruct Hok as [Hb Hr]. cbn [length unindex_loop].
  pose proof (idx_desc_greedy b r Hr ltac:(lia)) as G. cbv zeta in G.
  rewrite (scan_ideal (Z.of_nat (S (length r))) (idx_desc (b :: r)) max_a b ltac:(lia) ltac:(lia) G
             (Z.to_nat (b + 1)) fuel 0) by lia.
  rewrite idx_desc_cons. replace (f (Z.of_nat (S (length r))) b + idx_desc r - f (Z.of_nat (S (length r))) b)
    with (idx_desc r) by lia.
  rewrite (IH b b (b :: acc) Hr ltac:(lia) ltac:(lia)).
  cbn [rev]. rewrite <- app_assoc. reflexivity.
Qed.

(* direction 2: start from any index below f p (a+1) *)
Lemma index_of_unindex fuel : forall (p : nat) left a max_a acc,
  0 <= a <= max_a -> a + 1 < Z.of_nat fuel -> 0 <= left < f (Z.of_nat p) (a + 1) ->
  exists d, unindex_loop ideal ideal p fuel left max_a acc = Some (rev d ++ acc) /\
            okd a d /\ length d = p /\ idx_desc d = left.
Proof.
induction p as [|q IH]; intros left a max_a acc Ha Hfuel Hl.
- simpl in Hl. rewrite f_0_l in Hl by lia. exists []. simpl. repeat split. lia.
- destruct (greedy_exists (Z.of_nat (S q)) left ltac:(lia) ltac:(lia)) as [b [Hb G]].
  assert (Hba : b <= a).
  { pose proof (f_lt_inv (Z.of_nat (S q)) b (a + 1) ltac:(lia) ltac:(lia) ltac:(lia) ltac:(lia)). lia. }
  cbn [unindex_loop].
  rewrite (scan_ideal (Z.of_nat (S q)) left max_a b ltac:(lia) ltac:(lia) G
             (Z.to_nat (b + 1)) fuel 0) by lia.
  pose proof (f_step (Z.of_nat (S q)) b ltac:(lia) ltac:(lia)) as Hst.
  replace (Z.of_nat (S q) - 1) with (Z.of_nat q) in Hst by lia.
  destruct (IH (left - f (Z.of_nat (S q)) b) b b (b :: acc) ltac:(lia) ltac:(lia) ltac:(lia))
    as [r [Hrun [Hok [Hlen Hidx]]]].
  exists (b :: r). rewrite Hrun. cbn [rev]. rewrite <- app_assoc. repeat split.
  + lia.
  + lia.
  + exact Hok.
  + simpl. lia.
  + rewrite idx_desc_cons, Hlen, Hidx. lia.
Qed.

(* ---- top level, unbounded arithmetic, every ploidy and every number of alleles *)
Theorem index_unindex_ideal (d : list Z) (n : Z) (fuel : nat) :
  okd (n - 1) d -> n < Z.of_nat fuel ->
  convert_index_to_alleles ideal ideal fuel (idx_desc d) (Z.of_nat (length d)) = Some (rev d).
Proof.
intros Hok Hfuel. unfold convert_index_to_alleles. rewrite !ideal_id, Nat2Z.id.
destruct d as [|b r]; [reflexivity|].
destruct Hok as [Hb Hr].
pose proof (idx_desc_greedy b r Hr ltac:(lia)) as G. cbv zeta in G.
pose proof (f_ge (Z.of_nat (S (length r))) b ltac:(lia) ltac:(lia)) as Hge.
rewrite (unindex_of_index fuel (b :: r) b (idx_desc (b :: r)) []).
- rewrite app_nil_r. reflexivity.
- split; [lia|exact Hr].
- lia.
- lia.
Qed.

Theorem unindex_index_ideal (i p n : Z) (fuel : nat) :
  1 <= p -> 1 <= n -> 0 <= i < n_genotypes p n -> n < Z.of_nat fuel ->
  exists d, convert_index_to_alleles ideal ideal fuel i p = Some (rev d) /\
            okd (n - 1) d /\ Z.of_nat (length d) = p /\ idx_desc d = i.
Proof.
intros Hp Hn Hi Hfuel. unfold n_genotypes in Hi. unfold convert_index_to_alleles. rewrite !ideal_id.
replace (n + p - 1) with (p + n - 1) in Hi by lia. fold (f p n) in Hi.
set (a := Z.min (n - 1) i).
assert (Hl : 0 <= i < f (Z.of_nat (Z.to_nat p)) (a + 1)).
{ rewrite Z2Nat.id by lia. subst a. destruct (Z.le_gt_cases (n - 1) i).
  - rewrite Z.min_l by lia. replace (n - 1 + 1) with n by lia. lia.
  - rewrite Z.min_r by lia. pose proof (f_ge p (i + 1) ltac:(lia) ltac:(lia)). lia. }
assert (Ha : 0 <= a <= i /\ a <= n - 1) by (unfold a; lia). clearbody a.
destruct (index_of_unindex fuel (Z.to_nat p) i a i [] ltac:(lia) ltac:(lia) Hl) as [d [Hrun [Hok [Hlen Hidx]]]].
exists d. rewrite Hrun, app_nil_r. repeat split.
- apply (okd_weaken a); [exact Hok|lia].
- lia.
- exact Hidx.
Qed.

(* no gaps: the indices of the genotypes of ploidy p over n alleles are exactly 0 .. C(n+p-1,p)-1 *)
Theorem idx_desc_range (d : list Z) (n : Z) :
  1 <= n -> okd (n - 1) d -> 0 <= idx_desc d < n_genotypes (Z.of_nat (length d)) n.
Proof.
intros Hn Hok. split; [apply idx_desc_nonneg|].
pose proof (idx_desc_bound d (n - 1) ltac:(lia) Hok) as H.
replace (n - 1 + 1) with n in H by lia. unfold n_genotypes.
replace (n + Z.of_nat (length d) - 1) with (Z.of_nat (length d) + n - 1) by lia. exact H.
Qed.

(* okd is what the boolean validity test says *)
Lemma okd_of_valid d : forall a,
  desc_sorted d = true -> forallb (fun x => (0 <=? x) && (x <? a + 1)) d = true -> okd a d.
Proof.
induction d as [|b r IH]; intros a Hs Hf; [exact I|].
cbn [forallb] in Hf. apply andb_true_iff in Hf. destruct Hf as [Hb Hf].
apply andb_true_iff in Hb. destruct Hb as [Hb1 Hb2]. apply Z.leb_le in Hb1. apply Z.ltb_lt in Hb2.
split; [lia|].
destruct r as [|c r']; [exact I|].
cbn [desc_sorted] in Hs. apply andb_true_iff in Hs. destruct Hs as [Hcb Hs]. apply Z.leb_le in Hcb.
specialize (IH a Hs Hf). destruct IH as [Hc Hr']. split; [lia|exact Hr'].
Qed.

Lemma valid_desc_okd p n d : valid_desc p n d = true -> Z.of_nat (length d) = p /\ okd (n - 1) d.
Proof.
unfold valid_desc. intro H. apply andb_true_iff in H. destruct H as [H Hf].
apply andb_true_iff in H. destruct H as [Hl Hs]. apply Z.eqb_eq in Hl. split; [exact Hl|].
apply okd_of_valid; [exact Hs|]. replace (n - 1 + 1) with n by lia. exact Hf.
Qed.

Lemma okd_valid d : forall a, okd a d -> desc_sorted d = true /\ forallb (fun x => (0 <=? x) && (x <? a + 1)) d = true.
Proof.
induction d as [|b r IH]; intros a Hok; [split; reflexivity|].
destruct Hok as [Hb Hr]. destruct (IH b Hr) as [Hs Hf]. split.
- cbn [desc_sorted]. destruct r as [|c r']; [reflexivity|]. destruct Hr as [Hc _].
  apply andb_true_iff. split; [apply Z.leb_le; lia|exact Hs].
- cbn [forallb]. apply andb_true_iff. split.
  + apply andb_true_iff. split; [apply Z.leb_le; lia|apply Z.ltb_lt; lia].
  + rewrite forallb_forall in Hf |- *. intros x Hx. specialize (Hf x Hx).
    apply andb_true_iff in Hf. destruct Hf as [H1 H2]. apply Z.leb_le in H1. apply Z.ltb_lt in H2.
    apply andb_true_iff. split; [apply Z.leb_le; lia|apply Z.ltb_lt; lia].
Qed.

Lemma okd_valid_desc n d : okd (n - 1) d -> valid_desc (Z.of_nat (length d)) n d = true.
Proof.
intro H. destruct (okd_valid d (n - 1) H) as [Hs Hf]. unfold valid_desc.
rewrite Z.eqb_refl, Hs. replace (n - 1 + 1) with n in Hf by lia. rewrite Hf. reflexivity.
Qed.

Lemma idx_desc_fast_correct d : idx_desc_fast d = idx_desc d.
Proof. induction d as [|b r IH]; [reflexivity|]. cbn [idx_desc_fast idx_desc]. rewrite choose_fast_correct, IH. reflexivity. Qed.
