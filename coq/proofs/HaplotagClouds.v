From Coq Require Import ZArith List Bool Arith Lia Permutation.
From WH.Model Require Import Haplotag.
From WH.Proofs Require Import HaplotagProofs HaplotagTags.
Import ListNotations.
Open Scope Z_scope.

(* The linked-read tag rule (linked_tag_ok, the order-free statement of the model file) holds for the
   haplotag model: when the reads of a barcode fall into well separated clouds (being within the distance
   cut-off is transitive among them) and read names are distinct, prepare processes every cloud as one
   group, whatever the order of the read set, so an alignment tagged through its own read carries the
   strict best haplotype of its whole cloud.

   Deviation from the statement first proposed: the extra hypothesis 0 <= cutoff cfg.  With a negative
   cut-off no read is within the cut-off of itself, cloud_of is empty, and the model (like the code)
   still tags the read from the group consisting of the read alone; see linked_tag_spec_needs_cutoff. *)

(* ------------------------------------------------------------------------------------------------ *)
(* list facts *)
Lemma memZ_true_in : forall x l, memZ x l = true <-> In x l.
Proof.
  intros x l. unfold memZ. rewrite existsb_exists. split.
  - intros (y & Hy & E). apply Z.eqb_eq in E. subst. assumption.
  - intros H. exists x. split; [assumption|apply Z.eqb_refl].
Qed.

Lemma memZ_cons : forall x k l, memZ x (k :: l) = (x =? k) || memZ x l.
Proof. reflexivity. Qed.

Lemma memZ_app : forall x l1 l2, memZ x (l1 ++ l2) = memZ x l1 || memZ x l2.
Proof. intros. unfold memZ. apply existsb_app. Qed.

Lemma nodupZ_NoDup : forall l, nodupZ l = true -> NoDup l.
Proof.
  induction l as [|x t IH]; cbn [nodupZ]; intros H; [constructor|].
  apply andb_true_iff in H. destruct H as [H1 H2]. apply negb_true_iff in H1.
  constructor; [|auto]. intros Hin. apply memZ_true_in in Hin. congruence.
Qed.

Lemma NoDup_map_inj : forall (A B : Type) (f : A -> B) l x y,
  NoDup (map f l) -> In x l -> In y l -> f x = f y -> x = y.
Proof.
  intros A B f l. induction l as [|a t IH]; intros x y Hnd Hx Hy E; [destruct Hx|].
  cbn [map] in Hnd. inversion Hnd as [|? ? Hnin Hnd']; subst.
  destruct Hx as [Hx|Hx]; destruct Hy as [Hy|Hy].
  - congruence.
  - subst a. exfalso. apply Hnin. rewrite E. apply in_map. assumption.
  - subst a. exfalso. apply Hnin. rewrite <- E. apply in_map. assumption.
  - auto.
Qed.

(* ------------------------------------------------------------------------------------------------ *)
(* the agreement sums, hence strict_best, do not depend on the order of the group *)
Lemma sum_perm : forall l l', Permutation l l' -> fold_right Z.add 0 l = fold_right Z.add 0 l'.
Proof. intros l l' H. induction H; cbn [fold_right]; lia. Qed.

Lemma score_spec_perm : forall inf g g' ps h,
  Permutation g g' -> score_spec inf g ps h = score_spec inf g' ps h.
Proof.
  intros inf g g' ps h Hp. unfold score_spec. apply sum_perm. apply Permutation_map.
  apply Permutation_flat_map. assumption.
Qed.

Lemma strict_best_perm : forall inf pl g g' ps h,
  Permutation g g' -> strict_best inf pl g ps h = true -> strict_best inf pl g' ps h = true.
Proof.
  intros inf pl g g' ps h Hp H. apply strict_best_elim in H. destruct H as [Hh H].
  apply strict_best_intro; [assumption|]. intros h' Hh' Hne.
  rewrite <- !(score_spec_perm inf g g' ps _ Hp). auto.
Qed.

(* ------------------------------------------------------------------------------------------------ *)
(* near *)
Lemma near_sym : forall cfg x y, near cfg x y = near cfg y x.
Proof.
  intros cfg x y. unfold near, close.
  replace (r_start y - r_start x) with (- (r_start x - r_start y)) by lia.
  rewrite Z.abs_opp. reflexivity.
Qed.

Lemma near_refl : forall cfg x, 0 <= cutoff cfg -> near cfg x x = true.
Proof.
  intros cfg x H. unfold near, close. rewrite Z.sub_diag. cbn [Z.abs]. apply Z.leb_le. assumption.
Qed.

Lemma group_incl : forall cfg rs proc a, In a rs -> incl (group_of cfg rs proc a) rs.
Proof.
  intros cfg rs proc a Ha x Hx.
  destruct (group_of_is_group cfg rs proc a Ha) as (rd & others & Hg & Hrd & Ho).
  rewrite Hg in Hx. destruct Hx as [Hx|Hx]; [subst; assumption|apply Ho; assumption].
Qed.

Lemma group_nodup : forall cfg rs proc a, NoDup rs ->
  NoDup (group_of cfg rs (r_name a :: proc) a).
Proof.
  intros cfg rs proc a Hnd. unfold group_of.
  destruct (linked cfg); [|constructor; [intros []|constructor]].
  destruct (r_bx a) as [b0|]; [|constructor; [intros []|constructor]].
  constructor; [|apply NoDup_filter; assumption].
  intros Hin. apply filter_In in Hin. destruct Hin as [_ Hp].
  apply andb_true_iff in Hp. destruct Hp as [Hp _]. apply andb_true_iff in Hp. destruct Hp as [_ Hp].
  rewrite memZ_cons, Z.eqb_refl in Hp. discriminate.
Qed.

(* ------------------------------------------------------------------------------------------------ *)
(* one sample: the read set rs, the barcode b whose reads form well separated clouds, the read r *)
Section Sample.
  Variables (cfg : config) (inf : info) (rs : list read) (b : Z) (r : read).
  Hypothesis Hcut : 0 <= cutoff cfg.
  Hypothesis Hlinked : linked cfg = true.
  Hypothesis Hnd : NoDup (map r_name rs).
  Hypothesis Htrans : forall x y z,
    In x (bx_reads b rs) -> In y (bx_reads b rs) -> In z (bx_reads b rs) ->
    near cfg x y = true -> near cfg y z = true -> near cfg x z = true.
  Hypothesis Hr : In r (bx_reads b rs).

  (* a cloud is processed entirely or not at all *)
  Definition inv (proc : list Z) : Prop :=
    forall x y, In x (bx_reads b rs) -> In y (bx_reads b rs) -> near cfg x y = true ->
                memZ (r_name x) proc = memZ (r_name y) proc.
  (* the entry of r stems from a decision on (a permutation of) its cloud *)
  Definition entryQ (m : list (Z * decision)) : Prop :=
    forall d, lookup (r_name r) m = Some d ->
              exists g, Permutation g (cloud_of cfg (bx_reads b rs) r) /\ decide inf (ploidy cfg) g = Some d.

  Lemma in_bx : forall x, In x (bx_reads b rs) <-> In x rs /\ opt_eqb (r_bx x) b = true.
  Proof. intros x. unfold bx_reads. apply filter_In. Qed.

  Lemma near_iff : forall a x y,
    In a (bx_reads b rs) -> In x (bx_reads b rs) -> In y (bx_reads b rs) -> near cfg x y = true ->
    (near cfg a x = true <-> near cfg a y = true).
  Proof.
    intros a x y Ha Hx Hy Hn. split; intros H.
    - apply (Htrans a x y); assumption.
    - apply (Htrans a y x); try assumption. rewrite near_sym. assumption.
  Qed.

  Lemma cloud_eq : forall a, In a (bx_reads b rs) -> near cfg a r = true ->
    cloud_of cfg (bx_reads b rs) a = cloud_of cfg (bx_reads b rs) r.
  Proof.
    intros a Ha Hn. unfold cloud_of. apply filter_ext_in. intros x Hx. apply eq_true_iff_eq.
    split; intros H.
    - apply (Htrans r a x); try assumption. rewrite near_sym. assumption.
    - apply (Htrans a r x); assumption.
  Qed.

  Lemma mem_names : forall g x, incl g rs -> In x rs ->
    (memZ (r_name x) (map r_name g) = true <-> In x g).
  Proof.
    intros g x Hincl Hx. rewrite memZ_true_in, in_map_iff. split.
    - intros (y & E & Hy). assert (y = x) by (eapply NoDup_map_inj; eauto). subst. assumption.
    - intros H. exists x. split; [reflexivity|assumption].
  Qed.

  (* the group of an unprocessed anchor of barcode b is its cloud *)
  Lemma group_mem_in : forall proc a,
    In a (bx_reads b rs) -> memZ (r_name a) proc = false -> inv proc ->
    forall x, In x (group_of cfg rs (r_name a :: proc) a) <-> (In x (bx_reads b rs) /\ near cfg a x = true).
  Proof.
    intros proc a Ha Hun Hinv x.
    pose proof Ha as Ha'. apply in_bx in Ha'. destruct Ha' as [Hars Habx].
    pose proof (opt_eqb_true _ _ Habx) as Eb.
    unfold group_of. rewrite Hlinked, Eb. split.
    - intros [Hx|Hx].
      + subst x. split; [assumption|apply near_refl; assumption].
      + apply filter_In in Hx. destruct Hx as [Hxrs Hp]. apply andb_true_iff in Hp. destruct Hp as [Hp Hc].
        apply andb_true_iff in Hp. destruct Hp as [Hbx _].
        split; [apply in_bx; split; assumption|exact Hc].
    - intros [Hx Hn]. pose proof Hx as Hx'. apply in_bx in Hx'. destruct Hx' as [Hxrs Hxbx].
      destruct (r_name x =? r_name a) eqn:E.
      + left. apply Z.eqb_eq in E. symmetry. eapply NoDup_map_inj; eauto.
      + right. apply filter_In. split; [assumption|]. rewrite Hxbx. cbn [andb].
        rewrite memZ_cons, E. cbn [orb]. rewrite <- (Hinv a x Ha Hx Hn), Hun. cbn [negb andb]. exact Hn.
  Qed.

  (* the group of an anchor that does not carry barcode b contains no read of barcode b *)
  Lemma group_not_bx : forall proc a, In a rs -> ~ In a (bx_reads b rs) ->
    forall x, In x (group_of cfg rs proc a) -> ~ In x (bx_reads b rs).
  Proof.
    intros proc a Hars Hna x Hx Hxb.
    unfold group_of in Hx. destruct Hx as [Hx|Hx]; [subst x; contradiction|].
    rewrite Hlinked in Hx. destruct (r_bx a) as [b0|] eqn:Eb; [|destruct Hx].
    apply filter_In in Hx. destruct Hx as [Hxrs Hp]. apply andb_true_iff in Hp. destruct Hp as [Hp Hc].
    apply andb_true_iff in Hp. destruct Hp as [Hbx _]. apply opt_eqb_true in Hbx.
    apply in_bx in Hxb. destruct Hxb as [_ Hxb]. apply opt_eqb_true in Hxb.
    assert (b0 = b) by congruence. subst b0. apply Hna.
    apply in_bx. split; [assumption|]. rewrite Eb. cbn [opt_eqb]. apply Z.eqb_refl.
  Qed.

  Lemma group_facts : forall proc a, In a rs -> memZ (r_name a) proc = false -> inv proc ->
    inv (map r_name (group_of cfg rs (r_name a :: proc) a) ++ proc) /\
    (In r (group_of cfg rs (r_name a :: proc) a) ->
     Permutation (group_of cfg rs (r_name a :: proc) a) (cloud_of cfg (bx_reads b rs) r)).
  Proof.
    intros proc a Ha Hun Hinv.
    pose proof (group_incl cfg rs (r_name a :: proc) a Ha) as Hincl.
    destruct (opt_eqb (r_bx a) b) eqn:Eab.
    - (* anchor of barcode b *)
      assert (HaRb : In a (bx_reads b rs)) by (apply in_bx; split; assumption).
      pose proof (group_mem_in proc a HaRb Hun Hinv) as Hmem.
      pose proof (group_nodup cfg rs proc a (NoDup_map_inv _ _ Hnd)) as Hgnd.
      set (g := group_of cfg rs (r_name a :: proc) a) in *.
      split.
      + intros x y Hx Hy Hn. rewrite !memZ_app, (Hinv x y Hx Hy Hn). f_equal.
        apply eq_true_iff_eq.
        rewrite (mem_names g x Hincl (proj1 (proj1 (in_bx x) Hx))).
        rewrite (mem_names g y Hincl (proj1 (proj1 (in_bx y) Hy))).
        rewrite !Hmem. pose proof (near_iff a x y HaRb Hx Hy Hn) as Hiff.
        split; intros [_ H]; (split; [assumption|]); apply Hiff; assumption.
      + intros Hrg. apply Hmem in Hrg. destruct Hrg as [_ Hnr]. rewrite <- (cloud_eq a HaRb Hnr).
        apply NoDup_Permutation; [assumption| |].
        * unfold cloud_of, bx_reads. apply NoDup_filter. apply NoDup_filter.
          apply (NoDup_map_inv _ _ Hnd).
        * intros x. rewrite Hmem. unfold cloud_of. rewrite filter_In. reflexivity.
    - (* anchor of another barcode, or without one *)
      assert (HaRb : ~ In a (bx_reads b rs)).
      { intros H. apply in_bx in H. destruct H as [_ H]. congruence. }
      pose proof (group_not_bx (r_name a :: proc) a Ha HaRb) as Hno.
      set (g := group_of cfg rs (r_name a :: proc) a) in *.
      assert (Hout : forall x, In x (bx_reads b rs) -> memZ (r_name x) (map r_name g) = false).
      { intros x Hx. destruct (memZ (r_name x) (map r_name g)) eqn:E; [|reflexivity].
        exfalso. apply (mem_names g x Hincl (proj1 (proj1 (in_bx x) Hx))) in E. exact (Hno x E Hx). }
      split.
      + intros x y Hx Hy Hn. rewrite !memZ_app, (Hinv x y Hx Hy Hn), (Hout x Hx), (Hout y Hy). reflexivity.
      + intros Hrg. exfalso. exact (Hno r Hrg Hr).
  Qed.

  Lemma step_inv : forall st a, In a rs -> inv (processed st) -> entryQ (r2h st) ->
    inv (processed (step cfg inf rs st a)) /\ entryQ (r2h (step cfg inf rs st a)).
  Proof.
    intros st a Ha Hinv HQ. unfold step.
    destruct (memZ (r_name a) (processed st)) eqn:Em; [split; assumption|].
    destruct (group_facts (processed st) a Ha Em Hinv) as [Hinv' Hperm].
    pose proof (group_incl cfg rs (r_name a :: processed st) a Ha) as Hincl.
    set (g := group_of cfg rs (r_name a :: processed st) a) in *.
    destruct (decide inf (ploidy cfg) g) as [d|] eqn:Ed; cbn [processed r2h]; (split; [assumption|]); [|assumption].
    intros d' Hl. apply fold_upd_lookup in Hl. destruct Hl as [[Hin Heq]|Hl]; [|auto].
    subst d'. exists g. split; [|assumption]. apply Hperm.
    apply in_map_iff in Hin. destruct Hin as (x & Ex & Hx).
    assert (x = r).
    { apply (NoDup_map_inj _ _ r_name rs x r Hnd); [apply Hincl; assumption|apply in_bx; assumption|assumption]. }
    subst x. assumption.
  Qed.

  Lemma fold_step_inv : forall l st, incl l rs -> inv (processed st) -> entryQ (r2h st) ->
    inv (processed (fold_left (step cfg inf rs) l st)) /\ entryQ (r2h (fold_left (step cfg inf rs) l st)).
  Proof.
    induction l as [|a l IH]; intros st Hincl Hinv HQ; cbn [fold_left]; [split; assumption|].
    destruct (step_inv st a (Hincl a (or_introl eq_refl)) Hinv HQ) as [H1 H2].
    apply IH; [intros x Hx; apply Hincl; right; assumption|assumption|assumption].
  Qed.

  Lemma sample_entry : forall m0 bx0,
    entryQ m0 -> entryQ (r2h (fold_left (step cfg inf rs) rs (mkSt [] m0 bx0))).
  Proof.
    intros m0 bx0 HQ. apply fold_step_inv; [apply incl_refl| |exact HQ].
    intros x y _ _ _. reflexivity.
  Qed.
End Sample.

(* ------------------------------------------------------------------------------------------------ *)
(* samples without a read of that name do not touch its entry *)
Lemma step_r2h_other : forall cfg inf rs n st a d,
  In a rs -> (forall x, In x rs -> r_name x <> n) ->
  lookup n (r2h (step cfg inf rs st a)) = Some d -> lookup n (r2h st) = Some d.
Proof.
  intros cfg inf rs n st a d Ha Hno H. unfold step in H.
  destruct (memZ (r_name a) (processed st)); [assumption|].
  pose proof (group_incl cfg rs (r_name a :: processed st) a Ha) as Hincl.
  destruct (decide inf (ploidy cfg) (group_of cfg rs (r_name a :: processed st) a)) as [d0|];
    cbn [r2h] in H; [|assumption].
  apply fold_upd_lookup in H. destruct H as [[Hin _]|H]; [|assumption].
  exfalso. apply in_map_iff in Hin. destruct Hin as (x & Ex & Hx). exact (Hno x (Hincl x Hx) Ex).
Qed.

Lemma sample_r2h_other : forall cfg n s st d,
  (forall x, In x (snd s) -> r_name x <> n) ->
  lookup n (r2h (prepare_sample cfg st s)) = Some d -> lookup n (r2h st) = Some d.
Proof.
  intros cfg n s st d Hno. unfold prepare_sample.
  assert (H : forall l st0, incl l (snd s) ->
            lookup n (r2h (fold_left (step cfg (phaseinfo (fst s)) (snd s)) l st0)) = Some d ->
            lookup n (r2h st0) = Some d).
  { induction l as [|a l IH]; intros st0 Hincl H; cbn [fold_left] in H; [assumption|].
    apply IH in H; [|intros x Hx; apply Hincl; right; assumption].
    apply step_r2h_other in H; [assumption|apply Hincl; left; reflexivity|assumption]. }
  intros Hl. apply H in Hl; [exact Hl|apply incl_refl].
Qed.

(* ------------------------------------------------------------------------------------------------ *)
(* exactly one read of all samples has the name *)
Lemma filter_nil_none : forall (A : Type) (f : A -> bool) l, filter f l = [] -> forall x, In x l -> f x = false.
Proof.
  intros A f l H x Hx. destruct (f x) eqn:E; [|reflexivity].
  assert (Hin : In x (filter f l)) by (apply filter_In; split; assumption).
  rewrite H in Hin. destruct Hin.
Qed.

Lemma named_in_nil : forall n samples, named_in n samples = [] ->
  forall s x, In s samples -> In x (snd s) -> r_name x <> n.
Proof.
  intros n samples. unfold named_in. induction samples as [|s0 t IH]; intros H s x Hs Hx; [destruct Hs|].
  cbn [flat_map] in H. apply app_eq_nil in H. destruct H as [H1 H2].
  destruct Hs as [Hs|Hs]; [subst s0|exact (IH H2 s x Hs Hx)].
  apply map_eq_nil in H1. intros E.
  pose proof (filter_nil_none _ _ _ H1 x Hx) as Hf. cbn beta in Hf. apply Z.eqb_neq in Hf. contradiction.
Qed.

Lemma named_in_single : forall n samples s r, named_in n samples = [(s, r)] ->
  forall s', In s' samples ->
    (forall x, In x (snd s') -> r_name x <> n) \/ (s' = s /\ In r (snd s) /\ r_name r = n).
Proof.
  intros n samples s r. induction samples as [|s0 t IH]; intros H s' Hs'; [destruct Hs'|].
  unfold named_in in H. cbn [flat_map] in H. fold (named_in n t) in H.
  apply app_eq_unit in H. destruct H as [[H1 H2]|[H1 H2]].
  - destruct Hs' as [Hs'|Hs']; [subst s0|exact (IH H2 s' Hs')].
    left. apply map_eq_nil in H1. intros x Hx E.
    pose proof (filter_nil_none _ _ _ H1 x Hx) as Hf. cbn beta in Hf. apply Z.eqb_neq in Hf. contradiction.
  - destruct Hs' as [Hs'|Hs']; [subst s0|left; intros x Hx; exact (named_in_nil n t H2 s' x Hs' Hx)].
    right. destruct (filter (fun r0 => r_name r0 =? n) (snd s')) as [|x [|y l]] eqn:Ef; cbn [map] in H1;
      try discriminate.
    inversion H1. subst s' x. split; [reflexivity|].
    assert (Hin : In r (filter (fun r0 => r_name r0 =? n) (snd s))) by (rewrite Ef; left; reflexivity).
    apply filter_In in Hin. destruct Hin as [Hin E]. apply Z.eqb_eq in E. split; assumption.
Qed.

Lemma clouds_separated_trans : forall cfg rb, clouds_separated cfg rb = true ->
  forall x y z, In x rb -> In y rb -> In z rb ->
    near cfg x y = true -> near cfg y z = true -> near cfg x z = true.
Proof.
  intros cfg rb H x y z Hx Hy Hz Hxy Hyz. unfold clouds_separated in H.
  rewrite forallb_forall in H. specialize (H x Hx). cbn beta in H.
  rewrite forallb_forall in H. specialize (H y Hy). cbn beta in H.
  rewrite forallb_forall in H. specialize (H z Hz). cbn beta in H.
  rewrite Hxy, Hyz in H. cbn [andb negb orb] in H. exact H.
Qed.

(* ------------------------------------------------------------------------------------------------ *)
(* all samples *)
Lemma prepare_entry : forall cfg s b r,
  0 <= cutoff cfg -> linked cfg = true -> NoDup (map r_name (snd s)) ->
  clouds_separated cfg (bx_reads b (snd s)) = true -> In r (bx_reads b (snd s)) ->
  forall l st,
    (forall s', In s' l -> (forall x, In x (snd s') -> r_name x <> r_name r) \/ s' = s) ->
    entryQ cfg (phaseinfo (fst s)) (snd s) b r (r2h st) ->
    entryQ cfg (phaseinfo (fst s)) (snd s) b r (r2h (fold_left (prepare_sample cfg) l st)).
Proof.
  intros cfg s b r Hcut Hlk Hnd Hsep Hr.
  induction l as [|s0 l IH]; intros st Hall HQ; cbn [fold_left]; [assumption|].
  apply IH; [intros s' Hs'; apply Hall; right; assumption|].
  destruct (Hall s0 (or_introl eq_refl)) as [Hno|Heq].
  - intros d Hl. apply sample_r2h_other in Hl; [|assumption]. apply HQ. assumption.
  - subst s0. unfold prepare_sample.
    apply sample_entry; try assumption. apply clouds_separated_trans. assumption.
Qed.

(* ------------------------------------------------------------------------------------------------ *)
(* the model satisfies the linked-read tag specification *)
Theorem model_satisfies_linked_tag_spec : forall cfg samples a,
  (2 <= ploidy cfg)%nat -> 0 <= cutoff cfg ->
  linked_tag_ok cfg samples a (tag_aln cfg (prepare cfg samples) a) = true.
Proof.
  intros cfg samples a Hpl Hcut. unfold linked_tag_ok.
  destruct (named_in (a_name a) samples) as [|[s r] [|p l]] eqn:En; try reflexivity.
  destruct (r_bx r) as [b|] eqn:Eb; [|reflexivity]. cbn zeta.
  destruct (linked cfg && nodupZ (map r_name (snd s)) && clouds_separated cfg (bx_reads b (snd s))) eqn:Ec;
    [|reflexivity].
  apply andb_true_iff in Ec. destruct Ec as [Ec Hsep]. apply andb_true_iff in Ec. destruct Ec as [Hlk Hnd].
  apply nodupZ_NoDup in Hnd.
  unfold tag_aln. destruct (lookup (a_name a) (r2h (prepare cfg samples))) as [[[h q] ps]|] eqn:El.
  2: { rewrite Hlk. destruct (a_bx a) as [b0|]; [|reflexivity].
       destruct (find _ _) as [[[s0 h0] ps0]|]; reflexivity. }
  pose proof (named_in_single _ _ _ _ En) as Hsingle.
  (* r is a read of s with that name and barcode b *)
  assert (Hrs : In r (snd s) /\ r_name r = a_name a).
  { assert (Hin : In (s, r) (named_in (a_name a) samples)) by (rewrite En; left; reflexivity).
    unfold named_in in Hin. apply in_flat_map in Hin. destruct Hin as (s' & Hs' & Hin).
    apply in_map_iff in Hin. destruct Hin as (x & Ex & Hx). inversion Ex. subst s' x.
    apply filter_In in Hx. destruct Hx as [Hx E]. apply Z.eqb_eq in E. split; assumption. }
  destruct Hrs as [Hrs Hrn].
  assert (Hr : In r (bx_reads b (snd s))).
  { unfold bx_reads. apply filter_In. split; [assumption|]. rewrite Eb. cbn [opt_eqb]. apply Z.eqb_refl. }
  assert (HQ : entryQ cfg (phaseinfo (fst s)) (snd s) b r (r2h (prepare cfg samples))).
  { unfold prepare. apply prepare_entry; try assumption.
    - intros s' Hs'. destruct (Hsingle s' Hs') as [Hno|[Heq _]]; [left|right; assumption].
      rewrite Hrn. assumption.
    - intros d Hd. cbn [r2h lookup] in Hd. discriminate. }
  rewrite <- Hrn in El. destruct (HQ _ El) as (g & Hperm & Hdec).
  destruct (decide_some _ _ _ _ _ _ Hpl Hdec) as (Hsb & _).
  apply andb_true_iff. split; [apply Z.leb_le; lia|].
  replace (Z.to_nat (Z.of_nat h + 1 - 1)) with h by lia.
  exact (strict_best_perm _ _ _ _ _ _ Hperm Hsb).
Qed.

Theorem model_satisfies_linked_tags_chrom : forall cfg c alns,
  (2 <= ploidy cfg)%nat -> 0 <= cutoff cfg ->
  linked_tags_ok_chrom cfg c alns (map (out_rec cfg (prepare cfg (c_samples c))) alns) = true.
Proof.
  intros cfg c alns Hpl Hcut. unfold linked_tags_ok_chrom. rewrite forallb_combine_map.
  apply forallb_forall. intros a Ha. cbn [fst snd]. unfold out_rec. cbn [snd].
  destruct (ignore_read cfg a); [|apply model_satisfies_linked_tag_spec; assumption].
  unfold linked_tag_ok.
  destruct (named_in (a_name a) (c_samples c)) as [|[s r] [|p l]]; try reflexivity.
  destruct (r_bx r) as [b|]; [|reflexivity]. cbn zeta.
  destruct (linked cfg && nodupZ (map r_name (snd s)) && clouds_separated cfg (bx_reads b (snd s))); reflexivity.
Qed.

(* the hypotheses are satisfiable and the rule is not vacuous: two clouds of barcode 5 (reads 1, 3 around
   position 0 and reads 2, 4 around position 1000, listed interleaved), each read tagged with the strict
   best haplotype of its cloud *)
Example linked_tag_spec_applies :
  let cfg := mkCfg 2 true 10 false in
  let rows := [(10, false, Some (100, [0; 1])); (20, false, Some (100, [0; 1]))] in
  let rs := [mkRead 1 0 (Some 5) [(10, 0, 30)]; mkRead 2 1000 (Some 5) [(10, 1, 50)];
             mkRead 3 5 (Some 5) [(20, 0, 10)]; mkRead 4 1003 (Some 5) [(20, 1, 5)]] in
  let c := mkChrom [(rows, rs)] [] in
  let alns := map (fun n => mkAln n n 0 100 false false false None no_tags) [1; 2; 3; 4] in
  let out := map (out_rec cfg (prepare cfg (c_samples c))) alns in
  (2 <= ploidy cfg)%nat /\ 0 <= cutoff cfg /\
  linked_rule_applied cfg c alns out = true /\ linked_tags_ok_chrom cfg c alns out = true /\
  map snd out = [(Some 1, Some 100, Some 40); (Some 2, Some 100, Some 55);
                 (Some 1, Some 100, Some 40); (Some 2, Some 100, Some 55)].
Proof.
  cbv zeta. split; [cbn [ploidy]; lia|]. split; [cbn [cutoff]; lia|]. vm_compute. repeat split.
Qed.

(* the hypothesis 0 <= cutoff cfg cannot be dropped: with a negative cut-off no read is within the cut-off
   of itself, so the cloud of the specification is empty, whereas the model tags the read from the group
   consisting of the read alone *)
Theorem linked_tag_spec_needs_cutoff :
  exists cfg samples a,
    (2 <= ploidy cfg)%nat /\ cutoff cfg = -1 /\
    tag_aln cfg (prepare cfg samples) a = (Some 1, Some 100, Some 30) /\
    linked_tag_ok cfg samples a (tag_aln cfg (prepare cfg samples) a) = false.
Proof.
  exists (mkCfg 2 true (-1) false),
         [([(10, false, Some (100, [0; 1]))], [mkRead 1 0 (Some 5) [(10, 0, 30)]])],
         (mkAln 7 1 0 100 false false false None no_tags).
  split; [cbn [ploidy]; lia|]. vm_compute. repeat split.
Qed.

Print Assumptions model_satisfies_linked_tag_spec.
Print Assumptions model_satisfies_linked_tags_chrom.
Print Assumptions linked_tag_spec_needs_cutoff.
