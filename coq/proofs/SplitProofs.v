(* C14 -- proofs about the model of whatshap/cli/split.py (coq/model/Split.v). Stdlib style. *)
From Coq Require Import ZArith List Bool Arith Lia Sorting.Sorted Permutation.
From WH.Model Require Import Split.
Import ListNotations.
Open Scope Z_scope.

(* ------------------------------------------------------------------------------ generic lists *)
Lemma zlist_eqb_refl : forall l, zlist_eqb l l = true.
Proof. induction l as [|x l IH]; cbn [zlist_eqb]; [reflexivity|]. now rewrite Z.eqb_refl, IH. Qed.

Lemma zlist_eqb_eq : forall a b, zlist_eqb a b = true -> a = b.
Proof.
  induction a as [|x a IH]; destruct b as [|y b]; cbn [zlist_eqb]; intros H; try discriminate; [reflexivity|].
  apply andb_true_iff in H as [H1 H2]. apply Z.eqb_eq in H1. subst. f_equal. now apply IH.
Qed.

Lemma nth_map_seq : forall {A} (f : nat -> A) n s o d, (o < n)%nat -> nth o (map f (seq s n)) d = f (s + o)%nat.
Proof.
  intros A f n. induction n as [|n IH]; intros s o d Ho; [lia|].
  cbn [seq map]. destruct o as [|o]; cbn [nth]; [f_equal; lia|].
  rewrite IH by lia. f_equal. lia.
Qed.

Lemma nth_map_seq_out : forall {A} (f : nat -> A) n s o d, (n <= o)%nat -> nth o (map f (seq s n)) d = d.
Proof. intros. apply nth_overflow. now rewrite map_length, seq_length. Qed.

Lemma existsb_eqb_In : forall x l, existsb (Z.eqb x) l = true <-> In x l.
Proof.
  intros x l. rewrite existsb_exists. split.
  - intros [y [Hy He]]. apply Z.eqb_eq in He. now subst.
  - intros H. exists x. split; [assumption | apply Z.eqb_refl].
Qed.

Lemma dedup_In : forall l x, In x (dedup l) <-> In x l.
Proof.
  induction l as [|y l IH]; intros x; cbn [dedup]; [tauto|].
  destruct (existsb (Z.eqb y) l) eqn:E.
  - rewrite IH. cbn [In]. split; [tauto|]. intros [H|H]; [|assumption]. subst. now apply existsb_eqb_In.
  - cbn [In]. rewrite IH. tauto.
Qed.

Lemma dedup_NoDup : forall l, NoDup (dedup l).
Proof.
  induction l as [|y l IH]; cbn [dedup]; [constructor|].
  destruct (existsb (Z.eqb y) l) eqn:E; [assumption|].
  constructor; [|assumption]. rewrite dedup_In. intros H. apply existsb_eqb_In in H. congruence.
Qed.

Lemma insert_perm : forall x l, Permutation (x :: l) (insert x l).
Proof.
  intros x l. induction l as [|y l IH]; cbn [insert]; [apply Permutation_refl|].
  destruct (x <=? y); [apply Permutation_refl|].
  eapply perm_trans; [apply perm_swap|]. now apply perm_skip.
Qed.

Lemma isort_perm : forall l, Permutation l (isort l).
Proof.
  induction l as [|x l IH]; cbn [isort]; [constructor|].
  eapply perm_trans; [apply perm_skip; exact IH | apply insert_perm].
Qed.

Lemma insert_sorted : forall x l, StronglySorted Z.le l -> StronglySorted Z.le (insert x l).
Proof.
  intros x l H. induction H as [|y l Hs IH Hall]; cbn [insert].
  - constructor; constructor.
  - destruct (x <=? y) eqn:E.
    + apply Z.leb_le in E. constructor; [constructor; assumption|].
      constructor; [assumption|]. eapply Forall_impl; [|exact Hall]. intros; lia.
    + apply Z.leb_gt in E. constructor; [assumption|].
      eapply Permutation_Forall; [apply insert_perm|]. constructor; [lia|assumption].
Qed.

Lemma isort_sorted : forall l, StronglySorted Z.le (isort l).
Proof. induction l as [|x l IH]; cbn [isort]; [constructor | now apply insert_sorted]. Qed.

Lemma isort_In : forall l x, In x (isort l) <-> In x l.
Proof.
  intros l x. split; intros H.
  - eapply Permutation_in; [apply Permutation_sym, isort_perm | assumption].
  - eapply Permutation_in; [apply isort_perm | assumption].
Qed.

Lemma isort_NoDup : forall l, NoDup l -> NoDup (isort l).
Proof. intros l H. eapply Permutation_NoDup; [apply isort_perm | assumption]. Qed.

Lemma sorted_nodup_lt : forall l, StronglySorted Z.le l -> NoDup l -> StronglySorted Z.lt l.
Proof.
  intros l Hs. induction Hs as [|x l Hs IH Hall]; intros Hn; [constructor|].
  inversion Hn as [|? ? Hx Hn']; subst. constructor; [now apply IH|].
  rewrite Forall_forall in *. intros y Hy. specialize (Hall y Hy).
  assert (x <> y) by (intros ->; contradiction). lia.
Qed.

(* --------------------------------------------------------------------------- the list -> map *)
Lemma last_hap_unlisted : forall es n, known es n = false -> last_hap es n = 0.
Proof.
  induction es as [|e es IH]; intros n Hk; cbn [last_hap]; [reflexivity|].
  unfold known in Hk. cbn [existsb] in Hk. apply orb_false_iff in Hk as [H1 H2].
  rewrite H1. cbn [andb]. now apply IH.
Qed.

Lemma last_hap_cases : forall es n,
  (last_hap es n = 0 /\ forall e, In e es -> ename e = n -> tagged e = false) \/
  (exists e, In e es /\ ename e = n /\ tagged e = true /\ ehap e = last_hap es n).
Proof.
  induction es as [|e es IH]; intros n; cbn [last_hap].
  - left. split; [reflexivity|]. intros e [].
  - destruct (IH n) as [[H0 Hall]|[e' [Hin [Hn [Ht Hh]]]]].
    + rewrite H0. cbn [Z.eqb]. rewrite andb_true_r.
      destruct ((ename e =? n) && tagged e) eqn:E.
      * right. apply andb_true_iff in E as [E1 E2]. apply Z.eqb_eq in E1.
        exists e. cbn [In]. auto.
      * left. split; [reflexivity|]. intros e0 [->|Hin] Hn.
        -- apply andb_false_iff in E as [E|E]; [|assumption]. apply Z.eqb_neq in E. contradiction.
        -- now apply Hall.
    + right. exists e'. cbn [In].
      assert (Hnz : (last_hap es n =? 0) = false).
      { apply Z.eqb_neq. rewrite <- Hh. unfold tagged in Ht. apply Z.ltb_lt in Ht. lia. }
      rewrite Hnz, andb_false_r. auto.
Qed.

Lemma last_hap_agree : forall es n h,
  (exists e, In e es /\ ename e = n /\ tagged e = true) ->
  (forall e, In e es -> ename e = n -> tagged e = true -> ehap e = h) ->
  last_hap es n = h.
Proof.
  intros es n h [e0 [Hin0 [Hn0 Ht0]]] Hall.
  destruct (last_hap_cases es n) as [[_ Hnone]|[e [Hin [Hn [Ht Hh]]]]].
  - rewrite (Hnone e0 Hin0 Hn0) in Ht0. discriminate.
  - rewrite <- Hh. now apply Hall.
Qed.

Lemma last_hap_range : forall p es n, forallb (hap_ok p) es = true -> 0 <= last_hap es n <= Z.of_nat p.
Proof.
  intros p es n Hok. destruct (last_hap_cases es n) as [[H0 _]|[e [Hin [_ [_ Hh]]]]]; [lia|].
  rewrite forallb_forall in Hok. specialize (Hok e Hin). unfold hap_ok in Hok.
  apply andb_true_iff in Hok as [H1 H2]. apply Z.leb_le in H1, H2. lia.
Qed.

Lemma assign_unlisted : forall c es n, known es n = false -> assign c es n = 0.
Proof.
  intros c es n Hk. unfold assign. rewrite (last_hap_unlisted es n Hk). now destruct (only_largest c), (selected es n).
Qed.

Lemma assign_range : forall c es n, forallb (hap_ok (ploidy c)) es = true -> 0 <= assign c es n <= Z.of_nat (ploidy c).
Proof.
  intros c es n Hok. unfold assign. pose proof (last_hap_range (ploidy c) es n Hok).
  destruct (only_largest c); [|assumption]. destruct (selected es n); [assumption|lia].
Qed.

Lemma assign_plain : forall c es n, only_largest c = false -> assign c es n = last_hap es n.
Proof. intros c es n H. unfold assign. now rewrite H. Qed.

(* --------------------------------------------------------------------------------- the pass *)
Definition wanted (c : cfg) (es : list entry) (r : read) : bool :=
  kept c es r && processed c (assign c es (rname r)).
Definition tag_read (c : cfg) (es : list entry) (r : read) : Z * read := (assign c es (rname r), r).

Lemma pass_no_exit : forall rs c es reads m,
  discard c && early_exit rs = false ->
  pass rs c es m reads = map (tag_read c es) (filter (wanted c es) reads).
Proof.
  intros rs c es reads. induction reads as [|r reads IH]; intros m Hx; cbn [pass filter map]; [reflexivity|].
  unfold wanted at 1, kept.
  destruct (discard c && negb (known es (rname r))) eqn:E1.
  - apply andb_true_iff in E1 as [Hd Hk]. rewrite Hd. apply negb_true_iff in Hk. rewrite Hk. cbn.
    now apply IH.
  - assert (Hkept : negb (discard c) || known es (rname r) = true).
    { destruct (discard c), (known es (rname r)); cbn in *; congruence. }
    rewrite Hkept. cbn [andb].
    destruct (processed c (assign c es (rname r))) eqn:E2; cbn [negb].
    + rewrite Hx. cbn [map]. unfold tag_read at 1. f_equal. now apply IH.
    + now apply IH.
Qed.

Lemma goes_to_processed : forall c h o,
  nth o (req c) false = true -> goes_to c h o = true -> processed c h = true.
Proof.
  intros c h o Hreq Hg. unfold goes_to in Hg. unfold processed.
  apply orb_true_iff in Hg as [Hg|Hg].
  - apply Z.eqb_eq in Hg. subst h. rewrite Nat2Z.id, Hreq. reflexivity.
  - apply andb_true_iff in Hg as [Hg _]. rewrite Hg. apply orb_true_r.
Qed.

Lemma filter_map_comm : forall {A B} (f : A -> B) (p : B -> bool) l,
  filter p (map f l) = map f (filter (fun x => p (f x)) l).
Proof.
  intros A B f p l. induction l as [|x l IH]; cbn [map filter]; [reflexivity|].
  destruct (p (f x)); cbn [map]; now rewrite IH.
Qed.

Lemma filter_filter : forall {A} (p q : A -> bool) l, filter p (filter q l) = filter (fun x => q x && p x) l.
Proof.
  intros A p q l. induction l as [|x l IH]; cbn [filter]; [reflexivity|].
  destruct (q x); cbn [filter andb]; [destruct (p x)|]; now rewrite IH.
Qed.

Lemma filter_ext_in' : forall {A} (p q : A -> bool) l, (forall x, In x l -> p x = q x) -> filter p l = filter q l.
Proof.
  intros A p q l. induction l as [|x l IH]; intros H; cbn [filter]; [reflexivity|].
  rewrite (H x (or_introl eq_refl)). rewrite IH; [reflexivity|]. intros y Hy. apply H. now right.
Qed.

Lemma out_reads_no_exit : forall rs c es reads m o,
  discard c && early_exit rs = false ->
  nth o (req c) false = true ->
  out_reads c (pass rs c es m reads) o =
  filter (fun r => kept c es r && goes_to c (assign c es (rname r)) o) reads.
Proof.
  intros rs c es reads m o Hx Hreq. rewrite (pass_no_exit rs c es reads m Hx). unfold out_reads.
  rewrite filter_map_comm, map_map. cbn [tag_read snd fst]. rewrite map_id, filter_filter.
  apply filter_ext_in'. intros r _. unfold wanted.
  destruct (kept c es r); cbn [andb]; [|reflexivity].
  destruct (goes_to c (assign c es (rname r)) o) eqn:G; [|apply andb_false_r].
  now rewrite (goes_to_processed c _ o Hreq G).
Qed.

(* ------------------------------------------------------------------------------ run: routing *)
Lemma run_done : forall rs c l reads outs hist,
  run rs c l reads = Done outs hist ->
  check_list rs c l = None /\
  outs = outputs rs c (events rs c l reads) /\
  hist = (if want_hist c then Some (hist_rows rs c (events rs c l reads)) else None).
Proof.
  intros rs c l reads outs hist H. unfold run in H. destruct (check_list rs c l); [discriminate|].
  inversion H; subst. auto.
Qed.

Lemma check_list_none_valid : forall rs c l, check_list rs c l = None -> valid_input c l = true.
Proof.
  intros rs c l H. unfold check_list in H. unfold valid_input.
  destruct (negb (has_header l) && is_nil (entries l)); [discriminate|].
  destruct (only_largest c && negb (has_chrom l)); [discriminate|].
  destruct (forallb (hap_ok (ploidy c)) (entries l)); [|discriminate]. cbn [negb andb] in *.
  destruct (discard c && dup_assert rs && negb (Nat.eqb (length (entries l)) (distinct_names (entries l)))); [discriminate|].
  destruct (discard c && is_nil (entries l)); [discriminate|]. reflexivity.
Qed.

Lemma valid_input_hap_ok : forall c l, valid_input c l = true -> forallb (hap_ok (ploidy c)) (entries l) = true.
Proof.
  intros c l H. unfold valid_input in H. repeat (apply andb_true_iff in H as [H ?]). assumption.
Qed.

Lemma outputs_length : forall rs c evs, length (outputs rs c evs) = S (ploidy c).
Proof. intros. unfold outputs. now rewrite map_length, seq_length. Qed.

Lemma outputs_nth : forall rs c evs o, (o <= ploidy c)%nat ->
  nth o (outputs rs c evs) None =
  if visible c o then Some (map (written rs) (out_reads c evs o)) else None.
Proof. intros rs c evs o Ho. unfold outputs. rewrite nth_map_seq by lia. reflexivity. Qed.

Lemma visible_req : forall c o, visible c o = true -> nth o (req c) false = true.
Proof. intros c o H. unfold visible in H. now apply andb_true_iff in H as [H _]. Qed.

Lemma routing_gen : forall rs c l reads outs hist o,
  discard c && early_exit rs = false ->
  run rs c l reads = Done outs hist ->
  (o <= ploidy c)%nat ->
  nth o outs None =
  if visible c o
  then Some (map (written rs)
               (filter (fun r => kept c (entries l) r && goes_to c (assign c (entries l) (rname r)) o) reads))
  else None.
Proof.
  intros rs c l reads outs hist o Hx Hrun Ho.
  apply run_done in Hrun as [_ [-> _]]. rewrite outputs_nth by assumption.
  destruct (visible c o) eqn:Hreq; [|reflexivity]. apply visible_req in Hreq.
  unfold events. now rewrite out_reads_no_exit.
Qed.

Lemma written_payload : forall rs, fastq_via_str rs = false -> forall l, map (written rs) l = map rpayload l.
Proof. intros rs H l. apply map_ext. intros r. unfold written. now rewrite H. Qed.

Lemma routing : forall rs c l reads outs hist o,
  early_exit rs = false -> fastq_via_str rs = false ->
  run rs c l reads = Done outs hist ->
  (o <= ploidy c)%nat ->
  nth o outs None =
  if visible c o then Some (exp_out c (entries l) (assign c (entries l)) reads o) else None.
Proof.
  intros rs c l reads outs hist o He Hf Hrun Ho.
  rewrite (routing_gen rs c l reads outs hist o) by (try assumption; rewrite He; apply andb_false_r).
  destruct (visible c o); [|reflexivity]. unfold exp_out. now rewrite written_payload.
Qed.

(* without --discard-unknown-reads the early exit is dead code: routing holds for the legacy rules too *)
Lemma routing_no_discard : forall rs c l reads outs hist o,
  discard c = false -> fastq_via_str rs = false ->
  run rs c l reads = Done outs hist ->
  (o <= ploidy c)%nat ->
  nth o outs None =
  if visible c o then Some (exp_out c (entries l) (assign c (entries l)) reads o) else None.
Proof.
  intros rs c l reads outs hist o Hd Hf Hrun Ho.
  rewrite (routing_gen rs c l reads outs hist o) by (try assumption; now rewrite Hd).
  destruct (visible c o); [|reflexivity]. unfold exp_out. now rewrite written_payload.
Qed.

Lemma outs_length : forall rs c l reads outs hist,
  run rs c l reads = Done outs hist -> length outs = S (ploidy c).
Proof. intros rs c l reads outs hist H. apply run_done in H as [_ [-> _]]. apply outputs_length. Qed.

(* ---------------------------------------------------------------------------------- partition *)
Definition label (c : cfg) (es : list entry) (r : read) : nat := Z.to_nat (assign c es (rname r)).

Lemma combine_filter_label : forall {A} (f : A -> nat) (l : list A) o,
  map snd (filter (fun p => Nat.eqb (fst p) o) (combine (map f l) l)) = filter (fun r => Nat.eqb (f r) o) l.
Proof.
  intros A f l o. induction l as [|x l IH]; cbn [map combine filter]; [reflexivity|]. cbn [fst].
  destruct (Nat.eqb (f x) o); cbn [map snd]; now rewrite IH.
Qed.

Lemma all_requested_visible : forall c o, all_requested c = true -> (o <= ploidy c)%nat -> visible c o = true.
Proof.
  intros c o H Ho. unfold all_requested in H. rewrite forallb_forall in H. apply H. apply in_seq. lia.
Qed.

Lemma all_requested_nth : forall c o, all_requested c = true -> (o <= ploidy c)%nat -> nth o (req c) false = true.
Proof. intros c o H Ho. apply visible_req. now apply all_requested_visible. Qed.

Lemma outputs_partition : forall rs c l reads outs hist,
  all_requested c = true -> add_untagged c = false -> discard c = false ->
  run rs c l reads = Done outs hist ->
  let lab := map (label c (entries l)) reads in
  length outs = S (ploidy c) /\
  Forall (fun k => (k <= ploidy c)%nat) lab /\
  forall o, (o <= ploidy c)%nat ->
    nth o outs None =
    Some (map (written rs) (map snd (filter (fun p => Nat.eqb (fst p) o) (combine lab reads)))).
Proof.
  intros rs c l reads outs hist Hall Hadd Hdis Hrun lab.
  pose proof (run_done _ _ _ _ _ _ Hrun) as [Hchk _].
  pose proof (valid_input_hap_ok _ _ (check_list_none_valid _ _ _ Hchk)) as Hok.
  split; [eapply outs_length; eassumption|]. split.
  - unfold lab. rewrite Forall_forall. intros k Hk. apply in_map_iff in Hk as [r [<- _]].
    unfold label. pose proof (assign_range c (entries l) (rname r) Hok). lia.
  - intros o Ho. rewrite (routing_gen rs c l reads outs hist o) by (try assumption; now rewrite Hdis).
    rewrite (all_requested_visible c o Hall Ho). do 2 f_equal. unfold lab. rewrite combine_filter_label.
    apply filter_ext_in'. intros r _. unfold kept, goes_to, label. rewrite Hdis, Hadd. cbn [negb orb andb].
    rewrite andb_false_r, orb_false_r.
    pose proof (assign_range c (entries l) (rname r) Hok).
    destruct (assign c (entries l) (rname r) =? Z.of_nat o) eqn:E.
    + apply Z.eqb_eq in E. symmetry. apply Nat.eqb_eq. lia.
    + apply Z.eqb_neq in E. symmetry. apply Nat.eqb_neq. lia.
Qed.

(* ---------------------------------------------------------------------------------- histogram *)
Definition mkrow (c : cfg) (evs : list (Z * read)) (l : Z) : list Z :=
  l :: map (fun h => hcount evs h l) (haps c).

Lemma hist_rows_mk : forall rs c evs, hist_rows rs c evs = map (mkrow c evs) (all_lengths rs c evs).
Proof. reflexivity. Qed.

Lemma mkrow_hd : forall c evs x, hd (-1) (mkrow c evs x) = x.
Proof. reflexivity. Qed.

Lemma zmem_In : forall x l, zmem x l = true <-> In x l.
Proof. intros. apply existsb_eqb_In. Qed.

Lemma sumcol_rows : forall c evs lens l k, NoDup lens ->
  sumcol (map (mkrow c evs) lens) l k = if zmem l lens then nth (S k) (mkrow c evs l) 0 else 0.
Proof.
  intros c evs lens l k Hnd. unfold sumcol. induction Hnd as [|x lens Hx Hnd IH]; [reflexivity|].
  cbn [map filter]. rewrite mkrow_hd. unfold zmem. cbn [existsb]. fold (zmem l lens).
  rewrite (Z.eqb_sym l x). destruct (x =? l) eqn:E.
  - apply Z.eqb_eq in E. subst x. cbn [map fold_right orb]. rewrite IH.
    destruct (zmem l lens) eqn:M; [apply zmem_In in M; contradiction|]. lia.
  - cbn [orb]. exact IH.
Qed.

Lemma mkrow_nth : forall c evs l k, (k <= ploidy c)%nat -> nth (S k) (mkrow c evs l) 0 = hcount evs (Z.of_nat k) l.
Proof.
  intros c evs l k Hk. unfold mkrow, haps. cbn [nth]. rewrite map_map.
  rewrite nth_map_seq by lia. reflexivity.
Qed.

Lemma hcount_nonzero_key : forall evs h l, hcount evs h l <> 0 -> In l (keys_of evs h).
Proof.
  intros evs h l H. unfold hcount in H. unfold keys_of. rewrite dedup_In.
  destruct (filter (fun ev => (fst ev =? h) && (rlen (snd ev) =? l)) evs) as [|ev t] eqn:F; [cbn in H; lia|].
  assert (Hin : In ev (filter (fun ev => (fst ev =? h) && (rlen (snd ev) =? l)) evs)) by (rewrite F; now left).
  apply filter_In in Hin as [Hin Hc]. apply andb_true_iff in Hc as [H1 H2]. apply Z.eqb_eq in H2.
  apply in_map_iff. exists ev. split; [assumption|]. apply filter_In. auto.
Qed.

Lemma all_lengths_In : forall rs c evs l, In l (all_lengths rs c evs) <-> In l (flat_map (keys_of evs) (haps c)).
Proof.
  intros rs c evs l. unfold all_lengths. rewrite isort_In. destruct (hist_dup_rows rs); [tauto|apply dedup_In].
Qed.

Lemma haps_In : forall c k, (k <= ploidy c)%nat -> In (Z.of_nat k) (haps c).
Proof. intros c k Hk. unfold haps. apply in_map. apply in_seq. lia. Qed.

Lemma histogram_rows : forall rs c evs,
  hist_dup_rows rs = false ->
  let rows := hist_rows rs c evs in
  StronglySorted Z.lt (map (hd (-1)) rows) /\
  Forall (fun row => length row = S (S (ploidy c))) rows /\
  forall l k, (k <= ploidy c)%nat -> sumcol rows l k = hcount evs (Z.of_nat k) l.
Proof.
  intros rs c evs Hd rows. unfold rows. rewrite hist_rows_mk.
  assert (Hnd : NoDup (all_lengths rs c evs)).
  { unfold all_lengths. rewrite Hd. apply isort_NoDup, dedup_NoDup. }
  split; [|split].
  - rewrite map_map. cbn [mkrow hd]. rewrite map_id. apply sorted_nodup_lt; [|assumption].
    unfold all_lengths. apply isort_sorted.
  - rewrite Forall_forall. intros row Hrow. apply in_map_iff in Hrow as [l [<- _]].
    unfold mkrow, haps. cbn [length]. now rewrite !map_length, seq_length.
  - intros l k Hk. rewrite sumcol_rows by assumption.
    destruct (zmem l (all_lengths rs c evs)) eqn:M; [now apply mkrow_nth|].
    destruct (Z.eq_dec (hcount evs (Z.of_nat k) l) 0) as [E|E]; [now rewrite E|].
    exfalso. apply hcount_nonzero_key in E.
    assert (In l (all_lengths rs c evs)).
    { apply all_lengths_In. apply in_flat_map. exists (Z.of_nat k). split; [now apply haps_In|assumption]. }
    apply zmem_In in H. congruence.
Qed.

Lemma histogram_counts : forall rs c l reads outs rows,
  hist_dup_rows rs = false ->
  run rs c l reads = Done outs (Some rows) ->
  StronglySorted Z.lt (map (hd (-1)) rows) /\
  Forall (fun row => length row = S (S (ploidy c))) rows /\
  forall len k, (k <= ploidy c)%nat -> sumcol rows len k = hcount (events rs c l reads) (Z.of_nat k) len.
Proof.
  intros rs c l reads outs rows Hd Hrun. apply run_done in Hrun as [_ [_ Hh]].
  destruct (want_hist c); [|discriminate]. inversion Hh; subst. now apply histogram_rows.
Qed.

(* the counters against what was written: column k counts the records of class k in output k
   (with --add-untagged an H output additionally holds the untagged records, counted in column 0) *)
Lemma length_filter_split : forall {A} (p q : A -> bool) l,
  (forall x, In x l -> p x && q x = false) ->
  length (filter (fun x => p x || q x) l) = (length (filter p l) + length (filter q l))%nat.
Proof.
  intros A p q l. induction l as [|x l IH]; intros H; cbn [filter]; [reflexivity|].
  pose proof (H x (or_introl eq_refl)) as Hx.
  assert (IH' : length (filter (fun x => p x || q x) l) = (length (filter p l) + length (filter q l))%nat)
    by (apply IH; intros y Hy; apply H; now right).
  destruct (p x), (q x); cbn in *; try discriminate; lia.
Qed.

Lemma hcount_written : forall c evs o len,
  Z.of_nat (length (filter (fun r => rlen r =? len) (out_reads c evs o))) =
  hcount evs (Z.of_nat o) len + (if add_untagged c && (0 <? o)%nat then hcount evs 0 len else 0).
Proof.
  intros c evs o len. unfold out_reads, hcount.
  rewrite filter_map_comm, map_length, filter_filter.
  destruct (add_untagged c && (0 <? o)%nat) eqn:A.
  - apply andb_true_iff in A as [A1 A2]. apply Nat.ltb_lt in A2.
    rewrite <- Nat2Z.inj_add. f_equal.
    rewrite <- length_filter_split.
    + f_equal. apply filter_ext_in'. intros ev _. unfold goes_to. rewrite A1.
      assert ((0 <? o)%nat = true) as -> by now apply Nat.ltb_lt.
      destruct (fst ev =? Z.of_nat o), (fst ev =? 0), (rlen (snd ev) =? len); reflexivity.
    + intros ev _. destruct (fst ev =? Z.of_nat o) eqn:E1, (fst ev =? 0) eqn:E2; try reflexivity.
      * apply Z.eqb_eq in E1, E2. lia.
      * cbn. now destruct (rlen (snd ev) =? len).
  - rewrite Z.add_0_r. do 2 f_equal. apply filter_ext_in'. intros ev _. unfold goes_to.
    destruct (add_untagged c); cbn [andb] in *; [|now rewrite andb_false_r, orb_false_r].
    rewrite A, andb_false_r, orb_false_r. reflexivity.
Qed.

(* ... and against the input (no early exit) *)
Lemma hcount_expected : forall rs c es reads m h len,
  discard c && early_exit rs = false ->
  hcount (pass rs c es m reads) h len = exp_count c es (assign c es) reads h len.
Proof.
  intros rs c es reads m h len Hx. rewrite pass_no_exit by assumption. unfold hcount, exp_count.
  rewrite filter_map_comm, map_length, filter_filter. do 2 f_equal.
  apply filter_ext_in'. intros r _. unfold wanted, tag_read. cbn [fst snd].
  destruct (kept c es r); cbn [andb]; [|reflexivity].
  destruct (assign c es (rname r) =? h) eqn:E; cbn [andb]; [|now rewrite andb_false_r].
  apply Z.eqb_eq in E. rewrite E. now destruct (processed c h).
Qed.

(* ------------------------------------------- the early exit is exact when read names are unique *)
Definition nknown (es : list entry) (reads : list read) : nat :=
  length (filter (fun r => known es (rname r)) reads).

Lemma no_known_no_wanted : forall c es reads,
  discard c = true -> nknown es reads = 0%nat -> filter (wanted c es) reads = [].
Proof.
  intros c es reads Hd. induction reads as [|r reads IH]; intros Hn; [reflexivity|].
  unfold nknown in Hn. cbn [filter] in *. unfold wanted at 1, kept. rewrite Hd. cbn [negb orb].
  destruct (known es (rname r)); [cbn in Hn; lia|]. cbn [andb]. now apply IH.
Qed.

Lemma pass_exit_eq : forall rs c es reads m,
  discard c = true -> early_exit rs = true ->
  Z.of_nat (nknown es reads) <= m ->
  pass rs c es m reads = map (tag_read c es) (filter (wanted c es) reads).
Proof.
  intros rs c es reads. induction reads as [|r reads IH]; intros m Hd He Hm; [reflexivity|].
  cbn [pass filter]. unfold wanted at 1, kept. rewrite Hd, He. cbn [negb orb andb].
  unfold nknown in Hm. cbn [filter] in Hm.
  destruct (known es (rname r)) eqn:K; cbn [negb andb].
  - cbn [length] in Hm. fold (nknown es reads) in Hm.
    destruct (processed c (assign c es (rname r))) eqn:P; cbn [negb].
    + cbn [map]. unfold tag_read at 1. f_equal.
      destruct (m - 1 =? 0) eqn:E.
      * apply Z.eqb_eq in E. rewrite no_known_no_wanted; [reflexivity|assumption|lia].
      * apply IH; try assumption. lia.
    + apply IH; try assumption. lia.
  - apply IH; assumption.
Qed.

Lemma known_In : forall es n, known es n = true <-> In n (map ename es).
Proof.
  intros es n. unfold known. rewrite existsb_exists, in_map_iff. split.
  - intros [e [Hin He]]. apply Z.eqb_eq in He. eauto.
  - intros [e [He Hin]]. exists e. split; [assumption|]. now apply Z.eqb_eq.
Qed.

Lemma NoDup_filter : forall {A} (p : A -> bool) l, NoDup l -> NoDup (filter p l).
Proof.
  intros A p l H. induction H as [|x l Hx Hn IH]; cbn [filter]; [constructor|].
  destruct (p x); [|assumption]. constructor; [|assumption]. intros Hin. apply filter_In in Hin. tauto.
Qed.

Lemma nknown_le_distinct : forall es reads, NoDup (map rname reads) -> (nknown es reads <= distinct_names es)%nat.
Proof.
  intros es reads Hnd. unfold nknown, distinct_names.
  replace (length (filter (fun r => known es (rname r)) reads))
    with (length (filter (known es) (map rname reads)))
    by (rewrite filter_map_comm; apply map_length).
  apply NoDup_incl_length; [now apply NoDup_filter|].
  intros n Hn. apply filter_In in Hn as [_ Hk]. apply dedup_In. now apply known_In.
Qed.

Lemma early_exit_exact_unique_names : forall e d h f c l reads,
  NoDup (map rname reads) ->
  run (mkRules e d h f) c l reads = run (mkRules false d h f) c l reads.
Proof.
  intros e d h f c l reads Hnd. destruct e; [|reflexivity].
  unfold run. assert (Hc : check_list (mkRules true d h f) c l = check_list (mkRules false d h f) c l) by reflexivity.
  rewrite Hc. destruct (check_list (mkRules false d h f) c l); [reflexivity|].
  assert (Hev : events (mkRules true d h f) c l reads = events (mkRules false d h f) c l reads).
  { unfold events. rewrite (pass_no_exit (mkRules false d h f)) by apply andb_false_r.
    destruct (discard c) eqn:Hd.
    - apply pass_exit_eq; [assumption|reflexivity|]. apply inj_le. now apply nknown_le_distinct.
    - apply pass_no_exit. now rewrite Hd. }
  rewrite Hev. reflexivity.
Qed.

(* ------------------------------------------------------------------------ refutations (witnesses) *)
Definition w_cfg : cfg := mkCfg true [true; true] [false; false; false] false false true true.
Definition w_list : hlist := mkList false false [(1, 1, 0, 0); (2, 2, 0, 0); (3, 0, 0, 0)].
Definition w_reads : list read := [(1, 4, 101, 101); (1, 2, 102, 102); (2, 1, 103, 103); (3, 5, 104, 104)].

Lemma early_exit_refutes_discard_spec :
  valid_input w_cfg w_list = true /\
  exists outs hist, run legacy w_cfg w_list w_reads = Done outs hist /\
    nth 0 outs None = Some [] /\
    exp_out w_cfg (entries w_list) (assign w_cfg (entries w_list)) w_reads 0 = [104] /\
    l1 w_cfg w_list w_reads (run (rules_of 1) w_cfg w_list w_reads) = false.
Proof. split; [reflexivity|]. eexists; eexists. vm_compute. repeat split; reflexivity. Qed.

Definition w_list2 : hlist := mkList true true [(1, 1, 7, 1); (1, 1, 7, 1); (2, 2, 7, 1)].
Lemma dup_assert_refutes_totality :
  valid_input w_cfg w_list2 = true /\
  run legacy w_cfg w_list2 w_reads = Fail EAssertDup /\
  l1 w_cfg w_list2 w_reads (run (rules_of 2) w_cfg w_list2 w_reads) = false /\
  l1 w_cfg w_list2 w_reads (run repaired w_cfg w_list2 w_reads) = true.
Proof. vm_compute. repeat split; reflexivity. Qed.

Definition w_cfg3 : cfg := mkCfg true [true; true] [false; false; false] false false false true.
Definition w_reads3 : list read := [(1, 4, 101, 101); (2, 4, 103, 103); (3, 5, 104, 104)].
Lemma hist_rows_refute_counts :
  valid_input w_cfg3 w_list = true /\
  exists outs rows, run legacy w_cfg3 w_list w_reads3 = Done outs (Some rows) /\
    rows = [[4; 0; 1; 1]; [4; 0; 1; 1]; [5; 1; 0; 0]] /\
    sumcol rows 4 1 = 2 /\ hcount (events legacy w_cfg3 w_list w_reads3) 1 4 = 1 /\
    l1 w_cfg3 w_list w_reads3 (run (rules_of 4) w_cfg3 w_list w_reads3) = false.
Proof. split; [reflexivity|]. eexists; eexists. vm_compute. repeat split; reflexivity. Qed.

Lemma str_refutes_unmodified : forall c l r,
  rlibstr r <> rpayload r -> check_list legacy c l = None ->
  visible c 1 = true -> kept c (entries l) r = true -> assign c (entries l) (rname r) = 1 ->
  exists outs hist, run legacy c l [r] = Done outs hist /\ nth 1 outs None = Some [rlibstr r] /\
    exp_out c (entries l) (assign c (entries l)) [r] 1 = [rpayload r].
Proof.
  intros c l r Hne Hchk Hvis Hk Ha. pose proof (visible_req c 1 Hvis) as Hreq.
  unfold run. rewrite Hchk. eexists; eexists. split; [reflexivity|].
  assert (Hp : (1 <= ploidy c)%nat).
  { unfold req in Hreq. unfold ploidy. destruct (req_h c); [discriminate|cbn; lia]. }
  rewrite outputs_nth by assumption. rewrite Hvis.
  unfold events. cbn [pass]. unfold kept in Hk.
  assert (Hd : discard c && negb (known (entries l) (rname r)) = false).
  { destruct (discard c), (known (entries l) (rname r)); cbn in *; congruence. }
  rewrite Hd, Ha.
  assert (Hpr : processed c 1 = true) by (unfold processed; change (Z.to_nat 1) with 1%nat; now rewrite Hreq).
  rewrite Hpr. cbn [negb].
  assert (Hg : goes_to c 1 1 = true) by reflexivity.
  split.
  - destruct (discard c && early_exit legacy); [destruct (_ =? 0)|];
      unfold out_reads; cbn [filter fst snd map]; rewrite Hg; reflexivity.
  - unfold exp_out. cbn [filter]. unfold kept. 
    assert (Hk' : negb (discard c) || known (entries l) (rname r) = true) by exact Hk.
    rewrite Hk', Ha, Hg. reflexivity.
Qed.

(* ------------------------------------------------------------------- corollaries of routing *)
Lemma add_untagged_spec : forall rs c l reads outs hist o,
  early_exit rs = false -> fastq_via_str rs = false ->
  add_untagged c = true -> discard c = false ->
  run rs c l reads = Done outs hist ->
  (1 <= o <= ploidy c)%nat -> visible c o = true ->
  nth o outs None =
  Some (map rpayload (filter (fun r => (assign c (entries l) (rname r) =? Z.of_nat o) ||
                                       (assign c (entries l) (rname r) =? 0)) reads)).
Proof.
  intros rs c l reads outs hist o He Hf Ha Hd Hrun Ho Hreq.
  rewrite (routing rs c l reads outs hist o He Hf Hrun) by lia. rewrite Hreq. f_equal.
  unfold exp_out. f_equal. apply filter_ext_in'. intros r _. unfold kept, goes_to. rewrite Hd, Ha.
  cbn [negb orb andb]. assert ((0 <? o)%nat = true) as -> by (apply Nat.ltb_lt; lia).
  now rewrite !andb_true_r.
Qed.

Lemma discard_spec : forall rs c l reads outs hist o,
  early_exit rs = false -> fastq_via_str rs = false ->
  discard c = true ->
  run rs c l reads = Done outs hist ->
  (o <= ploidy c)%nat -> visible c o = true ->
  nth o outs None =
  Some (map rpayload (filter (fun r => known (entries l) (rname r) &&
                                       goes_to c (assign c (entries l) (rname r)) o) reads)).
Proof.
  intros rs c l reads outs hist o He Hf Hd Hrun Ho Hreq.
  rewrite (routing rs c l reads outs hist o He Hf Hrun) by lia. rewrite Hreq. f_equal.
  unfold exp_out. f_equal. apply filter_ext_in'. intros r _. unfold kept. now rewrite Hd.
Qed.

Lemma routing_default : forall rs c l reads outs hist o,
  fastq_via_str rs = false ->
  add_untagged c = false -> discard c = false ->
  run rs c l reads = Done outs hist ->
  (o <= ploidy c)%nat -> visible c o = true ->
  nth o outs None =
  Some (map rpayload (filter (fun r => assign c (entries l) (rname r) =? Z.of_nat o) reads)).
Proof.
  intros rs c l reads outs hist o Hf Ha Hd Hrun Ho Hreq.
  rewrite (routing_no_discard rs c l reads outs hist o Hd Hf Hrun) by lia. rewrite Hreq. f_equal.
  unfold exp_out. f_equal. apply filter_ext_in'. intros r _. unfold kept, goes_to. rewrite Hd, Ha.
  cbn [negb orb andb]. now rewrite andb_false_r, orb_false_r.
Qed.

Lemma assign_plain_spec : forall c es n,
  only_largest c = false ->
  ((forall e, In e es -> ename e = n -> tagged e = false) -> assign c es n = 0) /\
  (forall h, (exists e, In e es /\ ename e = n /\ tagged e = true) ->
             (forall e, In e es -> ename e = n -> tagged e = true -> ehap e = h) -> assign c es n = h).
Proof.
  intros c es n Hl. rewrite (assign_plain c es n Hl). split.
  - intros Hnone. destruct (last_hap_cases es n) as [[H0 _]|[e [Hin [Hn [Ht _]]]]]; [assumption|].
    rewrite (Hnone e Hin Hn) in Ht. discriminate.
  - intros h Hex Hall. now apply last_hap_agree.
Qed.

(* -------------------------------------------------------------- largest block, candidate sets *)
Notation tc := on_chrom.

Lemma best_scan_inv : forall all c es cur,
  (forall q k, cur = Some (q, k) -> k = bcount all c q) ->
  match best_scan all es c cur with
  | None => cur = None /\ forall e, In e es -> tc c e = false
  | Some (q, k) =>
      k = bcount all c q /\
      (cur = Some (q, k) \/ exists e, In e es /\ tc c e = true /\ eps e = q) /\
      (forall e, In e es -> tc c e = true -> (bcount all c (eps e) <= k)%nat) /\
      (forall q' k', cur = Some (q', k') -> (k' <= k)%nat)
  end.
Proof.
  intros all c es. induction es as [|e es IH]; intros cur Hcur; cbn [best_scan].
  - destruct cur as [[q k]|].
    + split; [now apply Hcur|]. split; [now left|]. split; [intros e []|].
      intros q' k' H. inversion H; subst. lia.
    + split; [reflexivity|]. intros e [].
  - fold (tc c e).
    set (cur' := if tc c e then
                   match cur with
                   | None => Some (eps e, bcount all c (eps e))
                   | Some (_, kb) => if (kb <? bcount all c (eps e))%nat then Some (eps e, bcount all c (eps e)) else cur
                   end
                 else cur).
    assert (Hcur' : forall q k, cur' = Some (q, k) -> k = bcount all c q).
    { intros q k H. unfold cur' in H. destruct (tc c e); [|now apply Hcur].
      destruct cur as [[q0 k0]|].
      - destruct (k0 <? bcount all c (eps e))%nat; [inversion H; now subst | now apply Hcur].
      - inversion H; now subst. }
    specialize (IH cur' Hcur').
    destruct (best_scan all es c cur') as [[q k]|].
    + destruct IH as [Hk [Hsrc [Hmax Hge]]]. split; [assumption|]. split; [|split].
      * destruct Hsrc as [Hsrc|[e' [Hin [Ht Hp]]]]; [|right; exists e'; cbn [In]; auto].
        unfold cur' in Hsrc. destruct (tc c e) eqn:T; [|now left].
        destruct cur as [[q0 k0]|].
        -- destruct (k0 <? bcount all c (eps e))%nat; [|now left].
           inversion Hsrc; subst. right. exists e. cbn [In]. auto.
        -- inversion Hsrc; subst. right. exists e. cbn [In]. auto.
      * intros e' [->|Hin] Ht; [|now apply Hmax].
        unfold cur' in Hge. rewrite Ht in Hge.
        destruct cur as [[q0 k0]|].
        -- destruct (k0 <? bcount all c (eps e'))%nat eqn:L.
           ++ apply (Hge _ _ eq_refl).
           ++ apply Nat.ltb_ge in L. specialize (Hge _ _ eq_refl). lia.
        -- apply (Hge _ _ eq_refl).
      * intros q' k' H. subst cur. unfold cur' in Hge. destruct (tc c e).
        -- destruct (k' <? bcount all c (eps e))%nat eqn:L.
           ++ apply Nat.ltb_lt in L. specialize (Hge _ _ eq_refl). lia.
           ++ apply (Hge _ _ eq_refl).
        -- apply (Hge _ _ eq_refl).
    + destruct IH as [Hn Hall]. unfold cur' in Hn. destruct (tc c e) eqn:T.
      * destruct cur as [[q0 k0]|]; [destruct (k0 <? bcount all c (eps e))%nat|]; discriminate.
      * split; [assumption|]. intros e' [->|Hin]; [assumption|now apply Hall].
Qed.

Lemma best_block_some : forall es c q, best_block es c = Some q ->
  (exists e, In e es /\ tc c e = true /\ eps e = q) /\
  (forall e, In e es -> tc c e = true -> (bcount es c (eps e) <= bcount es c q)%nat).
Proof.
  intros es c q H. unfold best_block in H.
  pose proof (best_scan_inv es c es None) as Inv.
  destruct (best_scan es es c None) as [[q0 k]|]; [|discriminate]. cbn in H. inversion H; subst q0.
  destruct Inv as [Hk [Hsrc [Hmax _]]]; [intros ? ? ?; discriminate|].
  split.
  - destruct Hsrc as [?|?]; [discriminate|assumption].
  - intros e Hin Ht. rewrite <- Hk. now apply Hmax.
Qed.

Lemma best_block_none : forall es c, best_block es c = None -> forall e, In e es -> tc c e = false.
Proof.
  intros es c H. unfold best_block in H.
  pose proof (best_scan_inv es c es None) as Inv.
  destruct (best_scan es es c None) as [[q0 k]|]; [discriminate|].
  destruct Inv as [_ Hall]; [intros ? ? ?; discriminate|]. exact Hall.
Qed.

Lemma find_split : forall {A} (p : A -> bool) l x, find p l = Some x ->
  exists pre post, l = pre ++ x :: post /\ p x = true /\ forall y, In y pre -> p y = false.
Proof.
  intros A p l. induction l as [|a l IH]; intros x H; cbn [find] in H; [discriminate|].
  destruct (p a) eqn:E.
  - inversion H; subst. exists [], l. split; [reflexivity|]. split; [assumption|]. intros y [].
  - destruct (IH x H) as [pre [post [-> [Hx Hpre]]]]. exists (a :: pre), post. split; [reflexivity|].
    split; [assumption|]. intros y [->|Hy]; [assumption|now apply Hpre].
Qed.

(* once the running maximum has reached the bound M it is never replaced *)
Lemma best_scan_keep : forall all c M es q,
  (forall e, In e es -> tc c e = true -> (bcount all c (eps e) <= M)%nat) ->
  best_scan all es c (Some (q, M)) = Some (q, M).
Proof.
  intros all c M es q. induction es as [|e es IH]; intros Hle; [reflexivity|].
  cbn [best_scan]. fold (tc c e). destruct (tc c e) eqn:T.
  - assert (L : (M <? bcount all c (eps e))%nat = false).
    { apply Nat.ltb_ge. apply Hle; [now left|assumption]. }
    rewrite L. apply IH. intros e' He'. apply Hle. now right.
  - apply IH. intros e' He'. apply Hle. now right.
Qed.

(* below the bound, the first line that reaches it takes over *)
Lemma best_scan_first : forall all c M pre e0 post cur,
  (cur = None \/ exists q k, cur = Some (q, k) /\ (k < M)%nat) ->
  (forall e, In e pre -> tc c e = true -> (bcount all c (eps e) < M)%nat) ->
  tc c e0 = true -> bcount all c (eps e0) = M ->
  best_scan all (pre ++ e0 :: post) c cur = best_scan all post c (Some (eps e0, M)).
Proof.
  intros all c M pre. induction pre as [|e pre IH]; intros e0 post cur Hcur Hpre T0 M0.
  - cbn [app best_scan]. fold (tc c e0). rewrite T0, M0.
    destruct Hcur as [->|[q [k [-> Hk]]]]; [reflexivity|].
    assert ((k <? M)%nat = true) as -> by now apply Nat.ltb_lt. reflexivity.
  - cbn [app best_scan]. fold (tc c e). apply IH; try assumption.
    + destruct (tc c e) eqn:T; [|assumption].
      assert (Hlt : (bcount all c (eps e) < M)%nat) by (apply Hpre; [now left|assumption]).
      right. destruct Hcur as [->|[q [k [-> Hk]]]].
      * eauto.
      * destruct (k <? bcount all c (eps e))%nat; eauto.
    + intros e' He'. apply Hpre. now right.
Qed.

Lemma is_max_block_spec : forall es c p, is_max_block es c p = true <->
  forall e, In e es -> tc c e = true -> (bcount es c (eps e) <= bcount es c p)%nat.
Proof.
  intros es c p. unfold is_max_block. rewrite forallb_forall. split.
  - intros H e Hin T. specialize (H e Hin). rewrite T in H. cbn in H. now apply Nat.leb_le.
  - intros H e Hin. destruct (tc c e) eqn:T; [|reflexivity]. cbn. apply Nat.leb_le. now apply H.
Qed.

(* the model's choice (Counter.most_common(1)) is the first-inserted block of maximal size *)
Lemma best_block_first_max : forall es c, best_block es c = first_max es c.
Proof.
  intros es c. unfold first_max.
  destruct (find (fun e => tc c e && is_max_block es c (eps e)) es) as [e0|] eqn:F.
  - apply find_split in F as [pre [post [Hes [H0 Hpre]]]].
    apply andb_true_iff in H0 as [T0 Mx]. rewrite is_max_block_spec in Mx.
    unfold best_block. cbn [option_map]. rewrite Hes at 2.
    rewrite (best_scan_first es c (bcount es c (eps e0)) pre e0 post None); try auto.
    + rewrite best_scan_keep; [reflexivity|]. intros e He T. apply Mx; [|assumption].
      rewrite Hes. apply in_or_app. right. now right.
    + intros e He T. specialize (Hpre e He). cbn in Hpre. rewrite T in Hpre. cbn [andb] in Hpre.
      assert (Hin : In e es) by (rewrite Hes; apply in_or_app; now left).
      destruct (Nat.lt_ge_cases (bcount es c (eps e)) (bcount es c (eps e0))) as [|Hge]; [assumption|exfalso].
      assert (is_max_block es c (eps e) = true); [|congruence].
      apply is_max_block_spec. intros e' He' T'. specialize (Mx e' He' T'). lia.
  - cbn [option_map]. destruct (best_block es c) as [q|] eqn:B; [exfalso|reflexivity].
    destruct (best_block_some es c q B) as [[e [Hin [T Hq]]] Hmax].
    pose proof (find_none _ _ F e Hin) as Hn. cbn in Hn. rewrite T in Hn. cbn [andb] in Hn.
    assert (is_max_block es c (eps e) = true); [|congruence].
    apply is_max_block_spec. rewrite Hq. exact Hmax.
Qed.

Lemma in_first_max_best : forall es e, in_first_max es e = in_best es e.
Proof. intros es e. unfold in_first_max, in_best. now rewrite best_block_first_max. Qed.

Lemma cand_untagged : forall c es e, tagged e = false -> cand_entry c es e = [0].
Proof. intros c es e H. unfold cand_entry. now rewrite H. Qed.

Lemma cand_plain : forall c es e, tagged e = true -> only_largest c = false -> cand_entry c es e = [ehap e].
Proof. intros c es e H1 H2. unfold cand_entry. now rewrite H1, H2. Qed.

Lemma cand_in_best : forall c es e, In e es -> tagged e = true -> only_largest c = true ->
  in_best es e = true -> In (ehap e) (cand_entry c es e).
Proof.
  intros c es e Hin Ht Hl Hb. unfold cand_entry. rewrite Ht, Hl, in_first_max_best, Hb. now left.
Qed.

Lemma cand_not_in_best : forall c es e, In e es -> tagged e = true -> only_largest c = true ->
  in_best es e = false -> In 0 (cand_entry c es e).
Proof.
  intros c es e Hin Ht Hl Hb. unfold cand_entry. rewrite Ht, Hl, in_first_max_best, Hb. now left.
Qed.

Lemma entries_of_In : forall es n e, In e (entries_of es n) <-> In e es /\ ename e = n.
Proof. intros es n e. unfold entries_of. rewrite filter_In, Z.eqb_eq. tauto. Qed.

Lemma selected_spec : forall es n, selected es n = true <->
  exists e, In e es /\ ename e = n /\ tagged e = true /\ in_best es e = true.
Proof.
  intros es n. unfold selected. rewrite existsb_exists. split.
  - intros [e [Hin H]]. apply andb_true_iff in H as [H H3]. apply andb_true_iff in H as [H1 H2].
    apply Z.eqb_eq in H1. eauto 6.
  - intros [e [Hin [H1 [H2 H3]]]]. exists e. split; [assumption|]. rewrite H2, H3. apply Z.eqb_eq in H1. now rewrite H1.
Qed.

(* the value the code assigns is one of the candidate readings of SOME entry of the name (or, under
   --only-largest-block with several entries, the raw haplotype of one of them) *)
Lemma assign_from_entries : forall c es n,
  entries_of es n <> [] ->
  In (assign c es n) (flat_map (cand_entry c es) (entries_of es n) ++
                      (if only_largest c then map ehap (entries_of es n) else [])) /\
  ((exists e, entries_of es n = [e]) -> In (assign c es n) (flat_map (cand_entry c es) (entries_of es n))).
Proof.
  intros c es n Hne.
  assert (Hzero : (forall e, In e es -> ename e = n -> tagged e = false) ->
                  In 0 (flat_map (cand_entry c es) (entries_of es n))).
  { intros Hall. destruct (entries_of es n) as [|e t] eqn:E; [congruence|].
    assert (He : In e (entries_of es n)) by (rewrite E; now left). apply entries_of_In in He as [Hin Hn].
    cbn [flat_map]. apply in_or_app. left. rewrite cand_untagged by now apply Hall. now left. }
  assert (Hcand : forall e x, In e es -> ename e = n -> In x (cand_entry c es e) ->
                  In x (flat_map (cand_entry c es) (entries_of es n))).
  { intros e x Hin Hn Hx. apply in_flat_map. exists e. split; [now apply entries_of_In|assumption]. }
  unfold assign. destruct (only_largest c) eqn:L.
  - destruct (selected es n) eqn:S.
    + destruct (last_hap_cases es n) as [[H0 Hall]|[e [Hin [Hn [Ht Hh]]]]].
      * rewrite H0. split; [apply in_or_app; left|intros _]; now apply Hzero.
      * split.
        -- apply in_or_app. right. rewrite <- Hh. apply in_map. now apply entries_of_In.
        -- intros [e1 E1]. rewrite <- Hh.
           assert (He : e = e1).
           { assert (In e (entries_of es n)) by now apply entries_of_In. rewrite E1 in H. now destruct H. }
           apply selected_spec in S as [e2 [Hin2 [Hn2 [Ht2 Hb2]]]].
           assert (He2 : e2 = e1).
           { assert (In e2 (entries_of es n)) by now apply entries_of_In. rewrite E1 in H. now destruct H. }
           subst e2 e1. apply (Hcand e); try assumption. now apply cand_in_best.
    + assert (H0 : In 0 (flat_map (cand_entry c es) (entries_of es n))).
      { destruct (entries_of es n) as [|e t] eqn:E; [congruence|].
        assert (He : In e (entries_of es n)) by (rewrite E; now left). apply entries_of_In in He as [Hin Hn].
        apply (Hcand e); try assumption.
        destruct (tagged e) eqn:T; [|rewrite cand_untagged by assumption; now left].
        apply cand_not_in_best; try assumption.
        destruct (in_best es e) eqn:B; [|reflexivity].
        assert (selected es n = true) by (apply selected_spec; eauto 6). congruence. }
      split; [apply in_or_app; now left | intros _; assumption].
  - destruct (last_hap_cases es n) as [[H0 Hall]|[e [Hin [Hn [Ht Hh]]]]].
    + rewrite H0. split; [apply in_or_app; left|intros _]; now apply Hzero.
    + rewrite <- Hh.
      assert (In (ehap e) (flat_map (cand_entry c es) (entries_of es n))).
      { apply (Hcand e); try assumption. rewrite cand_plain by assumption. now left. }
      split; [apply in_or_app; now left | intros _; assumption].
Qed.

Lemma entries_of_nil_unknown : forall es n, entries_of es n = [] -> known es n = false.
Proof.
  intros es n H. destruct (known es n) eqn:K; [|reflexivity]. exfalso.
  unfold known in K. apply existsb_exists in K as [e [Hin He]]. apply Z.eqb_eq in He.
  assert (In e (entries_of es n)) by now apply entries_of_In. rewrite H in H0. destruct H0.
Qed.

Lemma assign_in_cands : forall c es n, In (assign c es n) (cands c es n).
Proof.
  intros c es n. unfold cands. destruct (entries_of es n) as [|e [|e' t]] eqn:E.
  - rewrite assign_unlisted by now apply entries_of_nil_unknown. now left.
  - destruct (assign_from_entries c es n) as [_ H]; [rewrite E; discriminate|].
    rewrite E in H. specialize (H (ex_intro _ e eq_refl)). cbn [flat_map] in H. now rewrite app_nil_r in H.
  - destruct (assign_from_entries c es n) as [H _]; [rewrite E; discriminate|].
    rewrite E in H. apply dedup_In. exact H.
Qed.

(* --------------------------------------------------- the executable specification accepts the
   repaired model on every valid input (the oracle used on the implementation is not over-strict) *)
Definition small {A} (l : list A) : bool := match l with [] | [_] => true | _ => false end.
Definition ch_of (c : cfg) (es : list entry) (names : list Z) : list (Z * Z) :=
  flat_map (fun n => if small (cands c es n) then [] else [(n, assign c es n)]) names.

Lemma all_choices_cons : forall c es n names,
  all_choices c es (n :: names) =
  match cands c es n with
  | [] | [_] => all_choices c es names
  | hs => flat_map (fun h => map (cons (n, h)) (all_choices c es names)) hs
  end.
Proof. reflexivity. Qed.

Lemma ch_of_cons : forall c es n names,
  ch_of c es (n :: names) = (if small (cands c es n) then [] else [(n, assign c es n)]) ++ ch_of c es names.
Proof. reflexivity. Qed.

Lemma ch_of_in_all_choices : forall c es names, In (ch_of c es names) (all_choices c es names).
Proof.
  intros c es names. induction names as [|n names IH]; [now left|].
  rewrite all_choices_cons, ch_of_cons.
  pose proof (assign_in_cands c es n) as Ha.
  destruct (cands c es n) as [|a [|b t]] eqn:E; unfold small; try exact IH.
  change ([(n, assign c es n)] ++ ch_of c es names) with ((n, assign c es n) :: ch_of c es names).
  apply in_flat_map. exists (assign c es n). split; [assumption|]. now apply in_map.
Qed.

Lemma lookup_ch_of_small : forall c es names n, small (cands c es n) = true -> lookup (ch_of c es names) n = None.
Proof.
  intros c es names n Hs. induction names as [|m names IH]; [reflexivity|].
  rewrite ch_of_cons.
  destruct (small (cands c es m)) eqn:Sm; cbn [app]; [assumption|].
  cbn [lookup]. destruct (m =? n) eqn:E; [|assumption]. apply Z.eqb_eq in E. subst. congruence.
Qed.

Lemma lookup_ch_of_big : forall c es names n, small (cands c es n) = false -> In n names ->
  lookup (ch_of c es names) n = Some (assign c es n).
Proof.
  intros c es names n Hs. induction names as [|m names IH]; intros Hin; [destruct Hin|].
  rewrite ch_of_cons.
  destruct (small (cands c es m)) eqn:Sm; cbn [app].
  - destruct Hin as [->|Hin]; [congruence|now apply IH].
  - cbn [lookup]. destruct (m =? n) eqn:E.
    + apply Z.eqb_eq in E. now subst.
    + apply Z.eqb_neq in E. destruct Hin as [?|Hin]; [contradiction|now apply IH].
Qed.

Lemma resolve_ch_of : forall c es names n, In n names -> resolve c es (ch_of c es names) n = assign c es n.
Proof.
  intros c es names n Hin. unfold resolve. destruct (small (cands c es n)) eqn:S.
  - rewrite lookup_ch_of_small by assumption. pose proof (assign_in_cands c es n) as Ha.
    destruct (cands c es n) as [|a [|b t]]; [destruct Ha| |discriminate].
    destruct Ha as [<-|[]]. reflexivity.
  - now rewrite lookup_ch_of_big.
Qed.

Lemma exp_out_ext : forall c es f g reads o,
  (forall r, In r reads -> f (rname r) = g (rname r)) -> exp_out c es f reads o = exp_out c es g reads o.
Proof.
  intros c es f g reads o H. unfold exp_out. f_equal. apply filter_ext_in'. intros r Hr. now rewrite (H r Hr).
Qed.

Lemma exp_count_ext : forall c es f g reads h len,
  (forall r, In r reads -> f (rname r) = g (rname r)) -> exp_count c es f reads h len = exp_count c es g reads h len.
Proof.
  intros c es f g reads h len H. unfold exp_count. do 2 f_equal. apply filter_ext_in'. intros r Hr. now rewrite (H r Hr).
Qed.

Lemma routing_with_true : forall c es f reads outs,
  (forall o, (o <= ploidy c)%nat ->
     nth o outs None = if visible c o then Some (exp_out c es f reads o) else None) ->
  routing_with c es f reads outs = true.
Proof.
  intros c es f reads outs H. unfold routing_with. apply forallb_forall. intros o Ho. apply in_seq in Ho.
  rewrite H by lia. destruct (visible c o); [|reflexivity]. cbn [andb]. apply zlist_eqb_refl.
Qed.

Lemma valid_check_list_repaired : forall c l, valid_input c l = true -> check_list repaired c l = None.
Proof.
  intros c l H. unfold valid_input in H. unfold check_list.
  apply andb_true_iff in H as [H H4]. apply andb_true_iff in H as [H H3]. apply andb_true_iff in H as [H1 H2].
  apply negb_true_iff in H1, H2, H4. rewrite H1, H2, H3, H4. cbn [negb dup_assert repaired].
  now rewrite andb_false_r.
Qed.

Lemma concat_len : forall {A} (ls : list (list A)), length (concat ls) = list_sum (map (@length A) ls).
Proof. intros A ls. induction ls as [|l ls IH]; [reflexivity|]. cbn [concat map list_sum]. now rewrite app_length, IH. Qed.

Lemma filter_false : forall {A} (l : list A), filter (fun _ => false) l = [].
Proof. intros A l. induction l; [reflexivity|assumption]. Qed.
Lemma filter_true : forall {A} (l : list A), filter (fun _ => true) l = l.
Proof. intros A l. induction l as [|x l IH]; [reflexivity|]. cbn [filter]. now rewrite IH. Qed.

Lemma list_sum_cons : forall x l, list_sum (x :: l) = (x + list_sum l)%nat.
Proof. reflexivity. Qed.

Lemma class_sizes_sum : forall {A} (h : A -> Z) (l : list A) n s,
  list_sum (map (fun o => length (filter (fun r => h r =? Z.of_nat o) l)) (seq s n)) =
  length (filter (fun r => (Z.of_nat s <=? h r) && (h r <? Z.of_nat (s + n))) l).
Proof.
  intros A h l n. induction n as [|n IH]; intros s.
  - cbn [seq map]. change (list_sum []) with 0%nat. rewrite (filter_ext_in' _ (fun _ => false)); [now rewrite filter_false|].
    intros r _. destruct (Z.of_nat s <=? h r) eqn:E1, (h r <? Z.of_nat (s + 0)) eqn:E2; try reflexivity.
    apply Z.leb_le in E1. apply Z.ltb_lt in E2. lia.
  - cbn [seq map]. rewrite list_sum_cons. rewrite IH. rewrite <- length_filter_split.
    + f_equal. apply filter_ext_in'. intros r _.
      destruct (h r =? Z.of_nat s) eqn:E0, (Z.of_nat (S s) <=? h r) eqn:E1, (h r <? Z.of_nat (S s + n)) eqn:E2,
               (Z.of_nat s <=? h r) eqn:E3, (h r <? Z.of_nat (s + S n)) eqn:E4; try reflexivity; exfalso;
        repeat match goal with
               | H : (_ =? _) = true |- _ => apply Z.eqb_eq in H
               | H : (_ =? _) = false |- _ => apply Z.eqb_neq in H
               | H : (_ <=? _) = true |- _ => apply Z.leb_le in H
               | H : (_ <=? _) = false |- _ => apply Z.leb_gt in H
               | H : (_ <? _) = true |- _ => apply Z.ltb_lt in H
               | H : (_ <? _) = false |- _ => apply Z.ltb_ge in H
               end; lia.
    + intros r _. destruct (h r =? Z.of_nat s) eqn:E0; [|reflexivity]. cbn [andb].
      destruct (Z.of_nat (S s) <=? h r) eqn:E1; [|reflexivity]. apply Z.eqb_eq in E0. apply Z.leb_le in E1. lia.
Qed.

Lemma pd_map_seq : forall (F : nat -> list Z) n s,
  (forall i j x, i <> j -> In x (F i) -> In x (F j) -> False) ->
  pairwise_disjoint (map F (seq s n)) = true.
Proof.
  intros F n. induction n as [|n IH]; intros s H; [reflexivity|].
  cbn [seq map pairwise_disjoint]. rewrite IH by assumption. rewrite andb_true_r.
  apply forallb_forall. intros l' Hl'. apply in_map_iff in Hl' as [j [<- Hj]]. apply in_seq in Hj.
  apply forallb_forall. intros x Hx. apply negb_true_iff. destruct (zmem x (F j)) eqn:M; [|reflexivity].
  exfalso. apply zmem_In in M. apply (H s j x); [lia|assumption|assumption].
Qed.

Section L1Sound.
  Variables (c : cfg) (l : hlist) (reads : list read).
  Hypothesis Hvalid : valid_input c l = true.
  Let es := entries l.
  Let a := assign c es.
  Let ch := ch_of c es (amb_names c es reads).
  Let ra := resolve c es ch.
  Let evs := events repaired c l reads.

  Lemma ra_on_reads : forall r, In r reads -> ra (rname r) = a (rname r).
  Proof.
    intros r Hr. unfold ra, ch, a. apply resolve_ch_of. unfold amb_names. apply dedup_In. now apply in_map.
  Qed.

  Lemma run_repaired : run repaired c l reads =
    Done (outputs repaired c evs) (if want_hist c then Some (hist_rows repaired c evs) else None).
  Proof. unfold run. now rewrite valid_check_list_repaired. Qed.

  Lemma routing_ra : routing_with c es ra reads (outputs repaired c evs) = true.
  Proof.
    apply routing_with_true. intros o Ho.
    rewrite (routing repaired c l reads _ _ o eq_refl eq_refl run_repaired Ho).
    destruct (visible c o); [|reflexivity]. f_equal. apply exp_out_ext. intros r Hr. symmetry. now apply ra_on_reads.
  Qed.

  Lemma ch_in : In ch (all_choices c es (amb_names c es reads)).
  Proof. apply ch_of_in_all_choices. Qed.

  Lemma l1_routing_ok : l1_routing c l reads (outputs repaired c evs) = true.
  Proof.
    unfold l1_routing. apply andb_true_iff. split.
    - unfold ok_outs_len. rewrite outputs_length. apply Nat.eqb_refl.
    - apply existsb_exists. exists ch. split; [apply ch_in | apply routing_ra].
  Qed.

  Lemma hist_ra : hist_with c es ra reads (hist_rows repaired c evs) = true.
  Proof.
    destruct (histogram_rows repaired c evs eq_refl) as [_ [Hlen Hsum]].
    unfold hist_with. apply andb_true_iff. split.
    - apply forallb_forall. intros row Hrow. rewrite Forall_forall in Hlen. rewrite (Hlen row Hrow). apply Nat.eqb_refl.
    - apply forallb_forall. intros len _. apply forallb_forall. intros k Hk. apply in_seq in Hk.
      apply Z.eqb_eq. rewrite Hsum by lia. unfold evs, events.
      rewrite hcount_expected by apply andb_false_r.
      apply exp_count_ext. intros r Hr. symmetry. now apply ra_on_reads.
  Qed.

  Lemma l1_hist_ok : l1_hist c l reads (outputs repaired c evs)
                       (if want_hist c then Some (hist_rows repaired c evs) else None) = true.
  Proof.
    unfold l1_hist. destruct (want_hist c); [|reflexivity]. cbn [andb]. rewrite l1_routing_ok.
    apply existsb_exists. exists ch. split; [apply ch_in|]. fold es. fold ra. now rewrite routing_ra, hist_ra.
  Qed.

  Hypothesis Hpayload : forall r1 r2, In r1 reads -> In r2 reads -> rpayload r1 = rpayload r2 -> rname r1 = rname r2.

  Let F (o : nat) : list Z := map rpayload (filter (fun r => a (rname r) =? Z.of_nat o) reads).

  Lemma outputs_as_classes : partition_applies c = true ->
    outputs repaired c evs = map (fun o => Some (F o)) (seq 0 (S (ploidy c))).
  Proof.
    intros Hp. unfold partition_applies in Hp. apply andb_true_iff in Hp as [Hp Hd]. apply andb_true_iff in Hp as [Hall Ha].
    apply negb_true_iff in Hd, Ha. unfold outputs. apply map_ext_in. intros o Ho. apply in_seq in Ho.
    rewrite (all_requested_visible c o Hall) by lia. f_equal. unfold evs, events.
    rewrite out_reads_no_exit; [|apply andb_false_r | apply all_requested_nth; [assumption|lia]].
    unfold F. apply f_equal. apply filter_ext_in'. intros r _. unfold kept, goes_to. rewrite Hd, Ha. cbn [negb orb andb].
    now rewrite andb_false_r, orb_false_r.
  Qed.

  Lemma F_In : forall o x, In x (F o) <-> exists r, In r reads /\ a (rname r) = Z.of_nat o /\ rpayload r = x.
  Proof.
    intros o x. unfold F. rewrite in_map_iff. split.
    - intros [r [Hx Hr]]. apply filter_In in Hr as [Hr Ha]. apply Z.eqb_eq in Ha. eauto.
    - intros [r [Hr [Ha Hx]]]. exists r. split; [assumption|]. apply filter_In. split; [assumption|now apply Z.eqb_eq].
  Qed.

  Lemma l1_partition_ok : l1_partition c reads (outputs repaired c evs) = true.
  Proof.
    unfold l1_partition. destruct (partition_applies c) eqn:Hp; [|reflexivity]. cbn [negb orb].
    rewrite (outputs_as_classes Hp). rewrite map_map. cbn [olist].
    assert (Hok : forallb (hap_ok (ploidy c)) es = true) by now apply valid_input_hap_ok.
    apply andb_true_iff; split; [apply andb_true_iff; split; [apply andb_true_iff; split; [apply andb_true_iff; split|]|]|].
    - unfold ok_outs_len. rewrite map_length, seq_length. apply Nat.eqb_refl.
    - apply forallb_forall. intros o Ho. apply in_map_iff in Ho as [k [<- _]]. reflexivity.
    - apply pd_map_seq. intros i j x Hij Hi Hj.
      apply F_In in Hi as [r1 [Hr1 [Ha1 Hx1]]]. apply F_In in Hj as [r2 [Hr2 [Ha2 Hx2]]].
      assert (rname r1 = rname r2) by (apply Hpayload; congruence).
      rewrite H in Ha1. rewrite Ha1 in Ha2. lia.
    - apply forallb_forall. intros lst Hl. apply in_map_iff in Hl as [o [<- _]].
      rewrite filter_map_comm.
      replace (filter (fun x => zmem (rpayload x) (F o)) reads)
        with (filter (fun r => a (rname r) =? Z.of_nat o) reads); [apply zlist_eqb_refl|].
      apply filter_ext_in'. intros r Hr.
      destruct (a (rname r) =? Z.of_nat o) eqn:E.
      + symmetry. apply zmem_In. apply F_In. exists r. apply Z.eqb_eq in E. auto.
      + symmetry. destruct (zmem (rpayload r) (F o)) eqn:M; [|reflexivity]. exfalso.
        apply zmem_In in M. apply F_In in M as [r' [Hr' [Ha' Hx']]].
        assert (rname r' = rname r) by now apply Hpayload. rewrite H in Ha'. apply Z.eqb_neq in E. contradiction.
    - apply Nat.eqb_eq. rewrite concat_len, map_map. unfold F.
      rewrite (map_ext _ (fun o => length (filter (fun r => a (rname r) =? Z.of_nat o) reads)))
        by (intros o; apply map_length).
      rewrite (class_sizes_sum (fun r => a (rname r)) reads (S (ploidy c)) 0).
      rewrite (filter_ext_in' _ (fun _ => true)); [now rewrite filter_true|].
      intros r _. pose proof (assign_range c es (rname r) Hok) as R. fold a in R.
      apply andb_true_iff. split; [apply Z.leb_le|apply Z.ltb_lt]; lia.
  Qed.

  Lemma l1_sound : l1 c l reads (run repaired c l reads) = true.
  Proof.
    rewrite run_repaired. unfold l1. now rewrite Hvalid, l1_routing_ok, l1_partition_ok, l1_hist_ok.
  Qed.
End L1Sound.

(* ---------------------------------------- what the executable routing clause means (as a Prop) *)
Lemma cand_entry_nonempty : forall c es e, cand_entry c es e <> [].
Proof.
  intros c es e. unfold cand_entry.
  destruct (negb (tagged e)); [discriminate|]. destruct (negb (only_largest c)); [discriminate|].
  destruct (in_first_max es e); discriminate.
Qed.

Lemma cands_nonempty : forall c es n, cands c es n <> [].
Proof.
  intros c es n. unfold cands. destruct (entries_of es n) as [|e [|e' t]]; [discriminate|apply cand_entry_nonempty|].
  intros H. pose proof (cand_entry_nonempty c es e) as Hne.
  destruct (cand_entry c es e) as [|x xs] eqn:E; [congruence|].
  assert (Hin : In x (dedup (flat_map (cand_entry c es) (e :: e' :: t) ++
                             (if only_largest c then map ehap (e :: e' :: t) else [])))).
  { apply dedup_In. apply in_or_app. left. cbn [flat_map]. rewrite E. now left. }
  rewrite H in Hin. destruct Hin.
Qed.

Lemma all_choices_members : forall c es names ch, In ch (all_choices c es names) ->
  forall n h, In (n, h) ch -> In h (cands c es n).
Proof.
  intros c es names. induction names as [|m names IH]; intros ch Hch n h Hin.
  - destruct Hch as [<-|[]]. destruct Hin.
  - rewrite all_choices_cons in Hch.
    destruct (cands c es m) as [|a [|b t]] eqn:E; try (now apply (IH ch)).
    apply in_flat_map in Hch as [h0 [Hh0 Hch]]. apply in_map_iff in Hch as [ch' [<- Hch']].
    destruct Hin as [Heq|Hin]; [|now apply (IH ch')]. inversion Heq; subst. now rewrite E.
Qed.

Lemma lookup_In : forall ch n h, lookup ch n = Some h -> In (n, h) ch.
Proof.
  induction ch as [|[k v] ch IH]; intros n h H; cbn [lookup] in H; [discriminate|].
  destruct (k =? n) eqn:E.
  - apply Z.eqb_eq in E. inversion H; subst. now left.
  - right. now apply IH.
Qed.

Lemma resolve_in_cands : forall c es names ch, In ch (all_choices c es names) ->
  forall n, In (resolve c es ch n) (cands c es n).
Proof.
  intros c es names ch Hch n. unfold resolve. destruct (lookup ch n) as [h|] eqn:L.
  - apply (all_choices_members c es names ch Hch). now apply lookup_In.
  - pose proof (cands_nonempty c es n). destruct (cands c es n); [congruence|now left].
Qed.

Lemma routing_with_meaning : forall c es f reads outs,
  routing_with c es f reads outs = true ->
  forall o, (o <= ploidy c)%nat ->
    nth o outs None = if visible c o then Some (exp_out c es f reads o) else None.
Proof.
  intros c es f reads outs H o Ho. unfold routing_with in H. rewrite forallb_forall in H.
  specialize (H o). rewrite in_seq in H. specialize (H ltac:(lia)).
  destruct (nth o outs None) as [lst|].
  - apply andb_true_iff in H as [H1 H2]. rewrite H1. f_equal. now apply zlist_eqb_eq.
  - apply negb_true_iff in H. now rewrite H.
Qed.

Lemma l1_routing_meaning : forall c l reads outs,
  l1_routing c l reads outs = true ->
  length outs = S (ploidy c) /\
  exists a : Z -> Z,
    (forall n, In (a n) (cands c (entries l) n)) /\
    forall o, (o <= ploidy c)%nat ->
      nth o outs None = if visible c o then Some (exp_out c (entries l) a reads o) else None.
Proof.
  intros c l reads outs H. unfold l1_routing in H. apply andb_true_iff in H as [Hlen H].
  split; [now apply Nat.eqb_eq|].
  apply existsb_exists in H as [ch [Hch Hr]]. exists (resolve c (entries l) ch). split.
  - now apply (resolve_in_cands c (entries l) _ ch Hch).
  - now apply routing_with_meaning.
Qed.

(* ------------------------------------------------ the null device as output path changes no counter *)
Definition with_null (c : cfg) (nl : list bool) : cfg :=
  mkCfg (req_untagged c) (req_h c) nl (add_untagged c) (only_largest c) (discard c) (want_hist c).

Lemma pass_with_null : forall rs c nl es reads m,
  pass rs (with_null c nl) es m reads = pass rs c es m reads.
Proof.
  intros rs c nl es reads. induction reads as [|r reads IH]; intros m; [reflexivity|].
  cbn [pass]. rewrite !IH. reflexivity.
Qed.

Lemma null_device_same_histogram : forall rs c nl l reads,
  match run rs (with_null c nl) l reads, run rs c l reads with
  | Done _ h1, Done _ h2 => h1 = h2
  | Fail e1, Fail e2 => e1 = e2
  | _, _ => False
  end.
Proof.
  intros rs c nl l reads. unfold run.
  change (check_list rs (with_null c nl) l) with (check_list rs c l).
  destruct (check_list rs c l); [reflexivity|].
  unfold events. rewrite pass_with_null. reflexivity.
Qed.
