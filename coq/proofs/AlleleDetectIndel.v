(* Reference-free path, insertions and deletions: a generic invariant principle for the _detect_alleles loop and
   the "the other allele fails at once" cases of detect_noref_never_wrong_statement. *)
From Coq Require Import List Arith Bool ZArith Lia.
From WH.Model Require Import EditDist AlleleDetect.
From WH.Proofs Require Import AlleleDetectProofs AlleleDetectNoref.
Import ListNotations.

Section Frame.
Variable R : rules.
Variables (query quals : list Z) (nv : list variant) (start : nat) (whole : cigar).
Variable PQ : cigar -> vprog -> Prop.      (* invariant of a queue entry after the operations in the prefix *)
Variable PV : vprog -> Prop.               (* what is known about an entry of the progress list *)
Variable G : det -> Prop.                  (* what every yield satisfies *)

Notation vvar := (vvar nv).
Definition queues (op : cop) : Prop := op = OpI \/ op = OpD \/ is_match op = true.
Definition moves (op : cop) : Prop := op = OpN \/ op = OpS \/ op = OpH \/ op = OpP.

Hypothesis PV_valid : forall e, PV e -> fresh_entry nv e.
Hypothesis H_move : forall pre op len rest e, whole = pre ++ (op, len) :: rest -> moves op ->
  PQ pre e -> PQ (pre ++ [(op, len)]) e.
Hypothesis H_handle : forall pre op len rest e, whole = pre ++ (op, len) :: rest -> queues op ->
  PQ pre e -> PQ (pre ++ [(op, len)]) (handle op query quals nv (query_units (expand pre)) len e).
Hypothesis H_new : forall pre op len rest e, whole = pre ++ (op, len) :: rest -> queues op -> PV e ->
  start + ref_units (expand pre) <= vpos (vvar e) ->
  vpos (vvar e) < start + ref_units (expand pre) + match op with OpI => if r_ins_span R then 1 else len | _ => len end ->
  (op = OpI -> length (vref (vvar e)) = 0) ->
  PQ (pre ++ [(op, len)])
     (handle op query quals nv (query_units (expand pre)) len
        (reset e match op with
                 | OpD => query_units (expand pre)
                 | _ => query_units (expand pre) + vpos (vvar e) - (start + ref_units (expand pre))
                 end)).
Hypothesis H_verdict : forall pre e y, PQ pre e -> verdict e = Some y -> G y.

Lemma frame : forall cig pre vp queue flank,
  whole = pre ++ cig -> Forall PV vp -> sorted_vp nv vp -> Forall (PQ pre) queue ->
  forall y, In y (detect_loop R cig query quals nv vp queue flank
                              (start + ref_units (expand pre)) (query_units (expand pre))) ->
  G y.
Proof.
induction cig as [|[op len] cig IH]; intros pre vp queue flank Hw Hf Hs Hq y Hy.
- cbn [detect_loop] in Hy. destruct (final_yield_spec _ _ Hy) as (e & He & Hv).
  rewrite Forall_forall in Hq. eapply H_verdict; eauto.
- assert (Hw' : whole = (pre ++ [(op, len)]) ++ cig) by (rewrite <- app_assoc; exact Hw).
  pose proof (ref_units_expand_snoc pre op len) as Hru.
  pose proof (query_units_expand_snoc pre op len) as Hqu.
  cbn [detect_loop] in Hy.
  assert (Hff : Forall (fresh_entry nv) vp) by (eapply Forall_impl; [|exact Hf]; auto).
  destruct (skip_progress_spec nv vp (start + ref_units (expand pre)) Hff Hs) as (dropped & Hd & Hlow).
  remember (skip_progress nv vp (start + ref_units (expand pre))) as vp1 eqn:Evp1. clear Evp1.
  assert (Hf1 : Forall PV vp1) by (rewrite Hd in Hf; apply Forall_app in Hf; apply Hf).
  assert (Hs1 : sorted_vp nv vp1) by (rewrite Hd in Hs; eapply sorted_vp_app; eauto).
  assert (Hmove : moves op -> forall fl,
     In y (detect_loop R cig query quals nv vp1 queue fl
             (start + ref_units (expand (pre ++ [(op, len)]))) (query_units (expand (pre ++ [(op, len)])))) ->
     G y).
  { intros Hm fl Hy'. apply (IH (pre ++ [(op, len)]) vp1 queue fl Hw' Hf1 Hs1); [|exact Hy'].
    rewrite Forall_forall in *. intros e He. eapply H_move; eauto. }
  assert (Hwork : queues op ->
     In y (let (newq, vp') := enqueue (r_ins_left_flank R && negb flank) op nv vp1 (start + ref_units (expand pre))
                                (query_units (expand pre))
                                (start + ref_units (expand pre) + match op with OpI => if r_ins_span R then 1 else len | _ => len end) in
           let queue1 := map (handle op query quals nv (query_units (expand pre)) len) (queue ++ newq) in
           let (ys, queue2) := drain queue1 in
           ys ++ detect_loop R cig query quals nv vp' queue2 true
                   (start + ref_units (expand (pre ++ [(op, len)]))) (query_units (expand (pre ++ [(op, len)])))) ->
     G y).
  { intros Hop Hy'.
    destruct (enqueue _ op nv vp1 _ _ _) as [newq vp'] eqn:Een.
    assert (Hff1 : Forall (fresh_entry nv) vp1) by (eapply Forall_impl; [|exact Hf1]; auto).
    destruct (enqueue_spec nv _ op _ _ _ vp1 newq vp' Hff1 Een) as [[taken Ht] Hnew].
    cbv zeta in Hy'.
    set (queue1 := map (handle op query quals nv (query_units (expand pre)) len) (queue ++ newq)) in *.
    assert (Hq1 : Forall (PQ (pre ++ [(op, len)])) queue1).
    { unfold queue1. rewrite Forall_forall. intros e1 He1. apply in_map_iff in He1 as (e0 & <- & He0).
      apply in_app_or in He0 as [He0|He0].
      - rewrite Forall_forall in Hq. eapply H_handle; eauto.
      - destruct (Hnew e0 He0) as (e & He & -> & Hlt & HI).
        rewrite Forall_forall in Hf1, Hlow. eapply H_new; eauto. }
    destruct (drain queue1) as [ys queue2] eqn:Edr. destruct (drain_spec _ _ _ Edr) as [Hys Hq2].
    apply in_app_or in Hy' as [Hy'|Hy'].
    - destruct (Hys y Hy') as (e & He & Hv). rewrite Forall_forall in Hq1. eapply H_verdict; eauto.
    - apply (IH (pre ++ [(op, len)]) vp' queue2 true Hw'); [| | |exact Hy'].
      + rewrite Ht in Hf1. apply Forall_app in Hf1. apply Hf1.
      + rewrite Ht in Hs1. eapply sorted_vp_app; eauto.
      + rewrite Forall_forall in *. auto. }
  destruct op.
  + apply Hwork; [right; right; reflexivity|].
    rewrite Hru, Hqu. cbn [ref_unit query_unit]. rewrite !Nat.mul_1_l, !Nat.add_assoc. exact Hy.
  + apply Hwork; [left; reflexivity|].
    rewrite Hru, Hqu. cbn [ref_unit query_unit]. rewrite Nat.mul_0_l, Nat.mul_1_l, Nat.add_0_r. exact Hy.
  + apply Hwork; [right; left; reflexivity|].
    rewrite Hru, Hqu. cbn [ref_unit query_unit]. rewrite Nat.mul_1_l, Nat.mul_0_l, Nat.add_0_r, !Nat.add_assoc. exact Hy.
  + apply (Hmove (or_introl eq_refl) false).
    rewrite Hru, Hqu. cbn [ref_unit query_unit]. rewrite Nat.mul_1_l, Nat.mul_0_l, Nat.add_0_r, !Nat.add_assoc. exact Hy.
  + apply (Hmove (or_intror (or_introl eq_refl)) flank).
    rewrite Hru, Hqu. cbn [ref_unit query_unit]. rewrite Nat.mul_1_l, Nat.mul_0_l, Nat.add_0_r. exact Hy.
  + apply (Hmove (or_intror (or_intror (or_introl eq_refl))) flank).
    rewrite Hru, Hqu. cbn [ref_unit query_unit]. rewrite !Nat.mul_0_l, !Nat.add_0_r. exact Hy.
  + apply (Hmove (or_intror (or_intror (or_intror eq_refl))) flank).
    rewrite Hru, Hqu. cbn [ref_unit query_unit]. rewrite !Nat.mul_0_l, !Nat.add_0_r. exact Hy.
  + apply Hwork; [right; right; reflexivity|].
    rewrite Hru, Hqu. cbn [ref_unit query_unit]. rewrite !Nat.mul_1_l, !Nat.add_assoc. exact Hy.
  + apply Hwork; [right; right; reflexivity|].
    rewrite Hru, Hqu. cbn [ref_unit query_unit]. rewrite !Nat.mul_1_l, !Nat.add_assoc. exact Hy.
Qed.

End Frame.

(* --- the progress list built by detect_noref *)
Definition built (nv : list variant) (e : vprog) : Prop :=
  vid e < length nv /\ e = build_var_progress (nth (vid e) nv dummy) (vid e).

Lemma initial_vp (nv : list variant) :
  sorted_pos (index_from 0 nv) ->
  let vp := map (fun j => build_var_progress (nth j nv (mkVar 0 [] [])) j) (non_overlapping (index_from 0 nv) [] None) in
  Forall (built nv) vp /\ sorted_vp nv vp.
Proof.
intros Hs vp.
assert (Hidx : forall j v, In (j, v) (index_from 0 nv) -> nth_error nv j = Some v).
{ intros j0 v0 H0. destruct (index_from_spec nv 0 j0 v0 H0) as [_ H1]. now rewrite Nat.sub_0_r in H1. }
destruct (non_overlapping_props nv (index_from 0 nv) [] None Hidx Hs) as [Hval Hsorted].
split; [|apply sorted_vp_map; exact Hsorted].
unfold vp. rewrite Forall_map, Forall_forall. intros j0 Hj0. destruct (Hval j0 Hj0) as (v0 & Hv0).
pose proof (Hidx _ _ Hv0) as Hn0. split; [|reflexivity]. cbn [build_var_progress vid].
apply nth_error_Some. congruence.
Qed.

Lemma built_fresh nv e : built nv e -> fresh_entry nv e.
Proof.
intros [Hv He]. split; [exact Hv|]. unfold vvar. intros [H1 H2]. rewrite He.
cbn [build_var_progress alleles vid]. rewrite H1, H2. reflexivity.
Qed.

(* --- "the other allele fails at once" *)
Section Kill.
Variable R : rules.
Variables (query quals : list Z) (nv : list variant) (start : nat) (whole : cigar).
Variables (j : nat) (v : variant) (w : nat).
Hypothesis Hnth : nth_error nv j = Some v.
Hypothesis Hw : w <= 1.

(* one handler step on allele number i *)
Definition step_allele (op : cop) (qp len qs i : nat) (a : aprog) : aprog :=
  match op with
  | OpM | OpEQ | OpX => match_allele query quals v qs (qs - qp) len i a
  | OpI => ins_allele query v qs len i a
  | OpD => del_allele len a
  | _ => a
  end.

Definition f0 : aprog := new_allele (length (vref v)) 0 0.
Definition f1 : aprog := new_allele (Nat.min (length (vref v)) (length (valt v)))
                                    (length (valt v) - length (vref v)) (length (vref v) - length (valt v)).
Definition fw : aprog := match w with 0 => f0 | _ => f1 end.

(* wherever the variant can be queued, the handler of that operation fails allele w at once *)
Hypothesis Hkill : forall pre op len rest, whole = pre ++ (op, len) :: rest -> queues op ->
  start + ref_units (expand pre) <= vpos v ->
  vpos v < start + ref_units (expand pre) + match op with OpI => if r_ins_span R then 1 else len | _ => len end ->
  (op = OpI -> length (vref v) = 0) ->
  progress (step_allele op (query_units (expand pre)) len
              match op with
              | OpD => query_units (expand pre)
              | _ => query_units (expand pre) + vpos v - (start + ref_units (expand pre))
              end w fw) = (-1)%Z.

Definition failed_w (e : vprog) : Prop :=
  vid e = j -> exists a0 a1, alleles e = [a0; a1] /\ progress (match w with 0 => a0 | _ => a1 end) = (-1)%Z.

Lemma failed_stays op qp len qs i a : progress a = (-1)%Z -> step_allele op qp len qs i a = a.
Proof.
intros Hp. unfold step_allele, match_allele, ins_allele, del_allele. rewrite Hp. cbn [Z.ltb Z.compare].
destruct op; reflexivity.
Qed.

Lemma handle_alleles op qp len e a0 a1 : vid e = j -> alleles e = [a0; a1] ->
  alleles (handle op query quals nv qp len e) =
  match op with
  | OpM | OpEQ | OpX | OpI | OpD => [step_allele op qp len (qstart e) 0 a0; step_allele op qp len (qstart e) 1 a1]
  | _ => [a0; a1]
  end.
Proof.
intros Hv Ha. unfold handle. rewrite Hv, Hnth. cbn [alleles]. rewrite Ha. destruct op; reflexivity.
Qed.

Lemma kill_frame : forall cig pre vp queue flank,
  whole = pre ++ cig -> Forall (built nv) vp -> sorted_vp nv vp -> Forall failed_w queue ->
  forall y, In y (detect_loop R cig query quals nv vp queue flank
                              (start + ref_units (expand pre)) (query_units (expand pre))) ->
  fst (fst y) = j -> snd (fst y) <> w /\ snd (fst y) < 2.
Proof.
apply (frame R query quals nv start whole (fun _ => failed_w) (built nv)
             (fun y => fst (fst y) = j -> snd (fst y) <> w /\ snd (fst y) < 2)).
- apply built_fresh.
- auto.
- (* handlers keep a failed allele failed *)
  intros pre op len rest e _ Hop He Hv. rewrite handle_vid in Hv. destruct (He Hv) as (a0 & a1 & Ha & Hp).
  rewrite (handle_alleles op _ len e a0 a1 Hv Ha).
  destruct Hop as [->|[->|Hm]]; [| |destruct op; try discriminate];
    (do 2 eexists; split; [reflexivity|]);
    (destruct w as [|w']; rewrite failed_stays by exact Hp; exact Hp).
- (* a newly queued entry *)
  intros pre op len rest e Hwh Hop [Hvalid Hb] Hlo Hhi HI Hv. rewrite handle_vid in Hv. cbn [reset vid] in Hv.
  assert (Hvv : vvar nv e = v).
  { unfold vvar. rewrite Hv. now apply nth_error_nth. }
  rewrite Hvv in *.
  specialize (Hkill pre op len rest Hwh Hop Hlo Hhi HI).
  remember (match op with
            | OpD => query_units (expand pre)
            | _ => query_units (expand pre) + vpos v - (start + ref_units (expand pre))
            end) as qs eqn:Eqs. clear Eqs.
  assert (Hal : alleles (reset e qs) = [f0; f1]).
  { rewrite Hb. cbn [reset alleles build_var_progress map vid]. rewrite Hv.
    rewrite (nth_error_nth nv j dummy Hnth). reflexivity. }
  rewrite (handle_alleles op _ len (reset e qs) f0 f1 Hv Hal). cbn [reset qstart].
  destruct Hop as [->|[->|Hm]]; [| |destruct op; try discriminate];
    (do 2 eexists; split; [reflexivity|]); unfold fw in Hkill; destruct w as [|w']; exact Hkill.
- (* the verdict never picks a failed allele *)
  intros _ e y He Hy Hj. unfold verdict in Hy.
  destruct (existsb is_pending (alleles e)); [discriminate|].
  destruct (best_resolved 0 (alleles e) None) as [[i a]|] eqn:Eb; [|discriminate].
  injection Hy as <-. cbn [fst snd] in *. destruct (He Hj) as (a0 & a1 & Ha & Hp). rewrite Ha in Eb.
  cbn [best_resolved] in Eb.
  assert (Hres : forall a', progress a' = (-1)%Z -> is_resolved a' = false).
  { intros a' H. unfold is_resolved. rewrite H. destruct (Z.of_nat (alen a')) eqn:E; try reflexivity. lia. }
  destruct w as [|[|w']]; [| |lia].
  + rewrite (Hres a0 Hp) in Eb. destruct (is_resolved a1); [injection Eb as <- _; split; [discriminate|lia]|discriminate].
  + rewrite (Hres a1 Hp) in Eb. destruct (is_resolved a0); [injection Eb as <- _; split; [discriminate|lia]|discriminate].
Qed.

End Kill.

(* --- unit operations and reference positions *)
Lemma ref_units_ge_repeat op len l : ref_unit op = 1 -> len <= ref_units (repeat op len ++ l).
Proof. intros H. rewrite ref_units_app, ref_units_repeat, H. lia. Qed.

(* the unit that consumes a given reference position is unique *)
Lemma unit_of_position cig A o B pre op len rest :
  expand cig = A ++ o :: B -> ref_unit o = 1 ->
  cig = pre ++ (op, len) :: rest -> ref_unit op = 1 ->
  ref_units (expand pre) <= ref_units A -> ref_units A < ref_units (expand pre) + len ->
  op = o.
Proof.
intros He Ho Hc Hop Hlo Hhi. rewrite Hc, expand_app in He.
change (expand ((op, len) :: rest)) with (repeat op len ++ expand rest) in He.
apply app_eq_app in He as [l [[H1 H2]|[H1 H2]]].
- destruct l as [|o' l'].
  + cbn [app] in H2. rewrite app_nil_r in H1. destruct len as [|len]; [rewrite H1 in Hhi; lia|].
    cbn [repeat app] in H2. now injection H2.
  + cbn [app] in H2. injection H2 as <- _. rewrite H1 in Hlo. rewrite ref_units_app in Hlo.
    cbn [ref_units fold_right] in Hlo. rewrite Ho in Hlo. lia.
- destruct (repeat_app_split op len _ _ _ _ H2) as [(_ & _ & Hm)|(l' & Hl & _)]; [now symmetry|].
  rewrite H1, Hl, !ref_units_app, ref_units_repeat, Hop in Hhi. lia.
Qed.

Lemma last_unit_ref l m : ref_unit m = 1 -> forall l', l' <> [] -> (exists l0, l ++ [m] = l0 ++ l') -> 0 < ref_units l'.
Proof.
intros Hm l' Hne [l0 H]. destruct (exists_last Hne) as (l'' & x & ->).
rewrite app_assoc in H. apply app_inj_tail in H as [_ ->]. rewrite ref_units_app. cbn [ref_units fold_right]. lia.
Qed.

(* between two aligned bases there is no insertion operation at the position of the second one *)
Lemma no_ins_between cig P m1 m2 Q pre len rest :
  expand cig = (P ++ [m1]) ++ m2 :: Q -> is_match m1 = true -> is_match m2 = true ->
  cig = pre ++ (OpI, len) :: rest -> 0 < len ->
  ref_units (expand pre) <> ref_units (P ++ [m1]).
Proof.
intros He H1 H2 Hc Hlen Heq.
assert (Hr1 : ref_unit m1 = 1) by (destruct m1; try discriminate; reflexivity).
assert (Hr2 : ref_unit m2 = 1) by (destruct m2; try discriminate; reflexivity).
rewrite Hc, expand_app in He.
change (expand ((OpI, len) :: rest)) with (repeat OpI len ++ expand rest) in He.
apply app_eq_app in He as [l [[Ha Hb]|[Ha Hb]]].
- destruct l as [|o' l'].
  + cbn [app] in Hb. destruct len as [|len]; [lia|]. cbn [repeat app] in Hb. injection Hb as -> _. discriminate.
  + cbn [app] in Hb. injection Hb as <- _. rewrite Ha, ref_units_app in Heq.
    cbn [ref_units fold_right] in Heq. rewrite Hr2 in Heq. lia.
- destruct (repeat_app_split OpI len _ _ _ _ Hb) as [(_ & _ & Hm)|(l' & Hl & _)].
  + rewrite Hm in H2. discriminate.
  + rewrite Ha, Hl, !ref_units_app, ref_units_repeat in Heq. cbn [ref_unit] in Heq.
    assert (Hl0 : ref_units l' = 0) by lia.
    destruct l' as [|x l'].
    * rewrite app_nil_r in Hl. subst l. destruct len as [|len]; [lia|].
      assert (Hlast : repeat OpI (S len) = repeat OpI len ++ [OpI]).
      { clear. induction len as [|len IH]; [reflexivity|]. cbn [repeat app] in *. now rewrite <- IH. }
      rewrite Hlast, app_assoc in Ha. apply app_inj_tail in Ha as [_ ->]. discriminate.
    * assert (0 < ref_units (x :: l')); [|lia].
      apply (last_unit_ref P m1 Hr1); [discriminate|]. exists (expand pre ++ repeat OpI len).
      rewrite Ha, Hl, <- app_assoc. reflexivity.
Qed.

(* --- the three cases in which the allele the read does not show fails at once *)
Lemma kill_match_nomatch query quals v qs os len i m ins del :
  os < len -> 0 < m + ins + del -> m = 0 ->
  progress (match_allele query quals v qs os len i (new_allele m ins del)) = (-1)%Z.
Proof.
intros Hos Hlen ->. unfold match_allele, new_allele. cbn [progress Z.ltb Z.compare matched inserted].
assert (Hloop : forall fuel q a, matched a = 0 -> match_target a = 0 ->
          match_loop fuel query quals (get_allele v i) q a os len = (a, os)).
{ intros fuel q a H1 H2. destruct fuel; cbn [match_loop]; [reflexivity|]. rewrite H1, H2. reflexivity. }
rewrite Hloop by reflexivity. cbn [progress alen].
assert (E1 : (os <? len) = true) by (apply Nat.ltb_lt; lia).
assert (E2 : (0 <? Z.of_nat (0 + ins + del))%Z = true) by (apply Z.ltb_lt; lia).
rewrite E1, E2. reflexivity.
Qed.

Lemma kill_del_nodel len m ins : 0 < len -> 0 < m + ins ->
  progress (del_allele len (new_allele m ins 0)) = (-1)%Z.
Proof.
intros Hl Hm. unfold del_allele, new_allele. cbn [progress Z.ltb Z.compare].
assert (Hloop : forall fuel a, deleted a = 0 -> delete_target a = 0 -> del_loop fuel a 0 len = (a, 0)).
{ intros fuel a H1 H2. destruct fuel; cbn [del_loop]; [reflexivity|]. rewrite H1, H2. reflexivity. }
rewrite Hloop by reflexivity. cbn [progress alen].
assert (E1 : (0 <? len) = true) by (apply Nat.ltb_lt; lia).
assert (E2 : (0 <? Z.of_nat (m + ins + 0))%Z = true) by (apply Z.ltb_lt; lia).
rewrite E1, E2. reflexivity.
Qed.

Lemma is_match_ref_unit o : is_match o = true -> ref_unit o = 1.
Proof. destruct o; try discriminate; reflexivity. Qed.

Lemma positive_in cig pre op len rest : positive_lengths cig -> cig = pre ++ (op, len) :: rest -> 0 < len.
Proof.
intros H ->. unfold positive_lengths in H. rewrite Forall_forall in H.
apply (H (op, len)). apply in_or_app. right. now left.
Qed.

(* the insertion/deletion clause of detect_noref_never_wrong_statement, except "insertion carried" *)
Theorem detect_noref_never_wrong_indel_kill :
  forall (R : rules), r_ins_span R = true ->
  forall (variants : list variant) (start : nat) (cig : cigar) (query quals : list Z) (j a q : nat)
         (v : variant) (carried : nat) (pre V post : list cop),
  sorted_pos (index_from 0 (map normalized variants)) -> positive_lengths cig ->
  In (j, a, q) (detect_noref R variants start cig query quals) ->
  nth_error (map normalized variants) j = Some v ->
  pure_indel v -> carried <= 1 ->
  expand cig = pre ++ V ++ post -> vpos v = start + ref_units pre -> allele_units v carried V ->
  flanked pre post ->
  (vref v = [] -> carried = 0) ->
  a = carried.
Proof.
intros R Hspan variants start cig query quals j a q v carried pre V post Hs Hpos Hin Hn Hind Hc He Hp HV Hfl Hins.
set (nv := map normalized variants) in *.
set (w := 1 - carried).
assert (Hkill : forall pre0 op len rest, cig = pre0 ++ (op, len) :: rest -> queues op ->
  start + ref_units (expand pre0) <= vpos v ->
  vpos v < start + ref_units (expand pre0) + match op with OpI => if r_ins_span R then 1 else len | _ => len end ->
  (op = OpI -> length (vref v) = 0) ->
  progress (step_allele query quals v op (query_units (expand pre0)) len
              match op with
              | OpD => query_units (expand pre0)
              | _ => query_units (expand pre0) + vpos v - (start + ref_units (expand pre0))
              end w (fw v w)) = (-1)%Z).
{ intros pre0 op len rest Hwh Hop Hlo Hhi HI. rewrite Hspan in Hhi.
  pose proof (positive_in cig pre0 op len rest Hpos Hwh) as Hlen.
  destruct Hind as [[Hr Ha]|[Ha Hr]].
  - (* insertion, REF carried *)
    specialize (Hins Hr). subst carried. unfold w. cbn [Nat.sub fw]. unfold f1. rewrite Hr, Nat.sub_0_r. cbn [length Nat.min Nat.sub].
    cbn [allele_units] in HV. destruct HV as [_ HVl]. rewrite Hr in HVl. destruct V; [|discriminate]. cbn [app] in He.
    destruct Hfl as [(P & m1 & -> & Hm1) (m2 & Q & -> & Hm2)].
    destruct Hop as [->|[->|Hm]].
    + exfalso. apply (no_ins_between cig P m1 m2 Q pre0 len rest He Hm1 Hm2 Hwh Hlen). lia.
    + exfalso. assert (E : OpD = m2).
      { apply (unit_of_position cig (P ++ [m1]) m2 Q pre0 OpD len rest He (is_match_ref_unit _ Hm2) Hwh eq_refl); lia. }
      rewrite <- E in Hm2. discriminate.
    + assert (Hst : step_allele query quals v op (query_units (expand pre0)) len
                      (query_units (expand pre0) + vpos v - (start + ref_units (expand pre0))) 1
                      (new_allele 0 (length (valt v)) 0)
                    = match_allele query quals v (query_units (expand pre0) + vpos v - (start + ref_units (expand pre0)))
                        (query_units (expand pre0) + vpos v - (start + ref_units (expand pre0)) - query_units (expand pre0))
                        len 1 (new_allele 0 (length (valt v)) 0)) by (destruct op; try discriminate; reflexivity).
      assert (Hqs : match op with
                    | OpD => query_units (expand pre0)
                    | _ => query_units (expand pre0) + vpos v - (start + ref_units (expand pre0))
                    end = query_units (expand pre0) + vpos v - (start + ref_units (expand pre0))) by (destruct op; try discriminate; reflexivity).
      rewrite Hqs, Hst. apply kill_match_nomatch; [destruct op; try discriminate; lia| |reflexivity].
      destruct (valt v); [contradiction|cbn [length]; lia].
  - (* deletion *)
    assert (Hrl : 0 < length (vref v)) by (destruct (vref v); [contradiction|cbn [length]; lia]).
    destruct carried as [|[|c]]; [| |lia].
    + (* REF carried: the position is a match unit *)
      unfold w. cbn [Nat.sub fw]. unfold f1. rewrite Ha. cbn [length]. rewrite Nat.min_0_r, Nat.sub_0_r. cbn [Nat.sub].
      cbn [allele_units] in HV. destruct HV as [HVm HVl]. destruct V as [|o V']; [cbn in HVl; lia|].
      cbn [forallb] in HVm. apply andb_prop in HVm as [Ho _]. cbn [app] in He.
      destruct Hop as [->|[->|Hm]].
      * specialize (HI eq_refl). lia.
      * exfalso. assert (E : OpD = o).
        { apply (unit_of_position cig pre o (V' ++ post) pre0 OpD len rest He (is_match_ref_unit _ Ho) Hwh eq_refl); lia. }
        rewrite <- E in Ho. discriminate.
      * assert (Hst : step_allele query quals v op (query_units (expand pre0)) len
                        (query_units (expand pre0) + vpos v - (start + ref_units (expand pre0))) 1
                        (new_allele 0 0 (length (vref v)))
                      = match_allele query quals v (query_units (expand pre0) + vpos v - (start + ref_units (expand pre0)))
                          (query_units (expand pre0) + vpos v - (start + ref_units (expand pre0)) - query_units (expand pre0))
                          len 1 (new_allele 0 0 (length (vref v)))) by (destruct op; try discriminate; reflexivity).
        assert (Hqs : match op with
                      | OpD => query_units (expand pre0)
                      | _ => query_units (expand pre0) + vpos v - (start + ref_units (expand pre0))
                      end = query_units (expand pre0) + vpos v - (start + ref_units (expand pre0))) by (destruct op; try discriminate; reflexivity).
        rewrite Hqs, Hst. apply kill_match_nomatch; [destruct op; try discriminate; lia|lia|reflexivity].
    + (* ALT carried: the position is a deletion unit *)
      unfold w. cbn [Nat.sub fw]. unfold f0.
      cbn [allele_units] in HV. destruct HV as (M & _ & HMl & HVe). rewrite Ha in HMl, HVe. cbn [length] in HMl, HVe.
      rewrite Nat.min_0_r in HMl. destruct M; [|discriminate]. cbn [Nat.sub repeat app] in HVe. rewrite Nat.sub_0_r in HVe.
      destruct (length (vref v)) as [|n] eqn:En; [lia|]. cbn [repeat] in HVe. subst V. cbn [app] in He.
      destruct Hop as [->|[->|Hm]].
      * specialize (HI eq_refl). lia.
      * cbn [step_allele]. apply kill_del_nodel; lia.
      * exfalso.
        assert (Hhi' : vpos v < start + ref_units (expand pre0) + len) by (destruct op; try discriminate; exact Hhi).
        assert (E : op = OpD).
        { apply (unit_of_position cig pre OpD (repeat OpD n ++ post) pre0 op len rest He eq_refl Hwh (is_match_ref_unit _ Hm)); lia. }
        rewrite E in Hm. discriminate. }
unfold detect_noref in Hin. fold nv in Hin.
destruct (initial_vp nv Hs) as [Hb Hsv]. cbv zeta in Hb, Hsv.
set (vp := map (fun j => build_var_progress (nth j nv (mkVar 0 [] [])) j) (non_overlapping (index_from 0 nv) [] None)) in *.
assert (Hff : Forall (fresh_entry nv) vp) by (eapply Forall_impl; [|exact Hb]; apply built_fresh).
destruct (skip_progress_spec nv vp start Hff Hsv) as (dropped & Hd & _).
assert (Hb1 : Forall (built nv) (skip_progress nv vp start)) by (rewrite Hd in Hb; apply Forall_app in Hb; apply Hb).
assert (Hs1 : sorted_vp nv (skip_progress nv vp start)) by (rewrite Hd in Hsv; eapply sorted_vp_app; eauto).
assert (Hw : w <= 1) by (unfold w; lia).
pose proof (kill_frame R query quals nv start cig j v w Hn Hw Hkill cig [] (skip_progress nv vp start) [] false eq_refl
              Hb1 Hs1 (Forall_nil _) (j, a, q)) as Hg.
cbn [expand flat_map ref_units query_units fold_right] in Hg. rewrite Nat.add_0_r in Hg.
destruct (Hg Hin eq_refl) as [Hne Hlt]. cbn [fst snd] in Hne, Hlt. unfold w in Hne. lia.
Qed.
