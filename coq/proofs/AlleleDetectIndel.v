(* Reference-free path, insertions and deletions: a generic invariant principle for the _detect_alleles loop and
   the "the other allele fails at once" cases of detect_noref_never_wrong_statement. *)
From Coq Require Import List Arith Bool ZArith Lia.
From WH.Model Require Import EditDist AlleleDetect.
From WH.Proofs Require Import AlleleDetectProofs AlleleDetectNoref.
Import ListNotations.

Section Frame.
Variable R : rules.
Variables (query quals : list Z) (nv : list variant) (start : nat) (whole : cigar).
Variable PQ : cigar -> vprog -> Prop.      (* invariant of a queue entry after the operations in the prefix *)
Variable PV : vprog -> Prop.               (* what is known about an entry of the progress list *)
Variable G : det -> Prop.                  (* what every yield satisfies *)

Notation vvar := (vvar nv).
Definition queues (op : cop) : Prop := op = OpI \/ op = OpD \/ is_match op = true.
Definition moves (op : cop) : Prop := op = OpN \/ op = OpS \/ op = OpH \/ op = OpP.

Hypothesis PV_valid : forall e, PV e -> fresh_entry nv e.
Hypothesis H_move : forall pre op len rest e, whole = pre ++ (op, len) :: rest -> moves op ->
  PQ pre e -> PQ (pre ++ [(op, len)]) e.
Hypothesis H_handle : forall pre op len rest e, whole = pre ++ (op, len) :: rest -> queues op ->
  PQ pre e -> PQ (pre ++ [(op, len)]) (handle op query quals nv (query_units (expand pre)) len e).
Hypothesis H_new : forall pre op len rest e, whole = pre ++ (op, len) :: rest -> queues op -> PV e ->
  start + ref_units (expand pre) <= vpos (vvar e) ->
  vpos (vvar e) < start + ref_units (expand pre) + match op with OpI => if r_ins_span R then 1 else len | _ => len end ->
  (op = OpI -> length (vref (vvar e)) = 0) ->
  PQ (pre ++ [(op, len)])
     (handle op query quals nv (query_units (expand pre)) len
        (reset e match op with
                 | OpD => query_units (expand pre)
                 | _ => query_units (expand pre) + vpos (vvar e) - (start + ref_units (expand pre))
                 end)).
Hypothesis H_verdict : forall pre e y, PQ pre e -> verdict e = Some y -> G y.

Lemma frame : forall cig pre vp queue flank,
  whole = pre ++ cig -> Forall PV vp -> sorted_vp nv vp -> Forall (PQ pre) queue ->
  forall y, In y (detect_loop R cig query quals nv vp queue flank
                              (start + ref_units (expand pre)) (query_units (expand pre))) ->
  G y.
Proof.
induction cig as [|[op len] cig IH]; intros pre vp queue flank Hw Hf Hs Hq y Hy.
- cbn [detect_loop] in Hy. destruct (final_yield_spec _ _ Hy) as (e & He & Hv).
  rewrite Forall_forall in Hq. eapply H_verdict; eauto.
- assert (Hw' : whole = (pre ++ [(op, len)]) ++ cig) by (rewrite <- app_assoc; exact Hw).
  pose proof (ref_units_expand_snoc pre op len) as Hru.
  pose proof (query_units_expand_snoc pre op len) as Hqu.
  cbn [detect_loop] in Hy.
  assert (Hff : Forall (fresh_entry nv) vp) by (eapply Forall_impl; [|exact Hf]; auto).
  destruct (skip_progress_spec nv vp (start + ref_units (expand pre)) Hff Hs) as (dropped & Hd & Hlow).
  remember (skip_progress nv vp (start + ref_units (expand pre))) as vp1 eqn:Evp1. clear Evp1.
  assert (Hf1 : Forall PV vp1) by (rewrite Hd in Hf; apply Forall_app in Hf; apply Hf).
  assert (Hs1 : sorted_vp nv vp1) by (rewrite Hd in Hs; eapply sorted_vp_app; eauto).
  assert (Hmove : moves op -> forall fl,
     In y (detect_loop R cig query quals nv vp1 queue fl
             (start + ref_units (expand (pre ++ [(op, len)]))) (query_units (expand (pre ++ [(op, len)])))) ->
     G y).
  { intros Hm fl Hy'. apply (IH (pre ++ [(op, len)]) vp1 queue fl Hw' Hf1 Hs1); [|exact Hy'].
    rewrite Forall_forall in *. intros e He. eapply H_move; eauto. }
  assert (Hwork : queues op ->
     In y (let (newq, vp') := enqueue ((match op with OpI => r_ins_flank_at_ins R | _ => r_ins_left_flank R end) && negb flank) op nv vp1 (start + ref_units (expand pre))
                                (query_units (expand pre))
                                (start + ref_units (expand pre) + match op with OpI => if r_ins_span R then 1 else len | _ => len end) in
           let queue1 := map (handle op query quals nv (query_units (expand pre)) len) (queue ++ newq) in
           let (ys, queue2) := drain queue1 in
           ys ++ detect_loop R cig query quals nv vp' queue2 true
                   (start + ref_units (expand (pre ++ [(op, len)]))) (query_units (expand (pre ++ [(op, len)])))) ->
     G y).
  { intros Hop Hy'.
    destruct (enqueue _ op nv vp1 _ _ _) as [newq vp'] eqn:Een.
    assert (Hff1 : Forall (fresh_entry nv) vp1) by (eapply Forall_impl; [|exact Hf1]; auto).
    destruct (enqueue_spec nv _ op _ _ _ vp1 newq vp' Hff1 Een) as [[taken Ht] Hnew].
    cbv zeta in Hy'.
    set (queue1 := map (handle op query quals nv (query_units (expand pre)) len) (queue ++ newq)) in *.
    assert (Hq1 : Forall (PQ (pre ++ [(op, len)])) queue1).
    { unfold queue1. rewrite Forall_forall. intros e1 He1. apply in_map_iff in He1 as (e0 & <- & He0).
      apply in_app_or in He0 as [He0|He0].
      - rewrite Forall_forall in Hq. eapply H_handle; eauto.
      - destruct (Hnew e0 He0) as (e & He & -> & Hlt & HI).
        rewrite Forall_forall in Hf1, Hlow. eapply H_new; eauto. }
    destruct (drain queue1) as [ys queue2] eqn:Edr. destruct (drain_spec _ _ _ Edr) as [Hys Hq2].
    apply in_app_or in Hy' as [Hy'|Hy'].
    - destruct (Hys y Hy') as (e & He & Hv). rewrite Forall_forall in Hq1. eapply H_verdict; eauto.
    - apply (IH (pre ++ [(op, len)]) vp' queue2 true Hw'); [| | |exact Hy'].
      + rewrite Ht in Hf1. apply Forall_app in Hf1. apply Hf1.
      + rewrite Ht in Hs1. eapply sorted_vp_app; eauto.
      + rewrite Forall_forall in *. auto. }
  destruct op.
  + apply Hwork; [right; right; reflexivity|].
    rewrite Hru, Hqu. cbn [ref_unit query_unit]. rewrite !Nat.mul_1_l, !Nat.add_assoc. exact Hy.
  + apply Hwork; [left; reflexivity|].
    rewrite Hru, Hqu. cbn [ref_unit query_unit]. rewrite Nat.mul_0_l, Nat.mul_1_l, Nat.add_0_r. exact Hy.
  + apply Hwork; [right; left; reflexivity|].
    rewrite Hru, Hqu. cbn [ref_unit query_unit]. rewrite Nat.mul_1_l, Nat.mul_0_l, Nat.add_0_r, !Nat.add_assoc. exact Hy.
  + apply (Hmove (or_introl eq_refl) false).
    rewrite Hru, Hqu. cbn [ref_unit query_unit]. rewrite Nat.mul_1_l, Nat.mul_0_l, Nat.add_0_r, !Nat.add_assoc. exact Hy.
  + apply (Hmove (or_intror (or_introl eq_refl)) flank).
    rewrite Hru, Hqu. cbn [ref_unit query_unit]. rewrite Nat.mul_1_l, Nat.mul_0_l, Nat.add_0_r. exact Hy.
  + apply (Hmove (or_intror (or_intror (or_introl eq_refl))) flank).
    rewrite Hru, Hqu. cbn [ref_unit query_unit]. rewrite !Nat.mul_0_l, !Nat.add_0_r. exact Hy.
  + apply (Hmove (or_intror (or_intror (or_intror eq_refl))) flank).
    rewrite Hru, Hqu. cbn [ref_unit query_unit]. rewrite !Nat.mul_0_l, !Nat.add_0_r. exact Hy.
  + apply Hwork; [right; right; reflexivity|].
    rewrite Hru, Hqu. cbn [ref_unit query_unit]. rewrite !Nat.mul_1_l, !Nat.add_assoc. exact Hy.
  + apply Hwork; [right; right; reflexivity|].
    rewrite Hru, Hqu. cbn [ref_unit query_unit]. rewrite !Nat.mul_1_l, !Nat.add_assoc. exact Hy.
Qed.

End Frame.

(* --- the progress list built by detect_noref *)
Definition built (nv : list variant) (e : vprog) : Prop :=
  vid e < length nv /\ e = build_var_progress (nth (vid e) nv dummy) (vid e).

Lemma initial_vp (nv : list variant) (sym : bool) :
  sorted_pos (index_from 0 nv) ->
  let vp := map (fun j => build_var_progress (nth j nv (mkVar 0 [] [])) j) (non_overlapping sym (index_from 0 nv) [] None) in
  Forall (built nv) vp /\ sorted_vp nv vp.
Proof.
intros Hs vp.
assert (Hidx : forall j v, In (j, v) (index_from 0 nv) -> nth_error nv j = Some v).
{ intros j0 v0 H0. destruct (index_from_spec nv 0 j0 v0 H0) as [_ H1]. now rewrite Nat.sub_0_r in H1. }
destruct (non_overlapping_props nv sym (index_from 0 nv) [] None Hidx Hs) as [Hval Hsorted].
split; [|apply sorted_vp_map; exact Hsorted].
unfold vp. rewrite Forall_map, Forall_forall. intros j0 Hj0. destruct (Hval j0 Hj0) as (v0 & Hv0).
pose proof (Hidx _ _ Hv0) as Hn0. split; [|reflexivity]. cbn [build_var_progress vid].
apply nth_error_Some. congruence.
Qed.

Lemma built_fresh nv e : built nv e -> fresh_entry nv e.
Proof.
intros [Hv He]. split; [exact Hv|]. unfold vvar. intros [H1 H2]. rewrite He.
cbn [build_var_progress alleles vid]. rewrite H1, H2. reflexivity.
Qed.

(* --- "the other allele fails at once" *)
Section Kill.
Variable R : rules.
Variables (query quals : list Z) (nv : list variant) (start : nat) (whole : cigar).
Variables (j : nat) (v : variant) (w : nat).
Hypothesis Hnth : nth_error nv j = Some v.
Hypothesis Hw : w <= 1.

(* one handler step on allele number i *)
Definition step_allele (op : cop) (qp len qs i : nat) (a : aprog) : aprog :=
  match op with
  | OpM | OpEQ | OpX => match_allele query quals v qs (qs - qp) len i a
  | OpI => ins_allele query v qs len i a
  | OpD => del_allele len a
  | _ => a
  end.

Definition f0 : aprog := new_allele (length (vref v)) 0 0.
Definition f1 : aprog := new_allele (Nat.min (length (vref v)) (length (valt v)))
                                    (length (valt v) - length (vref v)) (length (vref v) - length (valt v)).
Definition fw : aprog := match w with 0 => f0 | _ => f1 end.

(* wherever the variant can be queued, the handler of that operation fails allele w at once *)
Hypothesis Hkill : forall pre op len rest, whole = pre ++ (op, len) :: rest -> queues op ->
  start + ref_units (expand pre) <= vpos v ->
  vpos v < start + ref_units (expand pre) + match op with OpI => if r_ins_span R then 1 else len | _ => len end ->
  (op = OpI -> length (vref v) = 0) ->
  progress (step_allele op (query_units (expand pre)) len
              match op with
              | OpD => query_units (expand pre)
              | _ => query_units (expand pre) + vpos v - (start + ref_units (expand pre))
              end w fw) = (-1)%Z.

Definition failed_w (e : vprog) : Prop :=
  vid e = j -> exists a0 a1, alleles e = [a0; a1] /\ progress (match w with 0 => a0 | _ => a1 end) = (-1)%Z.

Lemma failed_stays op qp len qs i a : progress a = (-1)%Z -> step_allele op qp len qs i a = a.
Proof.
intros Hp. unfold step_allele, match_allele, ins_allele, del_allele. rewrite Hp. cbn [Z.ltb Z.compare].
destruct op; reflexivity.
Qed.

Lemma handle_alleles op qp len e a0 a1 : vid e = j -> alleles e = [a0; a1] ->
  alleles (handle op query quals nv qp len e) =
  match op with
  | OpM | OpEQ | OpX | OpI | OpD => [step_allele op qp len (qstart e) 0 a0; step_allele op qp len (qstart e) 1 a1]
  | _ => [a0; a1]
  end.
Proof.
intros Hv Ha. unfold handle. rewrite Hv, Hnth. cbn [alleles]. rewrite Ha. destruct op; reflexivity.
Qed.

Lemma kill_frame : forall cig pre vp queue flank,
  whole = pre ++ cig -> Forall (built nv) vp -> sorted_vp nv vp -> Forall failed_w queue ->
  forall y, In y (detect_loop R cig query quals nv vp queue flank
                              (start + ref_units (expand pre)) (query_units (expand pre))) ->
  fst (fst y) = j -> snd (fst y) <> w /\ snd (fst y) < 2.
Proof.
apply (frame R query quals nv start whole (fun _ => failed_w) (built nv)
             (fun y => fst (fst y) = j -> snd (fst y) <> w /\ snd (fst y) < 2)).
- apply built_fresh.
- auto.
- (* handlers keep a failed allele failed *)
  intros pre op len rest e _ Hop He Hv. rewrite handle_vid in Hv. destruct (He Hv) as (a0 & a1 & Ha & Hp).
  rewrite (handle_alleles op _ len e a0 a1 Hv Ha).
  destruct Hop as [->|[->|Hm]]; [| |destruct op; try discriminate];
    (do 2 eexists; split; [reflexivity|]);
    (destruct w as [|w']; rewrite failed_stays by exact Hp; exact Hp).
- (* a newly queued entry *)
  intros pre op len rest e Hwh Hop [Hvalid Hb] Hlo Hhi HI Hv. rewrite handle_vid in Hv. cbn [reset vid] in Hv.
  assert (Hvv : vvar nv e = v).
  { unfold vvar. rewrite Hv. now apply nth_error_nth. }
  rewrite Hvv in *.
  specialize (Hkill pre op len rest Hwh Hop Hlo Hhi HI).
  remember (match op with
            | OpD => query_units (expand pre)
            | _ => query_units (expand pre) + vpos v - (start + ref_units (expand pre))
            end) as qs eqn:Eqs. clear Eqs.
  assert (Hal : alleles (reset e qs) = [f0; f1]).
  { rewrite Hb. cbn [reset alleles build_var_progress map vid]. rewrite Hv.
    rewrite (nth_error_nth nv j dummy Hnth). reflexivity. }
  rewrite (handle_alleles op _ len (reset e qs) f0 f1 Hv Hal). cbn [reset qstart].
  destruct Hop as [->|[->|Hm]]; [| |destruct op; try discriminate];
    (do 2 eexists; split; [reflexivity|]); unfold fw in Hkill; destruct w as [|w']; exact Hkill.
- (* the verdict never picks a failed allele *)
  intros _ e y He Hy Hj. unfold verdict in Hy.
  destruct (existsb is_pending (alleles e)); [discriminate|].
  destruct (best_resolved 0 (alleles e) None) as [[i a]|] eqn:Eb; [|discriminate].
  injection Hy as <-. cbn [fst snd] in *. destruct (He Hj) as (a0 & a1 & Ha & Hp). rewrite Ha in Eb.
  cbn [best_resolved] in Eb.
  assert (Hres : forall a', progress a' = (-1)%Z -> is_resolved a' = false).
  { intros a' H. unfold is_resolved. rewrite H. destruct (Z.of_nat (alen a')) eqn:E; try reflexivity. lia. }
  destruct w as [|[|w']]; [| |lia].
  + rewrite (Hres a0 Hp) in Eb. destruct (is_resolved a1); [injection Eb as <- _; split; [discriminate|lia]|discriminate].
  + rewrite (Hres a1 Hp) in Eb. destruct (is_resolved a0); [injection Eb as <- _; split; [discriminate|lia]|discriminate].
Qed.

End Kill.

(* --- unit operations and reference positions *)
Lemma ref_units_ge_repeat op len l : ref_unit op = 1 -> len <= ref_units (repeat op len ++ l).
Proof. intros H. rewrite ref_units_app, ref_units_repeat, H. lia. Qed.

(* the unit that consumes a given reference position is unique *)
Lemma unit_of_position cig A o B pre op len rest :
  expand cig = A ++ o :: B -> ref_unit o = 1 ->
  cig = pre ++ (op, len) :: rest -> ref_unit op = 1 ->
  ref_units (expand pre) <= ref_units A -> ref_units A < ref_units (expand pre) + len ->
  op = o.
Proof.
intros He Ho Hc Hop Hlo Hhi. rewrite Hc, expand_app in He.
change (expand ((op, len) :: rest)) with (repeat op len ++ expand rest) in He.
apply app_eq_app in He as [l [[H1 H2]|[H1 H2]]].
- destruct l as [|o' l'].
  + cbn [app] in H2. rewrite app_nil_r in H1. destruct len as [|len]; [rewrite H1 in Hhi; lia|].
    cbn [repeat app] in H2. now injection H2.
  + cbn [app] in H2. injection H2 as <- _. rewrite H1 in Hlo. rewrite ref_units_app in Hlo.
    cbn [ref_units fold_right] in Hlo. rewrite Ho in Hlo. lia.
- destruct (repeat_app_split op len _ _ _ _ H2) as [(_ & _ & Hm)|(l' & Hl & _)]; [now symmetry|].
  rewrite H1, Hl, !ref_units_app, ref_units_repeat, Hop in Hhi. lia.
Qed.

Lemma last_unit_ref l m : ref_unit m = 1 -> forall l', l' <> [] -> (exists l0, l ++ [m] = l0 ++ l') -> 0 < ref_units l'.
Proof.
intros Hm l' Hne [l0 H]. destruct (exists_last Hne) as (l'' & x & ->).
rewrite app_assoc in H. apply app_inj_tail in H as [_ ->]. rewrite ref_units_app. cbn [ref_units fold_right]. lia.
Qed.

(* between two aligned bases there is no insertion operation at the position of the second one *)
Lemma no_ins_between cig P m1 m2 Q pre len rest :
  expand cig = (P ++ [m1]) ++ m2 :: Q -> is_match m1 = true -> is_match m2 = true ->
  cig = pre ++ (OpI, len) :: rest -> 0 < len ->
  ref_units (expand pre) <> ref_units (P ++ [m1]).
Proof.
intros He H1 H2 Hc Hlen Heq.
assert (Hr1 : ref_unit m1 = 1) by (destruct m1; try discriminate; reflexivity).
assert (Hr2 : ref_unit m2 = 1) by (destruct m2; try discriminate; reflexivity).
rewrite Hc, expand_app in He.
change (expand ((OpI, len) :: rest)) with (repeat OpI len ++ expand rest) in He.
apply app_eq_app in He as [l [[Ha Hb]|[Ha Hb]]].
- destruct l as [|o' l'].
  + cbn [app] in Hb. destruct len as [|len]; [lia|]. cbn [repeat app] in Hb. injection Hb as -> _. discriminate.
  + cbn [app] in Hb. injection Hb as <- _. rewrite Ha, ref_units_app in Heq.
    cbn [ref_units fold_right] in Heq. rewrite Hr2 in Heq. lia.
- destruct (repeat_app_split OpI len _ _ _ _ Hb) as [(_ & _ & Hm)|(l' & Hl & _)].
  + rewrite Hm in H2. discriminate.
  + rewrite Ha, Hl, !ref_units_app, ref_units_repeat in Heq. cbn [ref_unit] in Heq.
    assert (Hl0 : ref_units l' = 0) by lia.
    destruct l' as [|x l'].
    * rewrite app_nil_r in Hl. subst l. destruct len as [|len]; [lia|].
      assert (Hlast : repeat OpI (S len) = repeat OpI len ++ [OpI]).
      { clear. induction len as [|len IH]; [reflexivity|]. cbn [repeat app] in *. now rewrite <- IH. }
      rewrite Hlast, app_assoc in Ha. apply app_inj_tail in Ha as [_ ->]. discriminate.
    * assert (0 < ref_units (x :: l')); [|lia].
      apply (last_unit_ref P m1 Hr1); [discriminate|]. exists (expand pre ++ repeat OpI len).
      rewrite Ha, Hl, <- app_assoc. reflexivity.
Qed.

(* --- the three cases in which the allele the read does not show fails at once *)
Lemma kill_match_nomatch query quals v qs os len i m ins del :
  os < len -> 0 < m + ins + del -> m = 0 ->
  progress (match_allele query quals v qs os len i (new_allele m ins del)) = (-1)%Z.
Proof.
intros Hos Hlen ->. unfold match_allele, new_allele. cbn [progress Z.ltb Z.compare matched inserted].
assert (Hloop : forall fuel q a, matched a = 0 -> match_target a = 0 ->
          match_loop fuel query quals (get_allele v i) q a os len = (a, os)).
{ intros fuel q a H1 H2. destruct fuel; cbn [match_loop]; [reflexivity|]. rewrite H1, H2. reflexivity. }
rewrite Hloop by reflexivity. cbn [progress alen].
assert (E1 : (os <? len) = true) by (apply Nat.ltb_lt; lia).
assert (E2 : (0 <? Z.of_nat (0 + ins + del))%Z = true) by (apply Z.ltb_lt; lia).
rewrite E1, E2. reflexivity.
Qed.

Lemma kill_del_nodel len m ins : 0 < len -> 0 < m + ins ->
  progress (del_allele len (new_allele m ins 0)) = (-1)%Z.
Proof.
intros Hl Hm. unfold del_allele, new_allele. cbn [progress Z.ltb Z.compare].
assert (Hloop : forall fuel a, deleted a = 0 -> delete_target a = 0 -> del_loop fuel a 0 len = (a, 0)).
{ intros fuel a H1 H2. destruct fuel; cbn [del_loop]; [reflexivity|]. rewrite H1, H2. reflexivity. }
rewrite Hloop by reflexivity. cbn [progress alen].
assert (E1 : (0 <? len) = true) by (apply Nat.ltb_lt; lia).
assert (E2 : (0 <? Z.of_nat (m + ins + 0))%Z = true) by (apply Z.ltb_lt; lia).
rewrite E1, E2. reflexivity.
Qed.

Lemma is_match_ref_unit o : is_match o = true -> ref_unit o = 1.
Proof. destruct o; try discriminate; reflexivity. Qed.

Lemma positive_in cig pre op len rest : positive_lengths cig -> cig = pre ++ (op, len) :: rest -> 0 < len.
Proof.
intros H ->. unfold positive_lengths in H. rewrite Forall_forall in H.
apply (H (op, len)). apply in_or_app. right. now left.
Qed.

(* the insertion/deletion clause of detect_noref_never_wrong_statement, except "insertion carried" *)
Theorem detect_noref_never_wrong_indel_kill :
  forall (R : rules), r_ins_span R = true ->
  forall (variants : list variant) (start : nat) (cig : cigar) (query quals : list Z) (j a q : nat)
         (v : variant) (carried : nat) (pre V post : list cop),
  sorted_pos (index_from 0 (map normalized variants)) -> positive_lengths cig ->
  In (j, a, q) (detect_noref R variants start cig query quals) ->
  nth_error (map normalized variants) j = Some v ->
  pure_indel v -> carried <= 1 ->
  expand cig = pre ++ V ++ post -> vpos v = start + ref_units pre -> allele_units v carried V ->
  flanked pre post ->
  (vref v = [] -> carried = 0) ->
  a = carried.
Proof.
intros R Hspan variants start cig query quals j a q v carried pre V post Hs Hpos Hin Hn Hind Hc He Hp HV Hfl Hins.
set (nv := map normalized variants) in *.
set (w := 1 - carried).
assert (Hkill : forall pre0 op len rest, cig = pre0 ++ (op, len) :: rest -> queues op ->
  start + ref_units (expand pre0) <= vpos v ->
  vpos v < start + ref_units (expand pre0) + match op with OpI => if r_ins_span R then 1 else len | _ => len end ->
  (op = OpI -> length (vref v) = 0) ->
  progress (step_allele query quals v op (query_units (expand pre0)) len
              match op with
              | OpD => query_units (expand pre0)
              | _ => query_units (expand pre0) + vpos v - (start + ref_units (expand pre0))
              end w (fw v w)) = (-1)%Z).
{ intros pre0 op len rest Hwh Hop Hlo Hhi HI. rewrite Hspan in Hhi.
  pose proof (positive_in cig pre0 op len rest Hpos Hwh) as Hlen.
  destruct Hind as [[Hr Ha]|[Ha Hr]].
  - (* insertion, REF carried *)
    specialize (Hins Hr). subst carried. unfold w. cbn [Nat.sub fw]. unfold f1. rewrite Hr, Nat.sub_0_r. cbn [length Nat.min Nat.sub].
    cbn [allele_units] in HV. destruct HV as [_ HVl]. rewrite Hr in HVl. destruct V; [|discriminate]. cbn [app] in He.
    destruct Hfl as [(P & m1 & -> & Hm1) (m2 & Q & -> & Hm2)].
    destruct Hop as [->|[->|Hm]].
    + exfalso. apply (no_ins_between cig P m1 m2 Q pre0 len rest He Hm1 Hm2 Hwh Hlen). lia.
    + exfalso. assert (E : OpD = m2).
      { apply (unit_of_position cig (P ++ [m1]) m2 Q pre0 OpD len rest He (is_match_ref_unit _ Hm2) Hwh eq_refl); lia. }
      rewrite <- E in Hm2. discriminate.
    + assert (Hst : step_allele query quals v op (query_units (expand pre0)) len
                      (query_units (expand pre0) + vpos v - (start + ref_units (expand pre0))) 1
                      (new_allele 0 (length (valt v)) 0)
                    = match_allele query quals v (query_units (expand pre0) + vpos v - (start + ref_units (expand pre0)))
                        (query_units (expand pre0) + vpos v - (start + ref_units (expand pre0)) - query_units (expand pre0))
                        len 1 (new_allele 0 (length (valt v)) 0)) by (destruct op; try discriminate; reflexivity).
      assert (Hqs : match op with
                    | OpD => query_units (expand pre0)
                    | _ => query_units (expand pre0) + vpos v - (start + ref_units (expand pre0))
                    end = query_units (expand pre0) + vpos v - (start + ref_units (expand pre0))) by (destruct op; try discriminate; reflexivity).
      rewrite Hqs, Hst. apply kill_match_nomatch; [destruct op; try discriminate; lia| |reflexivity].
      destruct (valt v); [contradiction|cbn [length]; lia].
  - (* deletion *)
    assert (Hrl : 0 < length (vref v)) by (destruct (vref v); [contradiction|cbn [length]; lia]).
    destruct carried as [|[|c]]; [| |lia].
    + (* REF carried: the position is a match unit *)
      unfold w. cbn [Nat.sub fw]. unfold f1. rewrite Ha. cbn [length]. rewrite Nat.min_0_r, Nat.sub_0_r. cbn [Nat.sub].
      cbn [allele_units] in HV. destruct HV as [HVm HVl]. destruct V as [|o V']; [cbn in HVl; lia|].
      cbn [forallb] in HVm. apply andb_prop in HVm as [Ho _]. cbn [app] in He.
      destruct Hop as [->|[->|Hm]].
      * specialize (HI eq_refl). lia.
      * exfalso. assert (E : OpD = o).
        { apply (unit_of_position cig pre o (V' ++ post) pre0 OpD len rest He (is_match_ref_unit _ Ho) Hwh eq_refl); lia. }
        rewrite <- E in Ho. discriminate.
      * assert (Hst : step_allele query quals v op (query_units (expand pre0)) len
                        (query_units (expand pre0) + vpos v - (start + ref_units (expand pre0))) 1
                        (new_allele 0 0 (length (vref v)))
                      = match_allele query quals v (query_units (expand pre0) + vpos v - (start + ref_units (expand pre0)))
                          (query_units (expand pre0) + vpos v - (start + ref_units (expand pre0)) - query_units (expand pre0))
                          len 1 (new_allele 0 0 (length (vref v)))) by (destruct op; try discriminate; reflexivity).
        assert (Hqs : match op with
                      | OpD => query_units (expand pre0)
                      | _ => query_units (expand pre0) + vpos v - (start + ref_units (expand pre0))
                      end = query_units (expand pre0) + vpos v - (start + ref_units (expand pre0))) by (destruct op; try discriminate; reflexivity).
        rewrite Hqs, Hst. apply kill_match_nomatch; [destruct op; try discriminate; lia|lia|reflexivity].
    + (* ALT carried: the position is a deletion unit *)
      unfold w. cbn [Nat.sub fw]. unfold f0.
      cbn [allele_units] in HV. destruct HV as (M & _ & HMl & HVe). rewrite Ha in HMl, HVe. cbn [length] in HMl, HVe.
      rewrite Nat.min_0_r in HMl. destruct M; [|discriminate]. cbn [Nat.sub repeat app] in HVe. rewrite Nat.sub_0_r in HVe.
      destruct (length (vref v)) as [|n] eqn:En; [lia|]. cbn [repeat] in HVe. subst V. cbn [app] in He.
      destruct Hop as [->|[->|Hm]].
      * specialize (HI eq_refl). lia.
      * cbn [step_allele]. apply kill_del_nodel; lia.
      * exfalso.
        assert (Hhi' : vpos v < start + ref_units (expand pre0) + len) by (destruct op; try discriminate; exact Hhi).
        assert (E : op = OpD).
        { apply (unit_of_position cig pre OpD (repeat OpD n ++ post) pre0 op len rest He eq_refl Hwh (is_match_ref_unit _ Hm)); lia. }
        rewrite E in Hm. discriminate. }
unfold detect_noref in Hin. fold nv in Hin.
destruct (initial_vp nv (r_sym_noref R) Hs) as [Hb Hsv]. cbv zeta in Hb, Hsv.
set (vp := map (fun j => build_var_progress (nth j nv (mkVar 0 [] [])) j) (non_overlapping (r_sym_noref R) (index_from 0 nv) [] None)) in *.
assert (Hff : Forall (fresh_entry nv) vp) by (eapply Forall_impl; [|exact Hb]; apply built_fresh).
destruct (skip_progress_spec nv vp start Hff Hsv) as (dropped & Hd & _).
assert (Hb1 : Forall (built nv) (skip_progress nv vp start)) by (rewrite Hd in Hb; apply Forall_app in Hb; apply Hb).
assert (Hs1 : sorted_vp nv (skip_progress nv vp start)) by (rewrite Hd in Hsv; eapply sorted_vp_app; eauto).
assert (Hw : w <= 1) by (unfold w; lia).
pose proof (kill_frame R query quals nv start cig j v w Hn Hw Hkill cig [] (skip_progress nv vp start) [] false eq_refl
              Hb1 Hs1 (Forall_nil _) (j, a, q)) as Hg.
cbn [expand flat_map ref_units query_units fold_right] in Hg. rewrite Nat.add_0_r in Hg.
destruct (Hg Hin eq_refl) as [Hne Hlt]. cbn [fst snd] in Hne, Hlt. unfold w in Hne. lia.
Qed.

(* ================================================================================================
   the remaining case: the read shows the insertion => REF is not reported *)

(* --- the ids kept by detect_non_overlapping_variants have pairwise distinct positions *)
Lemma non_overlapping_fresh_pos (nv : list variant) (sym : bool) : forall (vs : list ivar) seen skip,
  (forall j v, In (j, v) vs -> nth_error nv j = Some v) ->
  forall j, In j (non_overlapping sym vs seen skip) -> ~ In (vpos (nth j nv dummy)) seen.
Proof.
induction vs as [|[j v] rest IH]; intros seen skip Hnth j0 Hin; [contradiction|].
assert (Hnth' : forall j v, In (j, v) rest -> nth_error nv j = Some v) by (intros; apply Hnth; now right).
assert (Hv : nth j nv dummy = v) by (apply nth_error_nth, Hnth; now left).
cbn [non_overlapping] in Hin.
destruct (match skip with Some d => vpos v <? d | None => false end); [now apply (IH seen skip)|].
destruct (existsb (Nat.eqb (vpos v)) seen) eqn:Ex; [now apply (IH seen None)|].
assert (Hnotin : ~ In (vpos v) seen).
{ intros H. assert (existsb (Nat.eqb (vpos v)) seen = true); [|congruence].
  apply existsb_exists. exists (vpos v). split; [exact H|apply Nat.eqb_refl]. }
assert (Hrec : forall sk, In j0 (non_overlapping sym rest (vpos v :: seen) sk) -> ~ In (vpos (nth j0 nv dummy)) seen).
{ intros sk H0 H1. apply (IH (vpos v :: seen) sk Hnth' j0 H0). now right. }
assert (Hhead : j0 = j -> ~ In (vpos (nth j0 nv dummy)) seen) by (intros ->; now rewrite Hv).
destruct (sym && is_symbolic v); [now apply (Hrec None)|].
destruct (length (valt v) <? length (vref v)).
- destruct rest as [|[j1 v1] rest1] eqn:Er.
  + destruct Hin as [<-|[]]. now apply Hhead.
  + destruct (vpos v1 <? vpos v + length (vref v)); [now apply (Hrec (Some (vpos v + length (vref v))))|].
    destruct Hin as [<-|Hin]; [now apply Hhead|now apply (Hrec None)].
- destruct Hin as [<-|Hin]; [now apply Hhead|now apply (Hrec None)].
Qed.

Fixpoint strict_ids (nv : list variant) (l : list nat) : Prop :=
  match l with
  | [] => True
  | j :: r => Forall (fun j' => vpos (nth j nv dummy) < vpos (nth j' nv dummy)) r /\ strict_ids nv r
  end.

Lemma non_overlapping_strict (nv : list variant) (sym : bool) : forall (vs : list ivar) seen skip,
  (forall j v, In (j, v) vs -> nth_error nv j = Some v) -> sorted_pos vs ->
  strict_ids nv (non_overlapping sym vs seen skip).
Proof.
induction vs as [|[j v] rest IH]; intros seen skip Hnth Hs; [exact I|].
assert (Hnth' : forall j v, In (j, v) rest -> nth_error nv j = Some v) by (intros; apply Hnth; now right).
assert (Hv : nth j nv dummy = v) by (apply nth_error_nth, Hnth; now left).
destruct Hs as [Hall Hs].
assert (Hkeep : forall sk, strict_ids nv (j :: non_overlapping sym rest (vpos v :: seen) sk)).
{ intros sk. cbn [strict_ids]. split; [|now apply IH]. rewrite Forall_forall. intros j' Hj'.
  destruct (non_overlapping_props nv sym rest (vpos v :: seen) sk Hnth' Hs) as [Hval _].
  destruct (Hval j' Hj') as (v' & Hv'). rewrite Forall_forall in Hall. specialize (Hall _ Hv'). cbn [snd] in Hall.
  pose proof (non_overlapping_fresh_pos nv sym rest (vpos v :: seen) sk Hnth' j' Hj') as Hf.
  rewrite Hv. rewrite (nth_error_nth nv j' dummy (Hnth' j' v' Hv')) in *.
  assert (vpos v' <> vpos v) by (intros E; apply Hf; left; now symmetry). lia. }
cbn [non_overlapping].
destruct (match skip with Some d => vpos v <? d | None => false end); [now apply IH|].
destruct (existsb (Nat.eqb (vpos v)) seen); [now apply IH|].
destruct (sym && is_symbolic v); [now apply IH|].
destruct (length (valt v) <? length (vref v)); [|apply Hkeep].
destruct rest as [|[j1 v1] rest1] eqn:Er.
- cbn. split; [constructor|exact I].
- destruct (vpos v1 <? vpos v + length (vref v)); [now apply IH|apply Hkeep].
Qed.

Fixpoint strict_vp (nv : list variant) (vp : list vprog) : Prop :=
  match vp with
  | [] => True
  | e :: r => Forall (fun e' => vpos (vvar nv e) < vpos (vvar nv e')) r /\ strict_vp nv r
  end.

Lemma strict_vp_map nv l : strict_ids nv l ->
  strict_vp nv (map (fun j => build_var_progress (nth j nv dummy) j) l).
Proof.
induction l as [|j r IH]; [auto|]. cbn [strict_ids map strict_vp]. intros [Hall Hs]. split; [|auto].
rewrite Forall_map. exact Hall.
Qed.

Lemma strict_vp_app nv a b : strict_vp nv (a ++ b) -> strict_vp nv b.
Proof. induction a as [|x a IH]; [auto|]. cbn [app strict_vp]. intros [_ H]. auto. Qed.

Lemma strict_vp_weak nv vp : strict_vp nv vp -> sorted_vp nv vp.
Proof.
induction vp as [|e r IH]; [auto|]. intros [Hall Hs]. split; [|auto].
eapply Forall_impl; [|exact Hall]. cbn. intros; lia.
Qed.

Lemma initial_vp_strict (nv : list variant) (sym : bool) :
  sorted_pos (index_from 0 nv) ->
  strict_vp nv (map (fun j => build_var_progress (nth j nv (mkVar 0 [] [])) j) (non_overlapping sym (index_from 0 nv) [] None)).
Proof.
intros Hs. apply strict_vp_map, non_overlapping_strict; [|exact Hs].
intros j0 v0 H0. destruct (index_from_spec nv 0 j0 v0 H0) as [_ H1]. now rewrite Nat.sub_0_r in H1.
Qed.

Section InsertionShown.
Variable R : rules.
Hypothesis Hspan : r_ins_span R = true.
Variables (query quals : list Z) (nv : list variant) (start : nat) (whole : cigar).
Variables (j : nat) (v : variant).
Hypothesis Hnth : nth_error nv j = Some v.
Hypothesis Hvref : vref v = [].
Variables (P Q : list cop) (m1 m2 : cop) (q1 q2 : list Z).
Let n := length (valt v).
Let PM := P ++ [m1].
Let K := length PM.
Hypothesis Hn : 0 < n.
Hypothesis Hpos : positive_lengths whole.
Hypothesis Hunits : expand whole = PM ++ repeat OpI n ++ m2 :: Q.
Hypothesis Hm1 : is_match m1 = true.
Hypothesis Hm2 : is_match m2 = true.
Hypothesis Hp : vpos v = start + ref_units PM.
Hypothesis Hquery : query = q1 ++ valt v ++ q2.
Hypothesis Hq1 : length q1 = query_units PM.

(* --- facts about the unit operations of an operation of the CIGAR *)
Lemma units_of_op pre op len rest : whole = pre ++ (op, len) :: rest ->
  expand whole = expand pre ++ repeat op len ++ expand rest.
Proof. intros ->. rewrite expand_app. reflexivity. Qed.

Lemma unit_in_op pre op len rest i : whole = pre ++ (op, len) :: rest -> i < len ->
  nth_error (expand whole) (length (expand pre) + i) = Some op.
Proof.
intros Hw Hi. rewrite (units_of_op _ _ _ _ Hw). rewrite nth_error_app2 by lia.
replace (length (expand pre) + i - length (expand pre)) with i by lia.
rewrite nth_error_app1 by (rewrite repeat_length; lia). apply nth_error_repeat. exact Hi.
Qed.

Lemma unit_in_run x : K <= x -> x < K + n -> nth_error (expand whole) x = Some OpI.
Proof.
intros H1 H2. rewrite Hunits. rewrite nth_error_app2 by (fold K; lia). fold K.
rewrite nth_error_app1 by (rewrite repeat_length; lia). apply nth_error_repeat. lia.
Qed.

Lemma unit_after_run : nth_error (expand whole) (K + n) = Some m2.
Proof.
rewrite Hunits. rewrite nth_error_app2 by (fold K; lia). fold K.
rewrite nth_error_app2 by (rewrite repeat_length; lia). rewrite repeat_length.
replace (K + n - K - n) with 0 by lia. reflexivity.
Qed.

Lemma unit_before_run : nth_error (expand whole) (K - 1) = Some m1.
Proof.
rewrite Hunits. unfold K, PM. rewrite app_length. cbn [length].
rewrite nth_error_app1 by (rewrite app_length; cbn; lia).
rewrite nth_error_app2 by lia. replace (length P + 1 - 1 - length P) with 0 by lia. reflexivity.
Qed.

Lemma K_pos : 0 < K.
Proof. unfold K, PM. rewrite app_length. cbn. lia. Qed.

(* F1 *)
Lemma op_in_run pre op len rest : whole = pre ++ (op, len) :: rest ->
  K <= length (expand pre) -> length (expand pre) < K + n -> op = OpI.
Proof.
intros Hw H1 H2. pose proof (positive_in whole pre op len rest Hpos Hw) as Hlen.
pose proof (unit_in_op pre op len rest 0 Hw Hlen) as Hu. rewrite Nat.add_0_r in Hu.
rewrite (unit_in_run _ H1 H2) in Hu. now injection Hu.
Qed.

(* F2 *)
Lemma op_over_K pre op len rest : whole = pre ++ (op, len) :: rest ->
  length (expand pre) <= K -> K < length (expand pre) + len -> op = OpI /\ length (expand pre) = K.
Proof.
intros Hw H1 H2. pose proof K_pos as HK.
assert (Hop : op = OpI).
{ pose proof (unit_in_op pre op len rest (K - length (expand pre)) Hw) as Hu.
  replace (length (expand pre) + (K - length (expand pre))) with K in Hu by lia.
  rewrite (unit_in_run K) in Hu by lia. specialize (Hu ltac:(lia)). now injection Hu. }
split; [exact Hop|].
destruct (Nat.eq_dec (length (expand pre)) K) as [E|E]; [exact E|exfalso].
pose proof (unit_in_op pre op len rest (K - 1 - length (expand pre)) Hw) as Hu.
replace (length (expand pre) + (K - 1 - length (expand pre))) with (K - 1) in Hu by lia.
rewrite unit_before_run in Hu. specialize (Hu ltac:(lia)). injection Hu as Hu. rewrite Hu, Hop in Hm1. discriminate.
Qed.

(* F3 *)
Lemma ins_op_within_run pre len rest : whole = pre ++ (OpI, len) :: rest ->
  length (expand pre) < K + n -> length (expand pre) + len <= K + n.
Proof.
intros Hw H1. destruct (Nat.le_gt_cases (length (expand pre) + len) (K + n)) as [H|H]; [exact H|exfalso].
pose proof (unit_in_op pre OpI len rest (K + n - length (expand pre)) Hw) as Hu.
replace (length (expand pre) + (K + n - length (expand pre))) with (K + n) in Hu by lia.
rewrite unit_after_run in Hu. specialize (Hu ltac:(lia)). injection Hu as Hu. rewrite Hu in Hm2. discriminate.
Qed.

(* prefixes of the unit list and their reference lengths *)
Lemma prefix_of_PM pre op len rest c : whole = pre ++ (op, len) :: rest -> c <= len ->
  length (expand pre) + c <= K -> exists l, PM = (expand pre ++ repeat op c) ++ l.
Proof.
intros Hw Hc HK. pose proof (units_of_op _ _ _ _ Hw) as Hu. rewrite Hunits in Hu.
assert (Hsplit : repeat op len = repeat op c ++ repeat op (len - c)).
{ rewrite <- repeat_app. f_equal. lia. }
rewrite Hsplit, <- app_assoc, (app_assoc (expand pre)) in Hu.
apply app_eq_app in Hu as [l [[H1 H2]|[H1 H2]]].
- exists l. exact H1.
- assert (Hl : length (expand pre ++ repeat op c) = length PM + length l) by (rewrite H1, app_length; reflexivity).
  rewrite app_length, repeat_length in Hl. fold K in Hl. assert (l = []) by (destruct l; [reflexivity|cbn in Hl; lia]).
  subst l. rewrite app_nil_r in H1. exists []. now rewrite app_nil_r.
Qed.

Lemma ru_before_K pre op len rest : whole = pre ++ (op, len) :: rest ->
  length (expand pre) < K -> ref_units (expand pre) < ref_units PM.
Proof.
intros Hw HK. destruct (prefix_of_PM pre op len rest 0 Hw ltac:(lia) ltac:(lia)) as [l Hl].
cbn [repeat] in Hl. rewrite app_nil_r in Hl.
assert (Hne : l <> []).
{ intros ->. rewrite app_nil_r in Hl. assert (E : K = length (expand pre)) by (unfold K; now rewrite Hl). lia. }
pose proof (last_unit_ref P m1 (is_match_ref_unit _ Hm1) l Hne (ex_intro _ (expand pre) Hl)) as Hpos'.
rewrite Hl, ref_units_app. lia.
Qed.

Lemma ru_at_K pre : length (expand pre) = K -> (exists op len rest, whole = pre ++ (op, len) :: rest) ->
  expand pre = PM.
Proof.
intros HK (op & len & rest & Hw). destruct (prefix_of_PM pre op len rest 0 Hw ltac:(lia) ltac:(lia)) as [l Hl].
cbn [repeat] in Hl. rewrite app_nil_r in Hl.
assert (length PM = length (expand pre) + length l) by (rewrite Hl, app_length; reflexivity).
fold K in H. assert (l = []) by (destruct l; [reflexivity|cbn in H; lia]). subst l. now rewrite app_nil_r in Hl.
Qed.


(* --- allele trackers of the insertion *)
Definition z0 : aprog := new_allele 0 0 0.
Definition alt_ok (k : nat) (a : aprog) : Prop :=
  progress a = Z.of_nat k /\ alen a = n /\ matched a = 0 /\ match_target a = 0 /\ inserted a = k /\
  insert_target a = n /\ deleted a = 0 /\ delete_target a = 0.

Notation step := (step_allele query quals v).

Lemma z0_step op qp len qs i : step op qp len qs i z0 = z0.
Proof.
unfold step_allele, match_allele, ins_allele, del_allele, z0, new_allele. cbn [progress Z.ltb Z.compare].
destruct op; try reflexivity.
- destruct len; cbn [match_loop matched match_target Nat.ltb Nat.leb andb progress alen]; cbn; now rewrite ?andb_false_r.
- destruct len; cbn [ins_loop inserted insert_target Nat.ltb Nat.leb andb progress alen]; cbn; now rewrite ?andb_false_r.
- destruct len; cbn [del_loop deleted delete_target Nat.ltb Nat.leb andb progress alen]; cbn; now rewrite ?andb_false_r.
- destruct len; cbn [match_loop matched match_target Nat.ltb Nat.leb andb progress alen]; cbn; now rewrite ?andb_false_r.
- destruct len; cbn [match_loop matched match_target Nat.ltb Nat.leb andb progress alen]; cbn; now rewrite ?andb_false_r.
Qed.

Lemma alt_done_step op qp len qs i a : alt_ok n a -> step op qp len qs i a = a.
Proof.
intros (Hpr & Hl & Hma & Hmt & Hi & Hit & Hd & Hdt).
assert (Hnn : Z.ltb (progress a) 0 = false) by (rewrite Hpr; apply Z.ltb_ge; lia).
assert (Hfull : Z.ltb (progress a) (Z.of_nat (alen a)) = false) by (rewrite Hpr, Hl; apply Z.ltb_irrefl).
unfold step_allele, match_allele, ins_allele, del_allele. rewrite Hnn.
destruct op; try reflexivity.
- assert (Hloop : match_loop len query quals (get_allele v i) (qs + matched a + inserted a) a (qs - qp) len = (a, qs - qp)).
  { destruct len; cbn [match_loop]; [reflexivity|]. rewrite Hma, Hmt. reflexivity. }
  rewrite Hloop, Hfull. now rewrite andb_false_r.
- assert (Hloop : ins_loop len query (get_allele v i) qs a 0 len = (a, 0)).
  { destruct len; cbn [ins_loop]; [reflexivity|]. rewrite Hi, Hit, Nat.ltb_irrefl. reflexivity. }
  rewrite Hloop, Hfull. now rewrite !andb_false_r.
- assert (Hloop : del_loop len a 0 len = (a, 0)).
  { destruct len; cbn [del_loop]; [reflexivity|]. rewrite Hd, Hdt. reflexivity. }
  rewrite Hloop, Hfull. now rewrite andb_false_r.
- assert (Hloop : match_loop len query quals (get_allele v i) (qs + matched a + inserted a) a (qs - qp) len = (a, qs - qp)).
  { destruct len; cbn [match_loop]; [reflexivity|]. rewrite Hma, Hmt. reflexivity. }
  rewrite Hloop, Hfull. now rewrite andb_false_r.
- assert (Hloop : match_loop len query quals (get_allele v i) (qs + matched a + inserted a) a (qs - qp) len = (a, qs - qp)).
  { destruct len; cbn [match_loop]; [reflexivity|]. rewrite Hma, Hmt. reflexivity. }
  rewrite Hloop, Hfull. now rewrite andb_false_r.
Qed.

Lemma query_shows k : k < n -> base_at query (length q1 + k) = base_at (valt v) k.
Proof.
intros Hk. unfold base_at. rewrite Hquery. rewrite app_nth2 by lia.
replace (length q1 + k - length q1) with k by lia. rewrite app_nth1 by (fold n; lia). reflexivity.
Qed.

Lemma ins_loop_run : forall d a k c len, alt_ok k a -> k + d <= n -> c + d = len ->
  exists a', ins_loop d query (valt v) (length q1) a c len = (a', len) /\ alt_ok (k + d) a'.
Proof.
induction d as [|d IH]; intros a k c len Ha Hk Hc.
- exists a. cbn [ins_loop]. rewrite Nat.add_0_r in *. subst c. now split.
- destruct Ha as (Hpr & Hl & Hma & Hmt & Hi & Hit & Hd & Hdt).
  cbn [ins_loop]. rewrite Hi, Hit, Hma.
  assert (E1 : (k <? n) = true) by (apply Nat.ltb_lt; lia).
  assert (E2 : (c <? len) = true) by (apply Nat.ltb_lt; lia).
  rewrite E1, E2. cbn [andb Nat.add]. rewrite Nat.add_0_r. rewrite (query_shows k) by lia. rewrite Z.eqb_refl.
  match goal with |- context [ins_loop d query (valt v) (length q1) ?a2 (S c) len] =>
    destruct (IH a2 (S k) (S c) len) as (a' & Hr & Hok); [|lia|lia|] end.
  + unfold alt_ok. cbn [progress alen matched match_target inserted insert_target deleted delete_target].
    split; [rewrite Hpr; lia|]. repeat split; try assumption; try reflexivity; lia.
  + exists a'. split; [exact Hr|]. replace (k + S d) with (S k + d) by lia. exact Hok.
Qed.

Lemma alt_ins_step k len a : alt_ok k a -> k + len <= n ->
  alt_ok (k + len) (ins_allele query v (length q1) len 1 a).
Proof.
intros Ha Hk. unfold ins_allele.
assert (Hnn : Z.ltb (progress a) 0 = false) by (destruct Ha as (Hpr & _); rewrite Hpr; apply Z.ltb_ge; lia).
rewrite Hnn. cbn [get_allele].
destruct (ins_loop_run len a k 0 len Ha Hk eq_refl) as (a' & Hr & Hok). rewrite Hr.
rewrite Nat.ltb_irrefl. cbn [andb]. exact Hok.
Qed.


(* --- the invariant of a queued tracker of variant j after U unit operations *)
Definition entry_ok (U : nat) (e : vprog) : Prop :=
  vid e = j -> K < U /\ qstart e = length q1 /\
               exists a1, alleles e = [z0; a1] /\ alt_ok (Nat.min n (U - K)) a1.

Lemma expand_snoc_length pre op len : length (expand (pre ++ [(op, len)])) = length (expand pre) + len.
Proof.
rewrite expand_app, app_length. f_equal. unfold expand. cbn [flat_map fst snd]. now rewrite app_nil_r, repeat_length.
Qed.

Lemma handle_qstart op qp len e : qstart (handle op query quals nv qp len e) = qstart e.
Proof. unfold handle. destruct (nth_error nv (vid e)); reflexivity. Qed.

Lemma verdict_ins U e y : entry_ok U e -> verdict e = Some y -> fst (fst y) = j -> snd (fst y) = 1.
Proof.
intros He Hy Hj. unfold verdict in Hy.
destruct (existsb is_pending (alleles e)) eqn:Epend; [discriminate|].
destruct (best_resolved 0 (alleles e) None) as [[i a]|] eqn:Eb; [|discriminate].
injection Hy as <-. cbn [fst snd] in *.
destruct (He Hj) as (_ & _ & a1 & Hal & Hok). rewrite Hal in Epend, Eb.
destruct Hok as (Hpr & Hl & _).
cbn [existsb] in Epend. apply orb_false_elim in Epend as [_ Epend]. apply orb_false_elim in Epend as [Epend _].
unfold is_pending in Epend. rewrite Hpr, Hl in Epend.
assert (Hk : Nat.min n (U - K) = n).
{ destruct (Z.leb 0 (Z.of_nat (Nat.min n (U - K)))) eqn:E0; [|apply Z.leb_gt in E0; lia].
  cbn [andb] in Epend. apply Z.ltb_ge in Epend. lia. }
cbn [best_resolved] in Eb.
assert (Hr0 : is_resolved z0 = true) by reflexivity.
assert (Hr1 : is_resolved a1 = true) by (unfold is_resolved; rewrite Hpr, Hl, Hk; apply Z.eqb_refl).
rewrite Hr0, Hr1 in Eb.
assert (Hlt : (alen z0 <? alen a1) = true) by (rewrite Hl; apply Nat.ltb_lt; cbn; lia).
rewrite Hlt in Eb. now injection Eb as <- _.
Qed.

(* an operation that does not touch the queue *)
Lemma move_entry pre op len rest e : whole = pre ++ (op, len) :: rest -> moves op ->
  entry_ok (length (expand pre)) e -> entry_ok (length (expand pre) + len) e.
Proof.
intros Hw Hm He Hv. destruct (He Hv) as (HK & Hqs & a1 & Hal & Hok).
assert (Hdone : K + n <= length (expand pre)).
{ destruct (Nat.le_gt_cases (K + n) (length (expand pre))) as [H|H]; [exact H|exfalso].
  assert (op = OpI) by (eapply op_in_run; eauto; lia). subst op. destruct Hm as [H0|[H0|[H0|H0]]]; discriminate. }
split; [lia|]. split; [exact Hqs|]. exists a1. split; [exact Hal|].
replace (Nat.min n (length (expand pre) + len - K)) with (Nat.min n (length (expand pre) - K)) by lia. exact Hok.
Qed.

(* a handled entry that was queued earlier *)
Lemma handle_entry pre op len rest e : whole = pre ++ (op, len) :: rest -> queues op ->
  entry_ok (length (expand pre)) e ->
  entry_ok (length (expand pre) + len) (handle op query quals nv (query_units (expand pre)) len e).
Proof.
intros Hw Hop He Hv. rewrite handle_vid in Hv. destruct (He Hv) as (HK & Hqs & a1 & Hal & Hok).
split; [lia|]. rewrite handle_qstart. split; [exact Hqs|].
rewrite (handle_alleles query quals nv j v Hnth op _ len e z0 a1 Hv Hal).
destruct (Nat.le_gt_cases (K + n) (length (expand pre))) as [Hdone|Hrun].
- (* the insertion is complete: nothing changes *)
  assert (Hk : Nat.min n (length (expand pre) - K) = n) by lia. rewrite Hk in Hok.
  exists a1. split.
  + destruct Hop as [->|[->|Hm]]; [| |destruct op; try discriminate];
      rewrite z0_step, (alt_done_step _ _ _ _ _ _ Hok); reflexivity.
  + replace (Nat.min n (length (expand pre) + len - K)) with n by lia. exact Hok.
- (* inside the run of insertion operations *)
  assert (op = OpI) by (eapply op_in_run; eauto; lia). subst op.
  pose proof (ins_op_within_run pre len rest Hw Hrun) as Hend.
  assert (Hk : Nat.min n (length (expand pre) - K) = length (expand pre) - K) by lia. rewrite Hk in Hok.
  exists (ins_allele query v (length q1) len 1 a1). split.
  + rewrite z0_step. cbn [step_allele]. rewrite Hqs. reflexivity.
  + replace (Nat.min n (length (expand pre) + len - K)) with (length (expand pre) - K + len) by lia.
    apply alt_ins_step; [exact Hok|lia].
Qed.


Lemma vvar_j e : vid e = j -> vvar nv e = v.
Proof. intros H. unfold vvar. rewrite H. now apply nth_error_nth. Qed.

(* the only operation that can queue the tracker of variant j is the insertion operation starting at unit K *)
Lemma queued_only_at_K pre op len rest : whole = pre ++ (op, len) :: rest -> queues op ->
  length (expand pre) <= K ->
  start + ref_units (expand pre) <= vpos v ->
  vpos v < start + ref_units (expand pre) + match op with OpI => 1 | _ => len end ->
  op = OpI /\ length (expand pre) = K.
Proof.
intros Hw Hop HU Hlo Hhi. pose proof (positive_in whole pre op len rest Hpos Hw) as Hlen.
destruct Hop as [->|Hop].
- split; [reflexivity|]. destruct (Nat.eq_dec (length (expand pre)) K) as [E|E]; [exact E|exfalso].
  pose proof (ru_before_K pre OpI len rest Hw ltac:(lia)). lia.
- exfalso.
  assert (Hru : ref_unit op = 1) by (destruct Hop as [->|Hm]; [reflexivity|now apply is_match_ref_unit]).
  assert (Hhi' : vpos v < start + ref_units (expand pre) + len) by (destruct Hop as [->|Hm]; [exact Hhi|destruct op; try discriminate; exact Hhi]).
  assert (HK : K < length (expand pre) + len).
  { destruct (Nat.le_gt_cases (length (expand pre) + len) K) as [H|H]; [exfalso|exact H].
    destruct (prefix_of_PM pre op len rest len Hw (Nat.le_refl _) H) as [l Hl].
    assert (ref_units PM = ref_units (expand pre) + len + ref_units l).
    { rewrite Hl, !ref_units_app, ref_units_repeat, Hru. lia. }
    lia. }
  destruct (op_over_K pre op len rest Hw HU HK) as [-> _]. discriminate.
Qed.

Lemma new_entry pre len rest e : whole = pre ++ (OpI, len) :: rest -> length (expand pre) = K ->
  built nv e -> vid e = j ->
  entry_ok (length (expand pre) + len)
    (handle OpI query quals nv (query_units (expand pre)) len
       (reset e (query_units (expand pre) + vpos v - (start + ref_units (expand pre))))).
Proof.
intros Hw HU [Hvalid Hb] Hv _.
pose proof (positive_in whole pre OpI len rest Hpos Hw) as Hlen.
assert (HE : expand pre = PM) by (apply ru_at_K; [exact HU|eauto]).
pose proof (ins_op_within_run pre len rest Hw ltac:(lia)) as Hend.
assert (Hqs : query_units (expand pre) + vpos v - (start + ref_units (expand pre)) = length q1).
{ rewrite HE, Hp, Hq1. lia. }
rewrite Hqs. split; [lia|]. rewrite handle_qstart. split; [reflexivity|].
assert (Hal : alleles (reset e (length q1)) = [z0; new_allele 0 n 0]).
{ rewrite Hb. cbn [reset alleles build_var_progress map vid]. rewrite Hv.
  rewrite (nth_error_nth nv j dummy Hnth). rewrite Hvref. cbn [length Nat.min Nat.sub]. fold n.
  rewrite Nat.sub_0_r. reflexivity. }
rewrite (handle_alleles query quals nv j v Hnth OpI _ len (reset e (length q1)) z0 (new_allele 0 n 0) Hv Hal).
exists (ins_allele query v (length q1) len 1 (new_allele 0 n 0)). split.
- rewrite z0_step. reflexivity.
- replace (Nat.min n (length (expand pre) + len - K)) with (0 + len) by lia.
  apply alt_ins_step; [|lia]. unfold alt_ok, new_allele. cbn. repeat split; lia.
Qed.

(* once the insertion operation at unit K has been processed, the tracker of j has left the progress list *)
Lemma taken_at_K sk pre op len rest vp1 newq vp' :
  whole = pre ++ (op, len) :: rest -> queues op ->
  Forall (built nv) vp1 -> strict_vp nv vp1 ->
  Forall (fun e => start + ref_units (expand pre) <= vpos (vvar nv e)) vp1 ->
  ((exists e, In e vp1 /\ vid e = j) -> length (expand pre) <= K) ->
  enqueue sk op nv vp1 (start + ref_units (expand pre)) (query_units (expand pre))
          (start + ref_units (expand pre) + match op with OpI => if r_ins_span R then 1 else len | _ => len end)
    = (newq, vp') ->
  (exists e, In e vp' /\ vid e = j) -> length (expand pre) + len <= K.
Proof.
intros Hw Hop Hb Hs Hlow HV3 Hen (e & He & Hv). rewrite Hspan in Hen.
assert (Hff : Forall (fresh_entry nv) vp1) by (eapply Forall_impl; [|exact Hb]; apply built_fresh).
destruct (enqueue_spec nv _ _ _ _ _ _ _ _ Hff Hen) as [[taken Ht] _].
assert (He1 : In e vp1) by (rewrite Ht; apply in_or_app; now right).
specialize (HV3 (ex_intro _ e (conj He1 Hv))).
destruct (Nat.le_gt_cases (length (expand pre) + len) K) as [H|H]; [exact H|exfalso].
destruct (op_over_K pre op len rest Hw HV3 H) as [-> HU].
assert (HE : expand pre = PM) by (apply ru_at_K; [exact HU|eauto]).
destruct vp1 as [|h t]; [contradiction|].
cbn [enqueue] in Hen.
pose proof (Forall_inv Hb) as [Hhv _]. pose proof (Forall_inv_tail Hb) as Hbt.
rewrite (nth_error_vvar nv h Hhv) in Hen.
pose proof (Forall_inv Hlow) as Hlh. cbn beta in Hlh. destruct Hs as [Hsh Hst].
assert (Hpe : vpos (vvar nv e) = vpos v) by (now rewrite (vvar_j e Hv)).
assert (Hhe : vpos (vvar nv h) = vpos v).
{ destruct He1 as [->|Het]; [exact Hpe|]. rewrite Forall_forall in Hsh. specialize (Hsh e Het).
  rewrite HE, <- Hp in Hlh. lia. }
assert (E1 : (start + ref_units (expand pre) + 1 <=? vpos (vvar nv h)) = false).
{ apply Nat.leb_gt. rewrite Hhe, HE, Hp. lia. }
rewrite E1 in Hen.
assert (Hrl : length (vref (vvar nv h)) = 0).
{ destruct He1 as [->|Het]; [rewrite (vvar_j e Hv), Hvref; reflexivity|].
  rewrite Forall_forall in Hsh. specialize (Hsh e Het). lia. }
rewrite Hrl in Hen. cbn [Nat.ltb Nat.leb] in Hen.
assert (Hb' : exists a b, enqueue sk OpI nv t (start + ref_units (expand pre)) (query_units (expand pre))
                            (start + ref_units (expand pre) + 1) = (a, b) /\ vp' = b).
{ destruct (sk && (vpos (vvar nv h) =? start + ref_units (expand pre)));
    destruct (enqueue sk OpI nv t _ _ _) as [a b] eqn:Eab; injection Hen as _ <-; exists a, b; split; reflexivity. }
destruct Hb' as (a & b & Eab & ->).
assert (Hfft : Forall (fresh_entry nv) t) by (eapply Forall_impl; [|exact Hbt]; apply built_fresh).
destruct (enqueue_spec nv _ _ _ _ _ _ _ _ Hfft Eab) as [[taken' Ht'] _].
assert (Het : In e t) by (rewrite Ht'; apply in_or_app; now right).
rewrite Forall_forall in Hsh. specialize (Hsh e Het). lia.
Qed.


(* --- the loop *)
Lemma ins_loop_inv : forall cig pre vp queue flank,
  whole = pre ++ cig -> Forall (built nv) vp -> strict_vp nv vp ->
  ((exists e, In e vp /\ vid e = j) -> length (expand pre) <= K) ->
  Forall (entry_ok (length (expand pre))) queue ->
  forall y, In y (detect_loop R cig query quals nv vp queue flank
                              (start + ref_units (expand pre)) (query_units (expand pre))) ->
  fst (fst y) = j -> snd (fst y) = 1.
Proof.
induction cig as [|[op len] cig IH]; intros pre vp queue flank Hw Hb Hs HV3 Hq y Hy Hj.
- cbn [detect_loop] in Hy. destruct (final_yield_spec _ _ Hy) as (e & He & Hv).
  rewrite Forall_forall in Hq. eapply verdict_ins; eauto.
- assert (Hw' : whole = (pre ++ [(op, len)]) ++ cig) by (rewrite <- app_assoc; exact Hw).
  pose proof (ref_units_expand_snoc pre op len) as Hru.
  pose proof (query_units_expand_snoc pre op len) as Hqu.
  pose proof (expand_snoc_length pre op len) as HU'.
  cbn [detect_loop] in Hy.
  assert (Hff : Forall (fresh_entry nv) vp) by (eapply Forall_impl; [|exact Hb]; apply built_fresh).
  destruct (skip_progress_spec nv vp (start + ref_units (expand pre)) Hff (strict_vp_weak nv vp Hs)) as (dropped & Hd & Hlow).
  remember (skip_progress nv vp (start + ref_units (expand pre))) as vp1 eqn:Evp1. clear Evp1.
  assert (Hb1 : Forall (built nv) vp1) by (rewrite Hd in Hb; apply Forall_app in Hb; apply Hb).
  assert (Hs1 : strict_vp nv vp1) by (rewrite Hd in Hs; eapply strict_vp_app; eauto).
  assert (HV31 : (exists e, In e vp1 /\ vid e = j) -> length (expand pre) <= K).
  { intros (e & He & Hv). apply HV3. exists e. split; [rewrite Hd; apply in_or_app; now right|exact Hv]. }
  assert (Hmove : moves op -> forall fl,
     In y (detect_loop R cig query quals nv vp1 queue fl
             (start + ref_units (expand (pre ++ [(op, len)]))) (query_units (expand (pre ++ [(op, len)])))) ->
     snd (fst y) = 1).
  { intros Hm fl Hy'. apply (IH (pre ++ [(op, len)]) vp1 queue fl Hw' Hb1 Hs1); [| |exact Hy'|exact Hj].
    - intros Hex. rewrite HU'. specialize (HV31 Hex).
      destruct (Nat.le_gt_cases (length (expand pre) + len) K) as [H|H]; [exact H|exfalso].
      destruct (op_over_K pre op len cig Hw HV31 H) as [-> _]. destruct Hm as [H0|[H0|[H0|H0]]]; discriminate.
    - rewrite HU'. rewrite Forall_forall in *. intros e He. eapply move_entry; eauto. }
  assert (Hwork : queues op ->
     In y (let (newq, vp') := enqueue ((match op with OpI => r_ins_flank_at_ins R | _ => r_ins_left_flank R end) && negb flank) op nv vp1 (start + ref_units (expand pre))
                                (query_units (expand pre))
                                (start + ref_units (expand pre) + match op with OpI => if r_ins_span R then 1 else len | _ => len end) in
           let queue1 := map (handle op query quals nv (query_units (expand pre)) len) (queue ++ newq) in
           let (ys, queue2) := drain queue1 in
           ys ++ detect_loop R cig query quals nv vp' queue2 true
                   (start + ref_units (expand (pre ++ [(op, len)]))) (query_units (expand (pre ++ [(op, len)])))) ->
     snd (fst y) = 1).
  { intros Hop Hy'.
    destruct (enqueue _ op nv vp1 _ _ _) as [newq vp'] eqn:Een.
    assert (Hff1 : Forall (fresh_entry nv) vp1) by (eapply Forall_impl; [|exact Hb1]; apply built_fresh).
    destruct (enqueue_spec nv _ op _ _ _ vp1 newq vp' Hff1 Een) as [[taken Ht] Hnew].
    pose proof (taken_at_K _ pre op len cig vp1 newq vp' Hw Hop Hb1 Hs1 Hlow HV31 Een) as HV3'.
    cbv zeta in Hy'.
    set (queue1 := map (handle op query quals nv (query_units (expand pre)) len) (queue ++ newq)) in *.
    assert (Hqq1 : Forall (entry_ok (length (expand pre) + len)) queue1).
    { unfold queue1. rewrite Forall_forall. intros e1 He1. apply in_map_iff in He1 as (e0 & <- & He0).
      apply in_app_or in He0 as [He0|He0].
      - rewrite Forall_forall in Hq. eapply handle_entry; eauto.
      - destruct (Hnew e0 He0) as (e & He & -> & Hlt & HI).
        intros Hv. rewrite handle_vid in Hv. cbn [reset vid] in Hv.
        rewrite Forall_forall in Hb1, Hlow. specialize (Hb1 e He). specialize (Hlow e He).
        rewrite (vvar_j e Hv) in *. rewrite Hspan in Hlt.
        destruct (queued_only_at_K pre op len cig Hw Hop (HV31 (ex_intro _ e (conj He Hv))) Hlow Hlt) as [-> HU].
        apply (new_entry pre len cig e Hw HU Hb1 Hv). rewrite handle_vid. exact Hv. }
    destruct (drain queue1) as [ys queue2] eqn:Edr. destruct (drain_spec _ _ _ Edr) as [Hys Hq2].
    apply in_app_or in Hy' as [Hy'|Hy'].
    - destruct (Hys y Hy') as (e & He & Hv). rewrite Forall_forall in Hqq1. eapply verdict_ins; eauto.
    - apply (IH (pre ++ [(op, len)]) vp' queue2 true Hw'); [| | | |exact Hy'|exact Hj].
      + rewrite Ht in Hb1. apply Forall_app in Hb1. apply Hb1.
      + rewrite Ht in Hs1. eapply strict_vp_app; eauto.
      + rewrite HU'. exact HV3'.
      + rewrite HU'. rewrite Forall_forall in *. auto. }
  destruct op.
  + apply Hwork; [right; right; reflexivity|].
    rewrite Hru, Hqu. cbn [ref_unit query_unit]. rewrite !Nat.mul_1_l, !Nat.add_assoc. exact Hy.
  + apply Hwork; [left; reflexivity|].
    rewrite Hru, Hqu. cbn [ref_unit query_unit]. rewrite Nat.mul_0_l, Nat.mul_1_l, Nat.add_0_r. exact Hy.
  + apply Hwork; [right; left; reflexivity|].
    rewrite Hru, Hqu. cbn [ref_unit query_unit]. rewrite Nat.mul_1_l, Nat.mul_0_l, Nat.add_0_r, !Nat.add_assoc. exact Hy.
  + apply (Hmove (or_introl eq_refl) false).
    rewrite Hru, Hqu. cbn [ref_unit query_unit]. rewrite Nat.mul_1_l, Nat.mul_0_l, Nat.add_0_r, !Nat.add_assoc. exact Hy.
  + apply (Hmove (or_intror (or_introl eq_refl)) flank).
    rewrite Hru, Hqu. cbn [ref_unit query_unit]. rewrite Nat.mul_1_l, Nat.mul_0_l, Nat.add_0_r. exact Hy.
  + apply (Hmove (or_intror (or_intror (or_introl eq_refl))) flank).
    rewrite Hru, Hqu. cbn [ref_unit query_unit]. rewrite !Nat.mul_0_l, !Nat.add_0_r. exact Hy.
  + apply (Hmove (or_intror (or_intror (or_intror eq_refl))) flank).
    rewrite Hru, Hqu. cbn [ref_unit query_unit]. rewrite !Nat.mul_0_l, !Nat.add_0_r. exact Hy.
  + apply Hwork; [right; right; reflexivity|].
    rewrite Hru, Hqu. cbn [ref_unit query_unit]. rewrite !Nat.mul_1_l, !Nat.add_assoc. exact Hy.
  + apply Hwork; [right; right; reflexivity|].
    rewrite Hru, Hqu. cbn [ref_unit query_unit]. rewrite !Nat.mul_1_l, !Nat.add_assoc. exact Hy.
Qed.

End InsertionShown.

(* the read shows the insertion => REF is not reported *)
Theorem detect_noref_never_wrong_ins_shown :
  forall (R : rules), r_ins_span R = true ->
  forall (variants : list variant) (start : nat) (cig : cigar) (query quals : list Z) (j a q : nat)
         (v : variant) (pre V post : list cop) (q1 q2 : list Z),
  sorted_pos (index_from 0 (map normalized variants)) -> positive_lengths cig ->
  In (j, a, q) (detect_noref R variants start cig query quals) ->
  nth_error (map normalized variants) j = Some v ->
  vref v = [] -> valt v <> [] ->
  expand cig = pre ++ V ++ post -> vpos v = start + ref_units pre -> allele_units v 1 V ->
  query = q1 ++ valt v ++ q2 -> length q1 = query_units pre ->
  flanked pre post ->
  a = 1.
Proof.
intros R Hspan variants start cig query quals j a q v pre V post q1 q2 Hs Hpos Hin Hn Hr Ha He Hp HV Hq Hq1 Hfl.
set (nv := map normalized variants) in *.
assert (Hlen : 0 < length (valt v)) by (destruct (valt v); [contradiction|cbn; lia]).
cbn [allele_units] in HV. destruct HV as (M & _ & HMl & HVe). rewrite Hr in HMl, HVe. cbn [length Nat.min Nat.sub] in HMl, HVe.
destruct M; [|discriminate]. rewrite Nat.sub_0_r in HVe. cbn [repeat app] in HVe. rewrite app_nil_r in HVe. subst V.
destruct Hfl as [(P & m1 & -> & Hm1) (m2 & Q & -> & Hm2)].
unfold detect_noref in Hin. fold nv in Hin.
destruct (initial_vp nv (r_sym_noref R) Hs) as [Hb Hsv]. cbv zeta in Hb, Hsv.
pose proof (initial_vp_strict nv (r_sym_noref R) Hs) as Hst.
set (vp := map (fun j => build_var_progress (nth j nv (mkVar 0 [] [])) j) (non_overlapping (r_sym_noref R) (index_from 0 nv) [] None)) in *.
assert (Hff : Forall (fresh_entry nv) vp) by (eapply Forall_impl; [|exact Hb]; apply built_fresh).
destruct (skip_progress_spec nv vp start Hff Hsv) as (dropped & Hd & _).
assert (Hb1 : Forall (built nv) (skip_progress nv vp start)) by (rewrite Hd in Hb; apply Forall_app in Hb; apply Hb).
assert (Hs1 : strict_vp nv (skip_progress nv vp start)) by (rewrite Hd in Hst; eapply strict_vp_app; eauto).
pose proof (ins_loop_inv R Hspan query quals nv start cig j v Hn Hr P Q m1 m2 q1 q2 Hlen Hpos He Hm1 Hm2 Hp Hq Hq1
              cig [] (skip_progress nv vp start) [] false eq_refl Hb1 Hs1) as Hg.
cbn [expand flat_map ref_units query_units fold_right length] in Hg. rewrite Nat.add_0_r in Hg.
apply (Hg ltac:(intros; lia) (Forall_nil _) (j, a, q) Hin eq_refl).
Qed.

(* --- the complete reference-free statement for the code as it is now *)
Theorem detect_noref_never_wrong_current : detect_noref_never_wrong_statement current_rules.
Proof.
intros variants start cig query quals j a q v carried pre V post q1 q2 Hs Hpos Hin Hn Hkind Hd Hc He Hp HV Hq Hq1 Hfl.
destruct Hkind as [Hsnv|Hind].
- eapply detect_noref_never_wrong_snv; eauto.
- specialize (Hfl Hind).
  destruct (list_eq_dec Z.eq_dec (vref v) []) as [Hr|Hr].
  + destruct carried as [|[|c]]; [| |lia].
    * eapply (detect_noref_never_wrong_indel_kill current_rules eq_refl); eauto.
    * cbn [get_allele] in Hq.
      eapply (detect_noref_never_wrong_ins_shown current_rules eq_refl); eauto.
      intros Ha. apply Hd. now rewrite Hr, Ha.
  + eapply (detect_noref_never_wrong_indel_kill current_rules eq_refl); eauto. intros H. contradiction.
Qed.

(* --- without reference: only variants whose normalised position lies in the reference span are reported *)
Section WithinSpan.
Variable R : rules.
Hypothesis Hspan : r_ins_span R = true.
Variables (query quals : list Z) (nv : list variant) (start : nat) (whole : cigar).

Definition in_span (e : vprog) : Prop :=
  start <= vpos (vvar nv e) /\ vpos (vvar nv e) <= start + ref_units (expand whole).

Lemma span_frame : forall cig pre vp queue flank,
  whole = pre ++ cig -> Forall (built nv) vp -> sorted_vp nv vp -> Forall in_span queue ->
  forall y, In y (detect_loop R cig query quals nv vp queue flank
                              (start + ref_units (expand pre)) (query_units (expand pre))) ->
  start <= vpos (nth (fst (fst y)) nv dummy) /\ vpos (nth (fst (fst y)) nv dummy) <= start + ref_units (expand whole).
Proof.
apply (frame R query quals nv start whole (fun _ => in_span) (built nv)
             (fun y => start <= vpos (nth (fst (fst y)) nv dummy) /\
                       vpos (nth (fst (fst y)) nv dummy) <= start + ref_units (expand whole))).
- apply built_fresh.
- auto.
- intros pre op len rest e _ _ He. unfold in_span, vvar in *. now rewrite handle_vid.
- intros pre op len rest e Hw Hop _ Hlo Hhi _. unfold in_span.
  assert (Hvv : forall qs, vvar nv (handle op query quals nv (query_units (expand pre)) len (reset e qs)) = vvar nv e).
  { intros qs. unfold vvar. rewrite handle_vid. reflexivity. }
  rewrite !Hvv. split; [lia|]. rewrite Hspan in Hhi.
  assert (Hle : ref_units (expand pre) + ref_unit op * len <= ref_units (expand whole)).
  { rewrite Hw, expand_app, ref_units_app.
    change (expand ((op, len) :: rest)) with (repeat op len ++ expand rest). rewrite ref_units_app, ref_units_repeat. lia. }
  destruct Hop as [->|[->|Hm]].
  + lia.
  + cbn [ref_unit] in Hle. lia.
  + rewrite (is_match_ref_unit _ Hm) in Hle. destruct op; try discriminate; lia.
- intros _ e y He Hy. unfold verdict in Hy.
  destruct (existsb is_pending (alleles e)); [discriminate|].
  destruct (best_resolved 0 (alleles e) None) as [[i a]|]; [|discriminate]. injection Hy as <-. exact He.
Qed.

End WithinSpan.

Theorem detect_noref_within_span :
  forall (R : rules), r_ins_span R = true ->
  forall (variants : list variant) (start : nat) (cig : cigar) (query quals : list Z) (j a q : nat) (v : variant),
  sorted_pos (index_from 0 (map normalized variants)) ->
  In (j, a, q) (detect_noref R variants start cig query quals) ->
  nth_error (map normalized variants) j = Some v ->
  start <= vpos v /\ vpos v <= start + ref_units (expand cig).
Proof.
intros R Hspan variants start cig query quals j a q v Hs Hin Hn.
set (nv := map normalized variants) in *.
unfold detect_noref in Hin. fold nv in Hin.
destruct (initial_vp nv (r_sym_noref R) Hs) as [Hb Hsv]. cbv zeta in Hb, Hsv.
set (vp := map (fun j => build_var_progress (nth j nv (mkVar 0 [] [])) j) (non_overlapping (r_sym_noref R) (index_from 0 nv) [] None)) in *.
assert (Hff : Forall (fresh_entry nv) vp) by (eapply Forall_impl; [|exact Hb]; apply built_fresh).
destruct (skip_progress_spec nv vp start Hff Hsv) as (dropped & Hd & _).
assert (Hb1 : Forall (built nv) (skip_progress nv vp start)) by (rewrite Hd in Hb; apply Forall_app in Hb; apply Hb).
assert (Hs1 : sorted_vp nv (skip_progress nv vp start)) by (rewrite Hd in Hsv; eapply sorted_vp_app; eauto).
pose proof (span_frame R Hspan query quals nv start cig cig [] (skip_progress nv vp start) [] false eq_refl Hb1 Hs1
              (Forall_nil _) (j, a, q)) as Hg.
cbn [expand flat_map ref_units query_units fold_right fst] in Hg. rewrite Nat.add_0_r in Hg.
specialize (Hg Hin). rewrite (nth_error_nth nv j dummy Hn) in Hg. exact Hg.
Qed.

(* --- without reference, symbolic records are left out (fix b8437fb) *)
Lemma non_overlapping_not_symbolic : forall (vs : list ivar) seen skip j,
  In j (non_overlapping true vs seen skip) -> exists v, In (j, v) vs /\ is_symbolic v = false.
Proof.
induction vs as [|[j0 v0] rest IH]; intros seen skip j Hin; [contradiction|].
assert (Hrec : forall seen' skip', In j (non_overlapping true rest seen' skip') ->
                 exists v, In (j, v) ((j0, v0) :: rest) /\ is_symbolic v = false).
{ intros seen' skip' H. destruct (IH _ _ _ H) as (v & Hv & Hs). exists v. split; [now right|exact Hs]. }
cbn [non_overlapping] in Hin.
destruct (match skip with Some d => vpos v0 <? d | None => false end); [now apply (Hrec seen skip)|].
destruct (existsb (Nat.eqb (vpos v0)) seen); [now apply (Hrec seen None)|].
destruct (is_symbolic v0) eqn:Es; cbn [andb] in Hin; [now apply (Hrec (vpos v0 :: seen) None)|].
assert (Hhead : j = j0 -> exists v, In (j, v) ((j0, v0) :: rest) /\ is_symbolic v = false).
{ intros ->. exists v0. split; [now left|exact Es]. }
destruct (length (valt v0) <? length (vref v0)).
- destruct rest as [|[j1 v1] rest1] eqn:Er.
  + destruct Hin as [<-|[]]. now apply Hhead.
  + destruct (vpos v1 <? vpos v0 + length (vref v0)); [now apply (Hrec (vpos v0 :: seen) (Some (vpos v0 + length (vref v0))))|].
    destruct Hin as [<-|Hin]; [now apply Hhead|now apply (Hrec (vpos v0 :: seen) None)].
- destruct Hin as [<-|Hin]; [now apply Hhead|now apply (Hrec (vpos v0 :: seen) None)].
Qed.

Section FromValid.
Variable R : rules.
Variables (query quals : list Z) (nv : list variant) (start : nat) (whole : cigar) (valid : list nat).

Lemma valid_frame : forall cig pre vp queue flank,
  whole = pre ++ cig -> Forall (fun e => built nv e /\ In (vid e) valid) vp -> sorted_vp nv vp ->
  Forall (fun e => In (vid e) valid) queue ->
  forall y, In y (detect_loop R cig query quals nv vp queue flank
                              (start + ref_units (expand pre)) (query_units (expand pre))) ->
  In (fst (fst y)) valid.
Proof.
apply (frame R query quals nv start whole (fun _ e => In (vid e) valid) (fun e => built nv e /\ In (vid e) valid)
             (fun y => In (fst (fst y)) valid)).
- intros e [He _]. now apply built_fresh.
- auto.
- intros pre op len rest e _ _ He. now rewrite handle_vid.
- intros pre op len rest e _ _ [_ He] _ _ _. now rewrite handle_vid.
- intros _ e y He Hy. unfold verdict in Hy.
  destruct (existsb is_pending (alleles e)); [discriminate|].
  destruct (best_resolved 0 (alleles e) None) as [[i a]|]; [|discriminate]. injection Hy as <-. exact He.
Qed.

End FromValid.

Theorem detect_noref_skips_symbolic_current : detect_noref_skips_symbolic_statement current_rules.
Proof.
intros variants start cig query quals j a q v Hs Hin Hn.
set (nv := map normalized variants) in *.
unfold detect_noref in Hin. fold nv in Hin. cbn [r_sym_noref current_rules] in Hin.
destruct (initial_vp nv true Hs) as [Hb Hsv]. cbv zeta in Hb, Hsv.
set (valid := non_overlapping true (index_from 0 nv) [] None) in *.
set (vp := map (fun j => build_var_progress (nth j nv (mkVar 0 [] [])) j) valid) in *.
assert (Hbv : Forall (fun e => built nv e /\ In (vid e) valid) vp).
{ rewrite Forall_forall. intros e He. split; [rewrite Forall_forall in Hb; now apply Hb|].
  unfold vp in He. apply in_map_iff in He as (j0 & <- & Hj0). exact Hj0. }
assert (Hff : Forall (fresh_entry nv) vp) by (eapply Forall_impl; [|exact Hb]; apply built_fresh).
destruct (skip_progress_spec nv vp start Hff Hsv) as (dropped & Hd & _).
assert (Hb1 : Forall (fun e => built nv e /\ In (vid e) valid) (skip_progress nv vp start))
  by (rewrite Hd in Hbv; apply Forall_app in Hbv; apply Hbv).
assert (Hs1 : sorted_vp nv (skip_progress nv vp start)) by (rewrite Hd in Hsv; eapply sorted_vp_app; eauto).
pose proof (valid_frame current_rules query quals nv start cig valid cig [] (skip_progress nv vp start) [] false eq_refl
              Hb1 Hs1 (Forall_nil _) (j, a, q)) as Hg.
cbn [expand flat_map ref_units query_units fold_right fst] in Hg. rewrite Nat.add_0_r in Hg.
specialize (Hg Hin). destruct (non_overlapping_not_symbolic _ _ _ _ Hg) as (v' & Hv' & Hsym).
destruct (index_from_spec nv 0 j v' Hv') as [_ H1]. rewrite Nat.sub_0_r in H1. rewrite Hn in H1. injection H1 as <-. exact Hsym.
Qed.

(* the code as it was: GATCAGTC, record (3, C, <DEL>), read GATCAGTC 8M -> REF reported for the symbolic record *)
Theorem detect_noref_skips_symbolic_original_refuted : ~ detect_noref_skips_symbolic_statement original_rules.
Proof.
intros H.
specialize (H [mkVar 3 [67]%Z [60;68;69;76;62]%Z] 0 [(OpM, 8)] [71;65;84;67;65;71;84;67]%Z [] 0 0 30
              (mkVar 3 [67]%Z [60;68;69;76;62]%Z)).
assert (Hc : true = false -> False) by discriminate.
apply Hc, H; try (vm_compute; reflexivity).
- vm_compute. split; constructor.
- vm_compute. now left.
Qed.
