(* C15 — proofs, part 3: the block pipeline envelope obeys the genotypes; the per-sample output obeys the property. *)
From Coq Require Import ZArith List Bool Arith Lia Permutation.
From WH.Model Require Import Polyphase.
From WH.Proofs Require Import PolyphaseProofs PolyphaseProofs2.
Import ListNotations.
Open Scope Z_scope.

(* a column obeys a genotype *)
Definition obeys (g c : list Z) : Prop := In undet c \/ Permutation c g.

(* ---------------------------------------------------------------------------------- list plumbing *)
Lemma Forall2_nth_error_l : forall A B (R : A -> B -> Prop) l1 l2 i x,
  Forall2 R l1 l2 -> nth_error l1 i = Some x -> exists y, nth_error l2 i = Some y /\ R x y.
Proof.
  intros A B R l1 l2 i x H. revert i. induction H as [| a b l1' l2' Hab Hrest IH]; intros i Hi; [destruct i; discriminate |].
  destruct i as [| i']; cbn [nth_error] in *.
  - inversion Hi; subst. exists b. auto.
  - apply IH. exact Hi.
Qed.

Lemma Forall2_from_nth : forall A B (R : A -> B -> Prop) (dA : A) (dB : B) l1 l2,
  length l1 = length l2 -> (forall p, (p < length l1)%nat -> R (nth p l1 dA) (nth p l2 dB)) -> Forall2 R l1 l2.
Proof.
  intros A B R dA dB l1. induction l1 as [| a t IH]; intros [| b u] Hlen H; cbn [length] in Hlen; try lia; constructor.
  - apply (H 0%nat). cbn [length]. lia.
  - apply IH; [lia |]. intros p Hp. apply (H (S p)). cbn [length]. lia.
Qed.

Lemma Forall2_to_nth : forall A B (R : A -> B -> Prop) (dA : A) (dB : B) l1 l2,
  Forall2 R l1 l2 -> length l1 = length l2 /\ forall p, (p < length l1)%nat -> R (nth p l1 dA) (nth p l2 dB).
Proof.
  intros A B R dA dB l1 l2 H. induction H as [| a b t u Hab Hrest [IH1 IH2]]; [split; [reflexivity | intros; cbn in *; lia] |].
  split; [cbn [length]; lia |]. intros p Hp. destruct p as [| p']; cbn [nth]; [exact Hab |]. apply IH2. cbn [length] in Hp. lia.
Qed.

Lemma all2_Forall2 : forall A B (f : A -> B -> bool) l1 l2, all2 f l1 l2 = true <-> Forall2 (fun a b => f a b = true) l1 l2.
Proof.
  intros A B f l1. induction l1 as [| a t IH]; intros [| b u]; cbn [all2]; split; intros H; try discriminate; try constructor;
    try (inversion H; fail).
  - apply andb_true_iff in H. tauto.
  - apply IH. apply andb_true_iff in H. tauto.
  - inversion H; subst. apply andb_true_iff. split; [assumption | apply IH; assumption].
Qed.

Lemma Forall2_concat_blocks : forall (R : list Z -> list Z -> Prop) (blocks : list (list (list Z) * list (list Z))),
  Forall (fun b => Forall2 R (fst b) (snd b)) blocks ->
  Forall2 R (concat (map fst blocks)) (concat (map snd blocks)).
Proof.
  intros R blocks H. induction H as [| b rest Hb Hrest IH]; cbn [map concat]; [constructor |].
  apply Forall2_app; assumption.
Qed.

Lemma Forall_concat_blocks : forall (P : list Z -> Prop) (blocks : list (list (list Z) * list (list Z))),
  Forall P (concat (map fst blocks)) -> Forall (fun b => Forall P (fst b)) blocks.
Proof.
  intros P blocks. induction blocks as [| b rest IH]; cbn [map concat]; intros H; [constructor |].
  apply Forall_app in H. destruct H as [H1 H2]. constructor; [exact H1 | apply IH; exact H2].
Qed.

(* --------------------------------------------------------------------- permute, given that it succeeded *)
Lemma mapM_id_Forall2_inv : forall (A B : Type) (R : A -> B -> Prop) (f : nat -> A -> option B) (l : list A) (i : nat) out,
  (forall j x y, In x l -> f j x = Some y -> R x y) ->
  mapM (fun x => x) (mapi_from i f l) = Some out -> Forall2 R l out.
Proof.
  intros A B R f l. induction l as [| x t IH]; intros i out H Hm; cbn [mapi_from mapM] in Hm.
  - inversion Hm; subst. constructor.
  - destruct (f i x) as [y |] eqn:Ey; [| discriminate].
    destruct (mapM (fun x0 => x0) (mapi_from (S i) f t)) as [ys |] eqn:Em; [| discriminate].
    inversion Hm; subst. constructor.
    + apply (H i x y); [left; reflexivity | exact Ey].
    + apply (IH (S i)); [| exact Em]. intros j z w Hz Hf. apply (H j z w); [right; exact Hz | exact Hf].
Qed.

Lemma permute_some_perm : forall k (cols : list (list Z)) bps pms outs,
  Forall (fun c => length c = k) cols -> Forall (fun p => is_permb k p = true) pms ->
  permute_blocks_cols k cols bps pms = Some outs -> Forall2 (fun c o => Permutation o c) cols outs.
Proof.
  intros k cols bps pms outs Hk Hp H. unfold permute_blocks_cols in H.
  destruct (negb (forallb (fun b => (b <=? length cols)%nat) bps)); [discriminate |].
  eapply mapM_id_Forall2_inv; [| exact H].
  intros j x y Hx Hf. cbn beta in Hf.
  destruct (block_of_from 0 (ext_bp (length cols) bps) j) as [i |].
  - destruct (nth_error pms i) as [pm |] eqn:Ep; [| discriminate].
    assert (Hpm : Permutation pm (seq 0 k)).
    { apply is_permb_spec. rewrite Forall_forall in Hp. apply Hp. eapply nth_error_In. exact Ep. }
    rewrite Forall_forall in Hk. destruct (permute_col_perm k pm x Hpm (Hk x Hx)) as [out [Ho Hperm]].
    rewrite Ho in Hf. inversion Hf; subst. exact Hperm.
  - inversion Hf; subst. apply Permutation_refl.
Qed.

(* ------------------------------------------------------------------------------- the block pipeline *)
Lemma restrict_col_length : forall ts c, length (restrict_col ts c) = length ts.
Proof. intros. unfold restrict_col. apply map_length. Qed.

Lemma obeys_trans : forall g c1 c2, obeys g c1 -> (In undet c2 \/ Permutation c2 c1) -> obeys g c2.
Proof.
  intros g c1 c2 H1 [H2 | H2]; [left; exact H2 |]. destruct H1 as [H1 | H1].
  - left. eapply Permutation_in; [apply Permutation_sym; exact H2 | exact H1].
  - right. eapply perm_trans; [exact H2 | exact H1].
Qed.

(* sub_results_preserve + force_genotypes_conforms + permute_preserves_columns composed along the recursion:
   every matrix in the envelope of the repaired rule (= of the code as it is, whenever at every forced position some
   candidate has a non-zero likelihood) has, at every position, an undetermined allele or exactly the genotype's
   alleles with their multiplicities, and k alleles per position. *)
Theorem pipeline_conforms : forall d k gs cols,
  SolvesN AlwaysCandidate d k gs cols -> Forall (fun g => length g = k) gs ->
  Forall2 (fun g c => length c = k /\ obeys g c) gs cols.
Proof.
  induction d as [| d IH]; intros k gs cols H Hg; cbn [SolvesN] in H; [contradiction |].
  destruct H as [blocks [Hgs [Hcols Hblocks]]]. subst gs cols.
  apply Forall2_concat_blocks. apply Forall_concat_blocks in Hg.
  rewrite Forall_forall in *. intros b Hb. specialize (Hblocks b Hb). specialize (Hg b Hb).
  destruct Hblocks as [[g [Hf Hs]] | Hgen].
  - assert (Hgk : length g = k).
    { rewrite Hf in Hg. apply Forall_inv in Hg. exact Hg. }
    rewrite Hf, Hs. unfold singleton_cols. constructor; [| constructor]. split.
    + rewrite (Permutation_length (sortZ_perm g)). exact Hgk.
    + right. apply sortZ_perm.
  - destruct Hgen as [init [forced [subs [integ [bps [pms [Hli [Hik [Hforce [Hwf [Hdis [Hrec [Hint [Hpm Hperm]]]]]]]]]]]]]].
    (* forcing *)
    assert (Hlen2 : Forall2 (fun g c => length g = length c) (fst b) init).
    { apply (Forall2_from_nth _ _ _ [] []); [lia |]. intros p Hp.
      rewrite Forall_forall in Hg, Hik. rewrite (Hg (nth p (fst b) [])) by (apply nth_In; exact Hp).
      rewrite (Hik (nth p init [])) by (apply nth_In; lia). reflexivity. }
    destruct (force_genotypes_conforms (fst b) init forced Hlen2 Hforce) as [Hconf Hflen].
    unfold all_conform in Hconf. apply all2_Forall2 in Hconf.
    destruct (Forall2_to_nth _ _ _ [] [] _ _ Hconf) as [Hl1 Hc1].
    destruct (Forall2_to_nth _ _ _ [] [] _ _ Hflen) as [Hl2 Hc2].
    assert (Hforcedk : Forall (fun c => length c = k) forced).
    { apply Forall_forall. intros c Hc. apply In_nth with (d := []) in Hc. destruct Hc as [p [Hp Hc]]. subst c.
      rewrite (Hc2 p) by lia. rewrite Forall_forall in Hik. apply Hik. apply nth_In. lia. }
    (* sub-instances *)
    assert (Hsubwf : Forall (sub_wf k (length forced)) subs).
    { apply Forall_forall. intros s Hs. apply sub_wfb_spec. rewrite Forall_forall in Hwf. apply Hwf. exact Hs. }
    assert (Hsubok : Forall (sub_ok forced) subs).
    { apply Forall_forall. intros s Hs. rewrite Forall_forall in Hrec. specialize (Hrec s Hs).
      apply IH in Hrec.
      - intros i p sc Hi Hsc. unfold sub_genotypes in Hrec.
        assert (Hgi : nth_error (map (fun pos => restrict_col (sr_threads s) (nth pos forced [])) (sr_snps s)) i
                      = Some (restrict_col (sr_threads s) (nth p forced []))).
        { rewrite nth_error_map, Hi. reflexivity. }
        destruct (Forall2_nth_error_l _ _ _ _ _ _ _ Hrec Hgi) as [y [Hy [_ Hob]]].
        rewrite Hsc in Hy. inversion Hy; subst y. exact Hob.
      - apply Forall_forall. intros g Hgin. unfold sub_genotypes in Hgin. apply in_map_iff in Hgin.
        destruct Hgin as [pos [Hpos _]]. subst g. apply restrict_col_length. }
    destruct (sub_results_preserve k forced subs Hforcedk Hsubwf (subs_disjointb_spec subs Hdis) Hsubok)
      as [integ' [Hint' [Hil [Hik' Hip]]]].
    rewrite Hint in Hint'. inversion Hint'; subst integ'.
    (* reordering *)
    pose proof (permute_some_perm k integ bps pms (snd b) Hik' Hpm Hperm) as Hpp.
    destruct (Forall2_to_nth _ _ _ [] [] _ _ Hpp) as [Hl3 Hc3].
    apply (Forall2_from_nth _ _ _ [] []); [lia |]. intros p Hp.
    assert (Hp3 : (p < length integ)%nat) by lia.
    assert (Hp2 : (p < length forced)%nat) by lia. split.
    + rewrite (Permutation_length (Hc3 p Hp3)). rewrite Forall_forall in Hik'. apply Hik'. apply nth_In. lia.
    + apply (obeys_trans _ (nth p integ [])); [| right; apply Hc3; exact Hp3].
      apply (obeys_trans _ (nth p forced [])); [| apply Hip; exact Hp2].
      specialize (Hc1 p Hp). apply conforms_spec in Hc1. exact Hc1.
Qed.

(* the code as it is: the envelope with the KeepGiven fallback contains a matrix that contradicts its genotypes *)
Theorem pipeline_keepgiven_refuted : exists d k gs cols,
  SolvesN KeepGiven d k gs cols /\ Forall (fun g => length g = k) gs /\
  ~ Forall2 (fun g c => length c = k /\ obeys g c) gs cols.
Proof.
  exists 1%nat, 4%nat, [[0; 0; 1; 1]], [[0; 0; 0; 0]]. split; [| split].
  - cbn [SolvesN]. exists [([[0; 0; 1; 1]], [[0; 0; 0; 0]])]. split; [reflexivity |]. split; [reflexivity |].
    constructor; [| constructor]. right.
    exists [[0; 0; 0; 0]], [[0; 0; 0; 0]], [], [[0; 0; 0; 0]], [], [[0; 1; 2; 3]%nat].
    repeat split; try reflexivity; repeat constructor.
  - repeat constructor.
  - intros H. inversion H as [| g c gs' cs' [_ Hob] _]; subst. destruct Hob as [Hu | Hp].
    + cbn in Hu. unfold undet in Hu. intuition lia.
    + assert (Hin : In 1 [0; 0; 0; 0]).
      { eapply Permutation_in; [apply Permutation_sym; exact Hp | cbn; auto]. }
      cbn in Hin. intuition lia.
Qed.

(* ---------------------------------------------------------- spelled-out forms used by props/C15.v *)
Lemma sub_results_preserve_b : forall k (cols : list (list Z)) (subs : list subres),
  Forall (fun c => length c = k) cols ->
  Forall (fun s => sub_wfb k (length cols) s = true) subs -> subs_disjointb subs = true ->
  (forall s, In s subs -> forall i p sc, nth_error (sr_snps s) i = Some p -> nth_error (sr_cols s) i = Some sc ->
      In undet sc \/ Permutation sc (restrict_col (sr_threads s) (nth p cols []))) ->
  exists outs, integrate cols subs = Some outs /\ length outs = length cols /\
    Forall (fun c => length c = k) outs /\
    forall p, (p < length cols)%nat -> In undet (nth p outs []) \/ Permutation (nth p outs []) (nth p cols []).
Proof.
  intros k cols subs Hk Hwf Hdis Hok. apply sub_results_preserve.
  - exact Hk.
  - apply Forall_forall. intros s Hs. apply sub_wfb_spec. rewrite Forall_forall in Hwf. apply Hwf. exact Hs.
  - apply subs_disjointb_spec. exact Hdis.
  - apply Forall_forall. intros s Hs. unfold sub_ok. apply Hok. exact Hs.
Qed.

Lemma aggregate_sorted_from_zero_b : forall borders (rs : list blockres),
  rs <> [] ->
  Forall (fun r => fst r <> [] /\ nondecN (map fst (snd r)) = true /\
                   Forall (fun b => (fst b < length (fst r))%nat) (snd r)) rs ->
  fst (aggregate borders rs) = concat (map fst rs) /\
  nondecN (map fst (snd (aggregate borders rs))) = true /\
  exists rest, snd (aggregate borders rs) = (0%nat, true) :: rest.
Proof.
  intros borders rs Hne Hwf. apply aggregate_sorted_from_zero; [exact Hne |].
  eapply Forall_impl; [| exact Hwf]. intros r [H1 [H2 H3]]. unfold block_wf. split; [exact H1 |]. split; [| exact H3].
  apply nondecN_sortedP. exact H2.
Qed.

Lemma pipeline_conforms_b : forall d k gs cols,
  SolvesN AlwaysCandidate d k gs cols -> Forall (fun g => length g = k) gs ->
  Forall2 (fun g c => length c = k /\ (In undet c \/ Permutation c g)) gs cols.
Proof. exact pipeline_conforms. Qed.

Lemma pipeline_keepgiven_refuted_b : exists d k gs cols,
  SolvesN KeepGiven d k gs cols /\ Forall (fun g => length g = k) gs /\
  ~ Forall2 (fun g c => length c = k /\ (In undet c \/ Permutation c g)) gs cols.
Proof. exact pipeline_keepgiven_refuted. Qed.
