(* Proofs about the decision rule of the haplotag model (property C10):
   the accumulated score table is the table of agreement sums, the chosen haplotype is the strict
   maximum within the reported phase set, and every tag written by the model stems from such a
   decision on a group of reads of one sample. *)
From Coq Require Import ZArith List Bool Arith Lia.
From WH.Model Require Import Haplotag.
Import ListNotations.
Open Scope Z_scope.

(* ------------------------------------------------------------------------------------------------ *)
(* dict lemmas *)
Section DictLemmas.
  Context {A : Type}.

  Lemma lookup_upd_eq : forall (k : Z) (v : A) m, lookup k (upd k v m) = Some v.
  Proof.
    intros k v m. induction m as [|[k' v'] t IH]; cbn [upd lookup].
    - rewrite Z.eqb_refl. reflexivity.
    - destruct (k =? k') eqn:E; cbn [lookup]; rewrite ?Z.eqb_refl, ?E; auto.
  Qed.

  Lemma lookup_upd_neq : forall (k k' : Z) (v : A) m, k <> k' -> lookup k' (upd k v m) = lookup k' m.
  Proof.
    intros k k' v m Hne. induction m as [|[k0 v0] t IH]; cbn [upd lookup].
    - destruct (k' =? k) eqn:E; [apply Z.eqb_eq in E; congruence | reflexivity].
    - destruct (k =? k0) eqn:E; cbn [lookup].
      + apply Z.eqb_eq in E. subst k0.
        destruct (k' =? k) eqn:E2; [apply Z.eqb_eq in E2; congruence | reflexivity].
      + rewrite IH. reflexivity.
  Qed.

  Lemma lookup_upd : forall (k k' : Z) (v : A) m,
    lookup k' (upd k v m) = if k' =? k then Some v else lookup k' m.
  Proof.
    intros. destruct (k' =? k) eqn:E.
    - apply Z.eqb_eq in E. subst. apply lookup_upd_eq.
    - apply Z.eqb_neq in E. apply lookup_upd_neq. congruence.
  Qed.

  Lemma in_keys_upd : forall (k k' : Z) (v : A) m,
    In k' (map fst (upd k v m)) <-> k' = k \/ In k' (map fst m).
  Proof.
    intros k k' v m. induction m as [|[k0 v0] t IH]; cbn [upd map fst In].
    - intuition.
    - destruct (k =? k0) eqn:E; cbn [map fst In].
      + apply Z.eqb_eq in E. subst. intuition.
      + rewrite IH. intuition.
  Qed.

  Lemma nodup_keys_upd : forall (k : Z) (v : A) m, NoDup (map fst m) -> NoDup (map fst (upd k v m)).
  Proof.
    intros k v m. induction m as [|[k0 v0] t IH]; cbn [upd map fst]; intros Hnd.
    - constructor; [intros []|constructor].
    - inversion Hnd as [|x l Hnin Hnd']; subst.
      destruct (k =? k0) eqn:E; cbn [map fst].
      + apply Z.eqb_eq in E. subst. constructor; assumption.
      + constructor; [|auto]. rewrite in_keys_upd. intros [Heq|Hin]; [|contradiction].
        subst. rewrite Z.eqb_refl in E. discriminate.
  Qed.

  Lemma lookup_in : forall (k : Z) (v : A) m, lookup k m = Some v -> In (k, v) m.
  Proof.
    intros k v m. induction m as [|[k0 v0] t IH]; cbn [lookup]; [discriminate|].
    destruct (k =? k0) eqn:E; intros H.
    - apply Z.eqb_eq in E. inversion H. subst. left. reflexivity.
    - right. auto.
  Qed.

  Lemma in_lookup_nodup : forall (k : Z) (v : A) m, NoDup (map fst m) -> In (k, v) m -> lookup k m = Some v.
  Proof.
    intros k v m. induction m as [|[k0 v0] t IH]; cbn [lookup map fst]; intros Hnd Hin; [destruct Hin|].
    inversion Hnd as [|x l Hnin Hnd']; subst.
    destruct Hin as [Heq|Hin].
    - inversion Heq. subst. rewrite Z.eqb_refl. reflexivity.
    - destruct (k =? k0) eqn:E.
      + apply Z.eqb_eq in E. subst. exfalso. apply Hnin. apply (in_map fst) in Hin. exact Hin.
      + auto.
  Qed.

  Lemma lookup_none_keys : forall (k : Z) (m : list (Z * A)), lookup k m = None <-> ~ In k (map fst m).
  Proof.
    intros k m. induction m as [|[k0 v0] t IH]; cbn [lookup map fst In].
    - intuition.
    - destruct (k =? k0) eqn:E.
      + apply Z.eqb_eq in E. subst. split; [discriminate|intros H; exfalso; apply H; left; reflexivity].
      + apply Z.eqb_neq in E. rewrite IH. intuition.
  Qed.
End DictLemmas.

(* ------------------------------------------------------------------------------------------------ *)
(* the accumulated table is the table of agreement sums *)
Definition entry (costs : list (Z * list Z)) (pl : nat) (ps : Z) : list Z :=
  match lookup ps costs with Some v => v | None => repeat 0 pl end.
Definition costs_len (pl : nat) (costs : list (Z * list Z)) : Prop :=
  forall k v, lookup k costs = Some v -> length v = pl.

Lemma add_match_length : forall v ph al q, length (add_match v ph al q) = length v.
Proof.
  induction v as [|x v IH]; intros ph al q; cbn [add_match length]; [reflexivity|].
  destruct ph as [|a ph]; cbn [length]; [reflexivity|]. rewrite IH. reflexivity.
Qed.

Lemma add_match_nth : forall v ph al q h, (h < length v)%nat ->
  nth h (add_match v ph al q) 0 = nth h v 0 + (if opt_eqb (nth_error ph h) al then q else 0).
Proof.
  induction v as [|x v IH]; intros ph al q h Hh; cbn [length] in Hh; [lia|].
  cbn [add_match]. destruct ph as [|a ph].
  - destruct h; cbn [nth_error opt_eqb]; lia.
  - destruct h as [|h]; cbn [nth nth_error opt_eqb].
    + destruct (a =? al); lia.
    + apply IH. lia.
Qed.

Lemma entry_length : forall costs pl ps, costs_len pl costs -> length (entry costs pl ps) = pl.
Proof.
  intros costs pl ps Hc. unfold entry. destruct (lookup ps costs) eqn:E.
  - eauto.
  - apply repeat_length.
Qed.

Lemma nth_error_existsb : forall (ph : list Z) h al,
  opt_eqb (nth_error ph h) al = true -> existsb (Z.eqb al) ph = true.
Proof.
  intros ph h al H. destruct (nth_error ph h) as [x|] eqn:E; cbn [opt_eqb] in H; [|discriminate].
  apply Z.eqb_eq in H. subst x. apply existsb_exists. exists al. split.
  - eapply nth_error_In. exact E.
  - apply Z.eqb_refl.
Qed.

Lemma acc_var_spec : forall inf pl costs var,
  costs_len pl costs ->
  costs_len pl (acc_var inf pl costs var) /\
  forall ps h, (h < pl)%nat ->
    nth h (entry (acc_var inf pl costs var) pl ps) 0 = nth h (entry costs pl ps) 0 + agrees inf ps h var.
Proof.
  intros inf pl costs [[pos al] q] Hc. unfold acc_var, agrees.
  destruct (lookup pos inf) as [[ps' ph]|] eqn:El.
  - destruct (existsb (Z.eqb al) ph) eqn:Ex.
    + split.
      * intros k v Hk. rewrite lookup_upd in Hk. destruct (k =? ps') eqn:E.
        -- inversion Hk. subst v. rewrite add_match_length.
           destruct (lookup ps' costs) eqn:E2; [eauto|apply repeat_length].
        -- eauto.
      * intros ps h Hh. unfold entry at 1. rewrite lookup_upd.
        destruct (ps =? ps') eqn:E.
        -- apply Z.eqb_eq in E. subst ps'. rewrite Z.eqb_refl. cbn [andb].
           rewrite add_match_nth.
           ++ unfold entry. reflexivity.
           ++ destruct (lookup ps costs) eqn:E2; [erewrite Hc by eauto; lia|rewrite repeat_length; lia].
        -- rewrite Z.eqb_sym, E. cbn [andb]. unfold entry. lia.
    + split; [assumption|]. intros ps h Hh.
      destruct ((ps' =? ps) && opt_eqb (nth_error ph h) al) eqn:E; [|lia].
      apply andb_true_iff in E. destruct E as [_ E]. apply nth_error_existsb in E. congruence.
  - split; [assumption|]. intros. lia.
Qed.

Lemma acc_vars_spec : forall inf pl vars costs,
  costs_len pl costs ->
  costs_len pl (fold_left (acc_var inf pl) vars costs) /\
  forall ps h, (h < pl)%nat ->
    nth h (entry (fold_left (acc_var inf pl) vars costs) pl ps) 0
    = nth h (entry costs pl ps) 0 + fold_right Z.add 0 (map (agrees inf ps h) vars).
Proof.
  intros inf pl vars. induction vars as [|v vars IH]; intros costs Hc; cbn [fold_left map fold_right].
  - split; [assumption|]. intros. lia.
  - destruct (acc_var_spec inf pl costs v Hc) as [Hc1 H1].
    destruct (IH _ Hc1) as [Hc2 H2]. split; [assumption|].
    intros ps h Hh. rewrite H2, H1 by assumption. lia.
Qed.

Lemma fold_left_flat_map : forall (A B C : Type) (f : A -> C -> A) (g : B -> list C) (l : list B) (a : A),
  fold_left (fun acc b => fold_left f (g b) acc) l a = fold_left f (flat_map g l) a.
Proof.
  intros A B C f g l. induction l as [|b l IH]; intros a; cbn [fold_left flat_map]; [reflexivity|].
  rewrite fold_left_app. apply IH.
Qed.

Lemma acc_group_vars : forall inf pl g,
  acc_group inf pl g = fold_left (acc_var inf pl) (flat_map r_vars g) [].
Proof.
  intros. unfold acc_group, acc_read.
  apply (fold_left_flat_map _ _ _ (acc_var inf pl) r_vars).
Qed.

Lemma costs_len_nil : forall pl, costs_len pl [].
Proof. intros pl k v H. discriminate. Qed.

Lemma acc_group_len : forall inf pl g, costs_len pl (acc_group inf pl g).
Proof. intros. rewrite acc_group_vars. apply acc_vars_spec. apply costs_len_nil. Qed.

Theorem scores_are_agreement_sums : forall inf pl g ps h, (h < pl)%nat ->
  nth h (entry (acc_group inf pl g) pl ps) 0 = score_spec inf g ps h.
Proof.
  intros inf pl g ps h Hh. rewrite acc_group_vars.
  destruct (acc_vars_spec inf pl (flat_map r_vars g) [] (costs_len_nil pl)) as [_ H].
  rewrite H by assumption. unfold score_spec, entry. cbn [lookup].
  rewrite nth_repeat. lia.
Qed.

(* the keys of the table are distinct (python dict) *)
Lemma acc_var_nodup : forall inf pl costs var,
  NoDup (map fst costs) -> NoDup (map fst (acc_var inf pl costs var)).
Proof.
  intros inf pl costs [[pos al] q] H. unfold acc_var.
  destruct (lookup pos inf) as [[ps ph]|]; [|assumption].
  destruct (existsb (Z.eqb al) ph); [|assumption]. apply nodup_keys_upd. assumption.
Qed.

Lemma acc_group_nodup : forall inf pl g, NoDup (map fst (acc_group inf pl g)).
Proof.
  intros. rewrite acc_group_vars.
  assert (H : forall vars costs, NoDup (map fst costs) -> NoDup (map fst (fold_left (acc_var inf pl) vars costs))).
  { induction vars as [|v vars IH]; intros costs Hc; cbn [fold_left]; [assumption|].
    apply IH. apply acc_var_nodup. assumption. }
  apply H. constructor.
Qed.

(* a phase set has an entry only if some variant of the group lies in it and matches a haplotype *)
Definition covers (inf : info) (g : list read) (ps : Z) : Prop :=
  exists r pos al q ph, In r g /\ In (pos, al, q) (r_vars r) /\ lookup pos inf = Some (ps, ph)
                        /\ existsb (Z.eqb al) ph = true.

Lemma acc_vars_keys : forall inf pl vars costs k,
  In k (map fst (fold_left (acc_var inf pl) vars costs)) ->
  In k (map fst costs) \/
  exists pos al q ph, In (pos, al, q) vars /\ lookup pos inf = Some (k, ph) /\ existsb (Z.eqb al) ph = true.
Proof.
  intros inf pl vars. induction vars as [|v vars IH]; intros costs k Hin; cbn [fold_left] in Hin.
  - left. assumption.
  - apply IH in Hin. destruct Hin as [Hin|(pos & al & q & ph & Hv & Hl & He)].
    + destruct v as [[pos al] q]. unfold acc_var in Hin.
      destruct (lookup pos inf) as [[ps ph]|] eqn:El; [|left; assumption].
      destruct (existsb (Z.eqb al) ph) eqn:Ex; [|left; assumption].
      apply in_keys_upd in Hin. destruct Hin as [Heq|Hin]; [|left; assumption].
      subst k. right. exists pos, al, q, ph. split; [left; reflexivity|]. split; assumption.
    + right. exists pos, al, q, ph. split; [right; assumption|]. split; assumption.
Qed.

Lemma acc_group_covers : forall inf pl g ps v, lookup ps (acc_group inf pl g) = Some v -> covers inf g ps.
Proof.
  intros inf pl g ps v Hl. apply lookup_in in Hl. apply (in_map fst) in Hl. cbn [fst] in Hl.
  rewrite acc_group_vars in Hl. apply acc_vars_keys in Hl. destruct Hl as [Hl|(pos & al & q & ph & Hv & Hl & He)]; [cbn in Hl; destruct Hl|].
  apply in_flat_map in Hv. destruct Hv as (r & Hr & Hv).
  exists r, pos, al, q, ph. auto.
Qed.

(* ------------------------------------------------------------------------------------------------ *)
(* maxl / index_of / remove_nth / best_of / first_best *)
Lemma fold_max_ge : forall t x, x <= fold_left Z.max t x.
Proof.
  induction t as [|y t IH]; intros x; cbn [fold_left]; [lia|].
  specialize (IH (Z.max x y)). lia.
Qed.

Lemma fold_max_ge_in : forall t x y, In y t -> y <= fold_left Z.max t x.
Proof.
  induction t as [|z t IH]; intros x y Hin; [destruct Hin|]. cbn [fold_left].
  destruct Hin as [Heq|Hin].
  - subst. pose proof (fold_max_ge t (Z.max x y)). lia.
  - apply IH. assumption.
Qed.

Lemma fold_max_in : forall t x, fold_left Z.max t x = x \/ In (fold_left Z.max t x) t.
Proof.
  induction t as [|y t IH]; intros x; cbn [fold_left]; [left; reflexivity|].
  destruct (IH (Z.max x y)) as [H|H].
  - rewrite H. destruct (Z.max_spec x y) as [[_ E]|[_ E]]; rewrite E; [right; left; reflexivity|left; reflexivity].
  - right. right. assumption.
Qed.

Lemma maxl_ge : forall v x, In x v -> x <= maxl v.
Proof.
  intros [|y t] x Hin; [destruct Hin|]. cbn [maxl]. destruct Hin as [Heq|Hin].
  - subst. apply fold_max_ge.
  - apply fold_max_ge_in. assumption.
Qed.

Lemma maxl_in : forall v, v <> [] -> In (maxl v) v.
Proof.
  intros [|y t] Hne; [congruence|]. cbn [maxl]. destruct (fold_max_in t y) as [H|H].
  - rewrite H. left. reflexivity.
  - right. assumption.
Qed.

Lemma index_of_spec : forall m v, In m v -> (index_of m v < length v)%nat /\ nth (index_of m v) v 0 = m.
Proof.
  intros m v. induction v as [|x t IH]; intros Hin; [destruct Hin|]. cbn [index_of length].
  destruct (x =? m) eqn:E.
  - apply Z.eqb_eq in E. subst. split; [lia|reflexivity].
  - destruct Hin as [Heq|Hin]; [subst; rewrite Z.eqb_refl in E; discriminate|].
    destruct (IH Hin) as [H1 H2]. split; [lia|]. cbn [nth]. assumption.
Qed.

Lemma remove_nth_in : forall v h x, In x (remove_nth h v) ->
  exists k, (k < length v)%nat /\ k <> h /\ nth k v 0 = x.
Proof.
  induction v as [|y t IH]; intros h x Hin.
  - destruct h; cbn [remove_nth] in Hin; destruct Hin.
  - destruct h as [|h]; cbn [remove_nth] in Hin.
    + destruct (In_nth t x 0 Hin) as (k & Hk & Hn). exists (S k). cbn [length nth]. repeat split; [lia|lia|assumption].
    + destruct Hin as [Heq|Hin].
      * subst. exists 0%nat. cbn [length nth]. repeat split; lia.
      * destruct (IH h x Hin) as (k & Hk & Hne & Hn). exists (S k). cbn [length nth]. repeat split; [lia|lia|assumption].
Qed.

Lemma remove_nth_has : forall v h k, (k < length v)%nat -> k <> h -> In (nth k v 0) (remove_nth h v).
Proof.
  induction v as [|y t IH]; intros h k Hk Hne; cbn [length] in Hk; [lia|].
  destruct h as [|h]; cbn [remove_nth].
  - destruct k as [|k]; [congruence|]. cbn [nth]. apply nth_In. lia.
  - destruct k as [|k]; cbn [nth]; [left; reflexivity|]. right. apply IH; [lia|congruence].
Qed.

Lemma remove_nth_length : forall v h, (h < length v)%nat -> length (remove_nth h v) = (length v - 1)%nat.
Proof.
  induction v as [|y t IH]; intros h Hh; cbn [length] in Hh; [lia|].
  destruct h as [|h]; cbn [remove_nth length]; [lia|]. rewrite IH by lia. lia.
Qed.

Lemma best_of_some : forall v h q, (2 <= length v)%nat -> best_of v = Some (h, q) ->
  (h < length v)%nat /\ 0 < q /\
  (forall k, (k < length v)%nat -> k <> h -> nth k v 0 <= nth h v 0 - q) /\
  (exists k, (k < length v)%nat /\ k <> h /\ nth k v 0 = nth h v 0 - q).
Proof.
  intros v h q Hlen Hb. unfold best_of in Hb.
  assert (Hne : v <> []) by (destruct v; cbn [length] in Hlen; [lia|congruence]).
  destruct (index_of_spec (maxl v) v (maxl_in v Hne)) as [Hi Hn].
  set (i := index_of (maxl v) v) in *.
  destruct (maxl v - maxl (remove_nth i v) =? 0) eqn:E; [discriminate|].
  inversion Hb. subst h q. clear Hb. apply Z.eqb_neq in E.
  assert (Hrne : remove_nth i v <> []).
  { intros Hnil. pose proof (remove_nth_length v i Hi) as Hl. rewrite Hnil in Hl. cbn [length] in Hl. lia. }
  pose proof (maxl_in _ Hrne) as Hrin.
  destruct (remove_nth_in _ _ _ Hrin) as (k & Hk & Hki & Hkn).
  assert (Hle : maxl (remove_nth i v) <= maxl v).
  { rewrite <- Hkn. apply maxl_ge. apply nth_In. assumption. }
  split; [assumption|]. split; [lia|]. split.
  - intros k' Hk' Hne'. rewrite Hn.
    pose proof (maxl_ge _ _ (remove_nth_has v i k' Hk' Hne')). lia.
  - exists k. rewrite Hn. repeat split; [assumption|assumption|lia].
Qed.

Lemma best_of_none : forall v, (2 <= length v)%nat -> best_of v = None ->
  exists h k, (h < length v)%nat /\ (k < length v)%nat /\ h <> k /\
              nth h v 0 = maxl v /\ nth k v 0 = maxl v.
Proof.
  intros v Hlen Hb. unfold best_of in Hb.
  assert (Hne : v <> []) by (destruct v; cbn [length] in Hlen; [lia|congruence]).
  destruct (index_of_spec (maxl v) v (maxl_in v Hne)) as [Hi Hn].
  set (i := index_of (maxl v) v) in *.
  destruct (maxl v - maxl (remove_nth i v) =? 0) eqn:E; [|discriminate].
  apply Z.eqb_eq in E.
  assert (Hrne : remove_nth i v <> []).
  { intros Hnil. pose proof (remove_nth_length v i Hi) as Hl. rewrite Hnil in Hl. cbn [length] in Hl. lia. }
  destruct (remove_nth_in _ _ _ (maxl_in _ Hrne)) as (k & Hk & Hki & Hkn).
  exists i, k. repeat split; [assumption|assumption|congruence|assumption|lia].
Qed.

Lemma first_best_some : forall l e, first_best l = Some e ->
  In e l /\ forall e', In e' l -> maxl (snd e') <= maxl (snd e).
Proof.
  induction l as [|x t IH]; intros e H; cbn [first_best] in H; [discriminate|].
  destruct (first_best t) as [b|] eqn:Eb.
  - destruct (IH b eq_refl) as [Hin Hmax].
    destruct (maxl (snd b) >? maxl (snd x)) eqn:E; inversion H; subst e.
    + split; [right; assumption|]. intros e' [Heq|Hin']; [subst; lia|auto].
    + split; [left; reflexivity|]. intros e' [Heq|Hin']; [subst; lia|]. specialize (Hmax e' Hin'). lia.
  - inversion H. subst e. destruct t; [|cbn [first_best] in Eb; destruct (first_best t); [destruct (_ >? _)|]; discriminate].
    split; [left; reflexivity|]. intros e' [Heq|[]]. subst. lia.
Qed.

Lemma first_best_none : forall l, first_best l = None -> l = [].
Proof.
  intros [|x t] H; [reflexivity|]. cbn [first_best] in H.
  destruct (first_best t); [destruct (_ >? _)|]; discriminate.
Qed.

(* ------------------------------------------------------------------------------------------------ *)
(* the decision: strict maximum within the reported phase set; quality = margin to the runner-up *)
Lemma strict_best_intro : forall inf pl g ps h, (h < pl)%nat ->
  (forall h', (h' < pl)%nat -> h' <> h -> score_spec inf g ps h' < score_spec inf g ps h) ->
  strict_best inf pl g ps h = true.
Proof.
  intros inf pl g ps h Hh H. unfold strict_best. apply andb_true_iff. split.
  - apply Nat.ltb_lt. assumption.
  - apply forallb_forall. intros h' Hin. apply in_seq in Hin.
    destruct (Nat.eqb h' h) eqn:E; [reflexivity|]. cbn [orb]. apply Z.ltb_lt.
    apply H; [lia|]. apply Nat.eqb_neq. assumption.
Qed.

Lemma strict_best_elim : forall inf pl g ps h, strict_best inf pl g ps h = true ->
  (h < pl)%nat /\ forall h', (h' < pl)%nat -> h' <> h -> score_spec inf g ps h' < score_spec inf g ps h.
Proof.
  intros inf pl g ps h H. unfold strict_best in H. apply andb_true_iff in H. destruct H as [H1 H2].
  apply Nat.ltb_lt in H1. split; [assumption|]. intros h' Hh' Hne.
  rewrite forallb_forall in H2. specialize (H2 h'). rewrite in_seq in H2.
  assert (Hx : Nat.eqb h' h || (score_spec inf g ps h' <? score_spec inf g ps h) = true) by (apply H2; lia).
  apply orb_true_iff in Hx. destruct Hx as [Hx|Hx]; [apply Nat.eqb_eq in Hx; congruence|].
  apply Z.ltb_lt. assumption.
Qed.

Theorem decide_some : forall inf pl g h q ps, (2 <= pl)%nat ->
  decide inf pl g = Some (h, q, ps) ->
  strict_best inf pl g ps h = true /\ 0 < q /\ covers inf g ps /\
  (forall h', (h' < pl)%nat -> h' <> h -> score_spec inf g ps h' <= score_spec inf g ps h - q) /\
  (exists h', (h' < pl)%nat /\ h' <> h /\ score_spec inf g ps h' = score_spec inf g ps h - q).
Proof.
  intros inf pl g h q ps Hpl Hd. unfold decide in Hd.
  destruct (first_best (acc_group inf pl g)) as [[ps0 sc]|] eqn:Ef; [|discriminate].
  destruct (best_of sc) as [[h0 q0]|] eqn:Eb; [|discriminate].
  inversion Hd. subst h0 q0 ps0. clear Hd.
  destruct (first_best_some _ _ Ef) as [Hin _].
  pose proof (in_lookup_nodup _ _ _ (acc_group_nodup inf pl g) Hin) as Hl.
  pose proof (acc_group_len inf pl g _ _ Hl) as Hlen.
  assert (Hsc : forall k, (k < pl)%nat -> nth k sc 0 = score_spec inf g ps k).
  { intros k Hk. rewrite <- (scores_are_agreement_sums inf pl g ps k Hk). unfold entry. rewrite Hl. reflexivity. }
  destruct (best_of_some sc h q ltac:(lia) Eb) as (Hh & Hq & Hle & (k & Hk & Hkh & Hkn)).
  rewrite Hlen in *.
  split.
  - apply strict_best_intro; [assumption|]. intros h' Hh' Hne.
    rewrite <- !Hsc by assumption. specialize (Hle h' Hh' Hne). lia.
  - split; [assumption|]. split; [eapply acc_group_covers; eassumption|]. split.
    + intros h' Hh' Hne. rewrite <- !Hsc by assumption. auto.
    + exists k. rewrite <- !Hsc by assumption. auto.
Qed.

(* no tag: either no phased variant of the group matches any haplotype, or the best score of the chosen
   phase set (the one with the largest maximum) is attained by two haplotypes *)
Theorem decide_none : forall inf pl g, (2 <= pl)%nat ->
  decide inf pl g = None ->
  (forall ps, ~ covers inf g ps) /\ acc_group inf pl g = [] \/
  exists ps h1 h2, covers inf g ps /\ (h1 < pl)%nat /\ (h2 < pl)%nat /\ h1 <> h2 /\
    score_spec inf g ps h1 = score_spec inf g ps h2 /\
    forall h, (h < pl)%nat -> score_spec inf g ps h <= score_spec inf g ps h1.
Proof.
  intros inf pl g Hpl Hd. unfold decide in Hd.
  destruct (first_best (acc_group inf pl g)) as [[ps sc]|] eqn:Ef.
  - right. destruct (best_of sc) as [[h0 q0]|] eqn:Eb; [discriminate|].
    destruct (first_best_some _ _ Ef) as [Hin _].
    pose proof (in_lookup_nodup _ _ _ (acc_group_nodup inf pl g) Hin) as Hl.
    pose proof (acc_group_len inf pl g _ _ Hl) as Hlen.
    assert (Hsc : forall k, (k < pl)%nat -> nth k sc 0 = score_spec inf g ps k).
    { intros k Hk. rewrite <- (scores_are_agreement_sums inf pl g ps k Hk). unfold entry. rewrite Hl. reflexivity. }
    destruct (best_of_none sc ltac:(lia) Eb) as (h & k & Hh & Hk & Hne & Hhm & Hkm).
    rewrite Hlen in *. exists ps, h, k. split; [eapply acc_group_covers; eassumption|].
    repeat split; try assumption.
    + rewrite <- !Hsc by assumption. lia.
    + intros h' Hh'. rewrite <- !Hsc by assumption. rewrite Hhm. apply maxl_ge. apply nth_In. lia.
  - left. apply first_best_none in Ef. split; [|assumption].
    intros ps (r & pos & al & q & ph & Hr & Hv & Hl & He).
    (* a covered phase set has an entry: contradiction with the empty table *)
    assert (Hk : In ps (map fst (acc_group inf pl g))).
    { rewrite acc_group_vars.
      assert (Hgen : forall vars costs, In (pos, al, q) vars \/ In ps (map fst costs) ->
                                        In ps (map fst (fold_left (acc_var inf pl) vars costs))).
      { induction vars as [|v vars IH]; intros costs [Hin|Hin]; cbn [fold_left].
        - destruct Hin.
        - assumption.
        - destruct Hin as [Heq|Hin].
          + subst v. apply IH. right. unfold acc_var. rewrite Hl, He. apply in_keys_upd. left. reflexivity.
          + apply IH. left. assumption.
        - apply IH. right. destruct v as [[pos' al'] q']. unfold acc_var.
          destruct (lookup pos' inf) as [[ps' ph']|]; [|assumption].
          destruct (existsb (Z.eqb al') ph'); [|assumption]. apply in_keys_upd. right. assumption. }
      apply Hgen. left. apply in_flat_map. exists r. split; assumption. }
    rewrite Ef in Hk. destruct Hk.
Qed.
