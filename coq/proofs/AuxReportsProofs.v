(* C20 — proofs about the run-level model of the auxiliary report writers (model/AuxReports.v). *)
From Coq Require Import ZArith List Bool Arith Lia Permutation Sorted.
From WH.Model Require Import AuxReports.
Import ListNotations.
Open Scope Z_scope.

(* ------------------------------------------------------------------ generic helpers *)
Lemma lookup_In : forall (V : Type) (k : Z) (d : list (Z * V)) (v : V),
  lookup k d = Some v -> In (k, v) d.
Proof.
  intros V k d; induction d as [|[k' v'] t IH]; intros v H; cbn [lookup] in H.
  - discriminate.
  - destruct (k =? k') eqn:E.
    + apply Z.eqb_eq in E; subst; injection H as ->; left; reflexivity.
    + right; apply IH; exact H.
Qed.

Lemma lookup_In_NoDup : forall (V : Type) (d : list (Z * V)) (k : Z) (v : V),
  NoDup (map fst d) -> In (k, v) d -> lookup k d = Some v.
Proof.
  intros V d; induction d as [|[k' v'] t IH]; intros k v ND HI; cbn [lookup].
  - destruct HI.
  - cbn [map fst] in ND; inversion ND as [|x l Hnot ND']; subst.
    destruct HI as [HE|HI].
    + injection HE as -> ->; rewrite Z.eqb_refl; reflexivity.
    + destruct (k =? k') eqn:E.
      * apply Z.eqb_eq in E; subst; exfalso; apply Hnot.
        change k' with (fst (k', v)); apply in_map; exact HI.
      * apply IH; assumption.
Qed.

Lemma lookup_app_l : forall (V : Type) (k : Z) (a b : list (Z * V)) (v : V),
  lookup k a = Some v -> lookup k (a ++ b) = Some v.
Proof.
  intros V k a; induction a as [|[k' v'] t IH]; intros b v H; cbn [lookup app] in *.
  - discriminate.
  - destruct (k =? k'); [exact H | apply IH; exact H].
Qed.

Lemma lookup_const_map : forall (A V : Type) (f : A -> Z) (c : V) (l : list A) (k : Z),
  In k (map f l) -> lookup k (map (fun m => (f m, c)) l) = Some c.
Proof.
  intros A V f c l; induction l as [|a t IH]; intros k HI; cbn [map lookup] in *.
  - destruct HI.
  - destruct (k =? f a) eqn:E; [reflexivity|].
    destruct HI as [HE|HI]; [subst; rewrite Z.eqb_refl in E; discriminate | apply IH; exact HI].
Qed.

Lemma map_opt_Forall2 : forall (A B : Type) (f : A -> option B) (l : list A) (r : list B),
  map_opt f l = Some r -> Forall2 (fun a b => f a = Some b) l r.
Proof.
  intros A B f l; induction l as [|a t IH]; intros r H; cbn [map_opt] in H.
  - injection H as <-; constructor.
  - destruct (f a) eqn:Ea; [|discriminate].
    destruct (map_opt f t) eqn:Et; [|discriminate].
    injection H as <-; constructor; [exact Ea | apply IH; reflexivity].
Qed.

Lemma Forall2_map_opt : forall (A B : Type) (f : A -> option B) (l : list A) (r : list B),
  Forall2 (fun a b => f a = Some b) l r -> map_opt f l = Some r.
Proof.
  intros A B f l r H; induction H as [|a b t r' Hab _ IH]; cbn [map_opt].
  - reflexivity.
  - rewrite Hab, IH; reflexivity.
Qed.

Lemma map_opt_In : forall (A B : Type) (f : A -> option B) (l : list A) (r : list B) (b : B),
  map_opt f l = Some r -> In b r -> exists a, In a l /\ f a = Some b.
Proof.
  intros A B f l r b H; apply map_opt_Forall2 in H.
  induction H as [|a b' t r' Hab _ IH]; intros HI.
  - destruct HI.
  - destruct HI as [->|HI].
    + exists a; split; [left; reflexivity | exact Hab].
    + destruct (IH HI) as [a' [Ha' Hf]]; exists a'; split; [right; exact Ha' | exact Hf].
Qed.

Lemma map_opt_In_l : forall (A B : Type) (f : A -> option B) (l : list A) (r : list B) (a : A),
  map_opt f l = Some r -> In a l -> exists b, In b r /\ f a = Some b.
Proof.
  intros A B f l r a H; apply map_opt_Forall2 in H.
  induction H as [|a' b t r' Hab _ IH]; intros HI.
  - destruct HI.
  - destruct HI as [->|HI].
    + exists b; split; [left; reflexivity | exact Hab].
    + destruct (IH HI) as [b' [Hb' Hf]]; exists b'; split; [right; exact Hb' | exact Hf].
Qed.

Lemma map_opt_app : forall (A B : Type) (f : A -> option B) (l1 l2 : list A) (r : list B),
  map_opt f (l1 ++ l2) = Some r ->
  exists r1 r2, map_opt f l1 = Some r1 /\ map_opt f l2 = Some r2 /\ r = r1 ++ r2.
Proof.
  intros A B f l1; induction l1 as [|a t IH]; intros l2 r H; cbn [app map_opt] in *.
  - exists [], r; auto.
  - destruct (f a) eqn:Ea; [|discriminate].
    destruct (map_opt f (t ++ l2)) eqn:Et; [|discriminate].
    injection H as <-.
    destruct (IH l2 l Et) as [r1 [r2 [H1 [H2 ->]]]].
    exists (b :: r1), r2; rewrite H1; auto.
Qed.

Lemma in_concat_iff : forall (A : Type) (ll : list (list A)) (x : A),
  In x (concat ll) <-> exists l, In l ll /\ In x l.
Proof. intros; apply in_concat. Qed.

(* insertion sort *)
Lemma insert_perm : forall (A : Type) (leb : A -> A -> bool) (x : A) (l : list A),
  Permutation (insert leb x l) (x :: l).
Proof.
  intros A leb x l; induction l as [|y t IH]; cbn [insert].
  - apply Permutation_refl.
  - destruct (leb x y).
    + apply Permutation_refl.
    + eapply perm_trans; [apply perm_skip; exact IH | apply perm_swap].
Qed.

Lemma isort_perm : forall (A : Type) (leb : A -> A -> bool) (l : list A), Permutation (isort leb l) l.
Proof.
  intros A leb l; induction l as [|x t IH]; cbn [isort fold_right].
  - apply Permutation_refl.
  - eapply perm_trans; [apply insert_perm | apply perm_skip; exact IH].
Qed.

Lemma isort_In : forall (A : Type) (leb : A -> A -> bool) (l : list A) (x : A),
  In x (isort leb l) <-> In x l.
Proof.
  intros; split; apply Permutation_in; [apply isort_perm | apply Permutation_sym, isort_perm].
Qed.

Lemma insert_sorted : forall (x : Z) (l : list Z),
  StronglySorted Z.le l -> StronglySorted Z.le (insert Z.leb x l).
Proof.
  intros x l H; induction H as [|y t Hs IH Hall]; cbn [insert].
  - constructor; constructor.
  - destruct (x <=? y) eqn:E.
    + apply Z.leb_le in E; constructor; [constructor; assumption|].
      constructor; [exact E|].
      rewrite Forall_forall in *; intros z Hz; specialize (Hall z Hz); lia.
    + apply Z.leb_gt in E; constructor; [exact IH|].
      rewrite Forall_forall in *; intros z Hz.
      apply (Permutation_in _ (insert_perm Z Z.leb x t)) in Hz.
      destruct Hz as [<-|Hz]; [lia | apply Hall; exact Hz].
Qed.

Lemma isort_sorted : forall l : list Z, StronglySorted Z.le (isort Z.leb l).
Proof.
  induction l as [|x t IH]; cbn [isort fold_right].
  - constructor.
  - apply insert_sorted; exact IH.
Qed.

Lemma dedup_In : forall (l : list Z) (x : Z), In x (dedup l) <-> In x l.
Proof.
  induction l as [|y t IH]; intros x; cbn [dedup].
  - tauto.
  - split.
    + intros [->|H]; [left; reflexivity|].
      apply filter_In in H; right; apply IH; tauto.
    + intros [->|H]; [left; reflexivity|].
      destruct (Z.eq_dec x y) as [->|Hne]; [left; reflexivity|].
      right; apply filter_In; split; [apply IH; exact H|].
      apply negb_true_iff, Z.eqb_neq; exact Hne.
Qed.

Lemma list_eqb_Z_eq : forall a b : list Z, list_eqb Z.eqb a b = true <-> a = b.
Proof.
  induction a as [|x s IH]; intros [|y t]; cbn [list_eqb]; split; intros H; try reflexivity; try discriminate.
  - apply andb_true_iff in H; destruct H as [H1 H2]; apply Z.eqb_eq in H1; apply IH in H2; subst; reflexivity.
  - injection H as -> ->; rewrite Z.eqb_refl; apply IH; reflexivity.
Qed.

(* sorted duplicate-free lists: neighbours are strictly ordered with nothing in between *)
Lemma sorted_neighbours : forall (l1 l2 : list Z) (a b : Z),
  StronglySorted Z.le (l1 ++ a :: b :: l2) -> NoDup (l1 ++ a :: b :: l2) ->
  a < b /\ forall q, In q (l1 ++ a :: b :: l2) -> ~ (a < q < b).
Proof.
  induction l1 as [|x t IH]; intros l2 a b HS ND; cbn [app] in *.
  - inversion HS as [|? ? HS' Hall]; subst.
    inversion ND as [|? ? Hnot ND']; subst.
    assert (Hab : a <= b) by (rewrite Forall_forall in Hall; apply Hall; left; reflexivity).
    assert (a <> b) by (intros ->; apply Hnot; left; reflexivity).
    split; [lia|].
    intros q [<-|[<-|Hq]]; [lia | lia |].
    inversion HS' as [|? ? _ Hall2]; subst.
    rewrite Forall_forall in Hall2; specialize (Hall2 q Hq); lia.
  - inversion HS as [|? ? HS' Hall]; subst.
    inversion ND as [|? ? Hnot ND']; subst.
    destruct (IH l2 a b HS' ND') as [Hlt Hbetween].
    split; [exact Hlt|].
    intros q [<-|Hq]; [|apply Hbetween; exact Hq].
    rewrite Forall_forall in Hall.
    assert (x <= a) by (apply Hall; apply in_or_app; right; left; reflexivity).
    lia.
Qed.

(* ------------------------------------------------------------------ the two writer rules *)
Section Writers.
  Variable E : Type.

  Lemma fold_write_PerRun : forall (calls : list (list E)) (l : list (line E)),
    fold_left (write_call PerRun) calls (Some l) = Some (l ++ map Entry (concat calls)).
  Proof.
    induction calls as [|es t IH]; intros l; cbn [fold_left concat map write_call].
    - rewrite app_nil_r; reflexivity.
    - rewrite IH, map_app, app_assoc; reflexivity.
  Qed.

  (* opened once per run: header, then everything that any call wrote *)
  Lemma write_calls_PerRun : forall calls : list (list E),
    write_calls PerRun calls = Some (Header :: map Entry (concat calls)).
  Proof. intros; unfold write_calls, open_run; rewrite fold_write_PerRun; reflexivity. Qed.

  Lemma fold_write_PerCall_last : forall (calls : list (list E)) (es : list E) (f : file E),
    fold_left (write_call PerCall) (calls ++ [es]) f = Some (Header :: map Entry es).
  Proof. intros; rewrite fold_left_app; reflexivity. Qed.

  (* opened with mode "w" by every call: only the last call survives *)
  Lemma write_calls_PerCall : forall calls : list (list E),
    write_calls PerCall calls =
    match rev calls with
    | [] => None
    | es :: _ => Some (Header :: map Entry es)
    end.
  Proof.
    intros calls; destruct (rev calls) as [|es t] eqn:Er.
    - assert (calls = []) as -> by (rewrite <- (rev_involutive calls), Er; reflexivity). reflexivity.
    - assert (calls = rev t ++ [es]) as -> by (rewrite <- (rev_involutive calls), Er; reflexivity).
      unfold write_calls; apply fold_write_PerCall_last.
  Qed.

  (* under either rule every entry of the file was written by some call *)
  Lemma write_calls_In : forall (r : wrule) (calls : list (list E)) (l : list (line E)) (e : E),
    write_calls r calls = Some l -> In (Entry e) l -> exists es, In es calls /\ In e es.
  Proof.
    intros r calls l e H HI; destruct r.
    - rewrite write_calls_PerCall in H.
      destruct (rev calls) as [|es t] eqn:Er; [discriminate|].
      injection H as <-.
      destruct HI as [HI|HI]; [discriminate|].
      apply in_map_iff in HI; destruct HI as [x [Hx HI]]; injection Hx as ->.
      exists es; split; [|exact HI].
      apply in_rev; rewrite Er; left; reflexivity.
    - rewrite write_calls_PerRun in H; injection H as <-.
      destruct HI as [HI|HI]; [discriminate|].
      apply in_map_iff in HI; destruct HI as [x [Hx HI]]; injection Hx as ->.
      apply in_concat in HI; destruct HI as [es [H1 H2]]; exists es; auto.
  Qed.
End Writers.

(* ------------------------------------------------------------------ structure of a run *)
Lemma run_inv : forall gr rr pr er o ids vs cs out,
  run gr rr pr er o ids vs cs = Some out ->
  exists rs, map_opt (chrom_step pr er o ids vs) cs = Some rs /\
    out_reads out = requested (o_reads o) (write_calls PerRun (flat_map cr_reads rs)) /\
    out_gts out = requested (o_gts o) (write_calls gr (flat_map cr_gts rs)) /\
    out_recs out = requested (o_recs o) (write_calls rr (flat_map cr_recs rs)) /\
    out_vcf out = map cr_vcf rs.
Proof.
  intros gr rr pr er o ids vs cs out H; unfold run in H.
  destruct (map_opt (chrom_step pr er o ids vs) cs) as [rs|] eqn:Ers; [|discriminate].
  injection H as <-; exists rs; cbn; auto.
Qed.

Lemma Forall2_flat_map : forall (A B C D : Type) (P : A -> B -> Prop) (Q : C -> D -> Prop)
    (f : A -> list C) (g : B -> list D) (l : list A) (r : list B),
  Forall2 P l r -> (forall a b, In a l -> P a b -> Forall2 Q (f a) (g b)) ->
  Forall2 Q (flat_map f l) (flat_map g r).
Proof.
  intros A B C D P Q f g l r H; induction H as [|a b t r' Hab _ IH]; intros HPQ; cbn [flat_map].
  - constructor.
  - apply Forall2_app.
    + apply HPQ; [left; reflexivity | exact Hab].
    + apply IH; intros a' b' Ha'; apply HPQ; right; exact Ha'.
Qed.

Lemma Forall2_map_l : forall (A A' B : Type) (P : A' -> B -> Prop) (f : A -> A') (l : list A) (r : list B),
  Forall2 (fun a b => P (f a) b) l r -> Forall2 P (map f l) r.
Proof. intros A A' B P f l r H; induction H; cbn [map]; constructor; assumption. Qed.

(* the calls of write_recombination_list: one per processed (chromosome, family), in processing order *)
Lemma rec_calls_instances : forall pr er o ids vs cs rs,
  o_recs o = true -> map_opt (chrom_step pr er o ids vs) cs = Some rs ->
  Forall2 (fun ci es => inst_rec_entries er (c_name (fst ci)) (snd ci) = Some es)
          (instances cs) (flat_map cr_recs rs).
Proof.
  intros pr er o ids vs cs rs Ho H; apply map_opt_Forall2 in H; unfold instances.
  eapply Forall2_flat_map; [exact H|].
  intros c r _ Hc; cbn beta in Hc; unfold chrom_step in Hc; rewrite Ho in Hc.
  destruct (c_selected c).
  - destruct (if o_reads o then _ else _) as [rd|]; [|discriminate].
    destruct (map_opt (inst_rec_entries er (c_name c)) (c_insts c)) as [rc|] eqn:Erc; [|discriminate].
    destruct (write_records _ _ _ _ _ _) as [wr|]; [|discriminate].
    injection Hc as <-; cbn [cr_recs].
    apply Forall2_map_l; cbn [fst snd]; apply map_opt_Forall2; exact Erc.
  - destruct (write_records _ _ _ _ _ _) as [wr|]; [|discriminate].
    injection Hc as <-; cbn [cr_recs]; constructor.
Qed.

(* the calls of write_changed_genotypes: one per processed chromosome *)
Lemma gt_calls_chromosomes : forall pr er o ids vs cs rs,
  o_gts o = true -> map_opt (chrom_step pr er o ids vs) cs = Some rs ->
  Forall2 (fun c es => exists wr,
             write_records pr (c_name c) vs (targets_of (c_insts c)) None (c_records c) = Some wr /\
             es = concat (map fst wr))
          (filter c_selected cs) (flat_map cr_gts rs).
Proof.
  intros pr er o ids vs cs rs Ho H; apply map_opt_Forall2 in H.
  induction H as [|c r t rs' Hc _ IH]; cbn [filter flat_map].
  - constructor.
  - unfold chrom_step in Hc; rewrite Ho in Hc.
    destruct (c_selected c).
    + destruct (if o_reads o then _ else _) as [rd|]; [|discriminate].
      destruct (if o_recs o then _ else _) as [rc|]; [|discriminate].
      destruct (write_records _ _ _ _ _ _) as [wr|] eqn:Ew; [|discriminate].
      injection Hc as <-; cbn [cr_gts app].
      constructor; [exists wr; auto | exact IH].
    + destruct (write_records _ _ _ _ _ _) as [wr|]; [|discriminate].
      injection Hc as <-; cbn [cr_gts app]; exact IH.
Qed.

(* the calls of ReadList.write: one per processed (chromosome, family); the components dict passed to a
   call maps every member of the family being processed to that family's components *)
Lemma chrom_read_calls_spec : forall ids insts scomps calls,
  chrom_read_calls ids scomps insts = Some calls ->
  Forall2 (fun i es => exists sc, read_entries ids sc i = Some es /\
             forall s, In s (map fst (inst_members i)) -> lookup s sc = Some (i_comps i))
          insts calls.
Proof.
  intros ids insts; induction insts as [|i t IH]; intros scomps calls H; cbn [chrom_read_calls] in H.
  - injection H as <-; constructor.
  - destruct (read_entries ids (bind_comps i scomps) i) as [es|] eqn:Ee; [|discriminate].
    destruct (chrom_read_calls ids (bind_comps i scomps) t) as [r|] eqn:Er; [|discriminate].
    injection H as <-; constructor; [|eapply IH; exact Er].
    exists (bind_comps i scomps); split; [exact Ee|].
    intros s Hs; unfold bind_comps; apply lookup_app_l.
    apply (lookup_const_map _ _ (fun m : Z * (superread * superread) => fst m)); exact Hs.
Qed.

Lemma read_calls_instances : forall pr er o ids vs cs rs,
  o_reads o = true -> map_opt (chrom_step pr er o ids vs) cs = Some rs ->
  Forall2 (fun ci es => exists sc, read_entries ids sc (snd ci) = Some es /\
             forall s, In s (map fst (inst_members (snd ci))) -> lookup s sc = Some (i_comps (snd ci)))
          (instances cs) (flat_map cr_reads rs).
Proof.
  intros pr er o ids vs cs rs Ho H; apply map_opt_Forall2 in H; unfold instances.
  eapply Forall2_flat_map; [exact H|].
  intros c r _ Hc; cbn beta in Hc; unfold chrom_step in Hc; rewrite Ho in Hc.
  destruct (c_selected c).
  - destruct (chrom_read_calls ids [] (c_insts c)) as [rd|] eqn:Erd; [|discriminate].
    destruct (if o_recs o then _ else _) as [rc|]; [|discriminate].
    destruct (write_records _ _ _ _ _ _) as [wr|]; [|discriminate].
    injection Hc as <-; cbn [cr_reads].
    apply Forall2_map_l; cbn [fst snd]; eapply chrom_read_calls_spec; exact Erd.
  - destruct (write_records _ _ _ _ _ _) as [wr|]; [|discriminate].
    injection Hc as <-; cbn [cr_reads]; constructor.
Qed.

(* ------------------------------------------------------------------ lists_cover_run *)
Theorem read_list_covers_run : forall gr rr pr er o ids vs cs out,
  o_reads o = true -> run gr rr pr er o ids vs cs = Some out ->
  exists calls,
    Forall2 (fun ci es => exists sc, read_entries ids sc (snd ci) = Some es /\
               forall s, In s (map fst (inst_members (snd ci))) -> lookup s sc = Some (i_comps (snd ci)))
            (instances cs) calls /\
    out_reads out = Some (Header :: map Entry (concat calls)).
Proof.
  intros gr rr pr er o ids vs cs out Ho H.
  destruct (run_inv _ _ _ _ _ _ _ _ _ H) as [rs [Hrs [Hr _]]].
  exists (flat_map cr_reads rs); split.
  - eapply read_calls_instances; eassumption.
  - rewrite Hr, Ho; cbn [requested]; apply write_calls_PerRun.
Qed.

Theorem recombination_list_covers_run_repaired : forall gr pr er o ids vs cs out,
  o_recs o = true -> run gr PerRun pr er o ids vs cs = Some out ->
  exists calls,
    Forall2 (fun ci es => inst_rec_entries er (c_name (fst ci)) (snd ci) = Some es) (instances cs) calls /\
    out_recs out = Some (Header :: map Entry (concat calls)).
Proof.
  intros gr pr er o ids vs cs out Ho H.
  destruct (run_inv _ _ _ _ _ _ _ _ _ H) as [rs [Hrs [_ [_ [Hr _]]]]].
  exists (flat_map cr_recs rs); split.
  - eapply rec_calls_instances; eassumption.
  - rewrite Hr, Ho; cbn [requested]; apply write_calls_PerRun.
Qed.

Theorem changed_genotype_list_covers_run_repaired : forall rr pr er o ids vs cs out,
  o_gts o = true -> run PerRun rr pr er o ids vs cs = Some out ->
  exists calls,
    Forall2 (fun c es => exists wr,
               write_records pr (c_name c) vs (targets_of (c_insts c)) None (c_records c) = Some wr /\
               es = concat (map fst wr))
            (filter c_selected cs) calls /\
    out_gts out = Some (Header :: map Entry (concat calls)).
Proof.
  intros rr pr er o ids vs cs out Ho H.
  destruct (run_inv _ _ _ _ _ _ _ _ _ H) as [rs [Hrs [_ [Hg _]]]].
  exists (flat_map cr_gts rs); split.
  - eapply gt_calls_chromosomes; eassumption.
  - rewrite Hg, Ho; cbn [requested]; apply write_calls_PerRun.
Qed.

(* what the current code leaves behind instead: the entries of the last call only *)
Theorem recombination_list_current_last_only : forall gr pr er o ids vs cs out,
  o_recs o = true -> run gr PerCall pr er o ids vs cs = Some out ->
  exists calls,
    Forall2 (fun ci es => inst_rec_entries er (c_name (fst ci)) (snd ci) = Some es) (instances cs) calls /\
    out_recs out = match rev calls with [] => None | es :: _ => Some (Header :: map Entry es) end.
Proof.
  intros gr pr er o ids vs cs out Ho H.
  destruct (run_inv _ _ _ _ _ _ _ _ _ H) as [rs [Hrs [_ [_ [Hr _]]]]].
  exists (flat_map cr_recs rs); split.
  - eapply rec_calls_instances; eassumption.
  - rewrite Hr, Ho; cbn [requested]; apply write_calls_PerCall.
Qed.

Theorem changed_genotype_list_current_last_only : forall rr pr er o ids vs cs out,
  o_gts o = true -> run PerCall rr pr er o ids vs cs = Some out ->
  exists calls,
    Forall2 (fun c es => exists wr,
               write_records pr (c_name c) vs (targets_of (c_insts c)) None (c_records c) = Some wr /\
               es = concat (map fst wr))
            (filter c_selected cs) calls /\
    out_gts out = match rev calls with [] => None | es :: _ => Some (Header :: map Entry es) end.
Proof.
  intros rr pr er o ids vs cs out Ho H.
  destruct (run_inv _ _ _ _ _ _ _ _ _ H) as [rs [Hrs [_ [Hg _]]]].
  exists (flat_map cr_gts rs); split.
  - eapply gt_calls_chromosomes; eassumption.
  - rewrite Hg, Ho; cbn [requested]; apply write_calls_PerCall.
Qed.

(* ------------------------------------------------------------------ read_list_entries *)
Lemma Forall2_In_r : forall (A B : Type) (P : A -> B -> Prop) (l : list A) (r : list B) (b : B),
  Forall2 P l r -> In b r -> exists a, In a l /\ P a b.
Proof.
  intros A B P l r b H; induction H as [|a b' t r' Hab _ IH]; intros HI.
  - destruct HI.
  - destruct HI as [->|HI].
    + exists a; split; [left; reflexivity | exact Hab].
    + destruct (IH HI) as [a' [Ha' HP]]; exists a'; split; [right; exact Ha' | exact HP].
Qed.

Lemma instances_In : forall cs c i,
  In (c, i) (instances cs) -> In c cs /\ c_selected c = true /\ In i (c_insts c).
Proof.
  intros cs c i H; unfold instances in H; apply in_flat_map in H; destruct H as [c' [Hc' H]].
  destruct (c_selected c') eqn:Es; [|destruct H].
  apply in_map_iff in H; destruct H as [i' [Hp Hi']]; injection Hp as -> ->; auto.
Qed.

Lemma read_entry_of_spec : forall ids sc r h e,
  read_entry_of ids sc (r, h) = Some e ->
  exists sample comps v0 rest b,
    lookup (r_sample r) ids = Some sample /\ lookup sample sc = Some comps /\ r_vars r = v0 :: rest /\
    lookup (fst v0) comps = Some b /\
    e = mkRE (r_name r) (r_source r) sample (b + 1) h (Z.of_nat (length (r_vars r)))
             (fst v0 + 1) (fst (last (r_vars r) v0) + 1).
Proof.
  intros ids sc r h e H; unfold read_entry_of in H; cbn [fst snd] in H.
  destruct (lookup (r_sample r) ids) as [sample|] eqn:E1; [|discriminate].
  destruct (lookup sample sc) as [comps|] eqn:E2; [|discriminate].
  destruct (r_vars r) as [|v0 rest] eqn:E3; [discriminate|].
  destruct (lookup (fst v0) comps) as [b|] eqn:E4; [|discriminate].
  injection H as <-; exists sample, comps, v0, rest, b; auto.
Qed.

Lemma run_wf_inst : forall ids cs c i,
  run_wf ids cs = true -> In c cs -> In i (c_insts c) -> inst_wf ids i = true.
Proof.
  intros ids cs c i H Hc Hi; unfold run_wf in H; rewrite forallb_forall in H.
  specialize (H c Hc); apply andb_true_iff in H; destruct H as [H _].
  rewrite forallb_forall in H; apply H; exact Hi.
Qed.

Lemma existsb_Zeqb_In : forall (x : Z) (l : list Z), existsb (Z.eqb x) l = true -> In x l.
Proof.
  intros x l H; apply existsb_exists in H; destruct H as [y [Hy E]]; apply Z.eqb_eq in E; subst; exact Hy.
Qed.

Theorem read_list_entries : forall gr rr pr er o ids vs cs out lines e,
  run gr rr pr er o ids vs cs = Some out -> run_wf ids cs = true ->
  out_reads out = Some lines -> In (Entry e) lines ->
  exists c i r h v0 rest b,
    In c cs /\ c_selected c = true /\ In i (c_insts c) /\
    In (r, h) (combine (i_reads i) (i_part i)) /\ length (i_reads i) = length (i_part i) /\
    r_vars r = v0 :: rest /\
    re_name e = r_name r /\ re_source e = r_source r /\
    lookup (r_sample r) ids = Some (re_sample e) /\ In (re_sample e) (map fst (inst_members i)) /\
    re_hap e = h /\ re_n e = Z.of_nat (length (r_vars r)) /\
    re_first e = fst v0 + 1 /\ re_last e = fst (last (r_vars r) v0) + 1 /\
    lookup (fst v0) (i_comps i) = Some b /\ re_ps e = b + 1.
Proof.
  intros gr rr pr er o ids vs cs out lines e Hrun Hwf Hlines HI.
  assert (Ho : o_reads o = true).
  { destruct (run_inv _ _ _ _ _ _ _ _ _ Hrun) as [rs [_ [Hr _]]].
    destruct (o_reads o); [reflexivity|]. rewrite Hr in Hlines; discriminate. }
  destruct (read_list_covers_run _ _ _ _ _ _ _ _ _ Ho Hrun) as [calls [HF Hfile]].
  rewrite Hfile in Hlines; injection Hlines as <-.
  destruct HI as [HI|HI]; [discriminate|].
  apply in_map_iff in HI; destruct HI as [x [Hx HI]]; injection Hx as ->.
  apply in_concat in HI; destruct HI as [es [Hes He]].
  destruct (Forall2_In_r _ _ _ _ _ _ HF Hes) as [[c i] [Hci [sc [Hre Hsc]]]]; cbn [fst snd] in *.
  destruct (instances_In _ _ _ Hci) as [Hc [Hsel Hi]].
  unfold read_entries in Hre.
  destruct (length (i_reads i) =? length (i_part i))%nat eqn:El; [|discriminate]; cbn [negb] in Hre.
  apply Nat.eqb_eq in El.
  destruct (map_opt_In _ _ _ _ _ _ Hre He) as [[r h] [Hrh Hof]].
  destruct (read_entry_of_spec _ _ _ _ _ Hof) as [sample [comps [v0 [rest [b [E1 [E2 [E3 [E4 ->]]]]]]]]].
  assert (Hfam : In sample (map fst (inst_members i))).
  { pose proof (run_wf_inst _ _ _ _ Hwf Hc Hi) as Hiw; unfold inst_wf in Hiw.
    repeat (apply andb_true_iff in Hiw; destruct Hiw as [Hiw ?]).
    match goal with H : forallb (read_in_family ids i) _ = true |- _ => rewrite forallb_forall in H;
      specialize (H r (in_combine_l _ _ _ _ Hrh)); unfold read_in_family in H; rewrite E1 in H;
      apply existsb_Zeqb_In in H; exact H end. }
  rewrite (Hsc sample Hfam) in E2; injection E2 as <-.
  exists c, i, r, h, v0, rest, b; cbn; repeat split; auto.
Qed.

(* ------------------------------------------------------------------ find_recombination *)
Lemma pair_events_spec : forall (l : list col) (ev : event),
  In ev (pair_events l) ->
  exists l1 a b l2, l = l1 ++ a :: b :: l2 /\ ev = mk_event a b /\ col_tv a <> col_tv b.
Proof.
  induction l as [|a tl IH]; intros ev H.
  - destruct H.
  - destruct tl as [|b t'].
    + destruct H.
    + change (pair_events (a :: b :: t'))
        with ((if col_tv a =? col_tv b then [] else [mk_event a b]) ++ pair_events (b :: t')) in H.
      apply in_app_or in H; destruct H as [H|H].
      * destruct (col_tv a =? col_tv b) eqn:E; [destruct H|].
        destruct H as [<-|[]]; apply Z.eqb_neq in E.
        exists [], a, b, t'; auto.
      * destruct (IH ev H) as [l1 [a' [b' [l2 [Hl [He Hne]]]]]].
        exists (a :: l1), a', b', l2; rewrite Hl; auto.
Qed.

Lemma block_cols_spec : forall (cols : list col) (ps : list Z) (blk : list col),
  map_opt (fun p => option_map (pair p) (lookup p cols)) ps = Some blk ->
  map fst blk = ps /\ forall c, In c blk -> lookup (fst c) cols = Some (snd c).
Proof.
  intros cols ps; induction ps as [|p t IH]; intros blk H; cbn [map_opt] in H.
  - injection H as <-; split; [reflexivity | intros c []].
  - destruct (lookup p cols) as [x|] eqn:El; cbn [option_map] in H; [|discriminate].
    destruct (map_opt _ t) as [r|] eqn:Er; [|discriminate].
    injection H as <-; destruct (IH r eq_refl) as [Hm Hl]; split.
    + cbn [map fst]; rewrite Hm; reflexivity.
    + intros c [<-|Hc]; [exact El | apply Hl; exact Hc].
Qed.

Lemma NoDup_map_filter : forall (A B : Type) (f : A -> B) (g : A -> bool) (l : list A),
  NoDup (map f l) -> NoDup (map f (filter g l)).
Proof.
  intros A B f g l; induction l as [|a t IH]; intros H; cbn [filter map] in *.
  - constructor.
  - inversion H as [|x l' Hnot ND]; subst.
    destruct (g a); [|apply IH; exact ND].
    cbn [map]; constructor; [|apply IH; exact ND].
    intros Hin; apply Hnot; apply in_map_iff in Hin; destruct Hin as [y [Hy Hf]].
    apply filter_In in Hf; rewrite <- Hy; apply in_map; tauto.
Qed.

Lemma block_of_In : forall comps b p, In p (block_of comps b) <-> In (p, b) comps.
Proof.
  intros comps b p; unfold block_of; rewrite isort_In, in_map_iff; split.
  - intros [[p' b'] [Hp Hf]]; cbn [fst] in Hp; subst p'.
    apply filter_In in Hf; destruct Hf as [Hin E]; cbn [snd] in E; apply Z.eqb_eq in E; subst; exact Hin.
  - intros H; exists (p, b); split; [reflexivity|].
    apply filter_In; split; [exact H | cbn [snd]; apply Z.eqb_refl].
Qed.

Lemma block_of_NoDup : forall comps b, NoDup (map fst comps) -> NoDup (block_of comps b).
Proof.
  intros comps b H; unfold block_of.
  eapply Permutation_NoDup; [apply Permutation_sym, isort_perm|].
  apply NoDup_map_filter; exact H.
Qed.

Lemma find_recombination_spec : forall er tv comps positions costs evs ev,
  NoDup (map fst comps) ->
  find_recombination er tv comps positions costs = Some evs -> In ev evs ->
  exists b ta ca tb cb,
    lookup (ev_p1 ev) comps = Some b /\ lookup (ev_p2 ev) comps = Some b /\
    ev_p1 ev < ev_p2 ev /\
    (forall q, ev_p1 ev < q < ev_p2 ev -> lookup q comps <> Some b) /\
    lookup (ev_p1 ev) (combine positions (combine tv costs)) = Some (ta, ca) /\
    lookup (ev_p2 ev) (combine positions (combine tv costs)) = Some (tb, cb) /\
    ta <> tb /\ ev_f1 ev = ta mod 2 /\ ev_f2 ev = tb mod 2 /\
    ev_m1 ev = ta / 2 /\ ev_m2 ev = tb / 2 /\ ev_cost ev = cb.
Proof.
  intros er tv comps positions costs evs ev ND H HI; unfold find_recombination in H.
  assert (Hbody : (if negb ((length tv =? length positions)%nat && (length positions =? length costs)%nat) then None
    else if negb (forallb (fun pc => existsb (Z.eqb (fst pc)) positions) comps) then None
    else match map_opt (fun b => map_opt (fun p => option_map (pair p) (lookup p (combine positions (combine tv costs)))) (block_of comps b)) (block_ids comps) with
         | None => None
         | Some blocks => Some (isort ev_leb (flat_map block_events blocks))
         end) = Some evs).
  { destruct er; [exact H|]. destruct positions; [injection H as <-; destruct HI | exact H]. }
  clear H; rename Hbody into H.
  destruct (negb _); [discriminate|].
  destruct (negb _); [discriminate|].
  set (cols := combine positions (combine tv costs)) in *.
  destruct (map_opt _ (block_ids comps)) as [blocks|] eqn:Eb; [|discriminate].
  injection H as <-.
  apply isort_In in HI; apply in_flat_map in HI; destruct HI as [blk [Hblk HI]].
  destruct (map_opt_In _ _ _ _ _ _ Eb Hblk) as [b [_ Hb]]; cbn beta in Hb.
  destruct (block_cols_spec _ _ _ Hb) as [Hfst Hlk].
  unfold block_events in HI.
  destruct (pair_events_spec _ _ HI) as [l1 [ca [cb [l2 [Htl [-> Hne]]]]]].
  destruct blk as [|c0 tlb]; [destruct l1; discriminate|]; cbn [tl] in Htl; subst tlb.
  assert (Hpos : block_of comps b = map fst (c0 :: l1) ++ col_pos ca :: col_pos cb :: map fst l2).
  { rewrite <- Hfst; change (c0 :: l1 ++ ca :: cb :: l2) with ((c0 :: l1) ++ ca :: cb :: l2).
    rewrite map_app; reflexivity. }
  pose proof (isort_sorted (map fst (filter (fun pc => snd pc =? b) comps))) as HS.
  fold (block_of comps b) in HS.
  pose proof (block_of_NoDup comps b ND) as HND.
  rewrite Hpos in HS, HND.
  destruct (sorted_neighbours _ _ _ _ HS HND) as [Hlt Hbetween].
  assert (Ha : In (col_pos ca) (block_of comps b))
    by (rewrite Hpos; apply in_or_app; right; left; reflexivity).
  assert (Hbb : In (col_pos cb) (block_of comps b))
    by (rewrite Hpos; apply in_or_app; right; right; left; reflexivity).
  apply block_of_In in Ha; apply block_of_In in Hbb.
  exists b, (col_tv ca), (col_cost ca), (col_tv cb), (col_cost cb); cbn [mk_event ev_p1 ev_p2 ev_f1 ev_f2 ev_m1 ev_m2 ev_cost].
  repeat split; auto.
  - apply lookup_In_NoDup; assumption.
  - apply lookup_In_NoDup; assumption.
  - intros q Hq Hl; apply lookup_In in Hl; apply block_of_In in Hl.
    rewrite Hpos in Hl; exact (Hbetween q Hl Hq).
  - assert (In ca (c0 :: l1 ++ ca :: cb :: l2)) by (right; apply in_or_app; right; left; reflexivity).
    pose proof (Hlk ca H) as Hx; destruct ca as [p [t c]]; exact Hx.
  - assert (In cb (c0 :: l1 ++ ca :: cb :: l2)) by (right; apply in_or_app; right; right; left; reflexivity).
    pose proof (Hlk cb H) as Hx; destruct cb as [p [t c]]; exact Hx.
Qed.

(* ------------------------------------------------------------------ recombinations_within_set *)
Lemma In_combine_seq : forall (A : Type) (l : list A) (start k : nat) (a : A),
  In (k, a) (combine (seq start (length l)) l) -> nth_error l (k - start) = Some a /\ (start <= k)%nat.
Proof.
  intros A l; induction l as [|x t IH]; intros start k a H; cbn [length seq combine] in H.
  - destruct H.
  - destruct H as [H|H].
    + injection H as <- <-; rewrite Nat.sub_diag; split; [reflexivity | lia].
    + destruct (IH (S start) k a H) as [Hn Hle].
      split; [|lia].
      replace (k - start)%nat with (S (k - S start)) by lia; exact Hn.
Qed.

Lemma inst_rec_entries_spec : forall er chromname i es e,
  NoDup (map fst (i_comps i)) -> inst_rec_entries er chromname i = Some es -> In e es ->
  exists k child father mother b ta ca tb cb,
    nth_error (i_trios i) k = Some (child, (father, mother)) /\
    ce_child e = child /\ ce_chrom e = chromname /\
    lookup (ce_p1 e - 1) (i_comps i) = Some b /\ lookup (ce_p2 e - 1) (i_comps i) = Some b /\
    ce_p1 e < ce_p2 e /\
    (forall q, ce_p1 e - 1 < q < ce_p2 e - 1 -> lookup q (i_comps i) <> Some b) /\
    lookup (ce_p1 e - 1)
           (combine (i_positions i) (combine (tv_of_trio (length (i_trios i)) k (i_tv i)) (i_costs i))) = Some (ta, ca) /\
    lookup (ce_p2 e - 1)
           (combine (i_positions i) (combine (tv_of_trio (length (i_trios i)) k (i_tv i)) (i_costs i))) = Some (tb, cb) /\
    ta <> tb /\ ce_f1 e = ta mod 2 /\ ce_f2 e = tb mod 2 /\ ce_m1 e = ta / 2 /\ ce_m2 e = tb / 2 /\
    ce_cost e = cb.
Proof.
  intros er chromname i es e ND H HI; unfold inst_rec_entries in H.
  destruct (map_opt _ _) as [ll|] eqn:Ell; [|discriminate]; cbn [option_map] in H; injection H as <-.
  apply in_concat in HI; destruct HI as [l [Hl He]].
  destruct (map_opt_In _ _ _ _ _ _ Ell Hl) as [[k [child [father mother]]] [Hk Htr]].
  destruct (In_combine_seq _ _ _ _ _ Hk) as [Hnth _]; rewrite Nat.sub_0_r in Hnth.
  unfold trio_rec_entries in Htr; cbn [fst snd] in Htr.
  destruct (find_recombination _ _ _ _ _) as [evs|] eqn:Ef; [|discriminate].
  cbn [option_map] in Htr; injection Htr as <-.
  apply in_map_iff in He; destruct He as [ev [<- Hev]].
  destruct (find_recombination_spec _ _ _ _ _ _ _ ND Ef Hev)
    as [b [ta [ca [tb [cb [H1 [H2 [H3 [H4 [H5 [H6 [H7 [H8 [H9 [H10 [H11 H12]]]]]]]]]]]]]]]].
  exists k, child, father, mother, b, ta, ca, tb, cb.
  cbn [entry_of_event ce_child ce_chrom ce_p1 ce_p2 ce_f1 ce_f2 ce_m1 ce_m2 ce_cost].
  rewrite !Z.add_simpl_r.
  repeat split; auto; try lia.
Qed.

Lemma filter_length_le : forall (f : Z -> bool) (l : list Z), (length (filter f l) <= length l)%nat.
Proof.
  intros f l; induction l as [|y l IHl]; cbn [filter length]; [lia|].
  destruct (f y); cbn [length]; lia.
Qed.

Lemma dedup_length_le : forall l : list Z, (length (dedup l) <= length l)%nat.
Proof.
  induction l as [|y t IH]; cbn [dedup length]; [lia|].
  pose proof (filter_length_le (fun z => negb (z =? y)) (dedup t)); lia.
Qed.

Lemma filter_neq_length_lt : forall (x : Z) (l : list Z),
  In x l -> (length (filter (fun y => negb (y =? x)%Z) l) < length l)%nat.
Proof.
  intros x l; induction l as [|y l IHl]; intros Hx; [destruct Hx|].
  cbn [filter length]; destruct Hx as [->|Hx].
  - rewrite Z.eqb_refl; cbn [negb].
    pose proof (filter_length_le (fun y => negb (y =? x)) l); lia.
  - specialize (IHl Hx); destruct (negb (y =? x)); cbn [length]; lia.
Qed.

Lemma nodupb_NoDup : forall l : list Z, nodupb l = true -> NoDup l.
Proof.
  intros l H; unfold nodupb in H; apply Nat.eqb_eq in H; revert H.
  induction l as [|x t IH]; intros H; cbn [dedup length] in H.
  - constructor.
  - injection H as H.
    pose proof (filter_length_le (fun y => negb (y =? x)) (dedup t)) as Hf.
    pose proof (dedup_length_le t) as Hd.
    assert (Hdt : length (dedup t) = length t) by lia.
    constructor; [|apply IH; exact Hdt].
    intros Hin; apply dedup_In in Hin.
    pose proof (filter_neq_length_lt x (dedup t) Hin); lia.
Qed.

Lemma inst_wf_comps : forall ids i, inst_wf ids i = true -> NoDup (map fst (i_comps i)).
Proof.
  intros ids i H; unfold inst_wf in H.
  repeat (apply andb_true_iff in H; destruct H as [H ?]).
  apply nodupb_NoDup; assumption.
Qed.

Theorem recombinations_within_set : forall gr rr pr er o ids vs cs out lines e,
  run gr rr pr er o ids vs cs = Some out -> run_wf ids cs = true ->
  out_recs out = Some lines -> In (Entry e) lines ->
  exists c i k child father mother b ta ca tb cb,
    In c cs /\ c_selected c = true /\ In i (c_insts c) /\
    nth_error (i_trios i) k = Some (child, (father, mother)) /\
    ce_child e = child /\ ce_chrom e = c_name c /\
    lookup (ce_p1 e - 1) (i_comps i) = Some b /\ lookup (ce_p2 e - 1) (i_comps i) = Some b /\
    ce_p1 e < ce_p2 e /\
    (forall q, ce_p1 e - 1 < q < ce_p2 e - 1 -> lookup q (i_comps i) <> Some b) /\
    lookup (ce_p1 e - 1)
           (combine (i_positions i) (combine (tv_of_trio (length (i_trios i)) k (i_tv i)) (i_costs i))) = Some (ta, ca) /\
    lookup (ce_p2 e - 1)
           (combine (i_positions i) (combine (tv_of_trio (length (i_trios i)) k (i_tv i)) (i_costs i))) = Some (tb, cb) /\
    ta <> tb /\ ce_f1 e = ta mod 2 /\ ce_f2 e = tb mod 2 /\ ce_m1 e = ta / 2 /\ ce_m2 e = tb / 2 /\
    ce_cost e = cb.
Proof.
  intros gr rr pr er o ids vs cs out lines e Hrun Hwf Hlines HI.
  destruct (run_inv _ _ _ _ _ _ _ _ _ Hrun) as [rs [Hrs [_ [_ [Hr _]]]]].
  assert (Ho : o_recs o = true).
  { destruct (o_recs o); [reflexivity|]. rewrite Hr in Hlines; discriminate. }
  rewrite Hr, Ho in Hlines; cbn [requested] in Hlines.
  destruct (write_calls_In _ _ _ _ _ Hlines HI) as [es [Hes He]].
  pose proof (rec_calls_instances _ _ _ _ _ _ _ Ho Hrs) as HF.
  destruct (Forall2_In_r _ _ _ _ _ _ HF Hes) as [[c i] [Hci Hie]]; cbn [fst snd] in Hie.
  destruct (instances_In _ _ _ Hci) as [Hc [Hsel Hi]].
  pose proof (inst_wf_comps _ _ (run_wf_inst _ _ _ _ Hwf Hc Hi)) as ND.
  destruct (inst_rec_entries_spec _ _ _ _ _ ND Hie He)
    as [k [child [father [mother [b [ta [ca [tb [cb Hall]]]]]]]]].
  exists c, i, k, child, father, mother, b, ta, ca, tb, cb; tauto.
Qed.

(* ------------------------------------------------------------------ changes_are_diffs *)
Lemma list_eqb_Z_refl : forall a : list Z, list_eqb Z.eqb a a = true.
Proof. intros a; apply list_eqb_Z_eq; reflexivity. Qed.

Lemma lookup_None_notin : forall (V : Type) (d : list (Z * V)) (k : Z),
  ~ In k (map fst d) -> lookup k d = None.
Proof.
  intros V d; induction d as [|[k' v] t IH]; intros k H; cbn [lookup map fst] in *.
  - reflexivity.
  - destruct (k =? k') eqn:E.
    + apply Z.eqb_eq in E; subst; exfalso; apply H; left; reflexivity.
    + apply IH; intros Hin; apply H; right; exact Hin.
Qed.

Lemma lookup_out_calls : forall r news s,
  lookup s (out_calls r news) =
  match lookup s (v_gts r) with
  | Some g => Some (match lookup s news with Some g' => g' | None => gcode g end)
  | None => None
  end.
Proof.
  intros r news s; unfold out_calls; induction (v_gts r) as [|[s' g] t IH]; cbn [map lookup fst snd].
  - reflexivity.
  - destruct (lookup s' news) as [g'|] eqn:En; cbn [lookup fst].
    + destruct (s =? s') eqn:E; [apply Z.eqb_eq in E; subst; rewrite En; reflexivity | exact IH].
    + destruct (s =? s') eqn:E; [apply Z.eqb_eq in E; subst; rewrite En; reflexivity | exact IH].
Qed.

Lemma write_call_gt_sample : forall pr ch r t x,
  write_call_gt pr ch r t = Some x -> fst (snd x) = fst t.
Proof.
  intros pr ch r t x H; unfold write_call_gt in H; cbv zeta in H.
  destruct (lookup (fst t) (v_gts r)) as [gt|]; [|discriminate].
  destruct (lookup (v_pos r) (fst (snd t))) as [[a b]|].
  - destruct (list_eqb Z.eqb _ _); injection H as <-; reflexivity.
  - injection H as <-; reflexivity.
Qed.

(* one target call against the specification, given the genotype `go` that ends up in the output record *)
Lemma write_call_gt_diff : forall pr ch r t c go outs,
  write_call_gt pr ch r t = Some (c, (fst t, go)) ->
  lookup (fst t) outs = Some go ->
  c = diff_entry (pos_shift pr) ch r outs (fst t).
Proof.
  intros pr ch r t c go outs H Ho; unfold write_call_gt in H; cbv zeta in H; unfold diff_entry.
  destruct (lookup (fst t) (v_gts r)) as [gt|]; [|discriminate]; rewrite Ho.
  destruct (lookup (v_pos r) (fst (snd t))) as [[a b]|].
  - remember (isort Z.leb [a; b]) as new eqn:Hnew.
    destruct (list_eqb Z.eqb new (gcode gt)) eqn:E.
    + injection H as <- <-; rewrite list_eqb_Z_refl; reflexivity.
    + injection H as <- <-; rewrite E; reflexivity.
  - injection H as <- <-; rewrite list_eqb_Z_refl; reflexivity.
Qed.

Lemma processed_calls_spec : forall pr ch r outs tg res,
  Forall2 (fun t x => write_call_gt pr ch r t = Some x) tg res ->
  (forall t x, In (t, x) (combine tg res) -> lookup (fst t) outs = Some (snd (snd x))) ->
  concat (map fst res) = flat_map (diff_entry (pos_shift pr) ch r outs) (map fst tg).
Proof.
  intros pr ch r outs tg res H; induction H as [|t x tg' res' Htx _ IH]; intros Hl; cbn [map concat flat_map].
  - reflexivity.
  - f_equal.
    + destruct x as [c [s go]]; pose proof (write_call_gt_sample _ _ _ _ _ Htx) as Hs; cbn [fst snd] in Hs; subst s.
      cbn [fst]; eapply write_call_gt_diff; [exact Htx|].
      apply (Hl t (c, (fst t, go))); left; reflexivity.
    + apply IH; intros t' x' Hin; apply Hl; right; exact Hin.
Qed.

Lemma lookup_news : forall pr ch r tg res,
  Forall2 (fun t x => write_call_gt pr ch r t = Some x) tg res -> NoDup (map fst tg) ->
  map fst (map snd res) = map fst tg /\
  forall t x, In (t, x) (combine tg res) -> lookup (fst t) (map snd res) = Some (snd (snd x)).
Proof.
  intros pr ch r tg res H; induction H as [|t x tg' res' Htx _ IH]; intros ND; cbn [map combine].
  - split; [reflexivity | intros t x []].
  - inversion ND as [|? ? Hnot ND']; subst.
    destruct (IH ND') as [Hm Hl].
    pose proof (write_call_gt_sample _ _ _ _ _ Htx) as Hs.
    split; [rewrite Hs, Hm; reflexivity|].
    intros t' x' [Hin|Hin].
    + injection Hin as <- <-. destruct x as [c [s go]]; cbn [fst snd] in *; subst s.
      cbn [lookup]; rewrite Z.eqb_refl; reflexivity.
    + destruct x as [c [s go]]; cbn [fst snd lookup] in *; subst s.
      destruct (fst t' =? fst t) eqn:E.
      * apply Z.eqb_eq in E; exfalso; apply Hnot; rewrite <- E.
        apply in_map; exact (in_combine_l _ _ _ _ Hin).
      * apply Hl; exact Hin.
Qed.

Lemma write_record_spec : forall pr ch vs tg prev r prev' chg outs,
  NoDup (map fst tg) ->
  write_record pr ch vs tg prev r = Some (prev', (chg, outs)) ->
  chg = record_changes (pos_shift pr) ch (map fst tg) r outs /\
  forall s, ~ In s (map fst tg) -> lookup s outs = option_map gcode (lookup s (v_gts r)).
Proof.
  intros pr ch vs tg prev r prev' chg outs ND H; unfold write_record in H.
  destruct (record_skipped vs tg prev r).
  - remember (out_calls r []) as oc eqn:Hoc; injection H as _ <- <-; subst oc; split.
    + clear ND; unfold record_changes; induction (map fst tg) as [|s t IH]; cbn [flat_map]; [reflexivity|].
      rewrite <- IH, app_nil_r; unfold diff_entry; rewrite lookup_out_calls.
      destruct (lookup s (v_gts r)); [|reflexivity].
      cbn [lookup]; rewrite list_eqb_Z_refl; reflexivity.
    + intros s _; rewrite lookup_out_calls; destruct (lookup s (v_gts r)); reflexivity.
  - destruct (map_opt (write_call_gt pr ch r) tg) as [res|] eqn:Er; [|discriminate].
    remember (out_calls r (map snd res)) as oc eqn:Hoc; injection H as _ <- <-; subst oc.
    apply map_opt_Forall2 in Er.
    destruct (lookup_news _ _ _ _ _ Er ND) as [Hm Hl]; split.
    + unfold record_changes; apply processed_calls_spec; [exact Er|].
      intros t x Hin; rewrite lookup_out_calls.
      pose proof (Hl t x Hin) as Hn; rewrite Hn.
      (* the sample has a call in the record, otherwise write_call_gt fails *)
      pose proof (Forall2_In_r _ _ _ _ _ _ Er (in_combine_r _ _ _ _ Hin)) as [t' [_ Ht']].
      assert (Hwc : write_call_gt pr ch r t = Some x).
      { clear - Er Hin. induction Er as [|t0 x0 tg' res' H0 _ IH]; [destruct Hin|].
        destruct Hin as [Hin|Hin]; [injection Hin as <- <-; exact H0 | apply IH; exact Hin]. }
      unfold write_call_gt in Hwc; cbv zeta in Hwc; destruct (lookup (fst t) (v_gts r)); [reflexivity | discriminate].
    + intros s Hs; rewrite lookup_out_calls.
      rewrite (lookup_None_notin _ (map snd res) s) by (rewrite Hm; exact Hs).
      destruct (lookup s (v_gts r)); reflexivity.
Qed.

Theorem changes_are_diffs : forall pr ch vs tg rs prev res,
  NoDup (map fst tg) ->
  write_records pr ch vs tg prev rs = Some res ->
  Forall2 (fun r ro =>
             fst ro = record_changes (pos_shift pr) ch (map fst tg) r (snd ro) /\
             forall s, ~ In s (map fst tg) -> lookup s (snd ro) = option_map gcode (lookup s (v_gts r)))
          rs res.
Proof.
  intros pr ch vs tg rs; induction rs as [|r t IH]; intros prev res ND H; cbn [write_records] in H.
  - injection H as <-; constructor.
  - destruct (write_record pr ch vs tg prev r) as [[prev' [chg outs]]|] eqn:Er; [|discriminate].
    destruct (write_records pr ch vs tg prev' t) as [rest|] eqn:Et; [|discriminate].
    injection H as <-; constructor; [|eapply IH; eassumption].
    cbn [fst snd]; eapply write_record_spec; eassumption.
Qed.

(* without --distrust-genotypes: nothing is listed and no genotype of the output differs from the input *)
Lemma write_call_gt_conform : forall pr ch r t x,
  (forall a b g, lookup (v_pos r) (fst (snd t)) = Some (a, b) -> lookup (fst t) (v_gts r) = Some g ->
                 isort Z.leb [a; b] = gcode g) ->
  write_call_gt pr ch r t = Some x ->
  exists g, lookup (fst t) (v_gts r) = Some g /\ x = ([], (fst t, gcode g)).
Proof.
  intros pr ch r t x Hc H; unfold write_call_gt in H; cbv zeta in H.
  destruct (lookup (fst t) (v_gts r)) as [gt|] eqn:Eg; [|discriminate].
  exists gt; split; [reflexivity|].
  destruct (lookup (v_pos r) (fst (snd t))) as [[a b]|] eqn:Ep.
  - rewrite (Hc a b gt eq_refl eq_refl), list_eqb_Z_refl in H; injection H as <-; reflexivity.
  - injection H as <-; reflexivity.
Qed.

Theorem no_changes_without_distrust : forall pr ch vs tg rs prev res,
  superreads_conform tg rs ->
  write_records pr ch vs tg prev rs = Some res ->
  Forall2 (fun r ro => fst ro = [] /\
             forall s, lookup s (snd ro) = option_map gcode (lookup s (v_gts r))) rs res.
Proof.
  intros pr ch vs tg rs; induction rs as [|r t IH]; intros prev res Hc H; cbn [write_records] in H.
  - injection H as <-; constructor.
  - destruct (write_record pr ch vs tg prev r) as [[prev' [chg outs]]|] eqn:Er; [|discriminate].
    destruct (write_records pr ch vs tg prev' t) as [rest|] eqn:Et; [|discriminate].
    injection H as <-; constructor.
    + cbn [fst snd]; unfold write_record in Er.
      destruct (record_skipped vs tg prev r).
      * remember (out_calls r []) as oc eqn:Hoc; injection Er as _ <- <-; subst oc; split; [reflexivity|].
        intros s; rewrite lookup_out_calls; destruct (lookup s (v_gts r)); reflexivity.
      * destruct (map_opt (write_call_gt pr ch r) tg) as [calls|] eqn:Ec; [|discriminate].
        remember (out_calls r (map snd calls)) as oc eqn:Hoc; injection Er as _ <- <-; subst oc.
        apply map_opt_Forall2 in Ec.
        assert (Hall : forall x, In x calls -> exists s g, lookup s (v_gts r) = Some g /\ x = ([], (s, gcode g))).
        { intros x Hx; destruct (Forall2_In_r _ _ _ _ _ _ Ec Hx) as [t0 [Ht0 Hw]].
          destruct (write_call_gt_conform pr ch r t0 x) as [g [Hg ->]]; [|exact Hw|exists (fst t0), g; auto].
          intros a b g Hp Hg; eapply (Hc t0 r); [exact Ht0 | left; reflexivity | exact Hp | exact Hg]. }
        split.
        -- clear Ec; induction calls as [|x calls' IHc]; [reflexivity|].
           cbn [map concat]; destruct (Hall x (or_introl eq_refl)) as [s [g [_ ->]]]; cbn [fst app].
           apply IHc; intros y Hy; apply Hall; right; exact Hy.
        -- intros s; rewrite lookup_out_calls.
           destruct (lookup s (v_gts r)) as [g|] eqn:Eg; [|reflexivity]; cbn [option_map]; f_equal.
           destruct (lookup s (map snd calls)) as [g'|] eqn:En; [|reflexivity].
           apply lookup_In in En; apply in_map_iff in En; destruct En as [x [Hx Hin]].
           destruct (Hall x Hin) as [s' [g0 [Hg0 ->]]]; cbn [snd] in Hx; injection Hx as -> <-.
           rewrite Eg in Hg0; injection Hg0 as ->; reflexivity.
    + eapply IH; [|exact Et].
      intros t0 r0 a b g Ht0 Hr0; apply (Hc t0 r0 a b g Ht0); right; exact Hr0.
Qed.

(* ------------------------------------------------------------------ changes_are_diffs at run level *)
Lemma map_fst_combine : forall (A B : Type) (a : list A) (b : list B),
  length a = length b -> map fst (combine a b) = a.
Proof.
  intros A B a; induction a as [|x t IH]; intros [|y b] H; cbn [combine map fst length] in *; try discriminate.
  - reflexivity.
  - injection H as H; rewrite (IH b H); reflexivity.
Qed.

Lemma target_names_family : forall insts,
  (forall i, In i insts -> length (i_family i) = length (i_super i)) ->
  map fst (targets_of insts) = flat_map i_family insts.
Proof.
  induction insts as [|i t IH]; intros H; cbn [targets_of flat_map].
  - reflexivity.
  - rewrite map_app; f_equal.
    + rewrite map_map; cbn [fst]; unfold inst_members; apply map_fst_combine; apply H; left; reflexivity.
    + apply IH; intros i' Hi'; apply H; right; exact Hi'.
Qed.

Lemma run_wf_targets : forall ids cs c, run_wf ids cs = true -> In c cs -> NoDup (target_names c).
Proof.
  intros ids cs c H Hc; unfold run_wf in H; rewrite forallb_forall in H; specialize (H c Hc).
  apply andb_true_iff in H; destruct H as [_ Hn].
  unfold target_names; apply nodupb_NoDup; exact Hn.
Qed.

Lemma chrom_changes_eq : forall d ch names rs wr,
  Forall2 (fun r ro =>
             fst ro = record_changes d ch names r (snd ro) /\
             forall s, ~ In s names -> lookup s (snd ro) = option_map gcode (lookup s (v_gts r))) rs wr ->
  concat (map fst wr) =
  concat (map (fun ro => record_changes d ch names (fst ro) (snd ro)) (combine rs (map snd wr))).
Proof.
  intros d ch names rs wr H; induction H as [|r ro rs' wr' [Hro _] _ IH]; cbn [map concat combine fst snd].
  - reflexivity.
  - rewrite Hro, IH; reflexivity.
Qed.

Lemma gt_calls_diffs : forall pr er o ids vs cs rs,
  o_gts o = true -> (forall c, In c cs -> NoDup (target_names c)) ->
  map_opt (chrom_step pr er o ids vs) cs = Some rs ->
  concat (flat_map cr_gts rs) = run_diffs (pos_shift pr) cs (map cr_vcf rs).
Proof.
  intros pr er o ids vs cs rs Ho Hnd H; apply map_opt_Forall2 in H.
  induction H as [|c r t rs' Hc _ IH]; unfold run_diffs; cbn [flat_map map combine concat].
  - reflexivity.
  - rewrite concat_app; f_equal.
    + cbn [fst snd]; unfold chrom_step in Hc; rewrite Ho in Hc.
      destruct (c_selected c).
      * destruct (if o_reads o then _ else _) as [rd|]; [|discriminate].
        destruct (if o_recs o then _ else _) as [rc|]; [|discriminate].
        destruct (write_records _ _ _ _ _ _) as [wr|] eqn:Ew; [|discriminate].
        injection Hc as <-; cbn [cr_gts cr_vcf concat]; rewrite app_nil_r.
        unfold chrom_diffs; apply chrom_changes_eq.
        eapply changes_are_diffs; [|exact Ew].
        apply (Hnd c); left; reflexivity.
      * destruct (write_records _ _ _ _ _ _) as [wr|]; [|discriminate].
        injection Hc as <-; reflexivity.
    + apply IH; intros c' Hc'; apply Hnd; right; exact Hc'.
Qed.

(* the changed-genotype list of a run whose file is opened once: header, then exactly the calls whose
   genotype differs between input and output VCF, position column = 0-based position + pos_shift *)
Theorem changes_are_diffs_run : forall rr pr er o ids vs cs out,
  o_gts o = true -> run PerRun rr pr er o ids vs cs = Some out -> run_wf ids cs = true ->
  length (out_vcf out) = length cs /\
  out_gts out = Some (Header :: map Entry (run_diffs (pos_shift pr) cs (out_vcf out))).
Proof.
  intros rr pr er o ids vs cs out Ho H Hwf.
  destruct (run_inv _ _ _ _ _ _ _ _ _ H) as [rs [Hrs [_ [Hg [_ Hv]]]]].
  split.
  - rewrite Hv, map_length. apply map_opt_Forall2 in Hrs.
    clear - Hrs; induction Hrs; cbn [length]; [reflexivity | f_equal; assumption].
  - rewrite Hg, Ho, Hv; cbn [requested]; rewrite write_calls_PerRun.
    rewrite (gt_calls_diffs pr er o ids vs cs rs Ho); [reflexivity | | exact Hrs].
    intros c Hc; eapply run_wf_targets; eassumption.
Qed.

(* frame: calls of chromosomes that are not processed and of samples that are not phased keep their genotype *)
Theorem output_frame : forall gr rr pr er o ids vs cs out,
  run gr rr pr er o ids vs cs = Some out -> run_wf ids cs = true ->
  Forall2 (fun c ovc =>
             Forall2 (fun r oc => forall s, c_selected c = false \/ ~ In s (target_names c) ->
                                 lookup s oc = option_map gcode (lookup s (v_gts r)))
                     (c_records c) ovc)
          cs (out_vcf out).
Proof.
  intros gr rr pr er o ids vs cs out H Hwf.
  destruct (run_inv _ _ _ _ _ _ _ _ _ H) as [rs [Hrs [_ [_ [_ Hv]]]]]; rewrite Hv.
  assert (Hnd : forall c, In c cs -> NoDup (target_names c)) by (intros c Hc; eapply run_wf_targets; eassumption).
  apply map_opt_Forall2 in Hrs; clear H Hv Hwf.
  induction Hrs as [|c r t rs' Hc _ IH]; cbn [map]; constructor.
  - unfold chrom_step in Hc.
    assert (Hgen : forall tg wr, NoDup (map fst tg) ->
               write_records pr (c_name c) vs tg None (c_records c) = Some wr ->
               Forall2 (fun r oc => forall s, ~ In s (map fst tg) ->
                                   lookup s oc = option_map gcode (lookup s (v_gts r)))
                       (c_records c) (map snd wr)).
    { intros tg wr ND Ew; pose proof (changes_are_diffs _ _ _ _ _ _ _ ND Ew) as HF.
      clear - HF; induction HF as [|r0 ro rs0 wr0 [_ Hfr] _ IH0]; cbn [map]; constructor; auto. }
    destruct (c_selected c) eqn:Es.
    + destruct (if o_reads o then _ else _) as [rd|]; [|discriminate].
      destruct (if o_recs o then _ else _) as [rc|]; [|discriminate].
      destruct (write_records _ _ _ _ _ _) as [wr|] eqn:Ew; [|discriminate].
      injection Hc as <-; cbn [cr_vcf].
      pose proof (Hgen _ wr (Hnd c (or_introl eq_refl)) Ew) as HF.
      clear - HF; induction HF as [|r0 oc rs0 ov0 Hfr _ IH0]; constructor; auto.
      intros s [Hs|Hs]; [discriminate | apply Hfr; exact Hs].
    + destruct (write_records _ _ _ _ _ _) as [wr|] eqn:Ew; [|discriminate].
      injection Hc as <-; cbn [cr_vcf].
      pose proof (Hgen [] wr (NoDup_nil _) Ew) as HF.
      clear - HF; induction HF as [|r0 oc rs0 ov0 Hfr _ IH0]; constructor; auto.
  - apply IH; intros c' Hc'; apply Hnd; right; exact Hc'.
Qed.

(* run level: without --distrust-genotypes (super-reads reproduce the genotypes) no line is listed under either
   writer rule and every output genotype equals the input genotype *)
Theorem no_changes_without_distrust_run : forall gr rr pr er o ids vs cs out,
  run gr rr pr er o ids vs cs = Some out ->
  (forall c, In c cs -> c_selected c = true -> superreads_conform (targets_of (c_insts c)) (c_records c)) ->
  (forall lines e, out_gts out = Some lines -> ~ In (Entry e) lines) /\
  Forall2 (fun c ovc => Forall2 (fun r oc => forall s, lookup s oc = option_map gcode (lookup s (v_gts r)))
                                (c_records c) ovc)
          cs (out_vcf out).
Proof.
  intros gr rr pr er o ids vs cs out H Hconf.
  destruct (run_inv _ _ _ _ _ _ _ _ _ H) as [rs [Hrs [_ [Hg [_ Hv]]]]].
  apply map_opt_Forall2 in Hrs.
  assert (Hall : Forall2 (fun c r =>
             (forall es, In es (cr_gts r) -> es = []) /\
             Forall2 (fun r0 oc => forall s, lookup s oc = option_map gcode (lookup s (v_gts r0)))
                     (c_records c) (cr_vcf r)) cs rs).
  { clear H Hg Hv.
    induction Hrs as [|c r t rs' Hc _ IH]; constructor.
    - unfold chrom_step in Hc.
      assert (Hgen : forall tg wr, superreads_conform tg (c_records c) ->
                 write_records pr (c_name c) vs tg None (c_records c) = Some wr ->
                 concat (map fst wr) = [] /\
                 Forall2 (fun r0 oc => forall s, lookup s oc = option_map gcode (lookup s (v_gts r0)))
                         (c_records c) (map snd wr)).
      { intros tg wr Hcf Ew; pose proof (no_changes_without_distrust _ _ _ _ _ _ _ Hcf Ew) as HF.
        clear - HF; induction HF as [|r0 ro rs0 wr0 [Hn Hfr] _ [IH1 IH2]]; cbn [map concat].
        - split; constructor.
        - rewrite Hn, IH1; split; [reflexivity | constructor; assumption]. }
      destruct (c_selected c) eqn:Es.
      + destruct (if o_reads o then _ else _) as [rd|]; [|discriminate].
        destruct (if o_recs o then _ else _) as [rc|]; [|discriminate].
        destruct (write_records _ _ _ _ _ _) as [wr|] eqn:Ew; [|discriminate].
        injection Hc as <-; cbn [cr_gts cr_vcf].
        destruct (Hgen _ wr (Hconf c (or_introl eq_refl) Es) Ew) as [Hn HF]; split; [|exact HF].
        intros es Hes; destruct (o_gts o); [|destruct Hes].
        destruct Hes as [<-|[]]; exact Hn.
      + destruct (write_records _ _ _ _ _ _) as [wr|] eqn:Ew; [|discriminate].
        injection Hc as <-; cbn [cr_gts cr_vcf].
        assert (Hcf : superreads_conform [] (c_records c)) by (intros t0 r0 a b g []).
        destruct (Hgen [] wr Hcf Ew) as [_ HF]; split; [intros es [] | exact HF].
    - apply IH; intros c' Hc' Hs; apply Hconf; [right; exact Hc' | exact Hs]. }
  split.
  - intros lines e Hl HI; rewrite Hg in Hl.
    destruct (o_gts o); [|discriminate]; cbn [requested] in Hl.
    destruct (write_calls_In _ _ _ _ _ Hl HI) as [es [Hes He]].
    apply in_flat_map in Hes; destruct Hes as [r [Hr Hes]].
    destruct (Forall2_In_r _ _ _ _ _ _ Hall Hr) as [c [_ [Hnil _]]].
    rewrite (Hnil es Hes) in He; destruct He.
  - rewrite Hv; clear - Hall; induction Hall as [|c r t rs' [_ HF] _ IH]; cbn [map]; constructor; assumption.
Qed.

(* ------------------------------------------------------------------ witnesses: the current writers *)
(* A trio (child 1, father 2, mother 3) on two chromosomes (10, 11).  On chromosome 10 the transmission
   vector changes between the variants at 0-based positions 199 and 299 (one phase set), and the mother's
   call at 399 is changed from 0/0 to 0/1; on chromosome 11 nothing happens. *)
Definition wit_ids : list (Z * Z) := [(0, 1); (1, 2); (2, 3)].
Definition wit_samples : list Z := [1; 2; 3].
Definition wit_instA : inst :=
  mkInst [1; 2; 3]
         [ ([(99, 0); (199, 1); (299, 0); (399, 1)], [(99, 1); (199, 0); (299, 1); (399, 0)]);
           ([(99, 0); (199, 0); (299, 0); (399, 0)], [(99, 1); (199, 1); (299, 1); (399, 1)]);
           ([(99, 0); (199, 0); (299, 0); (399, 0)], [(99, 0); (199, 0); (299, 0); (399, 1)]) ]
         [(1, (2, 3))] [99; 199; 299; 399] [(99, 99); (199, 99); (299, 99); (399, 99)]
         [0; 5; 6; 7] [0; 0; 1; 1]
         [mkRead 501 0 0 [(99, 0); (199, 1)]; mkRead 502 0 1 [(199, 0); (299, 0); (399, 0)];
          mkRead 503 0 2 [(299, 0); (399, 1)]]
         [0; 0; 1].
Definition wit_instB : inst :=
  mkInst [1; 2; 3]
         [ ([(49, 0); (149, 1)], [(49, 1); (149, 0)]);
           ([(49, 0); (149, 0)], [(49, 1); (149, 1)]);
           ([(49, 0); (149, 0)], [(49, 0); (149, 0)]) ]
         [(1, (2, 3))] [49; 149] [(49, 49); (149, 49)] [0; 4] [0; 0]
         [mkRead 601 0 0 [(49, 0); (149, 1)]; mkRead 602 0 1 [(49, 1); (149, 1)]] [0; 1].
Definition wit_recs (ps : list Z) : list vrec :=
  map (fun p => mkRec p 7 [8] [(1, [0; 1]); (2, [0; 1]); (3, [0; 0])]) ps.
Definition wit_cs : list chrom :=
  [mkChrom 10 true (wit_recs [99; 199; 299; 399]) [wit_instA];
   mkChrom 11 true (wit_recs [49; 149]) [wit_instB]].
Definition wit_opts : opts := mkOpts true true true.

Lemma Forall2_exists_map_opt : forall (A B C : Type) (f : A -> option B) (g : B -> C) (l : list A) (r : list C),
  Forall2 (fun a c => exists b, f a = Some b /\ c = g b) l r ->
  map_opt (fun a => option_map g (f a)) l = Some r.
Proof.
  intros A B C f g l r H; induction H as [|a c t r' [b [Hb ->]] _ IH]; cbn [map_opt].
  - reflexivity.
  - rewrite Hb, IH; reflexivity.
Qed.

Theorem lists_cover_run_refuted :
  exists o ids vs cs out,
    run_wf ids cs = true /\ run_old o ids vs cs = Some out /\
    ~ (exists calls,
         Forall2 (fun ci es => inst_rec_entries old_emptyrule (c_name (fst ci)) (snd ci) = Some es) (instances cs) calls /\
         out_recs out = Some (Header :: map Entry (concat calls))) /\
    ~ (exists calls,
         Forall2 (fun c es => exists wr,
                    write_records old_posrule (c_name c) vs (targets_of (c_insts c)) None (c_records c) = Some wr /\
                    es = concat (map fst wr))
                 (filter c_selected cs) calls /\
         out_gts out = Some (Header :: map Entry (concat calls))).
Proof.
  destruct (run_old wit_opts wit_ids wit_samples wit_cs) as [out|] eqn:Er; [|vm_compute in Er; discriminate].
  exists wit_opts, wit_ids, wit_samples, wit_cs, out.
  split; [vm_compute; reflexivity|]. split; [exact Er|].
  vm_compute in Er; injection Er as <-; split.
  - intros [calls [HF Hfile]]; apply Forall2_map_opt in HF.
    vm_compute in HF; injection HF as <-; vm_compute in Hfile; discriminate.
  - intros [calls [HF Hfile]].
    apply (Forall2_exists_map_opt _ _ _
             (fun c => write_records old_posrule (c_name c) wit_samples (targets_of (c_insts c)) None (c_records c))
             (fun wr => concat (map fst wr))) in HF.
    vm_compute in HF; injection HF as <-; vm_compute in Hfile; discriminate.
Qed.

(* even with the file opened once per run, the position column of the current code is not the VCF POS *)
Theorem changes_are_diffs_refuted :
  exists o ids vs cs out,
    run_wf ids cs = true /\ run PerRun PerRun old_posrule old_emptyrule o ids vs cs = Some out /\
    out_gts out <> Some (Header :: map Entry (run_diffs 1 cs (out_vcf out))).
Proof.
  destruct (run PerRun PerRun old_posrule old_emptyrule wit_opts wit_ids wit_samples wit_cs) as [out|] eqn:Er;
    [|vm_compute in Er; discriminate].
  exists wit_opts, wit_ids, wit_samples, wit_cs, out.
  split; [vm_compute; reflexivity|]. split; [exact Er|].
  vm_compute in Er; injection Er as <-; vm_compute; discriminate.
Qed.

(* ------------------------------------------------------------------ totality of the recombination writer *)
Lemma map_opt_total : forall (A B : Type) (f : A -> option B) (l : list A),
  (forall a, In a l -> exists b, f a = Some b) -> exists r, map_opt f l = Some r.
Proof.
  intros A B f l; induction l as [|a t IH]; intros H; cbn [map_opt].
  - exists []; reflexivity.
  - destruct (H a (or_introl eq_refl)) as [b Hb]; rewrite Hb.
    destruct IH as [r Hr]; [intros a' Ha'; apply H; right; exact Ha'|].
    rewrite Hr; exists (b :: r); reflexivity.
Qed.

Lemma lookup_combine_In : forall (V : Type) (l1 : list Z) (l2 : list V) (p : Z),
  In p l1 -> length l1 = length l2 -> exists v, lookup p (combine l1 l2) = Some v.
Proof.
  intros V l1; induction l1 as [|x t IH]; intros [|y l2] p Hin Hlen; cbn [length] in Hlen; try discriminate.
  - destruct Hin.
  - cbn [combine lookup]; destruct (p =? x) eqn:E; [exists y; reflexivity|].
    destruct Hin as [->|Hin]; [rewrite Z.eqb_refl in E; discriminate|].
    apply IH; [exact Hin | injection Hlen as Hlen; exact Hlen].
Qed.

Theorem find_recombination_total : forall er tv comps positions costs,
  length tv = length positions -> length positions = length costs ->
  (forall pc, In pc comps -> In (fst pc) positions) ->
  exists evs, find_recombination er tv comps positions costs = Some evs.
Proof.
  intros er tv comps positions costs H1 H2 Hsub; unfold find_recombination.
  assert (Hgoal : exists evs, (if negb ((length tv =? length positions)%nat && (length positions =? length costs)%nat) then None
    else if negb (forallb (fun pc => existsb (Z.eqb (fst pc)) positions) comps) then None
    else match map_opt (fun b => map_opt (fun p => option_map (pair p) (lookup p (combine positions (combine tv costs)))) (block_of comps b)) (block_ids comps) with
         | None => None
         | Some blocks => Some (isort ev_leb (flat_map block_events blocks))
         end) = Some evs);
  [|destruct er; [exact Hgoal|]; destruct positions; [exists []; reflexivity | exact Hgoal]].
  rewrite H1, H2, !Nat.eqb_refl; cbn [andb negb].
  assert (Hf : forallb (fun pc => existsb (Z.eqb (fst pc)) positions) comps = true).
  { apply forallb_forall; intros pc Hpc; apply existsb_exists.
    exists (fst pc); split; [apply Hsub; exact Hpc | apply Z.eqb_refl]. }
  rewrite Hf; cbn [negb].
  destruct (map_opt_total _ _
              (fun b => map_opt (fun p => option_map (pair p)
                                   (lookup p (combine positions (combine tv costs)))) (block_of comps b))
              (block_ids comps)) as [blocks Hb].
  - intros b _; apply map_opt_total; intros p Hp.
    apply block_of_In in Hp; specialize (Hsub _ Hp); cbn [fst] in Hsub.
    destruct (lookup_combine_In _ positions (combine tv costs) p Hsub) as [v Hv].
    + rewrite combine_length; lia.
    + rewrite Hv; exists (p, v); reflexivity.
  - rewrite Hb; eexists; reflexivity.
Qed.

(* with cost vectors as long as the position lists, write_recombination_list never fails on an instance *)
Theorem inst_rec_entries_total : forall er chromname i,
  length (i_tv i) = length (i_positions i) -> length (i_positions i) = length (i_costs i) ->
  (forall pc, In pc (i_comps i) -> In (fst pc) (i_positions i)) ->
  exists es, inst_rec_entries er chromname i = Some es.
Proof.
  intros er chromname i H1 H2 Hsub; unfold inst_rec_entries.
  destruct (map_opt_total _ _ (trio_rec_entries er chromname i)
              (combine (seq 0 (length (i_trios i))) (i_trios i))) as [ll Hll].
  - intros kt _; unfold trio_rec_entries.
    destruct (find_recombination_total er (tv_of_trio (length (i_trios i)) (fst kt) (i_tv i))
                (i_comps i) (i_positions i) (i_costs i)) as [evs Hevs]; auto.
    + unfold tv_of_trio; rewrite map_length; exact H1.
    + rewrite Hevs; eexists; reflexivity.
  - rewrite Hll; eexists; reflexivity.
Qed.

(* CURRENT cost computers (third finding): uniform_recombination_map and recombination_cost_map return a
   vector of length max 1 (number of positions); a family without accessible variant then trips the
   assertion of find_recombination and the run dies as soon as --recombination-list is given. *)
Definition wit_empty_inst : inst :=
  mkInst [1; 2; 3] [([], []); ([], []); ([], [])] [(1, (2, 3))] [] [] [0] [] [] [].
Definition wit_empty_cs : list chrom :=
  [mkChrom 10 true [mkRec 99 7 [8] [(1, [1; 1]); (2, [1; 1]); (3, [1; 1])];
                    mkRec 199 7 [8] [(1, [1; 1]); (2, [1; 1]); (3, [1; 1])]] [wit_empty_inst]].

Theorem run_completes_refuted :
  exists o ids vs cs,
    run_wf ids cs = true /\
    (forall ci, In ci (instances cs) ->
       length (i_costs (snd ci)) = Nat.max 1 (length (i_positions (snd ci))) /\
       length (i_tv (snd ci)) = length (i_positions (snd ci))) /\
    run_old o ids vs cs = None /\
    run_old (mkOpts (o_reads o) (o_gts o) false) ids vs cs <> None.
Proof.
  exists (mkOpts true true true), wit_ids, wit_samples, wit_empty_cs.
  split; [vm_compute; reflexivity|]. split.
  - intros ci [<-|[]]; vm_compute; auto.
  - split; [vm_compute; reflexivity | vm_compute; discriminate].
Qed.

(* repaired find_recombination: with the cost vectors that the (unchanged) cost computers return
   (length max 1 #positions) write_recombination_list never fails on an instance *)
Theorem inst_rec_entries_total_repaired : forall chromname i,
  length (i_tv i) = length (i_positions i) ->
  length (i_costs i) = Nat.max 1 (length (i_positions i)) ->
  (forall pc, In pc (i_comps i) -> In (fst pc) (i_positions i)) ->
  exists es, inst_rec_entries EmptyOk chromname i = Some es.
Proof.
  intros chromname i H1 H2 Hsub.
  destruct (i_positions i) as [|p0 ps] eqn:Ep.
  - unfold inst_rec_entries.
    destruct (map_opt_total _ _ (trio_rec_entries EmptyOk chromname i)
                (combine (seq 0 (length (i_trios i))) (i_trios i))) as [ll Hll].
    + intros kt _; unfold trio_rec_entries, find_recombination; rewrite Ep; eexists; reflexivity.
    + rewrite Hll; eexists; reflexivity.
  - apply inst_rec_entries_total.
    + rewrite Ep; exact H1.
    + rewrite Ep in *; cbn [length] in *; lia.
    + rewrite Ep; exact Hsub.
Qed.

(* ------------------------------------------------------------------ the spec-side evaluators accept the model *)
Lemma entries_of_header_map : forall (E : Type) (es : list E),
  entries_of (Some (Header :: map Entry es)) = Some es.
Proof.
  intros E es; cbn [entries_of]; induction es as [|e t IH]; cbn [map map_opt].
  - reflexivity.
  - rewrite IH; reflexivity.
Qed.

Lemma entries_of_write_calls : forall (E : Type) (r : wrule) (calls : list (list E)) (l : list (line E)),
  write_calls r calls = Some l ->
  exists es, entries_of (Some l) = Some es /\ forall e, In e es -> In (Entry e) l.
Proof.
  intros E r calls l H; destruct r.
  - rewrite write_calls_PerCall in H; destruct (rev calls) as [|es t]; [discriminate|].
    injection H as <-; exists es; split; [apply entries_of_header_map|].
    intros e He; right; apply in_map; exact He.
  - rewrite write_calls_PerRun in H; injection H as <-; exists (concat calls); split; [apply entries_of_header_map|].
    intros e He; right; apply in_map; exact He.
Qed.

Lemma In_combine_l_ex : forall (A B : Type) (l : list A) (r : list B) (a : A),
  In a l -> length l = length r -> exists b, In (a, b) (combine l r).
Proof.
  intros A B l; induction l as [|x t IH]; intros [|y r] a Hin Hlen; cbn [length] in Hlen; try discriminate.
  - destruct Hin.
  - destruct Hin as [->|Hin].
    + exists y; left; reflexivity.
    + injection Hlen as Hlen; destruct (IH r a Hin Hlen) as [b Hb]; exists b; right; exact Hb.
Qed.

Lemma ps_of_call_no_ps : forall (ovc : list (list (Z * list Z))) recs s p,
  ps_of_call (map (map (fun c : Z * list Z => (fst c, (snd c, @None Z)))) ovc) recs s p = None.
Proof.
  intros ovc recs s p; unfold ps_of_call.
  destruct (find _ _) as [[r calls]|] eqn:Ef; [|reflexivity].
  apply find_some in Ef; destruct Ef as [Hin _].
  apply in_combine_r in Hin; apply in_map_iff in Hin; destruct Hin as [oc [<- _]].
  induction oc as [|[s' g] t IH]; cbn [map lookup fst snd]; [reflexivity|].
  destruct (s =? s'); [reflexivity | exact IH].
Qed.

(* The boolean evaluator of "each listed recombination lies between two variants of one phase set" that the
   harness applies to the real files accepts the recombination list of every completed well-formed model run,
   under every rule. *)
Theorem model_passes_spec_rec_sound : forall gr rr pr er o ids vs cs out,
  run gr rr pr er o ids vs cs = Some out -> run_wf ids cs = true -> o_recs o = true ->
  out_recs out <> None ->
  spec_rec_sound cs (obs_of_out out) = true.
Proof.
  intros gr rr pr er o ids vs cs out Hrun Hwf Ho Hsome.
  destruct (run_inv _ _ _ _ _ _ _ _ _ Hrun) as [rs [Hrs [_ [_ [Hr Hv]]]]].
  unfold spec_rec_sound, obs_of_out; cbn [ob_recs ob_vcf].
  destruct (out_recs out) as [lines|] eqn:El; [|contradiction].
  pose proof Hr as Hr'; rewrite Ho in Hr'; cbn [requested] in Hr'; symmetry in Hr'.
  destruct (entries_of_write_calls _ _ _ _ Hr') as [es [Hes Hin]]; rewrite Hes.
  apply forallb_forall; intros e He.
  destruct (recombinations_within_set _ _ _ _ _ _ _ _ _ _ e Hrun Hwf El (Hin e He))
    as [c [i [k [child [father [mother [b [ta [ca [tb [cb
        [Hc [Hsel [Hi [Hnth [Hch [Hcn [Hl1 [Hl2 [Hlt _]]]]]]]]]]]]]]]]]]]].
  assert (Hlen : length cs = length (map (map (map (fun c0 : Z * list Z => (fst c0, (snd c0, @None Z))))) (out_vcf out))).
  { rewrite map_length, Hv, map_length. apply map_opt_Forall2 in Hrs.
    clear - Hrs; induction Hrs; cbn [length]; [reflexivity | f_equal; assumption]. }
  destruct (In_combine_l_ex _ _ _ _ c Hc Hlen) as [ovc Hco].
  apply existsb_exists; exists (c, ovc); split; [exact Hco|]; cbn [fst snd].
  rewrite Hsel; cbn [andb].
  apply existsb_exists; exists i; split; [exact Hi|].
  unfold rec_entry_justified.
  rewrite Hcn, Z.eqb_refl, Hl1, Hl2, Z.eqb_refl; cbn [andb].
  assert (Htr : existsb (fun t => fst t =? ce_child e) (i_trios i) = true).
  { apply existsb_exists; exists (child, (father, mother)); split.
    - eapply nth_error_In; exact Hnth.
    - cbn [fst]; rewrite Hch; apply Z.eqb_refl. }
  rewrite Htr; cbn [andb].
  assert (Hltb : (ce_p1 e <? ce_p2 e) = true) by (apply Z.ltb_lt; exact Hlt).
  rewrite Hltb; cbn [andb].
  apply in_combine_r in Hco; apply in_map_iff in Hco; destruct Hco as [ovc0 [<- _]].
  apply forallb_forall; intros s _; rewrite !ps_of_call_no_ps; reflexivity.
Qed.

(* The boolean evaluator of "each listed read was used for phasing and is attributed to the phase set of its
   first variant" accepts the read list of every completed well-formed model run. *)
Theorem model_passes_spec_read_sound : forall gr rr pr er o ids vs cs out,
  run gr rr pr er o ids vs cs = Some out -> run_wf ids cs = true -> o_reads o = true ->
  spec_read_sound ids cs (obs_of_out out) = true.
Proof.
  intros gr rr pr er o ids vs cs out Hrun Hwf Ho.
  destruct (run_inv _ _ _ _ _ _ _ _ _ Hrun) as [rs [Hrs [Hr [_ [_ Hv]]]]].
  unfold spec_read_sound, obs_of_out; cbn [ob_reads ob_vcf].
  rewrite Ho in Hr; cbn [requested] in Hr.
  destruct (out_reads out) as [lines|] eqn:El; [|rewrite write_calls_PerRun in Hr; discriminate].
  symmetry in Hr; destruct (entries_of_write_calls _ _ _ _ Hr) as [es [Hes Hin]]; rewrite Hes.
  apply forallb_forall; intros e He.
  destruct (read_list_entries _ _ _ _ _ _ _ _ _ _ e Hrun Hwf El (Hin e He))
    as (c & i & r & h & v0 & rest & b & Hc & Hsel & Hi & Hrh & _ & Hv0 & H1 & H2 & H3 & H4 & H5 & H6 & H7 & H8 & H9 & H10).
  assert (Hlen : length cs = length (map (map (map (fun c0 : Z * list Z => (fst c0, (snd c0, @None Z))))) (out_vcf out))).
  { rewrite map_length, Hv, map_length. apply map_opt_Forall2 in Hrs.
    clear - Hrs; induction Hrs; cbn [length]; [reflexivity | f_equal; assumption]. }
  destruct (In_combine_l_ex _ _ _ _ c Hc Hlen) as [ovc Hco].
  apply existsb_exists; exists (c, ovc); split; [exact Hco|]; cbn [fst snd].
  rewrite Hsel; cbn [andb].
  apply existsb_exists; exists i; split; [exact Hi|].
  apply existsb_exists; exists (r, h); split; [exact Hrh|].
  rewrite Hv0 in H6, H8.
  unfold read_entry_justified; cbn [fst snd]; rewrite Hv0.
  rewrite H1, H2, H3, H5, H6, H7, H8, H9, H10, !Z.eqb_refl; cbn [opt_eqb option_map andb].
  rewrite Z.eqb_refl; cbn [andb].
  assert (Hfam : existsb (Z.eqb (re_sample e)) (i_family i) = true).
  { apply existsb_exists; exists (re_sample e); split; [|apply Z.eqb_refl].
    unfold inst_members in H4; apply in_map_iff in H4; destruct H4 as [[s sp] [Hs Hm]].
    cbn [fst] in Hs; subst s; exact (in_combine_l _ _ _ _ Hm). }
  rewrite Hfam; cbn [andb].
  assert (Hps : (1 + b =? b + 1) = true) by (apply Z.eqb_eq; lia).
  rewrite Hps; cbn [andb].
  apply in_combine_r in Hco; apply in_map_iff in Hco; destruct Hco as [ovc0 [<- _]].
  rewrite ps_of_call_no_ps; reflexivity.
Qed.

(* ------------------------------------------------------------------ the event-by-event specification *)
(* the first variant of an event is never the first variant of its phase set (`range(2, len(block))`) *)
Lemma find_recombination_pred : forall er tv comps positions costs evs ev,
  NoDup (map fst comps) ->
  find_recombination er tv comps positions costs = Some evs -> In ev evs ->
  exists b p0, lookup (ev_p1 ev) comps = Some b /\ lookup p0 comps = Some b /\ p0 < ev_p1 ev.
Proof.
  intros er tv comps positions costs evs ev ND H HI; unfold find_recombination in H.
  assert (Hbody : (if negb ((length tv =? length positions)%nat && (length positions =? length costs)%nat) then None
    else if negb (forallb (fun pc => existsb (Z.eqb (fst pc)) positions) comps) then None
    else match map_opt (fun b => map_opt (fun p => option_map (pair p) (lookup p (combine positions (combine tv costs)))) (block_of comps b)) (block_ids comps) with
         | None => None
         | Some blocks => Some (isort ev_leb (flat_map block_events blocks))
         end) = Some evs).
  { destruct er; [exact H|]. destruct positions; [injection H as <-; destruct HI | exact H]. }
  clear H; rename Hbody into H.
  destruct (negb _); [discriminate|].
  destruct (negb _); [discriminate|].
  destruct (map_opt _ (block_ids comps)) as [blocks|] eqn:Eb; [|discriminate].
  injection H as <-.
  apply isort_In in HI; apply in_flat_map in HI; destruct HI as [blk [Hblk HI]].
  destruct (map_opt_In _ _ _ _ _ _ Eb Hblk) as [b [_ Hb]]; cbn beta in Hb.
  destruct (block_cols_spec _ _ _ Hb) as [Hfst _].
  unfold block_events in HI.
  destruct (pair_events_spec _ _ HI) as [l1 [ca [cb [l2 [Htl [-> _]]]]]].
  destruct blk as [|c0 tlb]; [destruct l1; discriminate|]; cbn [tl] in Htl; subst tlb.
  assert (Hpos : block_of comps b = fst c0 :: map fst l1 ++ col_pos ca :: col_pos cb :: map fst l2).
  { rewrite <- Hfst; cbn [map]; rewrite map_app; reflexivity. }
  pose proof (isort_sorted (map fst (filter (fun pc => snd pc =? b) comps))) as HS.
  fold (block_of comps b) in HS.
  pose proof (block_of_NoDup comps b ND) as HND.
  rewrite Hpos in HS, HND.
  assert (Ha : In (col_pos ca) (block_of comps b))
    by (rewrite Hpos; right; apply in_or_app; right; left; reflexivity).
  assert (H0 : In (fst c0) (block_of comps b)) by (rewrite Hpos; left; reflexivity).
  apply block_of_In in Ha; apply block_of_In in H0.
  exists b, (fst c0); cbn [mk_event ev_p1].
  split; [apply lookup_In_NoDup; assumption|]. split; [apply lookup_In_NoDup; assumption|].
  inversion HS as [|x l HS' Hall]; subst. inversion HND as [|x l Hnot _]; subst.
  rewrite Forall_forall in Hall.
  assert (Hin : In (col_pos ca) (map fst l1 ++ col_pos ca :: col_pos cb :: map fst l2))
    by (apply in_or_app; right; left; reflexivity).
  specialize (Hall _ Hin).
  assert (fst c0 <> col_pos ca) by (intros E; apply Hnot; rewrite E; exact Hin).
  lia.
Qed.

Lemma nth_error_combine_seq : forall (A : Type) (l : list A) (k : nat) (a : A),
  nth_error l k = Some a -> In (k, a) (combine (seq 0 (length l)) l).
Proof.
  intros A l k a H.
  assert (Hg : forall start, In ((start + k)%nat, a) (combine (seq start (length l)) l)).
  { revert k H; induction l as [|x t IH]; intros k H start; [destruct k; discriminate|].
    cbn [length seq combine]; destruct k as [|k]; cbn [nth_error] in H.
    - injection H as ->; left; rewrite Nat.add_0_r; reflexivity.
    - right; replace (start + S k)%nat with (S start + k)%nat by lia; apply IH; exact H. }
  exact (Hg 0%nat).
Qed.

(* Every entry that the model's write_recombination_list produces for an instance is one of the events of the
   implementation-independent specification (expected_recs) that the harness evaluates on the real files. *)
Theorem model_entries_are_expected : forall er chromname i es e,
  NoDup (map fst (i_comps i)) -> inst_rec_entries er chromname i = Some es -> In e es ->
  In e (expected_recs chromname i).
Proof.
  intros er chromname i es e ND H HI.
  destruct (inst_rec_entries_spec _ _ _ _ _ ND H HI)
    as (k & child & father & mother & b & ta & ca & tb & cb & Hnth & Hch & Hcn & Hl1 & Hl2 & Hlt & Hbetween
        & Hc1 & Hc2 & Hne & Hf1 & Hf2 & Hm1 & Hm2 & Hcost).
  (* the predecessor inside the phase set *)
  assert (Hpred : exists p0, lookup p0 (i_comps i) = Some b /\ p0 < ce_p1 e - 1).
  { unfold inst_rec_entries in H.
    destruct (map_opt _ _) as [ll|] eqn:Ell; [|discriminate]; cbn [option_map] in H; injection H as <-.
    apply in_concat in HI; destruct HI as [l [Hl He]].
    destruct (map_opt_In _ _ _ _ _ _ Ell Hl) as [[k' [child' [f' m']]] [_ Htr]].
    unfold trio_rec_entries in Htr; cbn [fst snd] in Htr.
    destruct (find_recombination _ _ _ _ _) as [evs|] eqn:Ef; [|discriminate].
    cbn [option_map] in Htr; injection Htr as <-.
    apply in_map_iff in He; destruct He as [ev [<- Hev]].
    destruct (find_recombination_pred _ _ _ _ _ _ _ ND Ef Hev) as [b' [p0 [Hb1 [Hb2 Hp0]]]].
    cbn [entry_of_event ce_p1] in *; rewrite Z.add_simpl_r in *.
    rewrite Hb1 in Hl1; injection Hl1 as ->. exists p0; auto. }
  destruct Hpred as [p0 [Hp0 Hp0lt]].
  unfold expected_recs.
  apply in_flat_map; exists (k, (child, (father, mother))); split; [apply nth_error_combine_seq; exact Hnth|].
  cbn [fst snd].
  assert (Hin1 : In (ce_p1 e - 1) (i_positions i)) by (apply lookup_In in Hc1; exact (in_combine_l _ _ _ _ Hc1)).
  assert (Hin2 : In (ce_p2 e - 1) (i_positions i)) by (apply lookup_In in Hc2; exact (in_combine_l _ _ _ _ Hc2)).
  apply in_flat_map; exists (ce_p1 e - 1); split; [exact Hin1|].
  apply in_flat_map; exists (ce_p2 e - 1); split; [exact Hin2|].
  unfold expected_event, trio_cols; rewrite Hc1, Hc2.
  assert (Hsn : set_neighbours (i_comps i) (ce_p1 e - 1) (ce_p2 e - 1) = true).
  { unfold set_neighbours; rewrite Hl1, Hl2, Z.eqb_refl; cbn [andb].
    assert (E1 : (ce_p1 e - 1 <? ce_p2 e - 1) = true) by (apply Z.ltb_lt; lia).
    rewrite E1; cbn [andb].
    assert (E2 : existsb (fun rc => (snd rc =? b) && (ce_p1 e - 1 <? fst rc) && (fst rc <? ce_p2 e - 1)) (i_comps i) = false).
    { destruct (existsb _ _) eqn:Ex; [|reflexivity].
      apply existsb_exists in Ex; destruct Ex as [[q b'] [Hq Hc]]; cbn [fst snd] in Hc.
      apply andb_true_iff in Hc; destruct Hc as [Hc Hc3]; apply andb_true_iff in Hc; destruct Hc as [Hc1' Hc2'].
      apply Z.eqb_eq in Hc1'; subst b'; apply Z.ltb_lt in Hc2'; apply Z.ltb_lt in Hc3.
      exfalso; apply (Hbetween q); [lia | apply lookup_In_NoDup; assumption]. }
    rewrite E2; cbn [negb andb].
    apply existsb_exists; exists (p0, b); split; [apply lookup_In; exact Hp0|].
    cbn [fst snd]; rewrite Z.eqb_refl; cbn [andb]; apply Z.ltb_lt; exact Hp0lt. }
  rewrite Hsn; cbn [andb].
  assert (E3 : (ta =? tb) = false) by (apply Z.eqb_neq; exact Hne).
  rewrite E3; cbn [negb].
  left; destruct e as [c0 c1 p1 p2 f1 f2 m1 m2 cost]; cbn in *; subst.
  f_equal; lia.
Qed.
