(* Proofs about the reference-free path of coq/model/AlleleDetect.v (_detect_alleles): a single-base
   substitution is only ever resolved to the allele whose base the read shows at the aligned position. *)
From Coq Require Import List Arith Bool ZArith Lia.
From WH.Model Require Import EditDist AlleleDetect.
From WH.Proofs Require Import AlleleDetectProofs.
Import ListNotations.

Definition fresh : aprog := new_allele 1 0 0.
Definition qual_at (quals : list Z) (qp : nat) : nat := match quals with [] => 30 | _ => Z.to_nat (nth qp quals 0%Z) end.

Lemma match_loop_fresh query quals allele qp c len fuel : c < len ->
  match_loop (S fuel) query quals allele qp fresh c len =
  if Z.eqb (base_at query qp) (base_at allele 0)
  then (mkAP 1 1 (qual_at quals qp) 1 1 0 0 0 0, S c) else (fresh, c).
Proof.
intros Hc. unfold fresh, new_allele. cbn [match_loop matched match_target inserted Nat.add].
assert (E1 : (0 <? 1) = true) by reflexivity. rewrite E1.
assert (E2 : (c <? len) = true) by (apply Nat.ltb_lt; lia). rewrite E2. cbn [andb].
destruct (Z.eqb (base_at query qp) (base_at allele 0)) eqn:Eb; [|reflexivity].
cbn [progress alen quality matched match_target inserted insert_target deleted delete_target Nat.add Z.add].
destruct fuel; cbn [match_loop matched match_target]; reflexivity.
Qed.

Section NoRef.
Variable R : rules.
Variables (query quals : list Z) (nv : list variant) (start : nat) (whole : cigar).

Definition dummy : variant := mkVar 0 [] [].
Definition vvar (e : vprog) : variant := nth (vid e) nv dummy.

(* a settled allele tracker of an SNV: failed, or resolved because the read shows the allele's base *)
Definition okA (v : variant) (i : nat) (a : aprog) : Prop :=
  alen a = 1 /\ match_target a = 1 /\ insert_target a = 0 /\ delete_target a = 0 /\
  (progress a = (-1)%Z \/
   (progress a = 1%Z /\ matched a = 1 /\ inserted a = 0 /\ deleted a = 0 /\
    exists k, query_index whole start (vpos v) = Some k /\ base_at query k = base_at (get_allele v i) 0)).

Definition ok_entry (e : vprog) : Prop :=
  vid e < length nv /\
  (snv_shape (vvar e) -> exists a0 a1, alleles e = [a0; a1] /\ okA (vvar e) 0 a0 /\ okA (vvar e) 1 a1).

Definition fresh_entry (e : vprog) : Prop :=
  vid e < length nv /\ (snv_shape (vvar e) -> alleles e = [fresh; fresh]).

Lemma nth_error_vvar e : vid e < length nv -> nth_error nv (vid e) = Some (vvar e).
Proof. intros H. unfold vvar. now apply nth_error_nth'. Qed.

(* --- settled trackers are not changed by any handler *)
Lemma okA_match v v' i a qs os len : okA v i a -> match_allele query quals v' qs os len i a = a.
Proof.
intros (Hl & Hm & Hi & Hd & [Hp|(Hp & Hma & Hin & Hde & _)]); unfold match_allele; rewrite Hp; cbn [Z.ltb Z.compare]; [reflexivity|].
assert (Hloop : match_loop len query quals (get_allele v' i) (qs + matched a + inserted a) a os len = (a, os)).
{ destruct len; cbn [match_loop]; [reflexivity|]. rewrite Hma, Hm. reflexivity. }
rewrite Hloop, Hp, Hl. cbn. now rewrite andb_false_r.
Qed.

Lemma okA_ins v v' i a qs len : okA v i a -> ins_allele query v' qs len i a = a.
Proof.
intros (Hl & Hm & Hi & Hd & [Hp|(Hp & Hma & Hin & Hde & _)]); unfold ins_allele; rewrite Hp; cbn [Z.ltb Z.compare]; [reflexivity|].
assert (Hloop : ins_loop len query (get_allele v' i) qs a 0 len = (a, 0)).
{ destruct len; cbn [ins_loop]; [reflexivity|]. rewrite Hin, Hi. reflexivity. }
rewrite Hloop, Hp, Hl. cbn. now rewrite andb_false_r.
Qed.

Lemma okA_del v i a len : okA v i a -> del_allele len a = a.
Proof.
intros (Hl & Hm & Hi & Hd & [Hp|(Hp & Hma & Hin & Hde & _)]); unfold del_allele; rewrite Hp; cbn [Z.ltb Z.compare]; [reflexivity|].
assert (Hloop : del_loop len a 0 len = (a, 0)).
{ destruct len; cbn [del_loop]; [reflexivity|]. rewrite Hde, Hd. reflexivity. }
rewrite Hloop, Hp, Hl. cbn. now rewrite andb_false_r.
Qed.

Lemma handle_vid op qp len e : vid (handle op query quals nv qp len e) = vid e.
Proof. unfold handle. destruct (nth_error nv (vid e)); reflexivity. Qed.

Lemma handle_ok op qp len e : ok_entry e -> ok_entry (handle op query quals nv qp len e).
Proof.
intros [Hv He]. split; [now rewrite handle_vid|].
unfold vvar. rewrite handle_vid. fold (vvar e). intros Hs.
destruct (He Hs) as (a0 & a1 & Hal & H0 & H1). exists a0, a1. split; [|now split].
unfold handle. rewrite (nth_error_vvar e Hv). cbn [alleles]. rewrite Hal.
destruct op; cbn [mapi_from map]; rewrite ?(okA_match _ _ _ _ _ _ _ H0), ?(okA_match _ _ _ _ _ _ _ H1),
  ?(okA_ins _ _ _ _ _ _ H0), ?(okA_ins _ _ _ _ _ _ H1), ?(okA_del _ _ _ _ H0), ?(okA_del _ _ _ _ H1); reflexivity.
Qed.

(* --- a freshly queued SNV tracker is settled by the handler of the operation that queued it *)
Lemma fresh_match v i qs qp len :
  snv_shape v -> qp <= qs -> qs - qp < len ->
  query_index whole start (vpos v) = Some qs ->
  okA v i (match_allele query quals v qs (qs - qp) len i fresh).
Proof.
intros Hs Hle Hlt Hq. unfold match_allele.
assert (Hp : Z.ltb (progress fresh) 0 = false) by reflexivity. rewrite Hp.
assert (Hq0 : qs + matched fresh + inserted fresh = qs) by (cbn; lia). rewrite Hq0.
destruct len as [|len]; [lia|]. rewrite match_loop_fresh by exact Hlt.
destruct (Z.eqb (base_at query qs) (base_at (get_allele v i) 0)) eqn:Eb.
- apply Z.eqb_eq in Eb. cbn [progress alen]. 
  assert (E : (S (qs - qp) <? S len) && (1 <? Z.of_nat 1)%Z = false) by (rewrite andb_false_r; reflexivity).
  rewrite E. repeat split; try reflexivity. right. repeat split; try reflexivity. exists qs. now split.
- assert (E : (qs - qp <? S len) && (progress fresh <? Z.of_nat (alen fresh))%Z = true).
  { apply andb_true_intro. split; [apply Nat.ltb_lt; lia|reflexivity]. }
  rewrite E. repeat split; try reflexivity. now left.
Qed.

Lemma fresh_del v i len : 0 < len -> okA v i (del_allele len fresh).
Proof.
intros Hl. unfold del_allele, fresh, new_allele. cbn [progress Z.ltb Z.compare].
destruct len as [|len]; [lia|]. cbn [del_loop deleted delete_target]. cbn.
repeat split; try reflexivity. now left.
Qed.

(* --- what a yield has to satisfy *)
Definition good_yield (y : det) : Prop :=
  let '(j, a, _) := y in
  j < length nv /\
  (snv_shape (nth j nv dummy) ->
   a < 2 /\ exists k, query_index whole start (vpos (nth j nv dummy)) = Some k /\
                      base_at query k = base_at (get_allele (nth j nv dummy) a) 0).

Lemma resolved_okA v i a : okA v i a -> is_resolved a = true ->
  exists k, query_index whole start (vpos v) = Some k /\ base_at query k = base_at (get_allele v i) 0.
Proof.
intros (Hl & _ & _ & _ & [Hp|(_ & _ & _ & _ & Hk)]) Hr; [|exact Hk].
unfold is_resolved in Hr. rewrite Hp, Hl in Hr. discriminate.
Qed.

Lemma verdict_good e y : ok_entry e -> verdict e = Some y -> good_yield y.
Proof.
intros [Hv He] Hy. unfold verdict in Hy.
destruct (existsb is_pending (alleles e)); [discriminate|].
destruct (best_resolved 0 (alleles e) None) as [[i a]|] eqn:Eb; [|discriminate].
injection Hy as <-. unfold good_yield. split; [exact Hv|]. fold (vvar e). intros Hs.
destruct (He Hs) as (a0 & a1 & Hal & H0 & H1). rewrite Hal in Eb. cbn [best_resolved] in Eb.
destruct (is_resolved a0) eqn:E0; destruct (is_resolved a1) eqn:E1.
- destruct (alen a0 <? alen a1); injection Eb as <- <-.
  + split; [lia|]. now apply resolved_okA with (a := a1).
  + split; [lia|]. now apply resolved_okA with (a := a0).
- injection Eb as <- <-. split; [lia|]. now apply resolved_okA with (a := a0).
- injection Eb as <- <-. split; [lia|]. now apply resolved_okA with (a := a1).
- discriminate.
Qed.

Lemma drain_spec q : forall ys q', drain q = (ys, q') ->
  (forall y, In y ys -> exists e, In e q /\ verdict e = Some y) /\ (forall e, In e q' -> In e q).
Proof.
induction q as [|e r IH]; intros ys q' H.
- cbn in H. injection H as <- <-. split; intros ? [].
- cbn [drain] in H. destruct (existsb is_pending (alleles e)).
  + injection H as <- <-. split; [intros ? []|auto].
  + destruct (drain r) as [ys0 q0] eqn:Ed. destruct (IH _ _ eq_refl) as [IH1 IH2].
    injection H as <- <-. split.
    * intros y Hy. destruct (verdict e) as [y0|] eqn:Ev.
      -- destruct Hy as [<-|Hy]; [exists e; split; [now left|exact Ev]|].
         destruct (IH1 y Hy) as (e' & He' & Hv'). exists e'. split; [now right|exact Hv'].
      -- destruct (IH1 y Hy) as (e' & He' & Hv'). exists e'. split; [now right|exact Hv'].
    * intros e' He'. right. now apply IH2.
Qed.

Lemma final_yield_spec q : forall y, In y (final_yield q) -> exists e, In e q /\ verdict e = Some y.
Proof.
induction q as [|e r IH]; intros y Hy; [contradiction|].
cbn [final_yield] in Hy. destruct (verdict e) as [y0|] eqn:Ev.
- destruct Hy as [<-|Hy]; [exists e; split; [now left|exact Ev]|].
  destruct (IH y Hy) as (e' & He' & Hv'). exists e'. split; [now right|exact Hv'].
- destruct (IH y Hy) as (e' & He' & Hv'). exists e'. split; [now right|exact Hv'].
Qed.

(* --- the progress list: valid ids, fresh trackers, sorted by position *)
Fixpoint sorted_vp (vp : list vprog) : Prop :=
  match vp with
  | [] => True
  | e :: r => Forall (fun e' => vpos (vvar e) <= vpos (vvar e')) r /\ sorted_vp r
  end.

Lemma sorted_vp_app a b : sorted_vp (a ++ b) -> sorted_vp b.
Proof. induction a as [|x a IH]; [auto|]. cbn [app sorted_vp]. intros [_ H]. auto. Qed.

Lemma skip_progress_spec vp rp : Forall fresh_entry vp -> sorted_vp vp ->
  exists dropped, vp = dropped ++ skip_progress nv vp rp /\
                  Forall (fun e => rp <= vpos (vvar e)) (skip_progress nv vp rp).
Proof.
induction vp as [|e r IH]; intros Hf Hs.
- exists []. split; [reflexivity|constructor].
- cbn [skip_progress]. inversion Hf as [|? ? [Hv _] Hfr]; subst.
  rewrite (nth_error_vvar e Hv). destruct (rp <=? vpos (vvar e)) eqn:E.
  + apply Nat.leb_le in E. exists []. split; [reflexivity|]. destruct Hs as [Hall _].
    constructor; [exact E|]. eapply Forall_impl; [|exact Hall]. cbn. intros; lia.
  + destruct Hs as [_ Hs]. destruct (IH Hfr Hs) as (d & Hd & Hl). exists (e :: d). split; [|exact Hl].
    cbn [app]. now f_equal.
Qed.

Lemma enqueue_spec sk op rp qp ref_end : forall vp newq vp',
  Forall fresh_entry vp ->
  enqueue sk op nv vp rp qp ref_end = (newq, vp') ->
  (exists taken, vp = taken ++ vp') /\
  forall e', In e' newq -> exists e, In e vp /\ e' = reset e (match op with OpD => qp | _ => qp + vpos (vvar e) - rp end) /\
                                   vpos (vvar e) < ref_end /\ (op = OpI -> length (vref (vvar e)) = 0).
Proof.
induction vp as [|e r IH]; intros newq vp' Hf H.
- cbn in H. injection H as <- <-. split; [now exists []|intros ? []].
- cbn [enqueue] in H. inversion Hf as [|? ? [Hv _] Hfr]; subst. rewrite (nth_error_vvar e Hv) in H.
  destruct (ref_end <=? vpos (vvar e)) eqn:E.
  { injection H as <- <-. split; [now exists []|intros ? []]. }
  apply Nat.leb_gt in E.
  assert (Htake : forall a b, enqueue sk op nv r rp qp ref_end = (a, b) ->
            forall qs, qs = match op with OpD => qp | _ => qp + vpos (vvar e) - rp end ->
            (op = OpI -> length (vref (vvar e)) = 0) ->
            (exists taken, e :: r = taken ++ b) /\
            forall e', In e' (reset e qs :: a) -> exists e0, In e0 (e :: r) /\
               e' = reset e0 (match op with OpD => qp | _ => qp + vpos (vvar e0) - rp end) /\
               vpos (vvar e0) < ref_end /\ (op = OpI -> length (vref (vvar e0)) = 0)).
  { intros a b Hab qs Hqs HI. destruct (IH _ _ Hfr Hab) as [[t Ht] Hn]. split.
    - exists (e :: t). cbn [app]. now f_equal.
    - intros e' [<-|He'].
      + exists e. split; [now left|]. rewrite Hqs. auto.
      + destruct (Hn e' He') as (e0 & He0 & Hr). exists e0. split; [now right|exact Hr]. }
  assert (Hskip : forall a b, enqueue sk op nv r rp qp ref_end = (a, b) ->
            (exists taken, e :: r = taken ++ b) /\
            forall e', In e' a -> exists e0, In e0 (e :: r) /\
               e' = reset e0 (match op with OpD => qp | _ => qp + vpos (vvar e0) - rp end) /\
               vpos (vvar e0) < ref_end /\ (op = OpI -> length (vref (vvar e0)) = 0)).
  { intros a b Hab. destruct (IH _ _ Hfr Hab) as [[t Ht] Hn]. split.
    - exists (e :: t). cbn [app]. now f_equal.
    - intros e' He'. destruct (Hn e' He') as (e0 & He0 & Hr). exists e0. split; [now right|exact Hr]. }
  destruct op.
  all: try (destruct (sk && (length (vref (vvar e)) =? 0) && (vpos (vvar e) =? rp));
            [ destruct (enqueue sk _ nv r rp qp ref_end) as [a b] eqn:Eab; injection H as <- <-; now apply Hskip
            | destruct (enqueue sk _ nv r rp qp ref_end) as [a b] eqn:Eab; injection H as <- <-;
              apply (Htake a b eq_refl); [reflexivity|discriminate] ]).
  + (* I *)
    destruct (0 <? length (vref (vvar e))) eqn:El.
    * injection H as <- <-. split; [now exists []|intros ? []].
    * apply Nat.ltb_ge in El. destruct (sk && (vpos (vvar e) =? rp)).
      -- destruct (enqueue sk OpI nv r rp qp ref_end) as [a b] eqn:Eab. now apply Hskip.
      -- destruct (enqueue sk OpI nv r rp qp ref_end) as [a b] eqn:Eab. injection H as <- <-.
         apply (Htake a b eq_refl); [reflexivity|intros _; lia].
  + (* D *)
    destruct (length (vref (vvar e)) =? 0).
    * destruct (enqueue sk OpD nv r rp qp ref_end) as [a b] eqn:Eab. now apply Hskip.
    * destruct (enqueue sk OpD nv r rp qp ref_end) as [a b] eqn:Eab. injection H as <- <-.
      apply (Htake a b eq_refl); [reflexivity|discriminate].
Qed.

(* --- the query index of a position inside a match operation *)
Lemma qidx_skip_prefix p : forall pre rest rp qp,
  rp + ref_units (expand pre) <= p ->
  qidx (pre ++ rest) rp qp p = qidx rest (rp + ref_units (expand pre)) (qp + query_units (expand pre)) p.
Proof.
induction pre as [|[o l] pre IH]; intros rest rp qp Hle.
- cbn. now rewrite !Nat.add_0_r.
- change (expand ((o, l) :: pre)) with (repeat o l ++ expand pre) in *.
  rewrite ref_units_app, ref_units_repeat in *. rewrite query_units_app.
  assert (Hq : query_units (repeat o l) = query_unit o * l).
  { clear. induction l as [|l IHl]; [now rewrite Nat.mul_0_r|]. cbn [repeat query_units fold_right].
    fold (query_units (repeat o l)). rewrite IHl. lia. }
  rewrite Hq. cbn [app qidx].
  assert (Hc : is_match o && (rp <=? p) && (p <? rp + l) = false).
  { destruct (is_match o) eqn:Eo; [|reflexivity]. cbn [andb].
    assert (ref_unit o = 1) as Hu by (destruct o; try discriminate; reflexivity). rewrite Hu in Hle.
    destruct (p <? rp + l) eqn:E; [apply Nat.ltb_lt in E; lia|]. now rewrite andb_false_r. }
  rewrite Hc, IH by lia. f_equal; lia.
Qed.

Lemma query_index_at pre op len rest p :
  whole = pre ++ (op, len) :: rest -> is_match op = true ->
  start + ref_units (expand pre) <= p -> p < start + ref_units (expand pre) + len ->
  query_index whole start p = Some (query_units (expand pre) + (p - (start + ref_units (expand pre)))).
Proof.
intros Hw Hop Hle Hlt. unfold query_index. rewrite Hw, qidx_skip_prefix by exact Hle.
cbn [qidx]. rewrite Hop. cbn [andb].
destruct (start + ref_units (expand pre) <=? p) eqn:E1; [|apply Nat.leb_gt in E1; lia].
destruct (p <? start + ref_units (expand pre) + len) eqn:E2; [|apply Nat.ltb_ge in E2; lia].
reflexivity.
Qed.

Lemma fresh_to_ok e : fresh_entry e -> vid e < length nv.
Proof. now intros [H _]. Qed.

Lemma reset_fresh e qs : fresh_entry e -> snv_shape (vvar e) -> alleles (reset e qs) = [fresh; fresh].
Proof. intros [_ H] Hs. unfold reset. cbn [alleles]. rewrite (H Hs). reflexivity. Qed.

(* --- the main loop: every yield is good *)
Lemma detect_loop_good : forall cig pre vp queue flank,
  whole = pre ++ cig -> Forall fresh_entry vp -> sorted_vp vp -> Forall ok_entry queue ->
  forall y, In y (detect_loop R cig query quals nv vp queue flank
                              (start + ref_units (expand pre)) (query_units (expand pre))) ->
  good_yield y.
Proof.
induction cig as [|[op len] cig IH]; intros pre vp queue flank Hw Hf Hs Hq y Hy.
- cbn [detect_loop] in Hy. destruct (final_yield_spec _ _ Hy) as (e & He & Hv).
  rewrite Forall_forall in Hq. eapply verdict_good; eauto.
- assert (Hw' : whole = (pre ++ [(op, len)]) ++ cig) by (rewrite <- app_assoc; exact Hw).
  pose proof (ref_units_expand_snoc pre op len) as Hru.
  pose proof (query_units_expand_snoc pre op len) as Hqu.
  cbn [detect_loop] in Hy.
  destruct (skip_progress_spec vp (start + ref_units (expand pre)) Hf Hs) as (dropped & Hd & Hlow).
  remember (skip_progress nv vp (start + ref_units (expand pre))) as vp1 eqn:Evp1. clear Evp1.
  assert (Hf1 : Forall fresh_entry vp1).
  { rewrite Hd in Hf. apply Forall_app in Hf. apply Hf. }
  assert (Hs1 : sorted_vp vp1) by (rewrite Hd in Hs; eapply sorted_vp_app; eauto).
  (* operations that only move the positions *)
  assert (Hmove : forall fl,
     In y (detect_loop R cig query quals nv vp1 queue fl
             (start + ref_units (expand (pre ++ [(op, len)]))) (query_units (expand (pre ++ [(op, len)])))) ->
     good_yield y).
  { intros fl Hy'. apply (IH (pre ++ [(op, len)]) vp1 queue fl Hw' Hf1 Hs1 Hq y Hy'). }
  (* operations that queue, handle and drain *)
  assert (Hwork : forall sk ref_end,
     (op = OpI \/ ref_end <= start + ref_units (expand pre) + len) ->
     (op = OpI \/ op = OpD \/ is_match op = true) ->
     In y (let (newq, vp') := enqueue sk op nv vp1 (start + ref_units (expand pre)) (query_units (expand pre)) ref_end in
           let queue1 := map (handle op query quals nv (query_units (expand pre)) len) (queue ++ newq) in
           let (ys, queue2) := drain queue1 in
           ys ++ detect_loop R cig query quals nv vp' queue2 true
                   (start + ref_units (expand (pre ++ [(op, len)]))) (query_units (expand (pre ++ [(op, len)])))) ->
     good_yield y).
  { intros sk ref_end Hre Hop Hy'.
    destruct (enqueue sk op nv vp1 _ _ ref_end) as [newq vp'] eqn:Een.
    destruct (enqueue_spec sk op _ _ ref_end vp1 newq vp' Hf1 Een) as [[taken Ht] Hnew].
    cbv zeta in Hy'.
    set (queue1 := map (handle op query quals nv (query_units (expand pre)) len) (queue ++ newq)) in *.
    assert (Hq1 : Forall ok_entry queue1).
    { unfold queue1. rewrite Forall_forall. intros e1 He1. apply in_map_iff in He1 as (e0 & <- & He0).
      apply in_app_or in He0 as [He0|He0].
      - apply handle_ok. rewrite Forall_forall in Hq. now apply Hq.
      - destruct (Hnew e0 He0) as (e & He & -> & Hlt & HI).
        rewrite Forall_forall in Hf1, Hlow. specialize (Hf1 e He). specialize (Hlow e He).
        pose proof (fresh_to_ok e Hf1) as Hv.
        split; [rewrite handle_vid; exact Hv|].
        unfold vvar. rewrite handle_vid. cbn [reset vid]. fold (vvar e). intros Hsnv.
        unfold handle. cbn [reset vid qstart alleles]. rewrite (nth_error_vvar e Hv).
        assert (Hal : map reset_allele (alleles e) = [fresh; fresh]) by (apply (reset_fresh e 0 Hf1 Hsnv)).
        rewrite Hal.
        destruct Hop as [->|[->|Hm]].
        + (* I: never an SNV *) destruct Hsnv as [Hl _]. rewrite (HI eq_refl) in Hl. discriminate.
        + (* D *) exists (del_allele len fresh), (del_allele len fresh). split; [reflexivity|].
          destruct Hre as [Hre|Hre]; [discriminate|]. split; apply fresh_del; lia.
        + (* match *)
          assert (Hqs : query_units (expand pre) + vpos (vvar e) - (start + ref_units (expand pre))
                        = query_units (expand pre) + (vpos (vvar e) - (start + ref_units (expand pre)))) by lia.
          assert (Hidx : query_index whole start (vpos (vvar e)) =
                         Some (query_units (expand pre) + (vpos (vvar e) - (start + ref_units (expand pre))))).
          { destruct Hre as [Hre|Hre]; [subst op; discriminate|]. eapply query_index_at; eauto. lia. }
          assert (Hcase : alleles (mkVP (vid e) (query_units (expand pre) + vpos (vvar e) - (start + ref_units (expand pre)))
                     (match op with
                      | OpM | OpEQ | OpX =>
                          mapi_from 0 (match_allele query quals (vvar e)
                             (query_units (expand pre) + vpos (vvar e) - (start + ref_units (expand pre)))
                             (query_units (expand pre) + vpos (vvar e) - (start + ref_units (expand pre)) - query_units (expand pre)) len)
                             [fresh; fresh]
                      | OpI => mapi_from 0 (ins_allele query (vvar e) (query_units (expand pre) + vpos (vvar e) - (start + ref_units (expand pre))) len) [fresh; fresh]
                      | OpD => map (del_allele len) [fresh; fresh]
                      | _ => [fresh; fresh]
                      end)) =
                  [match_allele query quals (vvar e)
                     (query_units (expand pre) + (vpos (vvar e) - (start + ref_units (expand pre))))
                     (query_units (expand pre) + (vpos (vvar e) - (start + ref_units (expand pre))) - query_units (expand pre)) len 0 fresh;
                   match_allele query quals (vvar e)
                     (query_units (expand pre) + (vpos (vvar e) - (start + ref_units (expand pre))))
                     (query_units (expand pre) + (vpos (vvar e) - (start + ref_units (expand pre))) - query_units (expand pre)) len 1 fresh]).
          { rewrite Hqs. destruct op; try discriminate; reflexivity. }
          destruct op; try discriminate.
          all: destruct Hre as [Hre|Hre]; [discriminate|];
               eexists; eexists; split; [exact Hcase|]; split; apply fresh_match; auto; lia. }
    destruct (drain queue1) as [ys queue2] eqn:Edr. destruct (drain_spec _ _ _ Edr) as [Hys Hq2].
    apply in_app_or in Hy' as [Hy'|Hy'].
    - destruct (Hys y Hy') as (e & He & Hv). rewrite Forall_forall in Hq1. eapply verdict_good; eauto.
    - apply (IH (pre ++ [(op, len)]) vp' queue2 true Hw'); [| | |exact Hy'].
      + rewrite Ht in Hf1. apply Forall_app in Hf1. apply Hf1.
      + rewrite Ht in Hs1. eapply sorted_vp_app; eauto.
      + rewrite Forall_forall in *. auto. }
  destruct op.
  + (* M *) apply (Hwork (r_ins_left_flank R && negb flank) (start + ref_units (expand pre) + len) (or_intror (Nat.le_refl _))); [auto|].
    rewrite Hru, Hqu. cbn [ref_unit query_unit]. rewrite !Nat.mul_1_l, !Nat.add_assoc. exact Hy.
  + (* I *) apply (Hwork (r_ins_flank_at_ins R && negb flank)
                        (start + ref_units (expand pre) + (if r_ins_span R then 1 else len))); auto.
    rewrite Hru, Hqu. cbn [ref_unit query_unit]. rewrite Nat.mul_0_l, Nat.mul_1_l, Nat.add_0_r. exact Hy.
  + (* D *) apply (Hwork (r_ins_left_flank R && negb flank) (start + ref_units (expand pre) + len) (or_intror (Nat.le_refl _))); [auto|].
    rewrite Hru, Hqu. cbn [ref_unit query_unit]. rewrite Nat.mul_1_l, Nat.mul_0_l, Nat.add_0_r, !Nat.add_assoc. exact Hy.
  + (* N *) apply (Hmove false).
    rewrite Hru, Hqu. cbn [ref_unit query_unit]. rewrite Nat.mul_1_l, Nat.mul_0_l, Nat.add_0_r, !Nat.add_assoc. exact Hy.
  + (* S *) apply (Hmove flank).
    rewrite Hru, Hqu. cbn [ref_unit query_unit]. rewrite Nat.mul_1_l, Nat.mul_0_l, Nat.add_0_r. exact Hy.
  + (* H *) apply (Hmove flank).
    rewrite Hru, Hqu. cbn [ref_unit query_unit]. rewrite !Nat.mul_0_l, !Nat.add_0_r. exact Hy.
  + (* P *) apply (Hmove flank).
    rewrite Hru, Hqu. cbn [ref_unit query_unit]. rewrite !Nat.mul_0_l, !Nat.add_0_r. exact Hy.
  + (* = *) apply (Hwork (r_ins_left_flank R && negb flank) (start + ref_units (expand pre) + len) (or_intror (Nat.le_refl _))); [auto|].
    rewrite Hru, Hqu. cbn [ref_unit query_unit]. rewrite !Nat.mul_1_l, !Nat.add_assoc. exact Hy.
  + (* X *) apply (Hwork (r_ins_left_flank R && negb flank) (start + ref_units (expand pre) + len) (or_intror (Nat.le_refl _))); [auto|].
    rewrite Hru, Hqu. cbn [ref_unit query_unit]. rewrite !Nat.mul_1_l, !Nat.add_assoc. exact Hy.
Qed.


(* --- the initial progress list *)
Fixpoint sorted_ids (l : list nat) : Prop :=
  match l with
  | [] => True
  | j :: r => Forall (fun j' => vpos (nth j nv dummy) <= vpos (nth j' nv dummy)) r /\ sorted_ids r
  end.

Lemma non_overlapping_props (sym : bool) : forall (vs : list ivar) seen skip,
  (forall j v, In (j, v) vs -> nth_error nv j = Some v) -> sorted_pos vs ->
  (forall j, In j (non_overlapping sym vs seen skip) -> exists v, In (j, v) vs) /\
  sorted_ids (non_overlapping sym vs seen skip).
Proof.
induction vs as [|[j v] rest IH]; intros seen skip Hnth Hs.
- cbn. split; [intros ? []|exact I].
- assert (Hnth' : forall j v, In (j, v) rest -> nth_error nv j = Some v) by (intros; apply Hnth; now right).
  destruct Hs as [Hall Hs].
  assert (Hdrop : forall seen' skip',
            (forall j0, In j0 (non_overlapping sym rest seen' skip') -> exists v0, In (j0, v0) ((j, v) :: rest)) /\
            sorted_ids (non_overlapping sym rest seen' skip')).
  { intros seen' skip'. destruct (IH seen' skip' Hnth' Hs) as [H1 H2]. split; [|exact H2].
    intros j0 Hj0. destruct (H1 j0 Hj0) as (v0 & Hv0). exists v0. now right. }
  assert (Hkeep : forall seen' skip',
            (forall j0, In j0 (j :: non_overlapping sym rest seen' skip') -> exists v0, In (j0, v0) ((j, v) :: rest)) /\
            sorted_ids (j :: non_overlapping sym rest seen' skip')).
  { intros seen' skip'. destruct (IH seen' skip' Hnth' Hs) as [H1 H2]. split.
    - intros j0 [<-|Hj0]; [exists v; now left|]. destruct (H1 j0 Hj0) as (v0 & Hv0). exists v0. now right.
    - cbn [sorted_ids]. split; [|exact H2]. rewrite Forall_forall. intros j' Hj'.
      destruct (H1 j' Hj') as (v' & Hv'). rewrite Forall_forall in Hall. specialize (Hall _ Hv'). cbn [snd] in Hall.
      rewrite (nth_error_nth nv j dummy (Hnth j v (or_introl eq_refl))).
      rewrite (nth_error_nth nv j' dummy (Hnth' j' v' Hv')). exact Hall. }
  cbn [non_overlapping].
  destruct (match skip with Some d => vpos v <? d | None => false end); [apply Hdrop|].
  destruct (existsb (Nat.eqb (vpos v)) seen); [apply Hdrop|].
  destruct (sym && is_symbolic v); [apply Hdrop|].
  destruct (length (valt v) <? length (vref v)); [|apply Hkeep].
  destruct rest as [|[j1 v1] rest1] eqn:Er.
  + split; [intros j0 [<-|[]]; exists v; now left|]. cbn. split; [constructor|exact I].
  + destruct (vpos v1 <? vpos v + length (vref v)); [apply Hdrop|apply Hkeep].
Qed.

Lemma index_from_spec {A} (l : list A) : forall k j x, In (j, x) (index_from k l) -> k <= j /\ nth_error l (j - k) = Some x.
Proof.
induction l as [|y l IH]; intros k j x H; [contradiction|].
cbn [index_from] in H. destruct H as [H|H].
- injection H as <- <-. split; [lia|]. now rewrite Nat.sub_diag.
- destruct (IH _ _ _ H) as [Hk Hn]. split; [lia|]. replace (j - k) with (S (j - S k)) by lia. exact Hn.
Qed.

Lemma sorted_vp_map l : sorted_ids l ->
  sorted_vp (map (fun j => build_var_progress (nth j nv dummy) j) l).
Proof.
induction l as [|j r IH]; [auto|]. cbn [sorted_ids map sorted_vp]. intros [Hall Hs]. split; [|auto].
rewrite Forall_map. exact Hall.
Qed.

End NoRef.

(* --- the theorem: SNVs without reference *)
Theorem detect_noref_snv :
  forall (R : rules) (variants : list variant) (start : nat) (cig : cigar) (query quals : list Z) (j a q : nat) (v : variant),
  sorted_pos (index_from 0 (map normalized variants)) ->
  In (j, a, q) (detect_noref R variants start cig query quals) ->
  nth_error (map normalized variants) j = Some v -> snv_shape v ->
  a < 2 /\ exists k, query_index cig start (vpos v) = Some k /\ base_at query k = base_at (get_allele v a) 0.
Proof.
intros R variants start cig query quals j a q v Hs Hin Hn Hsnv.
unfold detect_noref in Hin. set (nv := map normalized variants) in *.
set (valid := non_overlapping (r_sym_noref R) (index_from 0 nv) [] None) in *.
set (vp := map (fun j => build_var_progress (nth j nv (mkVar 0 [] [])) j) valid) in *.
assert (Hidx : forall j v, In (j, v) (index_from 0 nv) -> nth_error nv j = Some v).
{ intros j0 v0 H0. destruct (index_from_spec nv 0 j0 v0 H0) as [_ H1]. now rewrite Nat.sub_0_r in H1. }
destruct (non_overlapping_props nv (r_sym_noref R) (index_from 0 nv) [] None Hidx Hs) as [Hval Hsorted]. fold valid in Hval, Hsorted.
assert (Hf : Forall (fresh_entry nv) vp).
{ unfold vp. rewrite Forall_map, Forall_forall. intros j0 Hj0. destruct (Hval j0 Hj0) as (v0 & Hv0).
  pose proof (Hidx _ _ Hv0) as Hn0.
  assert (Hlt : j0 < length nv) by (apply nth_error_Some; congruence).
  split; [exact Hlt|]. unfold vvar. cbn [build_var_progress vid alleles]. fold (dummy).
  intros [H1 H2]. rewrite H1, H2. reflexivity. }
assert (Hsv : sorted_vp nv vp) by (apply sorted_vp_map; exact Hsorted).
destruct (skip_progress_spec nv vp start Hf Hsv) as (dropped & Hd & _).
assert (Hf1 : Forall (fresh_entry nv) (skip_progress nv vp start)).
{ rewrite Hd in Hf. apply Forall_app in Hf. apply Hf. }
assert (Hs1 : sorted_vp nv (skip_progress nv vp start)).
{ rewrite Hd in Hsv. eapply sorted_vp_app; eauto. }
pose proof (detect_loop_good R query quals nv start cig cig [] (skip_progress nv vp start) [] false eq_refl Hf1 Hs1
              (Forall_nil _) (j, a, q)) as Hg.
cbn [expand flat_map ref_units query_units fold_right] in Hg. rewrite Nat.add_0_r in Hg.
specialize (Hg Hin). destruct Hg as [Hlt Hg].
rewrite (nth_error_nth nv j dummy Hn) in Hg. exact (Hg Hsnv).
Qed.

(* never the other allele: if the read shows, at the base aligned to the SNV, the base of the allele its haplotype
   carries, then any reported allele is the carried one *)
Corollary detect_noref_snv_never_wrong :
  forall (R : rules) (variants : list variant) (start : nat) (cig : cigar) (query quals : list Z) (j a q : nat)
         (v : variant) (carried : nat),
  sorted_pos (index_from 0 (map normalized variants)) ->
  In (j, a, q) (detect_noref R variants start cig query quals) ->
  nth_error (map normalized variants) j = Some v -> snv_shape v ->
  carried <= 1 ->
  (forall k, query_index cig start (vpos v) = Some k -> base_at query k = base_at (get_allele v carried) 0) ->
  base_at (vref v) 0 <> base_at (valt v) 0 ->
  a = carried.
Proof.
intros R variants start cig query quals j a q v carried Hs Hin Hn Hsnv Hc Herr Hdiff.
destruct (detect_noref_snv R variants start cig query quals j a q v Hs Hin Hn Hsnv) as (Ha & k & Hk & Hb).
specialize (Herr k Hk). rewrite Herr in Hb.
destruct a as [|[|a]]; destruct carried as [|[|c]]; try lia; cbn [get_allele] in Hb; congruence.
Qed.

(* --- query_index in terms of unit operations *)
Lemma repeat_app_split {A} (x : A) : forall len (X pre : list A) m post,
  repeat x len ++ X = pre ++ m :: post ->
  (length pre < len /\ pre = repeat x (length pre) /\ m = x) \/
  (exists pre', pre = repeat x len ++ pre' /\ X = pre' ++ m :: post).
Proof.
induction len as [|len IH]; intros X pre m post H.
- right. exists pre. now split.
- cbn [repeat app] in H. destruct pre as [|y pre].
  + cbn [app] in H. injection H as <- _. left. cbn. repeat split; lia.
  + cbn [app] in H. injection H as <- H. destruct (IH _ _ _ _ H) as [(Hl & Hp & Hm)|(pre' & Hp & HX)].
    * left. cbn [length repeat]. repeat split; [lia| |exact Hm]. now f_equal.
    * right. exists pre'. split; [|exact HX]. cbn [repeat app]. now f_equal.
Qed.

Lemma query_units_repeat op len : query_units (repeat op len) = query_unit op * len.
Proof. induction len as [|len IH]; [now rewrite Nat.mul_0_r|]. cbn [repeat query_units fold_right]. fold (query_units (repeat op len)). rewrite IH. lia. Qed.

Lemma qidx_units : forall cig pre m post rp qp,
  expand cig = pre ++ m :: post -> is_match m = true ->
  qidx cig rp qp (rp + ref_units pre) = Some (qp + query_units pre).
Proof.
induction cig as [|[op len] cig IH]; intros pre m post rp qp He Hm.
- destruct pre; discriminate.
- change (expand ((op, len) :: cig)) with (repeat op len ++ expand cig) in He.
  destruct (repeat_app_split op len _ _ _ _ He) as [(Hl & Hp & ->)|(pre' & -> & HX)].
  + cbn [qidx]. rewrite Hm. rewrite Hp, ref_units_repeat, query_units_repeat.
    assert (ref_unit op = 1) as -> by (destruct op; try discriminate; reflexivity).
    assert (query_unit op = 1) as -> by (destruct op; try discriminate; reflexivity).
    rewrite !Nat.mul_1_l. cbn [andb].
    destruct (rp <=? rp + length pre) eqn:E1; [|apply Nat.leb_gt in E1; lia].
    destruct (rp + length pre <? rp + len) eqn:E2; [|apply Nat.ltb_ge in E2; lia].
    cbn [andb]. f_equal. lia.
  + cbn [qidx]. rewrite ref_units_app, query_units_app, ref_units_repeat, query_units_repeat.
    assert (Hc : is_match op && (rp <=? rp + (ref_unit op * len + ref_units pre'))
                 && (rp + (ref_unit op * len + ref_units pre') <? rp + len) = false).
    { destruct (is_match op) eqn:Eo; [|reflexivity].
      assert (ref_unit op = 1) as -> by (destruct op; try discriminate; reflexivity).
      destruct (rp + (1 * len + ref_units pre') <? rp + len) eqn:E; [apply Nat.ltb_lt in E; lia|].
      now rewrite andb_false_r. }
    rewrite Hc.
    replace (rp + (ref_unit op * len + ref_units pre')) with (rp + ref_unit op * len + ref_units pre') by lia.
    rewrite (IH pre' m post (rp + ref_unit op * len) (qp + query_unit op * len) HX Hm).
    f_equal. lia.
Qed.

(* the SNV case in the vocabulary of the full statement (unit operations) *)
Theorem detect_noref_never_wrong_snv :
  forall (R : rules) (variants : list variant) (start : nat) (cig : cigar) (query quals : list Z) (j a q : nat)
         (v : variant) (carried : nat) (pre V post : list cop) (q1 q2 : list Z),
  sorted_pos (index_from 0 (map normalized variants)) ->
  In (j, a, q) (detect_noref R variants start cig query quals) ->
  nth_error (map normalized variants) j = Some v ->
  snv_shape v -> vref v <> valt v -> carried <= 1 ->
  expand cig = pre ++ V ++ post -> vpos v = start + ref_units pre -> allele_units v carried V ->
  query = q1 ++ get_allele v carried ++ q2 -> length q1 = query_units pre ->
  a = carried.
Proof.
intros R variants start cig query quals j a q v carried pre V post q1 q2 Hs Hin Hn Hsnv Hd Hc He Hp HV Hq Hq1.
destruct Hsnv as [Hr Ha].
destruct (vref v) as [|rb [|? ?]] eqn:Er; try discriminate. destruct (valt v) as [|ab [|? ?]] eqn:Ea; try discriminate.
assert (Hm : exists m, V = [m] /\ is_match m = true).
{ destruct carried as [|c]; cbn [allele_units] in HV.
  - destruct HV as [Hf Hl]. rewrite Er in Hl. destruct V as [|m [|? ?]]; try discriminate. exists m. split; [reflexivity|].
    cbn in Hf. now rewrite andb_true_r in Hf.
  - destruct HV as (M & Hf & Hl & ->). rewrite Er, Ea in *. cbn in Hl. destruct M as [|m [|? ?]]; try discriminate.
    exists m. cbn. split; [reflexivity|]. cbn in Hf. now rewrite andb_true_r in Hf. }
destruct Hm as (m & -> & Hm). cbn [app] in He.
assert (Hk : query_index cig start (vpos v) = Some (query_units pre)).
{ unfold query_index. rewrite Hp. rewrite (qidx_units cig pre m post start 0 He Hm). reflexivity. }
apply (detect_noref_snv_never_wrong R variants start cig query quals j a q v carried Hs Hin Hn); auto.
- unfold snv_shape. rewrite Er, Ea. now split.
- intros k Hk'. rewrite Hk in Hk'. injection Hk' as <-. rewrite Hq. unfold base_at.
  rewrite app_nth2 by lia. rewrite Hq1, Nat.sub_diag.
  destruct carried as [|[|c]]; cbn [get_allele]; rewrite ?Er, ?Ea; try reflexivity; lia.
- rewrite Er, Ea. cbn. intros Heq. apply Hd. now f_equal.
Qed.
