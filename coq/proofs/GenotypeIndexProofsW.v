(* Proofs about coq/model/GenotypeIndex.v, part 4: the loops under an arbitrary machine arithmetic
   (ws, wu) that is the identity on a set R of values containing everything the loops compute for
   ploidy <= P and alleles <= Amax.  Instantiated twice: unbounded arithmetic (R = everything, no
   limits) and the 32-bit arithmetic of the compiled code (R = [0, 2^31), P = 14, Amax = 15). *)
From Coq Require Import ZArith List Bool Lia Permutation.
From WH.Model Require Import GenotypeIndex.
From WH.Proofs Require Import GenotypeIndexProofs GenotypeIndexProofsCNS GenotypeIndexProofsCode.
Import ListNotations.
Open Scope Z_scope.

Section Generic.
Variables ws wu : Z -> Z.
Variable R : Z -> Prop.
Variable Rn : Z -> Prop.
Variables P Amax : Z.
Hypothesis ws_id : forall x, R x -> ws x = x.
Hypothesis wu_id : forall x, R x -> wu x = x.
Hypothesis wsu_m1 : ws (wu (-1)) = -1.
Hypothesis binom_ok : forall n k, Rn n -> binom ws n k = chooseZ n k.
Hypothesis R_down : forall x y, R y -> 0 <= x <= y -> R x.
Hypothesis R_P1 : R (P + 1).
Hypothesis range_ok : forall p a, 1 <= p <= P -> 0 <= a <= Amax + 1 ->
  R p /\ R (p + a - 1) /\ Rn (p + a - 1) /\ R (f p a) /\ R (a + 1).

Lemma R_a p a : 1 <= p <= P -> 0 <= a <= Amax + 1 -> R a.
Proof. intros Hp Ha. destruct (range_ok p a Hp Ha) as [_ [_ [_ [_ H]]]]. apply (R_down a (a + 1)); [exact H|lia]. Qed.

Lemma eval_i p a : 1 <= p <= P -> 0 <= a <= Amax + 1 ->
  wu (binom ws (ws (wu (p + a - 1))) (ws p)) = f p a.
Proof.
intros Hp Ha. destruct (range_ok p a Hp Ha) as [H1 [H2 [H3 [H4 H5]]]].
rewrite (wu_id _ H2), (ws_id _ H2), (ws_id _ H1), (binom_ok _ _ H3). fold (f p a). apply wu_id. exact H4.
Qed.

Lemma scan_generic p left max_a astar :
  1 <= p <= P -> 0 <= astar <= max_a -> astar <= Amax -> f p astar <= left < f p (astar + 1) ->
  forall (k : nat) fuel a, astar + 1 - a = Z.of_nat k -> 0 <= a ->
    (a = 0 \/ f p (a - 1) < left) -> a <= max_a -> (k < fuel)%nat ->
    scan ws wu fuel p left max_a a = Some (astar, left - f p astar).
Proof.
intros Hp Has HA Hgr.
assert (Hleft : wu (left - f p astar) = left - f p astar).
{ apply wu_id. destruct (range_ok p (astar + 1) Hp ltac:(lia)) as [_ [_ [_ [H4 _]]]].
  apply (R_down _ (f p (astar + 1))); [exact H4|]. pose proof (f_nonneg p astar). lia. }
induction k as [|k IH]; intros fuel a Hk Ha Hprev Hmax Hfuel.
- assert (a = astar + 1) by lia. subst a.
  destruct fuel as [|fu]; [lia|]. cbn [scan]. rewrite (eval_i p (astar + 1)) by lia.
  destruct (Z.leb_spec (astar + 1) max_a) as [Hle|Hgt]; [|lia].
  destruct (Z.geb_spec (f p (astar + 1)) left) as [_|]; [|lia]. cbn [orb].
  destruct (Z.gtb_spec (f p (astar + 1)) left) as [_|]; [|lia].
  replace (astar + 1 - 1) with astar by lia.
  rewrite (wu_id astar) by (apply (R_a p); lia).
  rewrite (eval_i p astar) by lia. rewrite Hleft. reflexivity.
- destruct fuel as [|fu]; [lia|]. cbn [scan].
  assert (Hale : a <= astar) by lia.
  rewrite (eval_i p a) by lia.
  destruct (Z.leb_spec a max_a) as [_|]; [|lia].
  pose proof (f_mono p a astar ltac:(lia) ltac:(lia)) as Hm.
  destruct (Z.geb_spec (f p a) left) as [Hge|Hlt].
  + cbn [orb].
    assert (Hx : a = astar).
    { destruct (Z.eq_dec a astar); [assumption|].
      pose proof (f_strict p a ltac:(lia) ltac:(lia)).
      pose proof (f_mono p (a + 1) astar ltac:(lia) ltac:(lia)). lia. }
    rewrite Hx. destruct (Z.gtb_spec (f p astar) left); [lia|].
    rewrite (eval_i p astar) by lia. rewrite Hleft. reflexivity.
  + destruct (Z.eqb_spec a max_a) as [Heq|Hneq].
    * cbn [orb]. destruct (Z.gtb_spec (f p a) left); [lia|].
      assert (Hx : a = astar) by lia. rewrite Hx.
      rewrite (eval_i p astar) by lia. rewrite Hleft. reflexivity.
    * cbn [orb].
      destruct (range_ok p a Hp ltac:(lia)) as [_ [_ [_ [_ H5]]]]. rewrite (wu_id _ H5).
      apply IH; try lia.
      right. replace (a + 1 - 1) with a by lia. lia.
Qed.

Lemma unindex_of_index_generic fuel : forall d a max_a acc,
  okd a d -> 0 <= a <= max_a -> a <= Amax -> Z.of_nat (length d) <= P -> a + 1 < Z.of_nat fuel ->
  unindex_loop ws wu (length d) fuel (idx_desc d) max_a acc = Some (rev d ++ acc).
Proof.
induction d as [|b r IH]; intros a max_a acc Hok Ha HA HP Hfuel.
- reflexivity.
- destruct Hok as [Hb Hr]. cbn [length unindex_loop].
  pose proof (idx_desc_greedy b r Hr ltac:(lia)) as G. cbv zeta in G.
  cbn [length] in HP.
  rewrite (scan_generic (Z.of_nat (S (length r))) (idx_desc (b :: r)) max_a b ltac:(lia) ltac:(lia) ltac:(lia) G
             (Z.to_nat (b + 1)) fuel 0) by lia.
  rewrite idx_desc_cons. replace (f (Z.of_nat (S (length r))) b + idx_desc r - f (Z.of_nat (S (length r))) b)
    with (idx_desc r) by lia.
  rewrite (IH b b (b :: acc) Hr ltac:(lia) ltac:(lia) ltac:(lia) ltac:(lia)).
  cbn [rev]. rewrite <- app_assoc. reflexivity.
Qed.

(* ---- get_index *)
Lemma skipn_nth_cons (d : list Z) : forall j, (j < length d)%nat -> skipn j d = nth j d 0 :: skipn (S j) d.
Proof.
induction d as [|x d IH]; intros j Hj; [simpl in Hj; lia|].
destruct j as [|j]; [reflexivity|]. cbn [skipn nth]. apply IH. simpl in Hj. lia.
Qed.

Lemma okd_nth_range d : forall a j, okd a d -> (j < length d)%nat -> 0 <= nth j d 0 <= a.
Proof.
induction d as [|b r IH]; intros a j Hok Hj; [simpl in Hj; lia|].
destruct Hok as [Hb Hr]. destruct j as [|j]; [simpl; lia|].
simpl. specialize (IH b j Hr ltac:(simpl in Hj; lia)). lia.
Qed.

Lemma okd_skipn d : forall a j, okd a d -> okd a (skipn j d).
Proof.
induction d as [|b r IH]; intros a j Hok; [destruct j; exact I|].
destruct j as [|j]; [exact Hok|]. destruct Hok as [Hb Hr]. simpl.
apply (okd_weaken b); [apply IH; exact Hr|lia].
Qed.

Lemma idx_desc_skipn_le d : forall a j, okd a d -> idx_desc (skipn j d) <= idx_desc d.
Proof.
induction d as [|b r IH]; intros a j Hok; [destruct j; simpl; lia|].
destruct j as [|j]; [simpl skipn; lia|]. destruct Hok as [Hb Hr]. cbn [skipn].
specialize (IH b j Hr). rewrite idx_desc_cons. pose proof (f_nonneg (Z.of_nat (S (length r))) b). lia.
Qed.

Lemma index_loop_generic gt (d : list Z) :
  okd Amax d -> Z.of_nat (length d) <= P ->
  (forall j : nat, (j < length d)%nat -> get_position gt (Z.of_nat j) = nth j d 0) ->
  forall (cnt i : nat), (i + cnt = length d)%nat ->
  index_loop ws wu cnt gt (Z.of_nat (length d)) (Z.of_nat i)
             (idx_desc (skipn (length d - i) d)) (Z.of_nat i + 1) = idx_desc d.
Proof.
intros Hok HP Hpos.
induction cnt as [|cnt IH]; intros i Hlen.
- simpl. replace (length d - i)%nat with 0%nat by lia. reflexivity.
- cbn [index_loop].
  set (p := Z.of_nat (length d)).
  set (j := (length d - i - 1)%nat).
  assert (Hj : (j < length d)%nat) by lia.
  pose proof (okd_nth_range d Amax j Hok Hj) as Hrange.
  set (al := nth j d 0) in *.
  set (k := Z.of_nat i + 1).
  assert (Hk : 1 <= k <= P) by lia.
  destruct (range_ok k al Hk ltac:(lia)) as [H1 [H2 [H3 [H4 H5]]]].
  (* wu (ploidy - i - 1) *)
  assert (E1 : wu (p - Z.of_nat i - 1) = Z.of_nat j).
  { replace (p - Z.of_nat i - 1) with (Z.of_nat j) by lia.
    apply wu_id. destruct (range_ok (Z.of_nat j + 1) 0 ltac:(lia) ltac:(lia)) as [_ [Hr _]].
    replace (Z.of_nat j + 1 + 0 - 1) with (Z.of_nat j) in Hr by lia. exact Hr. }
  rewrite E1, Hpos by exact Hj. fold al.
  assert (E2 : binom ws (ws (wu (k + al - 1))) (ws (wu (al - 1))) = f k al).
  { rewrite (wu_id _ H2), (ws_id _ H2).
    assert (E3 : ws (wu (al - 1)) = al - 1).
    { destruct (Z.eq_dec al 0) as [->|Hne]; [exact wsu_m1|].
      assert (Ra : R (al - 1)) by (apply (R_down _ (al + 1)); [exact H5|lia]).
      rewrite (wu_id _ Ra), (ws_id _ Ra). reflexivity. }
    rewrite E3, (binom_ok _ _ H3). apply term_get_index; lia. }
  rewrite E2.
  assert (Hsk : skipn j d = al :: skipn (length d - i) d).
  { rewrite (skipn_nth_cons d j Hj). fold al. f_equal. f_equal. lia. }
  assert (Hlen_sk : length (skipn (length d - i) d) = i) by (rewrite skipn_length; lia).
  assert (Hidx : idx_desc (skipn j d) = f k al + idx_desc (skipn (length d - i) d)).
  { rewrite Hsk, idx_desc_cons, Hlen_sk. f_equal. f_equal. lia. }
  assert (Rtop : R (f p (Amax + 1))) by (apply (range_ok p (Amax + 1)); lia).
  assert (Hbound : idx_desc d < f p (Amax + 1)) by (apply (idx_desc_bound d Amax); [lia|exact Hok]).
  assert (E4 : wu (idx_desc (skipn (length d - i) d) + f k al) = idx_desc (skipn j d)).
  { rewrite Hidx, Z.add_comm. rewrite <- Hidx. apply wu_id.
    apply (R_down _ (f p (Amax + 1))); [exact Rtop|].
    pose proof (idx_desc_skipn_le d Amax j Hok). pose proof (idx_desc_nonneg (skipn j d)). lia. }
  rewrite E4.
  rewrite (wu_id k) by exact H1.
  rewrite (wu_id (k + 1)) by (apply (R_down _ (P + 1)); [exact R_P1|lia]).
  specialize (IH (S i) ltac:(lia)).
  replace (length d - S i)%nat with j in IH by lia.
  replace (Z.of_nat (S i)) with k in IH by lia. exact IH.
Qed.

Lemma get_index_generic gt (d : list Z) :
  okd Amax d -> Z.of_nat (length d) <= P ->
  (forall j : nat, (j < length d)%nat -> get_position gt (Z.of_nat j) = nth j d 0) ->
  index_loop ws wu (length d) gt (Z.of_nat (length d)) 0 0 1 = idx_desc d.
Proof.
intros Hok HP Hpos.
pose proof (index_loop_generic gt d Hok HP Hpos (length d) 0 eq_refl) as H.
rewrite Nat.sub_0_r, skipn_all in H. exact H.
Qed.

Lemma convert_generic (d : list Z) (fuel : nat) :
  okd Amax d -> Z.of_nat (length d) <= P -> Amax + 1 < Z.of_nat fuel ->
  convert_index_to_alleles ws wu fuel (idx_desc d) (Z.of_nat (length d)) = Some (rev d).
Proof.
intros Hok HP Hfuel. unfold convert_index_to_alleles. rewrite Nat2Z.id.
destruct d as [|b r]; [reflexivity|].
pose proof Hok as [Hb Hr].
pose proof (idx_desc_greedy b r Hr ltac:(lia)) as G. cbv zeta in G.
pose proof (f_ge (Z.of_nat (S (length r))) b ltac:(lia) ltac:(lia)) as Hge.
cbn [length] in HP.
assert (Rtop : R (f (Z.of_nat (S (length r))) (Amax + 1))) by (apply (range_ok (Z.of_nat (S (length r))) (Amax + 1)); lia).
pose proof (idx_desc_bound (b :: r) Amax ltac:(lia) Hok) as Hbd. cbn [length] in Hbd.
rewrite (wu_id (idx_desc (b :: r)))
  by (apply (R_down _ (f (Z.of_nat (S (length r))) (Amax + 1))); [exact Rtop|lia]).
rewrite (unindex_of_index_generic fuel (b :: r) b (idx_desc (b :: r)) []).
- rewrite app_nil_r. reflexivity.
- split; [lia|exact Hr].
- lia.
- lia.
- cbn [length]. lia.
- lia.
Qed.

End Generic.

(* ================================================================== instance: unbounded arithmetic *)
Section IdealInstance.
Variables P Amax : Z.

Let RT (_ : Z) : Prop := True.

Lemma get_index_ideal gt (d : list Z) :
  okd Amax d -> Z.of_nat (length d) <= P ->
  (forall j : nat, (j < length d)%nat -> get_position gt (Z.of_nat j) = nth j d 0) ->
  index_loop ideal ideal (length d) gt (Z.of_nat (length d)) 0 0 1 = idx_desc d.
Proof.
apply (get_index_generic ideal ideal RT RT P Amax); unfold RT; auto.
intros n k _. apply binom_ideal_correct.
Qed.
End IdealInstance.

(* ================================================================== instance: the compiled code *)
Definition R32 (x : Z) : Prop := 0 <= x < 2 ^ 31.
Definition Rn32 (n : Z) : Prop := 0 <= n <= 29.

Lemma wrap_s32_id x : R32 x -> wrap_s32 x = x.
Proof. unfold R32, wrap_s32. intro H. rewrite Z.mod_small by lia. lia. Qed.
Lemma wrap_u32_id x : R32 x -> wrap_u32 x = x.
Proof. unfold R32, wrap_u32. intro H. apply Z.mod_small. lia. Qed.

Definition f_sweep : bool :=
  forallb (fun p => forallb (fun a => choose_fast (p + a - 1) p <? 2 ^ 31) (range 0 17)) (range 1 14).
Lemma f_sweep_ok : f_sweep = true.
Proof. vm_compute. reflexivity. Qed.

Lemma range32 p a : 1 <= p <= 14 -> 0 <= a <= 15 + 1 ->
  R32 p /\ R32 (p + a - 1) /\ Rn32 (p + a - 1) /\ R32 (f p a) /\ R32 (a + 1).
Proof.
intros Hp Ha. unfold R32, Rn32.
pose proof f_sweep_ok as S. unfold f_sweep in S. rewrite forallb_forall in S.
specialize (S p (range_in 1 14 p ltac:(lia))). rewrite forallb_forall in S.
specialize (S a (range_in 0 17 a ltac:(lia))). apply Z.ltb_lt in S.
rewrite choose_fast_correct in S. fold (f p a) in S.
pose proof (f_nonneg p a). repeat split; lia.
Qed.

Lemma binom32_ok n k : Rn32 n -> binom wrap_s32 n k = chooseZ n k.
Proof. intro H. apply binom32_no_overflow. exact H. Qed.

Lemma R32_down x y : R32 y -> 0 <= x <= y -> R32 x.
Proof. unfold R32. lia. Qed.

Lemma get_index32_loop gt (d : list Z) :
  okd 15 d -> Z.of_nat (length d) <= 14 ->
  (forall j : nat, (j < length d)%nat -> get_position gt (Z.of_nat j) = nth j d 0) ->
  index_loop wrap_s32 wrap_u32 (length d) gt (Z.of_nat (length d)) 0 0 1 = idx_desc d.
Proof.
apply (get_index_generic wrap_s32 wrap_u32 R32 Rn32 14 15 wrap_s32_id wrap_u32_id eq_refl
         binom32_ok R32_down ltac:(unfold R32; lia) range32).
Qed.

Lemma convert32 (d : list Z) (fuel : nat) :
  okd 15 d -> Z.of_nat (length d) <= 14 -> 16 < Z.of_nat fuel ->
  convert_index_to_alleles wrap_s32 wrap_u32 fuel (idx_desc d) (Z.of_nat (length d)) = Some (rev d).
Proof.
apply (convert_generic wrap_s32 wrap_u32 R32 Rn32 14 15 wrap_s32_id wrap_u32_id
         binom32_ok R32_down range32).
Qed.
